// Unit `rawimage` (C05/C12-adjacent, C01): ImageXObject::raw_image_data / image_data (object/types.rs:617-683):
// every filter of the chain is decoded except a trailing image codec, which is handed back with the partially decoded data.
use vstd::prelude::*;
use std::sync::Arc;
use core::ops::Range;
//@@ INCLUDE _common/error_macros.rs
verus! {
global size_of usize == 8;

//@@ PDFERROR
//@@ DEVIATIONS
pub type ObjNr = u64;
pub type GenNr = u64;

// ---- env: opaque types ----
#[verifier::external_body] pub struct SmallString { p: core::marker::PhantomData<()> }
#[verifier::external_body] pub struct PdfString { p: core::marker::PhantomData<()> }
#[verifier::external_body] pub struct PdfStream { p: core::marker::PhantomData<()> }
#[verifier::external_body] pub struct Dictionary { p: core::marker::PhantomData<()> }
#[verifier::external_body] pub struct ColorSpace { p: core::marker::PhantomData<()> }
#[verifier::external_body] pub struct RenderingIntent { p: core::marker::PhantomData<()> }
#[verifier::external_body] pub struct FileSpec { p: core::marker::PhantomData<()> }
#[verifier::external_body] pub struct LZWFlateParams { p: core::marker::PhantomData<()> }
#[verifier::external_body] pub struct DCTDecodeParams { p: core::marker::PhantomData<()> }
#[verifier::external_body] pub struct JBIG2DecodeParams { p: core::marker::PhantomData<()> }
#[verifier::external_body] #[verifier::accept_recursive_types(T)] pub struct Ref<T> { p: core::marker::PhantomData<T> }
//@@ struct PlainRef
//@@ enum Primitive
//@@ struct Name
//@@ struct CCITTFaxDecodeParams
//@@ enum StreamFilter
//@@ struct StreamInfo
//@@ enum StreamData
//@@ struct Stream
//@@ struct ImageDict
//@@ struct ImageXObject

// ---- the decoders, abstract (their contracts: units hexcodec, enc_leaf, rld, flate, unfilter, codecs2) ----
pub uninterp spec fn stage(f: StreamFilter, data: Seq<u8>) -> Option<Seq<u8>>;      // enc::decode(data, f): one general-purpose stage
pub uninterp spec fn fax_decoded(data: Seq<u8>, p: CCITTFaxDecodeParams) -> Option<Seq<u8>>;
pub uninterp spec fn dct_decoded(data: Seq<u8>, p: DCTDecodeParams) -> Option<Seq<u8>>;
pub uninterp spec fn jpx_decoded(data: Seq<u8>) -> Option<Seq<u8>>;
pub uninterp spec fn jbig2_decoded(data: Seq<u8>, p: JBIG2DecodeParams) -> Option<Seq<u8>>;   // globals read through the resolver
pub uninterp spec fn flate_decoded(data: Seq<u8>, p: LZWFlateParams) -> Option<Seq<u8>>;
pub uninterp spec fn inverted(data: Seq<u8>) -> Seq<u8>;                             // every byte complemented
pub uninterp spec fn decode_array_is_1_0(d: Vec<f32>) -> bool;                       // /Decode [1 0]
/// ISO 32000-1 7.4.1: the filters are applied in the order of the /Filter array
pub open spec fn chain(fs: Seq<StreamFilter>, data: Seq<u8>) -> Option<Seq<u8>> decreases fs.len() {
    if fs.len() == 0 { Some(data) } else { match stage(fs[0], data) { None => None, Some(x) => chain(fs.drop_first(), x) } }
}

pub trait Resolve {
    // the stored bytes of a stream (file bytes at `range`, decrypted under the stream's id): Resolve::stream_data
    spec fn stored(&self, id: PlainRef, range: Range<usize>) -> Option<Seq<u8>>;
    /// units/filterchain Storage::decode/chain_in_array_order (the stream cache in front of it is NOT modelled, see NOTES.md)
    fn get_data_or_decode(&self, id: PlainRef, range: Range<usize>, filters: &[StreamFilter]) -> (r: Result<Arc<[u8]>>)
        ensures match self.stored(id, range) { Some(s) => match chain(filters@, s) { Some(out) => r matches Ok(o) && (*o)@ == out, None => r is Err }, None => r is Err };
    fn stream_data(&self, id: PlainRef, range: Range<usize>) -> (r: Result<Arc<[u8]>>)
        ensures match self.stored(id, range) { Some(s) => r matches Ok(o) && (*o)@ == s, None => r is Err };
}
impl<I> Stream<I> {
    pub open spec fn all_decoded<R: Resolve>(&self, resolve: &R) -> Option<Seq<u8>> {
        match self.inner_data {
            StreamData::Generated(d) => chain(self.info.filters@, (*d)@),
            StreamData::Original(range, id) => match resolve.stored(id, range) { Some(s) => chain(self.info.filters@, s), None => None },
        }
    }
    /// units/filterchain Stream::data/in_file_data_all_filters_own_range, generated_data_chain_in_order
    #[verifier::external_body]
    pub fn data<R: Resolve>(&self, resolve: &R) -> (r: Result<Arc<[u8]>>)
        ensures match self.all_decoded(resolve) { Some(out) => r matches Ok(o) && (*o)@ == out, None => r is Err }
    { unimplemented!() }
}

// ---- L0 helpers (R7) ----
#[verifier::external_body]
fn hoist_range_clone(r: &Range<usize>) -> (c: Range<usize>) ensures c == *r { r.clone() }
// filters.iter().rposition(pred): the LAST index whose element satisfies pred
#[verifier::external_body]
fn rposition_filters<F: Fn(&StreamFilter) -> bool>(filters: &[StreamFilter], pred: F) -> (r: Option<usize>)
    requires forall|f: &StreamFilter| pred.requires((f,))
    ensures
        r matches Some(i) ==> i < filters@.len() && pred.ensures((&filters@[i as int],), true) && forall|j: int| i < j < filters@.len() ==> pred.ensures((&#[trigger] filters@[j],), false),
        r is None ==> forall|j: int| 0 <= j < filters@.len() ==> pred.ensures((&#[trigger] filters@[j],), false)
{ filters.iter().rposition(pred) }
#[verifier::external_body]
fn slice_last(filters: &[StreamFilter]) -> (r: Option<&StreamFilter>)
    ensures filters@.len() == 0 ==> r is None, filters@.len() > 0 ==> (r matches Some(f) && *f == filters@[filters@.len() - 1])
{ filters.last() }
// slice::split_at: panics unless mid <= len
#[verifier::external_body]
fn split_filters(filters: &[StreamFilter], mid: usize) -> (r: (&[StreamFilter], &[StreamFilter]))
    requires mid <= filters@.len()
    ensures r.0@ == filters@.take(mid as int), r.1@ == filters@.skip(mid as int)
{ filters.split_at(mid) }
#[verifier::external_body]
fn fax_decode(data: &[u8], params: &CCITTFaxDecodeParams) -> (r: Result<Vec<u8>>)
    ensures match fax_decoded(data@, *params) { Some(o) => r matches Ok(v) && v@ == o, None => r is Err } { unimplemented!() }
#[verifier::external_body]
fn dct_decode(data: &[u8], params: &DCTDecodeParams) -> (r: Result<Vec<u8>>)
    ensures match dct_decoded(data@, *params) { Some(o) => r matches Ok(v) && v@ == o, None => r is Err } { unimplemented!() }
#[verifier::external_body]
fn jpx_decode(data: &[u8]) -> (r: Result<Vec<u8>>)
    ensures match jpx_decoded(data@) { Some(o) => r matches Ok(v) && v@ == o, None => r is Err } { unimplemented!() }
#[verifier::external_body]
fn flate_decode(data: &[u8], params: &LZWFlateParams) -> (r: Result<Vec<u8>>)
    ensures match flate_decoded(data@, *params) { Some(o) => r matches Ok(v) && v@ == o, None => r is Err } { unimplemented!() }
// let global_data = p.globals.as_ref().map(|s| s.data(resolve)).transpose()?; jbig2_decode(&data, global_data.as_deref().unwrap_or_default())
#[verifier::external_body]
fn jbig2_with_globals<R: Resolve>(data: &[u8], p: &JBIG2DecodeParams, resolve: &R) -> (r: Result<Vec<u8>>)
    ensures match jbig2_decoded(data@, *p) { Some(o) => r matches Ok(v) && v@ == o, None => r is Err } { unimplemented!() }
// enc::decode: one stage (units/filterchain decode/dispatch_table)
#[verifier::external_body]
fn decode(data: &[u8], filter: &StreamFilter) -> (r: Result<Vec<u8>>)
    ensures match stage(*filter, data@) { Some(o) => r matches Ok(v) && v@ == o, None => r is Err } { unimplemented!() }
// decode == &[1.0, 0.0]
#[verifier::external_body]
fn is_decode_1_0(d: &Vec<f32>) -> (r: bool) ensures r == decode_array_is_1_0(*d) { d == &[1.0, 0.0] }
// data.iter_mut().for_each(|b| *b = !*b)
#[verifier::external_body]
fn invert_all(data: &mut Vec<u8>) ensures final(data)@ == inverted(old(data)@) { data.iter_mut().for_each(|b| *b = !*b) }
#[verifier::external_body]
fn hoist_into_arc(v: Vec<u8>) -> (r: Arc<[u8]>) ensures (*r)@ == v@ { v.into() }
#[verifier::external_body]
fn arc_as_slice(a: &Arc<[u8]>) -> (r: &[u8]) ensures r@ == (**a)@ { &a }
#[verifier::external_body]
fn vec_truncate(v: &mut Vec<u8>, n: usize) ensures final(v)@ == (if n < old(v)@.len() { old(v)@.take(n as int) } else { old(v)@ }) { v.truncate(n) }

//@@ INCLUDE rawimage/spec.rs

// one stage of the chain (hypotheses in the ensures: no precondition)
pub proof fn lemma_chain_step(fs: Seq<StreamFilter>, k: int, plain: Seq<u8>, cur: Seq<u8>)
    ensures (0 <= k < fs.len() && chain(fs, plain) == chain(fs.skip(k), cur)) ==>
        chain(fs, plain) == (match stage(fs[k], cur) { None => None, Some(x) => chain(fs.skip(k + 1), x) })
{
    if 0 <= k < fs.len() { assert(fs.skip(k).drop_first() =~= fs.skip(k + 1)); assert(fs.skip(k)[0] == fs[k]); }
}
pub proof fn lemma_chain_take_all(fs: Seq<StreamFilter>) ensures fs.take(fs.len() as int) =~= fs { }


impl ImageXObject {
//@@ ImageXObject::raw_image_data
//@@ ImageXObject::image_data
}
}
fn main(){}
