// ---------------------------------------------------------------------------------------------------------
// Spec. ISO 32000-1 7.4.1 Table 6: ASCIIHexDecode, ASCII85Decode, LZWDecode, FlateDecode, RunLengthDecode are general-purpose
// byte filters; CCITTFaxDecode, JBIG2Decode, DCTDecode, JPXDecode are image codecs ("the final image encoding" of the doc
// comment of raw_image_data: "Decode everything except for the final image encoding (jpeg, jbig2, jp2k, ...)").
// ---------------------------------------------------------------------------------------------------------
pub open spec fn is_image_codec(f: StreamFilter) -> bool {
    f is DCTDecode || f is JPXDecode || f is CCITTFaxDecode || f is JBIG2Decode
}
/// what raw_image_data leaves to its caller: an image codec; and (tolerance) a FlateDecode in last position, which the API
/// hands back like a codec so that a PNG-predicted stream can be passed on as it is (ImageFormat::Png) -- image_data inflates it.
pub open spec fn left_to_caller(f: StreamFilter) -> bool {
    is_image_codec(f) || (TOL_TRAILING_FLATE_LEFT_TO_CALLER() && f is FlateDecode)
}
pub open spec fn has_trailing_codec(fs: Seq<StreamFilter>) -> bool { fs.len() > 0 && left_to_caller(fs[fs.len() - 1]) }
pub open spec fn n_plain(fs: Seq<StreamFilter>) -> int { if has_trailing_codec(fs) { fs.len() - 1 } else { fs.len() as int } }

/// the bytes after every filter but a trailing codec
pub open spec fn partly_decoded<R: Resolve>(img: ImageXObject, resolve: &R) -> Option<Seq<u8>> {
    match img.inner.inner_data {
        StreamData::Generated(d) =>
            if DEV_IN_MEMORY_DATA_DECODES_ALL_FILTERS() { chain(img.inner.info.filters@, (*d)@) }
            else { chain(img.inner.info.filters@.take(n_plain(img.inner.info.filters@)), (*d)@) },
        StreamData::Original(range, id) => match resolve.stored(id, range) {
            Some(s) => chain(img.inner.info.filters@.take(n_plain(img.inner.info.filters@)), s),
            None => None },
    }
}
pub open spec fn codec_left<R: Resolve>(img: ImageXObject) -> Option<StreamFilter> {
    let fs = img.inner.info.filters@;
    if has_trailing_codec(fs) && !(DEV_IN_MEMORY_DATA_DECODES_ALL_FILTERS() && img.inner.inner_data is Generated) { Some(fs[fs.len() - 1]) } else { None }
}
pub open spec fn raw_post<R: Resolve>(img: ImageXObject, resolve: &R, r: Result<(Arc<[u8]>, Option<&StreamFilter>)>) -> bool {
    match partly_decoded(img, resolve) {
        None => r is Err,
        Some(out) => r matches Ok(pair) && (*pair.0)@ == out && match codec_left::<R>(img) {
            Some(f) => pair.1 matches Some(g) && *g == f,
            None => pair.1 is None },
    }
}
/// the codec stage of image_data
pub open spec fn codec_decoded(img: ImageXObject, f: StreamFilter, data: Seq<u8>) -> Option<Seq<u8>> {
    match f {
        // CCITTFax: /Columns must be the image width; /Rows 0 = unknown: the output is cut to height * width bytes
        StreamFilter::CCITTFaxDecode(p) =>
            if img.inner.info.info.width != p.columns { None }
            else { match fax_decoded(data, p) { None => None, Some(o) =>
                if p.rows == 0 && (img.inner.info.info.height as int) * (img.inner.info.info.width as int) < o.len() {
                    Some(o.take((img.inner.info.info.height as int) * (img.inner.info.info.width as int))) } else { Some(o) } } },
        StreamFilter::DCTDecode(p) => dct_decoded(data, p),
        StreamFilter::JPXDecode => jpx_decoded(data),
        StreamFilter::JBIG2Decode(p) => jbig2_decoded(data, p),
        StreamFilter::FlateDecode(p) => flate_decoded(data, p),
        _ => None,
    }
}
/// 8.9.5.2: a 1-bit image with /Decode [1 0] has its samples complemented
pub open spec fn inverting(img: ImageXObject) -> bool {
    img.inner.info.info.decode matches Some(d) && decode_array_is_1_0(d) && img.inner.info.info.bits_per_component == Some(1i32)
}
pub open spec fn image_post<R: Resolve>(img: ImageXObject, resolve: &R, r: Result<Arc<[u8]>>) -> bool {
    match partly_decoded(img, resolve) {
        None => r is Err,
        Some(part) => match codec_left::<R>(img) {
            None => r matches Ok(o) && (*o)@ == part,
            Some(f) => match codec_decoded(img, f, part) {
                None => r is Err,
                Some(px) => r matches Ok(o) && (*o)@ == (if inverting(img) { inverted(px) } else { px }),
            }
        }
    }
}
