#!/usr/bin/env python3
"""Regenerates mutants/*.diff and benign/*.diff.  Each = /repo + findings/*_fix.diff (those that still apply) + ONE edit,
written as a diff against /repo.  Run: python3 units/<unit>/gen_mutants.py"""
import os, subprocess, tempfile, shutil, glob
HERE = os.path.dirname(os.path.abspath(__file__))
C = 'pdf/src/object/types.rs'

RAW = 'ImageXObject::raw_image_data/decodes_all_but_trailing_codec'
IMG = 'ImageXObject::image_data/pixels_are_chain_then_codec'
MUTANTS = {
 'trailing_dct_decoded': (RAW, C, '                    Some(StreamFilter::DCTDecode(_)) |\n', ''),
 'all_filters_to_the_decoder': (RAW, C, 'resolve.get_data_or_decode(id, file_range.clone(), normal_filters)?', 'resolve.get_data_or_decode(id, file_range.clone(), filters)?'),
 'nothing_decoded': (RAW, C, '                    Some(StreamFilter::JBIG2Decode(_)) => filters.len() - 1,', '                    Some(StreamFilter::JBIG2Decode(_)) => 0,'),
 'last_plain_filter_split_off': (RAW, C, '                    _ => filters.len()\n                };', '                    _ => filters.len().saturating_sub(1)\n                };'),
 'codec_not_handed_back': (RAW, C, '=> Ok((data, Some(&image_filters[0]))),', '=> Ok((data, None)),'),
 'dct_through_jpx': (IMG, C, 'StreamFilter::DCTDecode(ref p) => dct_decode(&data, p)?,', 'StreamFilter::DCTDecode(ref p) => { let _ = p; jpx_decode(&data)? },'),
 'fax_width_check_dropped': (IMG, C, 'if self.inner.info.width != params.columns {', 'if false && self.inner.info.width != params.columns {'),
 'always_inverted': (IMG, C, 'if decode == &[1.0, 0.0] && self.bits_per_component == Some(1) {', 'if decode == &[1.0, 0.0] {'),
}
BENIGN = {
 'codec_alternatives_reordered': (C, '                    Some(StreamFilter::CCITTFaxDecode(_)) |\n                    Some(StreamFilter::JPXDecode) |\n', '                    Some(StreamFilter::JPXDecode) |\n                    Some(StreamFilter::CCITTFaxDecode(_)) |\n'),
 'codec_arms_reordered': (C, None, None),
}


def main():
    tmp = tempfile.mkdtemp(prefix='mut_')
    try:
        files = sorted({m[1] for m in MUTANTS.values()} | {b[0] for b in BENIGN.values()})
        for side in 'ab':
            for f in files:
                os.makedirs(os.path.join(tmp, side, os.path.dirname(f)), exist_ok=True)
                shutil.copy(os.path.join('/repo', f), os.path.join(tmp, side, f))
        for fx in sorted(glob.glob(os.path.join(HERE, 'findings', 'filter_after_flate_fix.diff'))):
            subprocess.run(['patch', '-p1', '-s', '-N', '-r', '-', '-i', fx], cwd=os.path.join(tmp, 'b'))
        fixed = {f: open(os.path.join(tmp, 'b', f)).read() for f in files}
        d1 = '            StreamFilter::DCTDecode(ref p) => dct_decode(&data, p)?,\n'
        d2 = '            StreamFilter::JPXDecode => jpx_decode(&data)?,\n'
        BENIGN['codec_arms_reordered'] = (C, d1 + d2, d2 + d1)
        for kind, table in (('mutants', MUTANTS), ('benign', BENIGN)):
            os.makedirs(os.path.join(HERE, kind), exist_ok=True)
            for name, spec in table.items():
                expect, f, old, new = spec if kind == 'mutants' else (None,) + spec
                assert fixed[f].count(old) == 1, (name, fixed[f].count(old))
                open(os.path.join(tmp, 'b', f), 'w').write(fixed[f].replace(old, new))
                d = ''
                for g in files:
                    d += subprocess.run(['diff', '-u', '--label', 'a/' + g, '--label', 'b/' + g, 'a/' + g, 'b/' + g],
                                        cwd=tmp, capture_output=True, text=True).stdout
                open(os.path.join(tmp, 'b', f), 'w').write(fixed[f])
                head = ('# expect: %s\n# (contains the hunks of findings/*_fix.diff, see gen_mutants.py)\n' % expect) if expect else \
                       '# benign edit: must NOT be reported as failed (includes the fix hunks)\n'
                open(os.path.join(HERE, kind, name + '.diff'), 'w').write(head + d)
    finally:
        shutil.rmtree(tmp)


if __name__ == '__main__':
    main()
