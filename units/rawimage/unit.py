"""Unit `rawimage` (C05/C12-adjacent, C01): ImageXObject::raw_image_data / image_data (pdf/src/object/types.rs)."""
T = 'pdf/src/object/types.rs'
P = 'pdf/src/primitive.rs'
O = 'pdf/src/object/mod.rs'
ENC = 'pdf/src/enc.rs'
STM = 'pdf/src/object/stream.rs'
IMPL = r'^impl ImageXObject$'
PROPS = ['C05', 'C01']

# R10: slice patterns `match s { [] => A, [P1] | [P2] .. => B, _ => C }` -> if-chain over len() and matches!(s[0], Pi) (patterns verbatim)
SLICE_MATCH = [
    {'rule': 'R10', 'regex': r'match image_filters \{\s*\[\] =>\s*([^\n]*?),\s*\n', 'replace': r'if image_filters.len() == 0 { \1 } else if image_filters.len() == 1 && («'},
    {'rule': 'R10', 'regex': r'\[(StreamFilter::\w+(?:\(_\))?)\]\s*\|', 'count': '*', 'replace': r'matches!(image_filters[0], \1) ||'},
    {'rule': 'R10', 'regex': r'\[(StreamFilter::\w+(?:\(_\))?)\]\s*=>\s*([^\n]*?),\s*\n\s*_ => (bail!\([^\n]*\))\s*\}', 'replace': r'matches!(image_filters[0], \1)») { \2 } else { \3 }'},
    {'rule': 'R10', 'regex': r'[«»]', 'count': 2, 'replace': ''},
]

UNIT = {
 'name': 'rawimage',
 'doc': 'image streams: every filter but a trailing image codec is decoded, the codec is handed back (raw_image_data) or applied (image_data)',
 'rlimit': 40, 'timeout': 900,
 'tolerances': {
   'TOL_TRAILING_FLATE_LEFT_TO_CALLER': 'a FlateDecode in LAST position is handed back like an image codec (PNG-predicted data can be passed on, ImageFormat::Png); '
                                        'the doc comment ("jpeg, jbig2, jp2k, ...") leaves this open; image_data inflates it, so the pixels are the same',
 },
 'deviations': {
   'DEV_IN_MEMORY_DATA_DECODES_ALL_FILTERS': 'for in-memory data (inline images, built streams: StreamData::Generated) raw_image_data sends ALL filters through '
        'enc::decode instead of splitting off the trailing codec: DCT is decoded there (pixels still right), CCITTFax / JPX / JBIG2 end in '
        'Err("unimplemented ..") -- an inline image with /F /CCF cannot be decoded',
 },
 'items': {
  'struct PlainRef': {'kind': 'decl', 'file': O, 'header': r'^pub struct PlainRef$', 'attrs': ['#[derive(Clone, Copy)]']},
  'enum Primitive': {'kind': 'decl', 'file': P, 'header': r'^pub enum Primitive$'},
  'struct Name': {'kind': 'decl', 'file': P, 'header': r'^pub struct Name\b'},
  'struct CCITTFaxDecodeParams': {'kind': 'decl', 'file': ENC, 'header': r'^pub struct CCITTFaxDecodeParams$'},
  'enum StreamFilter': {'kind': 'decl', 'file': ENC, 'header': r'^pub enum StreamFilter$'},
  'struct StreamInfo': {'kind': 'decl', 'file': STM, 'header': r'^pub struct StreamInfo<I>$'},
  'enum StreamData': {'kind': 'decl', 'file': STM, 'header': r'^pub \(crate\) enum StreamData$',
     'rewrites': [{'rule': 'R2', 'find': 'pub (crate) enum', 'replace': 'pub enum'}]},
  'struct Stream': {'kind': 'decl', 'file': STM, 'header': r'^pub struct Stream<I>$',
     'rewrites': [{'rule': 'R2', 'find': 'pub (crate) inner_data', 'replace': 'pub inner_data'}]},
  'struct ImageDict': {'kind': 'decl', 'file': T, 'header': r'^pub struct ImageDict$'},
  'struct ImageXObject': {'kind': 'decl', 'file': T, 'header': r'^pub struct ImageXObject$'},

  'ImageXObject::raw_image_data': {'kind': 'fn', 'file': T, 'container': IMPL, 'name': 'raw_image_data', 'props': PROPS,
     'attrs': ['#[verifier::loop_isolation(false)]'],   # only matters for the loop of the stream_cache_prefix_fix shape
     'ensures': [
        ('decodes_all_but_trailing_codec', 'raw_post(*self, resolve, r)'),
        # what image_data relies on (its `_ => unreachable!()`)
        ('handed_back_filter_is_codec', 'r matches Ok(pair) ==> (pair.1 matches Some(f) ==> (f is DCTDecode || f is JPXDecode || f is CCITTFaxDecode || f is JBIG2Decode || f is FlateDecode))'),
     ],
     'rewrites': [
        {'where': 'sig', 'rule': 'R2', 'find': 'resolve: &impl Resolve', 'replace': 'resolve: &R__'},
        {'where': 'sig', 'rule': 'R2', 'find': 'fn raw_image_data(', 'replace': 'fn raw_image_data<R__: Resolve>('},
        # R2: Deref of Stream<I> to StreamInfo<I> made explicit
        {'rule': 'R2', 'find': 'self.inner.filters.as_slice()', 'replace': 'self.inner.info.filters.as_slice()'},
        # R7 (pinned shape): iter().rposition(closure).unwrap_or(len): the closure body stays under proof, its meaning is stated by an injected `ensures` (R1)
        {'rule': 'R7', 'regex': r'filters\.iter\(\)\.rposition\(\|f\| (match f \{.*?\})\)\.unwrap_or\(filters\.len\(\)\)', 'count': '*',
         'replace': r'(match rposition_filters(filters, |f: &StreamFilter| -> (b: bool) ensures b == !(*f is ASCIIHexDecode || *f is ASCII85Decode || *f is LZWDecode || *f is RunLengthDecode) { \1 }) { Some(i) => i, None => filters.len() })'},
        # R7 (shape of findings/filter_after_flate_fix.diff)
        {'rule': 'R7', 'regex': r'match filters\.last\(\) \{', 'count': '*', 'replace': 'match slice_last(filters) {'},
        {'rule': 'R7', 'find': 'filters.split_at(end)', 'replace': 'split_filters(filters, end)'},
        {'rule': 'R7', 'regex': r'file_range\.clone\(\)', 'count': '*', 'replace': 'hoist_range_clone(file_range)'},
        # shape of findings/stream_cache_prefix_fix.diff (a proposal outside this unit's properties; read so that the unit keeps assembling)
        {'rule': 'R7', 'regex': r'data = crate::enc::decode\(&data, filter\)\?\.into\(\);', 'count': '*',
         'replace': 'proof { lemma_chain_step(normal_filters@, it.index@ as int, plain, (*data)@); } data = hoist_into_arc(decode(arc_as_slice(&data), filter)?);'},
        {'rule': 'R1', 'regex': r'(let mut data = resolve\.stream_data\([^;]*\)\?;)', 'count': '*', 'replace': r'\1 let ghost plain = (*data)@; proof { assert(normal_filters@.skip(0) =~= normal_filters@); }'},
        {'rule': 'R1', 'regex': r'for filter in normal_filters \{', 'count': '*',
         'replace': 'for filter in it: normal_filters invariant chain(normal_filters@, plain) == chain(normal_filters@.skip(it.index@ as int), (*data)@) {'},
        {'rule': 'R1', 'find': 'let (normal_filters, image_filters) =', 'replace': 'proof { lemma_chain_take_all(filters@); } let (normal_filters, image_filters) ='},
     ] + SLICE_MATCH},

  'ImageXObject::image_data': {'kind': 'fn', 'file': T, 'container': IMPL, 'name': 'image_data', 'props': PROPS,
     'ensures': [('pixels_are_chain_then_codec', 'image_post(*self, resolve, r)')],
     'rewrites': [
        {'where': 'sig', 'rule': 'R2', 'find': 'resolve: &impl Resolve', 'replace': 'resolve: &R__'},
        {'where': 'sig', 'rule': 'R2', 'find': 'fn image_data(', 'replace': 'fn image_data<R__: Resolve>('},
        # R2: Deref chains ImageXObject -> ImageDict, StreamInfo<I> -> I made explicit
        {'rule': 'R2', 'regex': r'self\.inner\.info\.(width|height)\b', 'count': '*', 'replace': r'self.inner.info.info.\1'},
        {'rule': 'R2', 'find': 'self.decode', 'replace': 'self.inner.info.info.decode'},
        {'rule': 'R2', 'regex': r'self\.bits_per_component', 'count': '*', 'replace': 'self.inner.info.info.bits_per_component'},
        # R7: the two statements of the JBIG2 arm (globals stream read through the resolver)
        {'rule': 'R7', 'regex': r'let global_data = p\.globals\.as_ref\(\)\.map\(\|s\| s\.data\(resolve\)\)\.transpose\(\)\?;\s*jbig2_decode\(&data, global_data\.as_deref\(\)\.unwrap_or_default\(\)\)\?',
         'replace': 'jbig2_with_globals(arc_as_slice(&data), p, resolve)?'},
        # R7: &Arc<[u8]> -> &[u8]
        {'rule': 'R7', 'regex': r'_decode\(&data, ', 'count': '*', 'replace': '_decode(arc_as_slice(&data), '},
        {'rule': 'R7', 'regex': r'jpx_decode\(&data\)', 'count': '*', 'replace': 'jpx_decode(arc_as_slice(&data))'},
        {'rule': 'R7', 'find': 'data.truncate(', 'replace': 'vec_truncate(&mut data, '},
        {'rule': 'R7', 'find': 'decode == &[1.0, 0.0]', 'replace': 'is_decode_1_0(decode)'},
        {'rule': 'R7', 'find': 'data.iter_mut().for_each(|b| *b = !*b);', 'replace': 'invert_all(&mut data);'},
        {'rule': 'R7', 'find': 'Ok(data.into())', 'replace': 'Ok(hoist_into_arc(data))'},
        {'rule': 'R1', 'find': 'let mut data = fax_decode', 'replace': 'proof { assert((self.inner.info.info.height as int) * (self.inner.info.info.width as int) <= 0xffff_ffff * 0xffff_ffff) by (nonlinear_arith) requires self.inner.info.info.height <= 0xffff_ffff, self.inner.info.info.width <= 0xffff_ffff; } let mut data = fax_decode'},
     ]},
 },
}
