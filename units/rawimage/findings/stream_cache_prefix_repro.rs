// The stream cache is keyed by the object id only, but ImageXObject::raw_image_data asks get_data_or_decode for a PREFIX of
// the filter list while Stream::data asks for all of it: with FileOptions::cached() whichever call comes first decides what
// both return (C12-adjacent; C12 is not claimed by the framework, this is a native confirmation only).
// Drop into <scratch>/pdf/tests/ and run
//   CARGO_TARGET_DIR=/tmp/rawimage_target cargo test --offline -p pdf --test stream_cache_prefix_repro -- --nocapture --test-threads 1
use pdf::enc::{encode, StreamFilter};
use pdf::file::FileOptions;
use pdf::object::*;

fn build_pdf(objs: &[Vec<u8>]) -> Vec<u8> {
    let mut out = b"%PDF-1.7\n".to_vec();
    let mut offs = vec![];
    for (i, body) in objs.iter().enumerate() {
        offs.push(out.len());
        out.extend_from_slice(format!("{} 0 obj\n", i + 1).as_bytes());
        out.extend_from_slice(body);
        out.extend_from_slice(b"\nendobj\n");
    }
    let xref = out.len();
    out.extend_from_slice(format!("xref\n0 {}\n0000000000 65535 f \n", objs.len() + 1).as_bytes());
    for o in &offs { out.extend_from_slice(format!("{:010} 00000 n \n", o).as_bytes()); }
    out.extend_from_slice(format!("trailer\n<< /Size {} /Root 1 0 R >>\nstartxref\n{}\n%%EOF\n", objs.len() + 1, xref).as_bytes());
    out
}
const PIXELS: [u8; 4] = [10, 20, 30, 40];
fn image_pdf() -> Vec<u8> {
    let z = encode(&PIXELS, &StreamFilter::FlateDecode(Default::default())).unwrap();
    let mut img = format!("<< /Type /XObject /Subtype /Image /Width 2 /Height 2 /ColorSpace /DeviceGray /BitsPerComponent 8 /Filter /FlateDecode /Length {} >>\nstream\n", z.len()).into_bytes();
    img.extend_from_slice(&z);
    img.extend_from_slice(b"\nendstream");
    build_pdf(&[b"<< /Type /Catalog /Pages 2 0 R >>".to_vec(), b"<< /Type /Pages /Kids [] /Count 0 >>".to_vec(), img])
}
type R = Result<Vec<u8>, String>;
fn both(cached: bool, stream_data_first: bool) -> (R, R) {
    fn go<T: Resolve>(resolver: &T, stream_data_first: bool) -> (R, R) {
        let img = resolver.get::<ImageXObject>(Ref::new(PlainRef { id: 3, gen: 0 })).expect("image loads");
        let d = |img: &ImageXObject| img.inner.data(resolver).map(|a| a.to_vec()).map_err(|e| e.to_string().lines().last().unwrap_or("").to_string());
        let i = |img: &ImageXObject| img.image_data(resolver).map(|a| a.to_vec()).map_err(|e| e.to_string().lines().last().unwrap_or("").to_string());
        if stream_data_first { let a = d(&img); let b = i(&img); (a, b) } else { let b = i(&img); let a = d(&img); (a, b) }
    }
    if cached { let f = FileOptions::cached().load(image_pdf()).expect("loads"); let r = go(&f.resolver(), stream_data_first); r }
    else { let f = FileOptions::uncached().load(image_pdf()).expect("loads"); let r = go(&f.resolver(), stream_data_first); r }
}
#[test]
fn order_of_calls_must_not_matter() {
    let mut bad = false;
    for cached in [false, true] {
        for first in [true, false] {
            let (stream_data, image_data) = both(cached, first);
            println!("cached={:5} first call={:12}  Stream::data -> {:?}   image_data -> {:?}", cached, if first { "Stream::data" } else { "image_data" }, stream_data, image_data);
            bad |= stream_data != Ok(PIXELS.to_vec()) || image_data != Ok(PIXELS.to_vec());
        }
    }
    assert!(!bad, "some call did not return the decoded pixels {:?}", PIXELS);
}
