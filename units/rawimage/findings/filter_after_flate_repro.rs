// An image stream whose filter chain has a general-purpose filter AFTER FlateDecode (here /Filter [/FlateDecode /ASCIIHexDecode]):
// Stream::data decodes it, ImageXObject::image_data / raw_image_data answer Err("??? filters=..").
// Drop into <scratch>/pdf/tests/ and run
//   CARGO_TARGET_DIR=/tmp/rawimage_target cargo test --offline -p pdf --test filter_after_flate_repro -- --nocapture
use pdf::enc::{encode, StreamFilter};
use pdf::file::FileOptions;
use pdf::object::*;

fn build_pdf(objs: &[Vec<u8>]) -> Vec<u8> {
    let mut out = b"%PDF-1.7\n".to_vec();
    let mut offs = vec![];
    for (i, body) in objs.iter().enumerate() {
        offs.push(out.len());
        out.extend_from_slice(format!("{} 0 obj\n", i + 1).as_bytes());
        out.extend_from_slice(body);
        out.extend_from_slice(b"\nendobj\n");
    }
    let xref = out.len();
    out.extend_from_slice(format!("xref\n0 {}\n0000000000 65535 f \n", objs.len() + 1).as_bytes());
    for o in &offs { out.extend_from_slice(format!("{:010} 00000 n \n", o).as_bytes()); }
    out.extend_from_slice(format!("trailer\n<< /Size {} /Root 1 0 R >>\nstartxref\n{}\n%%EOF\n", objs.len() + 1, xref).as_bytes());
    out
}
const PIXELS: [u8; 4] = [10, 20, 30, 40];
#[test]
fn general_filter_after_flate() {
    // stored bytes = deflate(hex(pixels)): FlateDecode is applied first, ASCIIHexDecode second (ISO 32000-1 7.4.1)
    let z = encode(b"0A141E28>", &StreamFilter::FlateDecode(Default::default())).unwrap();
    let mut img = format!("<< /Type /XObject /Subtype /Image /Width 2 /Height 2 /ColorSpace /DeviceGray /BitsPerComponent 8 /Filter [/FlateDecode /ASCIIHexDecode] /Length {} >>\nstream\n", z.len()).into_bytes();
    img.extend_from_slice(&z);
    img.extend_from_slice(b"\nendstream");
    let data = build_pdf(&[b"<< /Type /Catalog /Pages 2 0 R >>".to_vec(), b"<< /Type /Pages /Kids [] /Count 0 >>".to_vec(), img]);
    let file = FileOptions::uncached().load(data).expect("loads");
    let resolver = file.resolver();
    let img = resolver.get::<ImageXObject>(Ref::new(PlainRef { id: 3, gen: 0 })).expect("image loads");
    let a = img.inner.data(&resolver).map(|d| d.to_vec()).map_err(|e| e.to_string());
    let b = img.image_data(&resolver).map(|d| d.to_vec()).map_err(|e| e.to_string());
    println!("Stream::data -> {:?}\nimage_data   -> {:?}", a, b);
    assert_eq!(a, Ok(PIXELS.to_vec()));
    assert_eq!(b, Ok(PIXELS.to_vec()));
}
