// DEV_IN_MEMORY_DATA_DECODES_ALL_FILTERS: for in-memory stream data (inline images) raw_image_data does not split off the
// trailing image codec but sends every filter through enc::decode, which has no CCITTFax / JPX / JBIG2 stage.
// Drop into <scratch>/pdf/tests/ and run
//   CARGO_TARGET_DIR=/tmp/rawimage_target cargo test --offline -p pdf --test inline_codec_not_split_repro -- --nocapture
use pdf::content::{parse_ops, Op};
use pdf::object::NoResolve;
#[test]
fn inline_ccitt_image() {
    let ops = parse_ops(b"BI /W 8 /H 1 /BPC 1 /IM true /F /CCF /DP << /K -1 /Columns 8 >> ID \x00\x10\x01\nEI", &NoResolve).expect("parses");
    let image = match &ops[0] { Op::InlineImage { image } => image.clone(), o => panic!("{:?}", o) };
    let r = image.raw_image_data(&NoResolve).map(|(d, f)| (d.to_vec(), f.map(|f| format!("{:?}", f)))).map_err(|e| e.to_string());
    println!("raw_image_data -> {:?}", r);
    assert!(matches!(r, Ok((_, Some(_)))), "the CCITTFax codec should be handed back with the undecoded data");
}
