T = 'pdf/src/object/types.rs'
M = 'pdf/src/object/mod.rs'
FILE = 'pdf/src/file.rs'

W = 'resolve.world()'
WF = 'wf_tree(%s, *self, depth as nat)' % W

BOX_RW = [
    # shape-only rewrites (count '*'): whatever selector expression / field name the code uses stays verbatim under proof
    {'rule': 'R3', 'regex': r'PdfError::MissingEntry\s*\{\s*typ:\s*"Page",\s*field:\s*"[A-Za-z]+"\.into\(\)\s*\}', 'count': '*',
     'replace': 'PdfError::MissingEntry { typ: "Page" }'},
    {'rule': 'R1', 'regex': r'\|\|\s*PdfError::MissingEntry \{ typ: "Page" \}', 'count': '*',
     'replace': '|| -> (e: PdfError) ensures e == (PdfError::MissingEntry { typ: "Page" }) { PdfError::MissingEntry { typ: "Page" } }'},
]
def box_closure(ty):
    return {'rule': 'R1', 'regex': r'inherit\(&self\.parent,\s*\|pt\|\s*(.*?)\)\?', 'count': '*',
            'replace': r'inherit(&self.parent, |pt: &PageTree| -> (o: %s) ensures o == (\1) { \1 })?' % ty}
UNIT = {
 'name': 'pagetree',
 'doc': 'Page lookup by number (n-th leaf in document order, depth budget) and inherited page attributes',
 'timeout': 600,
 'items': {
  # ---------------------------------------------------------------- data types, taken from /repo
  'struct Rectangle': {'kind': 'decl', 'file': T, 'header': r'^pub struct Rectangle$',
      'attrs': ['#[derive(Clone, Copy)]']},
  'struct PlainRef': {'kind': 'decl', 'file': M, 'header': r'^pub struct PlainRef$',
      'attrs': ['#[derive(Clone, Copy)]']},
  'struct Ref': {'kind': 'decl', 'file': M, 'header': r'^pub struct Ref<T>$',
      'rewrites': [{'rule': 'R2', 'find': 'inner:', 'replace': 'pub inner:'},
                   {'rule': 'R2', 'find': '_marker:', 'replace': 'pub _marker:'}]},
  'struct RcRef': {'kind': 'decl', 'file': M, 'header': r'^pub struct RcRef<T>$',
      'rewrites': [{'rule': 'R2', 'find': 'inner:', 'replace': 'pub inner:'},
                   {'rule': 'R2', 'find': 'data:', 'replace': 'pub data:'}]},
  'enum MaybeRef': {'kind': 'decl', 'file': M, 'header': r'^pub enum MaybeRef<T>$'},
  'enum PagesNode': {'kind': 'decl', 'file': T, 'header': r'^pub enum PagesNode$'},
  # the tuple field of both wrappers stays private, as in /repo: that is what makes the type invariant sound
  'struct PageRc': {'kind': 'decl', 'file': T, 'header': r'^pub struct PageRc\('},
  'struct PagesRc': {'kind': 'decl', 'file': T, 'header': r'^pub struct PagesRc\('},
  'struct PageTree': {'kind': 'decl', 'file': T, 'header': r'^pub struct PageTree$'},
  'struct Page': {'kind': 'decl', 'file': T, 'header': r'^pub struct Page$'},

  'Ref::new': {'kind': 'fn', 'file': M, 'container': r'^impl<T> Ref<T>$', 'name': 'new', 'props': ['C07'],
      'ensures': [('ref_new', 'r.inner == inner')]},
  'Ref::get_inner': {'kind': 'fn', 'file': M, 'container': r'^impl<T> Ref<T>$', 'name': 'get_inner', 'props': ['C07'],
      'ensures': [('ref_get_inner', 'r == self.inner')]},
  'RcRef::from_primitive': {'kind': 'fn', 'file': M, 'container': r'^impl<T: Object \+ std::fmt::Debug \+ DataSize> Object for RcRef<T>$',
      'name': 'from_primitive', 'props': ['C07'],
      'ensures': [('reference_denotes_stored_node', 'denotes(resolve.world(), p, r)')]},
  # ---------------------------------------------------------------- Deref impls (trait methods: no canary twin possible)
  'RcRef::deref': {'kind': 'fn', 'file': M, 'container': r'^impl<T> Deref for RcRef<T>$', 'name': 'deref',
      'props': ['C07'], 'canary': False,
      'ensures': [('deref_is_data', '*r == *self.data')]},
  'PagesRc::deref': {'kind': 'fn', 'file': T, 'container': r'^impl Deref for PagesRc$', 'name': 'deref',
      'props': ['C07'], 'canary': False,
      'ensures': [('deref_is_tree', '*r == self.tree()'),
                  # the wrapper's type invariant, handed to the caller: a deref coercion `parent = p` then needs no ghost
                  # text at the assignment (whatever its spelling) for the structural `decreases *parent` of `inherit`
                  ('deref_is_tree_node', '*self.rc().data is Tree')],
      'rewrites': [{'rule': 'R1', 'find': 'match *self.0 {', 'replace': 'proof { use_type_invariant(self); } match *self.0 {'}]},
  'PageRc::deref': {'kind': 'fn', 'file': T, 'container': r'^impl Deref for PageRc$', 'name': 'deref',
      'props': ['C07'], 'canary': False,
      'ensures': [('deref_is_page', '*r == self.page()')],
      'rewrites': [{'rule': 'R1', 'find': 'match *self.0 {', 'replace': 'proof { use_type_invariant(self); } match *self.0 {'}]},
  # constructors: the type invariant is a proof obligation at `PagesRc(node)` / `PageRc(node)`
  'PagesRc::from_primitive': {'kind': 'fn', 'file': T, 'container': r'^impl Object for PagesRc$', 'name': 'from_primitive',
      'props': ['C07'],
      'ensures': [('ctor_is_tree', 'r matches Ok(x) ==> x.inv()'),
                  ('ctor_ok_iff_stored_tree', 'r is Ok <==> names_stored(resolve.world(), p, false)'),
                  ('ctor_hands_out_stored_node', 'r matches Ok(x) ==> denotes(resolve.world(), p, Ok(x.rc()))')],
      'rewrites': [{'rule': 'R3', 'find': 'PdfError::WrongDictionaryType {expected: "Pages".into(), found: "Page".into()}',
                    'replace': 'PdfError::WrongDictionaryType'}]},
  'PageRc::from_primitive': {'kind': 'fn', 'file': T, 'container': r'^impl Object for PageRc$', 'name': 'from_primitive',
      'props': ['C07'],
      'ensures': [('ctor_is_leaf', 'r matches Ok(x) ==> x.inv()'),
                  ('ctor_ok_iff_stored_leaf', 'r is Ok <==> names_stored(resolve.world(), p, true)'),
                  ('ctor_hands_out_stored_node', 'r matches Ok(x) ==> denotes(resolve.world(), p, Ok(x.rc()))')],
      'rewrites': [{'rule': 'R3', 'find': 'PdfError::WrongDictionaryType {expected: "Page".into(), found: "Pages".into()}',
                    'replace': 'PdfError::WrongDictionaryType'}]},

  # ---------------------------------------------------------------- page lookup
  'PageTree::page': {'kind': 'fn', 'file': T, 'container': r'^impl PageTree$', 'name': 'page',
      'props': ['C07', 'C14'],
      'ensures': [('page_lookup', 'wf_tree(%s, *self, 16) ==> lookup_spec(%s, *self, 16, page_nr, r)' % (W, W))]},
  'PageTree::page_limited': {'kind': 'fn', 'file': T, 'container': r'^impl PageTree$', 'name': 'page_limited',
      'props': ['C07', 'C14'],
      'attrs': ['#[verifier::loop_isolation(false)]'],
      'ensures': [('nth_leaf', '%s && page_nr < self.count ==> lookup_spec(%s, *self, depth as nat, page_nr, r)' % (WF, W)),
                  ('out_of_bounds', '%s && page_nr >= self.count ==> lookup_spec(%s, *self, depth as nat, page_nr, r)' % (WF, W)),
                  ('depth_budget', 'depth == 0 ==> r is Err'),
                  ('ok_is_stored_leaf', 'r matches Ok(p) ==> ' + W + '.dom().contains(p.rc().inner) && *p.rc().data == ' + W + '[p.rc().inner] && ' + W + '[p.rc().inner] is Leaf')],
      'decreases': 'depth',
      'rewrites': [
          {'rule': 'R5', 'find': 'for &kid in &self.kids {', 'replace': 'for kid_ in &self.kids { let kid = *kid_;'},
          {'rule': 'R1', 'find': 'let mut pos = 0;',
           'replace': 'let mut pos = 0; let ghost w = resolve.world(); let ghost d = depth as nat; '
                      'proof { assert(self.kids@.take(0) =~= Seq::<Ref<PagesNode>>::empty()); '
                      'assert(self.kids@.take(self.kids@.len() as int) =~= self.kids@); }'},
          {'rule': 'R1', 'find': 'let node = resolve.get(kid)?;',
           'replace': 'let ghost i = it.index@ as int; '
                      'proof { assert(kid == self.kids@[i]); if wf_tree(w, *self, d) { lemma_step(w, *self, d, i); } } '
                      'let node = resolve.get(kid)?;'},
      ],
      'loops': {1: {'for_ghost': 'it',
                    'invariant': [('pos_le_page_nr', 'pos <= page_nr'),
                                  ('pos_is_leaves_before', 'wf_tree(w, *self, d) ==> pos as int == leaves(w, self.kids@.take(it.index@ as int), d).len()')]}}},

  # ---------------------------------------------------------------- inheritance
  'inherit': {'kind': 'fn', 'file': T, 'container': None, 'name': 'inherit',
      'props': ['C07'],
      'attrs': ['#[verifier::loop_isolation(false)]', '#[verifier::allow_complex_invariants]'],
      'requires': ["forall|p: &'a PageTree| f.requires((p,))"],
      'ensures': [('nearest_ancestor', 'forall|sel: spec_fn(PageTree) -> Option<T>| #![trigger computes(f, sel)] #![trigger nearest(*parent, sel)] computes(f, sel) ==> r == Ok::<Option<T>, PdfError>(nearest(*parent, sel))'),
                  ('never_err', 'r is Ok')],
      'rewrites': [
          # shape-only: the ghost start node is declared at the top of the body, whatever statements follow
          {'rule': 'R1', 'regex': r'\A\s*\{', 'replace': '{ let ghost start = *parent; let ghost mut plain = true;'},
          # accumulator shape of the same walk (`let mut <acc> = None; loop {`): the invariant is keyed on the captured name
          {'rule': 'R1', 'regex': r'let\s+mut\s+(\w+)\s*(:\s*Option<T>\s*)?=\s*None;\s*loop\s*\{', 'count': '*',
           'replace': r'let mut \1 \2= None; proof { plain = false; } loop invariant_except_break '
                      r'forall|sel: spec_fn(PageTree) -> Option<T>| #![trigger computes(f, sel)] computes(f, sel) ==> '
                      r'(match \1 { Some(v) => nearest(start, sel) == Some(v), None => nearest(*parent, sel) == nearest(start, sel) }), //@L walk_keeps_first_hit\n {'},
      ],
      'loops': {1: {'invariant': ["forall|p: &'a PageTree| f.requires((p,))",
                                  ('walk_keeps_answer', 'plain ==> forall|sel: spec_fn(PageTree) -> Option<T>| #![trigger computes(f, sel)] computes(f, sel) ==> nearest(*parent, sel) == nearest(start, sel)')],
                    'decreases': '*parent'}}},
  'Page::media_box': {'kind': 'fn', 'file': T, 'container': r'^impl Page$', 'name': 'media_box',
      'props': ['C07'],
      'ensures': [('media_box_effective',
                   'match effective(self.media_box, self.parent, sel_media_box()) { Some(b) => r == Ok::<Rectangle, PdfError>(b), None => missing(r) }')],
      'rewrites': BOX_RW + [box_closure('Option<Rectangle>')]},
  'Page::crop_box': {'kind': 'fn', 'file': T, 'container': r'^impl Page$', 'name': 'crop_box',
      'props': ['C07'],
      'ensures': [('crop_box_effective',
                   'match effective(self.crop_box, self.parent, sel_crop_box()) { Some(b) => r == Ok::<Rectangle, PdfError>(b), '
                   'None => match effective(self.media_box, self.parent, sel_media_box()) { Some(b) => r == Ok::<Rectangle, PdfError>(b), None => missing(r) } }')],
      'rewrites': BOX_RW + [box_closure('Option<Rectangle>')]},
  'Page::resources': {'kind': 'fn', 'file': T, 'container': r'^impl Page$', 'name': 'resources',
      'props': ['C07'],
      'ensures': [('resources_effective',
                   'match page_resources(*self) { Some(x) => r matches Ok(y) && *y == *x, '
                   'None => r matches Err(PdfError::MissingEntry { typ }) && typ == "Page" }')],
      'rewrites': [
          {'rule': 'R3', 'find': 'PdfError::MissingEntry { typ: "Page", field: "Resources".into() }',
           'replace': 'PdfError::MissingEntry { typ: "Page" }'},
          {'rule': 'R1', 'find': '|| PdfError::MissingEntry { typ: "Page" }',
           'replace': '|| -> (e: PdfError) ensures e == (PdfError::MissingEntry { typ: "Page" }) { PdfError::MissingEntry { typ: "Page" } }'},
          {'rule': 'R1', 'find': '|pt| pt.resources.as_ref()',
           'replace': '|pt: &PageTree| -> (o: Option<&MaybeRef<Resources>>) ensures o == sel_resources()(*pt) { pt.resources.as_ref() }'},
      ]},

  # ---------------------------------------------------------------- File
  'File::num_pages': {'kind': 'fn', 'file': FILE, 'container': r'^impl<B, OC, SC, L> File<B, OC, SC, L> where B: Backend', 'name': 'num_pages',
      'props': ['C07'],
      'ensures': [('num_pages_is_root_count', 'r == self.root_tree().count'),
                  ('num_pages_is_leaf_count', 'forall|w: World, d: nat| wf_tree(w, self.root_tree(), d) ==> r == #[trigger] tree_leaves(w, self.root_tree(), d).len()')]},
  'File::get_page': {'kind': 'fn', 'file': FILE, 'container': r'^impl<B, OC, SC, L> File<B, OC, SC, L> where B: Backend', 'name': 'get_page',
      'props': ['C07', 'C14'],
      'ensures': [('get_page_lookup', 'wf_tree(self.storage.w@, self.root_tree(), 16) ==> lookup_spec(self.storage.w@, self.root_tree(), 16, n, r)')]},
 },
}
