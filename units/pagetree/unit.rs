// Unit `pagetree` (C07, C14): page lookup by number and inherited page attributes.
//   pdf/src/object/types.rs : PageTree::{page, page_limited}, inherit, Page::{media_box, crop_box, resources},
//                             PagesRc / PageRc (deref + from_primitive: the type invariant of the two wrappers)
//   pdf/src/object/mod.rs   : RcRef::deref
//   pdf/src/file.rs         : File::{num_pages, get_page}
// against: "page n is the n-th leaf in depth-first document order; at or beyond the count -> PageOutOfBounds;
//           an attribute is the page's own entry, else that of the nearest ancestor that has one".
use vstd::prelude::*;
use std::sync::Arc;
use core::marker::PhantomData;
use core::ops::Deref;
//@@ INCLUDE _common/error_macros.rs
verus! {
// std combinator a refactor of the box accessors is likely to use (trusted: core::option)
pub open spec fn spec_option_or<T>(a: Option<T>, b: Option<T>) -> Option<T> { if a is Some { a } else { b } }
#[verifier::when_used_as_spec(spec_option_or)]
pub assume_specification<T>[ Option::<T>::or ](a: Option<T>, b: Option<T>) -> (r: Option<T>)
    ensures r == spec_option_or(a, b);

global size_of usize == 8;

//@@ PDFERROR
//@@ DEVIATIONS

// ------------------------------------------------------------------ environment (types not under contract)
pub type ObjNr = u64;
pub type GenNr = u64;
pub type Shared<T> = Arc<T>;
// opaque payload types: nothing in this unit looks inside them
pub struct Resources { opaque: u8 }
pub struct Content { opaque: u8 }
// reduced twin of primitive.rs `enum Primitive`: the variant that names an indirect object, everything else opaque
pub struct OtherPrimitive { opaque: u8 }
pub enum Primitive { Reference(PlainRef), Other(OtherPrimitive) }
impl Primitive {
    #[verifier::external_body]
    pub fn get_debug_name(&self) -> (r: &'static str) { unimplemented!() }
}
pub struct Annot { opaque: u8 }
pub struct Dictionary { opaque: u8 }
pub struct Lazy<T> { opaque: u8, _marker: PhantomData<T> }
pub struct Storage { pub w: Ghost<World> }

//@@ struct Rectangle
//@@ struct PlainRef
//@@ struct Ref
//@@ struct RcRef
//@@ enum MaybeRef
//@@ enum PagesNode
//@@ struct PageRc
//@@ struct PagesRc
//@@ struct PageTree
//@@ struct Page

impl<T> Ref<T> {
//@@ Ref::new
//@@ Ref::get_inner
}
impl<T> Clone for Ref<T> { fn clone(&self) -> (r: Ref<T>) ensures r == *self { *self } }
impl<T> Copy for Ref<T> {}

impl<T> Deref for RcRef<T> {
    type Target = T;
//@@ RcRef::deref
}

// The ghost object store: which page-tree node every reference denotes.
pub type World = Map<PlainRef, PagesNode>;

// Abstract `Resolve` (pdf/src/object/mod.rs): only `get` is used here; the real method is generic over the
// object type, the unit instantiates it at PagesNode. The store is *defined* by `get`: a reference is in the
// store iff `get` succeeds on it, and `get` hands out the stored node under the same reference.
pub trait Resolve {
    spec fn world(&self) -> World;
    fn get(&self, r: Ref<PagesNode>) -> (res: Result<RcRef<PagesNode>>)
        ensures
            res is Ok <==> self.world().dom().contains(r.inner),
            res matches Ok(n) ==> n.inner == r.inner && *n.data == self.world()[r.inner];
}
// callee of PagesRc/PageRc::from_primitive: `impl<T: Object> Object for RcRef<T>` of object/mod.rs, extracted and
// instantiated at T = PagesNode (the env `Resolve::get` is); what object a `Primitive` denotes:
pub open spec fn denotes(w: World, p: Primitive, r: Result<RcRef<PagesNode>>) -> bool {
    match p {
        Primitive::Reference(rf) => (r is Ok <==> w.dom().contains(rf)) && (r matches Ok(n) ==> n.inner == rf && *n.data == w[rf]),
        _ => r is Err,
    }
}
// `p` is a reference to a stored page (`leaf`) / a stored intermediate node (`!leaf`)
pub open spec fn names_stored(w: World, p: Primitive, leaf: bool) -> bool {
    p matches Primitive::Reference(rf) && w.dom().contains(rf) && (w[rf] is Leaf <==> leaf)
}
impl RcRef<PagesNode> {
//@@ RcRef::from_primitive
}

// ------------------------------------------------------------------ the two wrappers and their type invariant
impl PagesRc {
    // established by the only constructors (from_primitive below; `create` wraps PagesNode::Tree), field is private
    #[verifier::type_invariant]
    pub closed spec fn inv(&self) -> bool { *self.0.data is Tree }
    pub closed spec fn tree(&self) -> PageTree { (*self.0.data)->Tree_0 }
    pub closed spec fn rc(&self) -> RcRef<PagesNode> { self.0 }
//@@ PagesRc::from_primitive
}
impl PageRc {
    #[verifier::type_invariant]
    pub closed spec fn inv(&self) -> bool { *self.0.data is Leaf }
    pub closed spec fn page(&self) -> Page { (*self.0.data)->Leaf_0 }
    pub closed spec fn rc(&self) -> RcRef<PagesNode> { self.0 }
//@@ PageRc::from_primitive
}
impl Deref for PagesRc {
    type Target = PageTree;
//@@ PagesRc::deref
}
impl Deref for PageRc {
    type Target = Page;
//@@ PageRc::deref
}

// ------------------------------------------------------------------ specification: leaves in document order
// (written from the property statement / ISO 32000-1 7.7.3.2: the leaves of the page tree, visited depth first
//  in /Kids order, are the pages of the document in order; /Count is the number of leaves under a node)

// leaves under one kid reference; `d` = number of tree levels still allowed (a Tree kid needs d >= 2)
pub open spec fn node_leaves(w: World, k: Ref<PagesNode>, d: nat) -> Seq<PlainRef>
    decreases d, 0nat
{
    match w[k.inner] {
        PagesNode::Leaf(_) => seq![k.inner],
        PagesNode::Tree(t) => if d <= 1 { Seq::empty() } else { leaves(w, t.kids@, (d - 1) as nat) },
    }
}
// leaves of a /Kids list, depth first, in document order
pub open spec fn leaves(w: World, kids: Seq<Ref<PagesNode>>, d: nat) -> Seq<PlainRef>
    decreases d, 1 + kids.len()
{
    if kids.len() == 0 { Seq::empty() } else { node_leaves(w, kids[0], d) + leaves(w, kids.skip(1), d) }
}
// every kid is in the store; every intermediate node's /Count is its number of leaves; height <= d
pub open spec fn wf_kids(w: World, kids: Seq<Ref<PagesNode>>, d: nat) -> bool
    decreases d, kids.len()
{
    kids.len() == 0 || (
        w.dom().contains(kids[0].inner)
        && (match w[kids[0].inner] {
            PagesNode::Leaf(_) => true,
            PagesNode::Tree(t) => d >= 2 && t.count == leaves(w, t.kids@, (d - 1) as nat).len() && wf_kids(w, t.kids@, (d - 1) as nat),
        })
        && wf_kids(w, kids.skip(1), d))
}
// a well-formed page tree of height <= d rooted at `t`
pub open spec fn wf_tree(w: World, t: PageTree, d: nat) -> bool {
    d >= 1 && wf_kids(w, t.kids@, d) && t.count == leaves(w, t.kids@, d).len()
}
pub open spec fn tree_leaves(w: World, t: PageTree, d: nat) -> Seq<PlainRef> { leaves(w, t.kids@, d) }

// the complete result of a page lookup in a well-formed tree
pub open spec fn lookup_spec(w: World, t: PageTree, d: nat, page_nr: u32, r: Result<PageRc>) -> bool {
    if page_nr < t.count {
        r matches Ok(p) && p.rc().inner == tree_leaves(w, t, d)[page_nr as int]
            && *p.rc().data == w[tree_leaves(w, t, d)[page_nr as int]]
    } else {
        r matches Err(PdfError::PageOutOfBounds { page_nr: pn, max }) && pn == page_nr && max == t.count
    }
}

// ---- lemmas about `leaves`
pub proof fn lemma_prefix(w: World, kids: Seq<Ref<PagesNode>>, d: nat, i: int)
    requires 0 <= i < kids.len()
    ensures leaves(w, kids.take(i + 1), d) == leaves(w, kids.take(i), d) + node_leaves(w, kids[i], d),
    decreases i
{
    if i == 0 {
        assert(kids.take(1).skip(1) =~= Seq::<Ref<PagesNode>>::empty());
        assert(kids.take(0) =~= Seq::<Ref<PagesNode>>::empty());
        assert(leaves(w, kids.take(1), d) =~= node_leaves(w, kids[0], d) + leaves(w, Seq::<Ref<PagesNode>>::empty(), d));
    } else {
        let a = kids.take(i + 1);
        let b = kids.take(i);
        assert(a.skip(1) =~= kids.skip(1).take(i));
        assert(b.skip(1) =~= kids.skip(1).take(i - 1));
        lemma_prefix(w, kids.skip(1), d, i - 1);
        assert(a[0] == kids[0] && b[0] == kids[0]);
        assert(kids.skip(1)[i - 1] == kids[i]);
        assert(leaves(w, a, d) =~= node_leaves(w, kids[0], d) + leaves(w, a.skip(1), d));
        assert(leaves(w, b, d) =~= node_leaves(w, kids[0], d) + leaves(w, b.skip(1), d));
    }
}
pub proof fn lemma_wf_index(w: World, kids: Seq<Ref<PagesNode>>, d: nat, i: int)
    requires 0 <= i < kids.len(), wf_kids(w, kids, d)
    ensures w.dom().contains(kids[i].inner),
        match w[kids[i].inner] {
            PagesNode::Leaf(_) => true,
            PagesNode::Tree(t) => d >= 2 && wf_tree(w, t, (d - 1) as nat),
        }
    decreases i
{
    if i > 0 { lemma_wf_index(w, kids.skip(1), d, i - 1); }
}
pub proof fn lemma_take_le(w: World, kids: Seq<Ref<PagesNode>>, d: nat, i: int)
    requires 0 <= i <= kids.len()
    ensures leaves(w, kids.take(i), d).len() <= leaves(w, kids, d).len(),
        forall|j: int| 0 <= j < leaves(w, kids.take(i), d).len() ==> leaves(w, kids.take(i), d)[j] == leaves(w, kids, d)[j],
    decreases kids.len() - i
{
    if i == kids.len() { assert(kids.take(i) =~= kids); }
    else { lemma_prefix(w, kids, d, i); lemma_take_le(w, kids, d, i + 1); }
}
// everything the loop body of page_limited needs about kid number i of a well-formed tree
pub proof fn lemma_step(w: World, t: PageTree, d: nat, i: int)
    requires wf_tree(w, t, d), 0 <= i < t.kids@.len()
    ensures
        w.dom().contains(t.kids@[i].inner),
        match w[t.kids@[i].inner] { PagesNode::Leaf(_) => true, PagesNode::Tree(k) => d >= 2 && wf_tree(w, k, (d - 1) as nat) },
        leaves(w, t.kids@.take(i + 1), d) == leaves(w, t.kids@.take(i), d) + node_leaves(w, t.kids@[i], d),
        leaves(w, t.kids@.take(i + 1), d).len() <= t.count,
        forall|j: int| 0 <= j < leaves(w, t.kids@.take(i + 1), d).len() ==> leaves(w, t.kids@.take(i + 1), d)[j] == leaves(w, t.kids@, d)[j],
{
    lemma_prefix(w, t.kids@, d, i);
    lemma_wf_index(w, t.kids@, d, i);
    lemma_take_le(w, t.kids@, d, i + 1);
}

// Sanity check of the specification itself on a concrete shape (root kids [a, b, c]; b is an intermediate node
// with kids [x, y]): document order is a x y c, the tree is well formed with budget 2 and not with budget 1.
pub proof fn spec_example(w: World, a: Ref<PagesNode>, b: Ref<PagesNode>, c: Ref<PagesNode>, x: Ref<PagesNode>, y: Ref<PagesNode>, t: PageTree)
    requires
        w.dom().contains(a.inner), w.dom().contains(b.inner), w.dom().contains(c.inner), w.dom().contains(x.inner), w.dom().contains(y.inner),
        w[a.inner] is Leaf, w[c.inner] is Leaf, w[x.inner] is Leaf, w[y.inner] is Leaf,
        w[b.inner] == PagesNode::Tree(t), t.kids@ == seq![x, y], t.count == 2,
    ensures
        leaves(w, seq![a, b, c], 2) == seq![a.inner, x.inner, y.inner, c.inner],
        wf_kids(w, seq![a, b, c], 2),
        !wf_kids(w, seq![a, b, c], 1),
{
    reveal_with_fuel(leaves, 5); reveal_with_fuel(node_leaves, 5); reveal_with_fuel(wf_kids, 5);
    let e = Seq::<Ref<PagesNode>>::empty();
    assert(seq![x, y].skip(1) =~= seq![y]);
    assert(seq![y].skip(1) =~= e);
    assert(leaves(w, seq![y], 1) =~= seq![y.inner]) by { assert(leaves(w, e, 1) =~= Seq::<PlainRef>::empty()); }
    assert(leaves(w, seq![x, y], 1) =~= seq![x.inner, y.inner]);
    assert(wf_kids(w, seq![y], 1)) by { assert(wf_kids(w, e, 1)); }
    assert(wf_kids(w, seq![x, y], 1));
    assert(seq![a, b, c].skip(1) =~= seq![b, c]);
    assert(seq![b, c].skip(1) =~= seq![c]);
    assert(seq![c].skip(1) =~= e);
    assert(leaves(w, seq![c], 2) =~= seq![c.inner]) by { assert(leaves(w, e, 2) =~= Seq::<PlainRef>::empty()); }
    assert(node_leaves(w, b, 2) =~= seq![x.inner, y.inner]);
    assert(leaves(w, seq![b, c], 2) =~= seq![x.inner, y.inner, c.inner]);
    assert(leaves(w, seq![a, b, c], 2) =~= seq![a.inner, x.inner, y.inner, c.inner]);
    assert(wf_kids(w, seq![c], 2)) by { assert(wf_kids(w, e, 2)); }
    assert(wf_kids(w, seq![b, c], 2));
    assert(!wf_kids(w, seq![b, c], 1));
}

impl PageTree {
//@@ PageTree::page
//@@ PageTree::page_limited
}

// ------------------------------------------------------------------ specification: inherited attributes
// (ISO 32000-1 7.7.3.4: an inheritable attribute missing from a page object is taken from the nearest ancestor
//  in the page tree that has it)
// value of attribute `sel` at the nearest node, starting at `t` and following /Parent, that has one
pub closed spec fn nearest<T>(t: PageTree, sel: spec_fn(PageTree) -> Option<T>) -> Option<T>
    decreases t
{
    match sel(t) {
        Some(v) => Some(v),
        None => match t.parent {
            Some(p) => (match *p.0.data { PagesNode::Tree(pt) => nearest(pt, sel), PagesNode::Leaf(_) => None }),
            None => None,
        },
    }
}
// effective value on a page: own entry, else inherited
pub open spec fn effective<T>(own: Option<T>, parent: PagesRc, sel: spec_fn(PageTree) -> Option<T>) -> Option<T> {
    match own { Some(v) => Some(v), None => nearest(parent.tree(), sel) }
}
pub open spec fn sel_media_box() -> spec_fn(PageTree) -> Option<Rectangle> { |t: PageTree| t.media_box }
pub open spec fn sel_crop_box() -> spec_fn(PageTree) -> Option<Rectangle> { |t: PageTree| t.crop_box }
// resources are handed out by reference: the selector yields a reference to the node's own entry
pub open spec fn sel_resources<'a>() -> spec_fn(PageTree) -> Option<&'a MaybeRef<Resources>> {
    |t: PageTree| match t.resources { Some(x) => Some(&x), None => None }
}
pub open spec fn page_resources<'a>(p: Page) -> Option<&'a MaybeRef<Resources>> {
    effective(match p.resources { Some(x) => Some(&x), None => None }, p.parent, sel_resources())
}
// the exec closure `f` computes the attribute selector `sel`
pub open spec fn computes<'a, T, F: Fn(&'a PageTree) -> Option<T>>(f: F, sel: spec_fn(PageTree) -> Option<T>) -> bool {
    forall|p: &'a PageTree, o: Option<T>| f.ensures((p,), o) ==> o == sel(*p)
}
pub open spec fn missing(r: Result<Rectangle>) -> bool { r matches Err(PdfError::MissingEntry { typ }) && typ == "Page" }

//@@ inherit

impl Page {
//@@ Page::media_box
//@@ Page::crop_box
//@@ Page::resources
}

// ------------------------------------------------------------------ File (pdf/src/file.rs)
pub struct Catalog { pub pages: PagesRc }
pub struct Trailer { pub root: RcRef<Catalog> }
pub struct File { pub storage: Storage, pub trailer: Trailer }
// abstract: the resolver of a file reads that file's object store
pub struct StorageResolver { pub w: Ghost<World> }
impl StorageResolver {
    #[verifier::external_body]
    pub fn new(storage: &Storage) -> (r: StorageResolver) ensures r.w@ == storage.w@ { unimplemented!() }
}
impl Resolve for StorageResolver {
    open spec fn world(&self) -> World { self.w@ }
    #[verifier::external_body]
    fn get(&self, r: Ref<PagesNode>) -> (res: Result<RcRef<PagesNode>>) { unimplemented!() }
}
impl File {
    pub open spec fn root_tree(&self) -> PageTree { (*self.trailer.root.data).pages.tree() }
//@@ File::num_pages
//@@ File::get_page
}
}
fn main(){}
