// Repro for finding `count_overflow` (unit pagetree, obligation PageTree::page_limited/panic_free).
// Drop into pdf/tests/ of a scratch copy of /repo and run
//   cargo test --offline -p pdf --test pagetree_count_overflow
// A syntactically valid file whose page tree has three intermediate nodes with /Count 2147483647
// (the largest value the integer reader accepts). Asking for a page number beyond them makes
// `pos + tree.count` (u32) overflow in PageTree::page_limited: with overflow checks (debug / test
// profile) the library panics instead of returning PageOutOfBounds.
use pdf::file::FileOptions;
use pdf::error::PdfError;

fn build(counts: &[u32]) -> Vec<u8> {
    // objects: 1 catalog, 2 root Pages, 3.. intermediate Pages nodes without kids
    let mut objs: Vec<String> = Vec::new();
    objs.push("<< /Type /Catalog /Pages 2 0 R >>".into());
    let kids: Vec<String> = (0..counts.len()).map(|i| format!("{} 0 R", 3 + i)).collect();
    objs.push(format!("<< /Type /Pages /Kids [{}] /Count 1 >>", kids.join(" ")));
    for c in counts {
        objs.push(format!("<< /Type /Pages /Parent 2 0 R /Kids [] /Count {} >>", c));
    }
    let mut out = Vec::new();
    out.extend_from_slice(b"%PDF-1.4\n");
    let mut offsets = Vec::new();
    for (i, o) in objs.iter().enumerate() {
        offsets.push(out.len());
        out.extend_from_slice(format!("{} 0 obj\n{}\nendobj\n", i + 1, o).as_bytes());
    }
    let xref = out.len();
    out.extend_from_slice(format!("xref\n0 {}\n", objs.len() + 1).as_bytes());
    out.extend_from_slice(b"0000000000 65535 f \n");
    for off in offsets {
        out.extend_from_slice(format!("{:010} 00000 n \n", off).as_bytes());
    }
    out.extend_from_slice(format!("trailer\n<< /Size {} /Root 1 0 R >>\nstartxref\n{}\n%%EOF\n", objs.len() + 1, xref).as_bytes());
    out
}

#[test]
fn small_counts_give_out_of_bounds() {
    let file = FileOptions::cached().load(build(&[5, 5, 5])).unwrap();
    match file.get_page(u32::MAX) {
        Err(PdfError::PageOutOfBounds { page_nr, max }) => { assert_eq!(page_nr, u32::MAX); assert_eq!(max, 15); }
        other => panic!("expected PageOutOfBounds, got {:?}", other.map(|_| ())),
    }
}

#[test]
fn huge_counts_must_not_panic() {
    let file = FileOptions::cached().load(build(&[2147483647, 2147483647, 2147483647])).unwrap();
    // expected: an error value (every read call returns a value or an error)
    let r = file.get_page(u32::MAX);
    assert!(r.is_err());
}
