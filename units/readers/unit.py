M = 'pdf/src/object/mod.rs'
P = 'pdf/src/primitive.rs'
RD = ['C18', 'C15']
WR = ['C15']
ST = 'resolve.store()'


def sig(find, replace, rule='R2'):
    return {'where': 'sig', 'rule': rule, 'find': find, 'replace': replace}


# R2: a trait-impl method is emitted as a free generic fn: `Self` spelled out, `&impl Resolve` / `&mut impl Updater` as
# named generics (Verus mistypes `impl Trait` arguments in trait-related specs), `_` parameters named, `+DataSize` /
# `+ std::fmt::Debug` bounds dropped with the impl header
def reader(container, new, ty, ensures, generics='T: Object, ', extra=(), props=RD, **kw):
    rw = [{'where': 'sig', 'rule': 'R2', 'regex': r'\bfn from_primitive\(', 'replace': 'fn from_primitive<%sR__: Resolve>(' % generics},
          {'where': 'sig', 'rule': 'R2', 'regex': r'&impl Resolve', 'replace': '&R__'},
          {'where': 'sig', 'rule': 'R2', 'regex': r'Result<Self>', 'replace': 'Result<%s>' % ty}]
    d = {'kind': 'fn', 'file': M, 'container': container, 'name': 'from_primitive', 'rename': new, 'verus_name': new,
         'props': props, 'ret': 'res', 'ensures': ensures, 'rewrites': rw + list(extra)}
    d.update(kw)
    return d


def writer(container, new, ty, ensures, generics='T: ObjectWrite, ', extra=(), props=WR, **kw):
    rw = [{'where': 'sig', 'rule': 'R2', 'regex': r'\bfn to_primitive\(&self', 'replace': 'fn to_primitive<%sU__: Updater>(this: &%s' % (generics, ty)},
          {'where': 'sig', 'rule': 'R2', 'regex': r'&mut impl Updater', 'replace': '&mut U__'}]
    d = {'kind': 'fn', 'file': M, 'container': container, 'name': 'to_primitive', 'rename': new, 'verus_name': new,
         'props': props, 'ret': 'res', 'ensures': ensures, 'rewrites': rw + list(extra)}
    d.update(kw)
    return d


def acc(name, ensures, extra=(), **kw):
    d = {'kind': 'fn', 'file': P, 'container': r'^impl Primitive$', 'name': name, 'props': RD, 'ensures': ensures,
         'rewrites': list(extra)}
    d.update(kw)
    return d


def meth(container, name, ensures, props=RD, extra=()):
    return {'kind': 'fn', 'file': M, 'container': container, 'name': name, 'props': props, 'ensures': ensures,
            'rewrites': list(extra)}


UNUSED_R = sig('_: &R__', 'unused_r: &R__')
UNUSED_U = sig('_: &mut U__', 'unused_u: &mut U__')
SELF = lambda n=1: {'rule': 'R2', 'regex': r'\bself\b', 'replace': 'this', 'count': n}   # `&self` of the trait method is the free fn's `this`
PUB = lambda *fs: [{'rule': 'R2', 'find': f + ':', 'replace': 'pub ' + f + ':'} for f in fs]

OK_P = 'Ok::<Primitive, PdfError>'

UNIT = {
 'name': 'readers',
 'doc': 'reference / container codecs of object/mod.rs (Ref, RcRef, MaybeRef, Lazy, Vec one-or-many): full reference kept, '
        'dangling references surface as missing-object errors, write-read-write identity',
 'timeout': 600,
 'items': {
  'struct PlainRef': {'kind': 'decl', 'file': M, 'header': r'^pub struct PlainRef$', 'attrs': ['#[derive(Clone, Copy)]']},
  'enum Primitive': {'kind': 'decl', 'file': P, 'header': r'^pub enum Primitive$'},
  'struct Ref': {'kind': 'decl', 'file': M, 'header': r'^pub struct Ref<T>$', 'rewrites': PUB('inner', '_marker')},
  'struct RcRef': {'kind': 'decl', 'file': M, 'header': r'^pub struct RcRef<T>$', 'rewrites': PUB('inner', 'data')},
  'enum MaybeRef': {'kind': 'decl', 'file': M, 'header': r'^pub enum MaybeRef<T>$'},
  'struct Lazy': {'kind': 'decl', 'file': M, 'header': r'^pub struct Lazy<T>$', 'rewrites': PUB('primitive', 'cache', '_marker')},

  # ---- Primitive accessors (same text and contracts as in units/expansions_hw)
  'Primitive::get_debug_name': acc('get_debug_name', [('spec', 'r == debug_name(*self)')]),
  'Primitive::resolve': acc('resolve', [('spec', 'res == deref1(self, r.store())'),
                                        ('never_a_reference', '!(self is Reference) ==> res == %s(self)' % OK_P)], ret='res',
      extra=[sig('r: &impl Resolve', 'r: &R__'), sig('fn resolve(', 'fn resolve<R__: Resolve>(')]),
  'Primitive::into_reference': acc('into_reference',
      [('spec', 'r == (match self { Primitive::Reference(id) => Ok::<PlainRef, PdfError>(id), _ => unexpected("Reference", self) })')]),
  'Primitive::into_array': acc('into_array',
      [('spec', 'r == (match self { Primitive::Array(v) => Ok::<Vec<Primitive>, PdfError>(v), _ => unexpected("Array", self) })')]),

  # ---- Ref<T>: a typed reference IS the plain reference
  'Ref::new': meth(r'^impl<T> Ref<T>$', 'new', [('new_keeps_full_reference', 'r.inner == inner')]),
  'Ref::from_id': meth(r'^impl<T> Ref<T>$', 'from_id', [('from_id_is_generation_0', 'r.inner.id == id && r.inner.gen == 0')]),
  'Ref::get_inner': meth(r'^impl<T> Ref<T>$', 'get_inner', [('get_inner_is_reference', 'r == self.inner')]),
  'RcRef::new': meth(r'^impl<T> RcRef<T>$', 'new', [('new_keeps_full_reference', 'r.inner == inner && r.data == data')]),
  'RcRef::get_ref': meth(r'^impl<T> RcRef<T>$', 'get_ref', [('get_ref_keeps_full_reference', 'r.inner == self.inner')]),

  'plainref_to_primitive': writer(r'^impl ObjectWrite for PlainRef$', 'plainref_to_primitive', 'PlainRef',
      [('wr_value', 'res == %s(Primitive::Reference(*this))' % OK_P)], generics='', extra=[UNUSED_U, SELF()]),
  'ref_from_primitive': reader(r'^impl<T: Object> Object for Ref<T>$', 'ref_from_primitive', 'Ref<T>',
      [('rd_reference', 'p matches Primitive::Reference(id) ==> (res matches Ok(x) && x.inner == id)'),
       ('rd_other_is_error', '!(p is Reference) ==> (res matches Err(e) && e == PdfError::UnexpectedPrimitive { expected: "Reference", found: debug_name(p) })')],
      extra=[UNUSED_R]),
  'ref_to_primitive': writer(r'^impl<T> ObjectWrite for Ref<T>$', 'ref_to_primitive', 'Ref<T>',
      [('wr_full_reference', 'res == %s(Primitive::Reference(this.inner))' % OK_P)], generics='T, ',
      extra=[{'rule': 'R2', 'regex': r'self\.inner\.to_primitive\(update\)', 'replace': 'plainref_to_primitive(&this.inner, update)'}]),

  # ---- RcRef<T>
  'rcref_from_primitive': reader(r'^impl<T: Object \+ std::fmt::Debug \+ DataSize> Object for RcRef<T>$', 'rcref_from_primitive', 'RcRef<T>',
      [('rc_reference_is_typed_load', 'p matches Primitive::Reference(id) ==> res == load::<T>(%s, id)' % ST),
       ('rc_keeps_full_reference', 'p matches Primitive::Reference(id) ==> (res matches Ok(rc) ==> rc.inner == id)'),
       ('rc_dangling_is_missing', 'p matches Primitive::Reference(id) ==> (dangling(%s, id) ==> (res matches Err(e) && is_missing(e)))' % ST),
       ('rc_direct_is_error', '!(p is Reference) ==> (res matches Err(e) && e == PdfError::UnexpectedPrimitive { expected: "Reference", found: debug_name(p) })')]),
  'rcref_to_primitive': writer(r'^impl<T> ObjectWrite for RcRef<T>$', 'rcref_to_primitive', 'RcRef<T>',
      [('wr_full_reference', 'res == %s(Primitive::Reference(this.inner))' % OK_P)], generics='T, ',
      extra=[{'rule': 'R2', 'regex': r'self\.inner\.to_primitive\(update\)', 'replace': 'plainref_to_primitive(&this.inner, update)'}]),

  # ---- MaybeRef<T>
  'mayberef_from_primitive': reader(r'^impl<T: Object\+DataSize> Object for MaybeRef<T>$', 'mayberef_from_primitive', 'MaybeRef<T>',
      [('maybe_spec', 'maybe_reads::<T>(p, %s, res)' % ST),
       ('maybe_keeps_full_reference', 'p matches Primitive::Reference(id) ==> (res matches Ok(m) ==> m matches MaybeRef::Indirect(rc) && rc.inner == id)'),
       ('maybe_dangling_is_missing', 'p matches Primitive::Reference(id) ==> (dangling(%s, id) ==> (res matches Err(e) && is_missing(e)))' % ST),
       ('maybe_direct_error_propagates', '!(p is Reference) ==> (T::reads(p, %s) matches Err(e) ==> res == Err::<MaybeRef<T>, PdfError>(e))' % ST)],
      extra=[{'rule': 'R7', 'regex': r'Shared::new\(', 'replace': 'hoist_shared_new('}]),
  'mayberef_to_primitive': writer(r'^impl<T: ObjectWrite> ObjectWrite for MaybeRef<T>$', 'mayberef_to_primitive', 'MaybeRef<T>',
      [('wr_value', 'res matches Ok(p) ==> p == maybe_writes(*this)'),
       ('wr_indirect_never_fails', '*this is Indirect ==> res is Ok'),
       ('wr_err', 'res is Err ==> (*this matches MaybeRef::Direct(a) && (*a).wfail())')],
      extra=[SELF(),
             {'rule': 'R2', 'regex': r'MaybeRef::Indirect\(r\) => r\.to_primitive\(update\)', 'replace': 'MaybeRef::Indirect(r) => rcref_to_primitive(r, update)'},
             # R2: auto-deref through Arc<T> spelled out
             {'rule': 'R2', 'regex': r'MaybeRef::Direct\(ref inner\) => inner\.to_primitive\(update\)', 'replace': 'MaybeRef::Direct(ref inner) => (**inner).to_primitive(update)'}]),

  # ---- Lazy<T>
  # The memo cell is filled through `&self` (once_cell interior mutability). Model (R8, as units/cachetransp does for the caches):
  # the method takes `&mut self`, so the content of the cell AFTER the call can be stated. Obligations of the first group say what
  # a load on an EMPTY cell answers (C18/C15); the C12 group says the memo is invisible: what the cell holds afterwards is exactly
  # what was handed out (same MaybeRef kind, same reference), a filled cell is handed out unchanged, and -- representation invariant
  # `memo_ok` (the cell is empty or holds what the uncached load of `primitive` answers) -- every call answers as the uncached load.
  'MaybeRef::data': {'kind': 'fn', 'file': M, 'container': r'^impl<T> MaybeRef<T>$', 'name': 'data', 'props': ['C12'],
      'ensures': [('data_is_shared_value', '*r == maybe_data(*self)')]},
  'Lazy::load': {'kind': 'fn', 'file': M, 'container': r'^impl<T: Object \+ DataSize> Lazy<T>$', 'name': 'load', 'props': RD + ['C12'], 'ret': 'res',
      'ensures': [('load_cached', 'old(self).cache.peek() matches Some(m) ==> res == Ok::<MaybeRef<T>, PdfError>(m)'),
                  ('load_spec', 'old(self).cache.peek() is None ==> maybe_reads::<T>(old(self).primitive, %s, res)' % ST),
                  ('load_keeps_full_reference', 'old(self).cache.peek() is None ==> (old(self).primitive matches Primitive::Reference(id) ==> (res matches Ok(m) ==> m matches MaybeRef::Indirect(rc) && rc.inner == id))'),
                  ('load_dangling_is_missing', 'old(self).cache.peek() is None ==> (old(self).primitive matches Primitive::Reference(id) ==> (dangling(%s, id) ==> (res matches Err(e) && is_missing(e))))' % ST),
                  # ---- C12
                  ('memo_is_the_answer', 'old(self).cache.peek() is None ==> (res matches Ok(m) ==> final(self).cache.peek() == Some(m)) && (res is Err ==> final(self).cache.peek() is None)'),
                  ('memo_hit_left_alone', 'old(self).cache.peek() is Some ==> final(self).cache.peek() == old(self).cache.peek()'),
                  ('primitive_kept', 'final(self).primitive == old(self).primitive'),
                  ('answers_as_uncached_load', 'memo_ok(*old(self), %s) ==> maybe_reads::<T>(old(self).primitive, %s, res) && memo_ok(*final(self), %s)' % (ST, ST, ST))],
      'rewrites': [sig('fn load(', 'fn load<R__: Resolve>('), sig('&impl Resolve', '&R__'), sig('(&self,', '(&mut self,', 'R8'),
          {'rule': 'R7', 'count': '*', 'regex': r'(resolve\.get\(.*?\))\.map\(MaybeRef::Indirect\)', 'replace': r'hoist_map_indirect(\1)'},
          {'rule': 'R7', 'count': '*', 'regex': r'(T::from_primitive\([^|]*?\))\.map\(\|o\| MaybeRef::Direct\(Arc::new\(o\)\)\)', 'replace': r'hoist_map_direct(\1)'},
          # R8: the initialiser closure is evaluated in place, on an empty cell only, and its Ok value is what the cell keeps
          # (contract of OnceCell::get_or_try_init); `.cloned()` is part of the two helpers
          {'rule': 'R8', 'count': '*', 'regex': r'self\.cache\.get_or_try_init\(\|\| \{(.*)\}\)\.cloned\(\)',
           'replace': r'{ let cur__ = hoist_cell_get_cloned(&self.cache); match cur__ { Some(w__) => Ok(w__), None => { let init__ = {\1}; hoist_once_init(&mut self.cache, init__) } } }'},
          # other spellings of the same memo (get / compute / set by hand): OnceCell::get, OnceCell::set, MaybeRef::clone are env models
          {'rule': 'R7', 'count': '*', 'regex': r'(?<![\w:])Arc::new\(', 'replace': 'hoist_shared_new('},
      ]},
  'lazy_from_primitive': reader(r'^impl<T: Object> Object for Lazy<T>$', 'lazy_from_primitive', 'Lazy<T>',
      [('lazy_keeps_primitive', 'res matches Ok(l) && l.primitive == p'),
       ('lazy_defers', 'res matches Ok(l) && l.cache.peek() is None')],
      extra=[UNUSED_R, {'rule': 'R2', 'regex': r'Ok\(Self \{', 'replace': 'Ok(Lazy {'}]),
  'lazy_to_primitive': writer(r'^impl<T: ObjectWrite> ObjectWrite for Lazy<T>$', 'lazy_to_primitive', 'Lazy<T>',
      [('wr_is_stored_primitive', 'res == %s(this.primitive)' % OK_P)], extra=[SELF()]),

  # ---- Vec<T>
  'vec_from_primitive': reader(r'^impl<T: Object> Object for Vec<T>$', 'vec_from_primitive', 'Vec<T>',
      [('vec_spec', 'vec_reads::<T>(p, r.store(), res)'),
       ('vec_one_is_singleton', '!(p is Array || p is Null || p is Reference) ==> (T::reads(p, r.store()) matches Ok(v) ==> (res matches Ok(out) && out@ == seq![v]))'),
       ('vec_null_is_empty', 'p is Null ==> (res matches Ok(out) && out@.len() == 0)'),
       ('vec_elements_in_order', 'p matches Primitive::Array(a) ==> (res matches Ok(out) ==> out@.len() == a@.len() && forall|i: int| 0 <= i < a@.len() ==> T::reads(#[trigger] a@[i], r.store()) == Ok::<T, PdfError>(out@[i]))'),
       ('vec_element_error_propagates', 'p matches Primitive::Array(a) ==> (res matches Err(e) ==> exists|i: int| 0 <= i < a@.len() && T::reads(#[trigger] a@[i], r.store()) == Err::<T, PdfError>(e))'),
       ('vec_dangling_is_missing', 'p matches Primitive::Reference(id) ==> (dangling(r.store(), id) ==> (res matches Err(e) && is_missing(e)))')],
      decreases='(if p is Reference { 1nat } else { 0nat })',
      extra=[{'rule': 'R7', 'regex': r'(p\.resolve\(r\)\?\.into_array\(\)\?)\s*\.into_iter\(\)', 'replace': r'hoist_into_iter(\1)'},
             {'rule': 'R1', 'regex': r'\|p\| (T::from_primitive\(p, r\))', 'replace': r'|p: Primitive| -> (o: Result<T>) ensures o == T::reads(p, r.store()) { \1 }'},
             {'rule': 'R2', 'regex': r'Self::from_primitive\(', 'replace': 'vec_from_primitive::<T, R__>('},
             # R1: tautology about the one-element sequence (witness for the quantifiers of reads_all)
             {'rule': 'R1', 'regex': r'\A\{', 'replace': '{\n        proof { assert(seq![p][0] == p); }'},
             {'rule': 'R7', 'count': '*', 'regex': r'vec!\[(.*?\?)\]', 'replace': r'{ let e0__ = \1; hoist_vec1(e0__) }'}]),
  'vec_to_primitive': writer(r'^impl<T: ObjectWrite> ObjectWrite for Vec<T>$', 'vec_to_primitive', 'Vec<T>',
      [('wr_array_in_order', 'res matches Ok(p) ==> p matches Primitive::Array(v) && v@.len() == this@.len() && forall|k: int| 0 <= k < v@.len() ==> #[trigger] v@[k] == this@[k].writes()'),
       ('wr_err', 'res is Err ==> exists|k: int| 0 <= k < this@.len() && (#[trigger] this@[k]).wfail()')],
      extra=[{'rule': 'R7', 'regex': r'Primitive::array::<T, _, _, _>\(self\.iter\(\)(.*?), update\)', 'replace': r'Primitive::array::<T, U__>(hoist_iter(this)\1, update)'}]),
 },
}

# C10 (documents built from scratch reload equal, mechanism "derived dictionary writers incl. indirect fields"): Ref (/Parent, /Kids), RcRef (/Pages, fonts), MaybeRef (/Resources, descendant fonts), Lazy (fonts, annotations), Vec (/Kids, /Contents)
# -- the same obligations also count for C10 (no contract changed).
for k__ in ['Primitive::resolve', 'Primitive::into_reference', 'Primitive::into_array', 'Ref::new', 'Ref::get_inner', 'RcRef::new', 'RcRef::get_ref', 'plainref_to_primitive', 'ref_from_primitive', 'ref_to_primitive', 'rcref_from_primitive', 'rcref_to_primitive', 'mayberef_from_primitive', 'mayberef_to_primitive', 'Lazy::load', 'lazy_from_primitive', 'lazy_to_primitive', 'vec_from_primitive', 'vec_to_primitive']:
    UNIT['items'][k__]['props'] = list(UNIT['items'][k__]['props']) + ['C10']
