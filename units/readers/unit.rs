// Unit `readers` (C18, C15): the hand-written reference / container codecs of pdf/src/object/mod.rs
//   Ref<T>, RcRef<T>, MaybeRef<T>, Lazy<T> (from_primitive / to_primitive / load), Vec<T> (one-or-many), PlainRef writer,
//   and the Primitive accessors they are built from (pdf/src/primitive.rs),
// over an abstract `Resolve` (an object store seen through `resolve` = untyped and `get` = typed) and an abstract
// element type `T` (its own codec as hypothesis).
// Specs are written from ISO 32000-1 7.3.10 (an indirect reference `n g R` denotes the object with object number n AND
// generation g; a reference to an undefined object is a reference to null, not an error) and from the property
// statements C15 (write, read, write again gives the identical primitive) / C18 (a dangling reference must surface as
// an error whose root cause is "missing object", so that an enclosing Option reads the entry as absent -- in strict and
// in tolerant mode: none of the contracts below mentions the parse options).
use vstd::prelude::*;
use std::sync::Arc;
use core::marker::PhantomData;
//@@ INCLUDE _common/error_macros.rs
// R4: `unexpected_primitive!` of pdf/src/error.rs, same control flow (it `return`s the error)
macro_rules! unexpected_primitive {
    ($expected:ident, $found:expr) => ( return Err(PdfError::UnexpectedPrimitive { expected: stringify!($expected), found: $found }) )
}
verus! {
global size_of usize == 8;

//@@ PDFERROR

// ---- env types (not under proof) ------------------------------------------------------------------------------------
pub type ObjNr = u64;
pub type GenNr = u64;
pub type Shared<T> = Arc<T>;
#[verifier::external_body] pub struct PdfString { _p: () }
#[verifier::external_body] pub struct PdfStream { _p: () }
#[verifier::external_body] pub struct Dictionary { _p: () }
#[verifier::external_body] pub struct SmallString { _p: () }

//@@ struct PlainRef
//@@ enum Primitive
//@@ struct Ref
//@@ struct RcRef
//@@ enum MaybeRef
//@@ struct Lazy

impl Clone for Primitive {
    // trusted: #[derive(Clone)] on Primitive
    #[verifier::external_body]
    fn clone(&self) -> (r: Primitive) ensures r == *self { unimplemented!() }
}

// once_cell::sync::OnceCell (abstract): `peek()` is the content at the time of the call.
// Model drops: the cell is filled through `&self` (interior mutability), so the state AFTER get_or_try_init is not
// expressible here; what is stated is which value the call hands out and that the initialiser runs only on an empty cell
// (R8 below: `cell.get_or_try_init(|| BODY)` is read as `match cell.get() { Some(w) => Ok(w), None => hoist_once_init(cell, BODY) }`).
#[verifier::external_body]
#[verifier::accept_recursive_types(A)]
pub struct OnceCell<A> { _p: PhantomData<A> }
impl<A> OnceCell<A> {
    pub uninterp spec fn peek(&self) -> Option<A>;
    #[verifier::external_body]
    pub fn new() -> (r: Self) ensures r.peek() is None { unimplemented!() }
    // `OnceCell::get`
    #[verifier::external_body]
    pub fn get(&self) -> (r: Option<&A>)
        ensures match self.peek() { Some(v) => r matches Some(w) && *w == v, None => r is None }
    { unimplemented!() }
    // `OnceCell::set` (`&self` in once_cell; `&mut self` in the model, see Lazy::load): fills an empty cell, leaves a full one
    // alone and hands the value back
    #[verifier::external_body]
    pub fn set(&mut self, value: A) -> (r: core::result::Result<(), A>)
        ensures
            old(self).peek() is None ==> r is Ok && final(self).peek() == Some(value),
            old(self).peek() is Some ==> r == Err::<(), A>(value) && final(self).peek() == old(self).peek(),
    { unimplemented!() }
}
// `cell.get().cloned()`: the first half of `get_or_try_init(..).cloned()` (Clone for MaybeRef / RcRef: clones the Arc, keeps the
// reference; mod.rs:375, 293)
#[verifier::external_body]
fn hoist_cell_get_cloned<A>(c: &OnceCell<A>) -> (r: Option<A>) ensures r == c.peek() { unimplemented!() }

// ---- the object store behind a `Resolve` ----------------------------------------------------------------------------
#[verifier::external_body] pub struct Store { _p: () }
/// what `resolve(n g R)` yields: the stored object, or the error of looking it up
pub uninterp spec fn obj(st: Store, r: PlainRef) -> Result<Primitive>;
/// what `get::<T>(n g R)` yields: the typed, shared value under its reference
pub uninterp spec fn load<T>(st: Store, r: PlainRef) -> Result<RcRef<T>>;

/// the root cause of an error: context wrappers (`t!` -> Try, derived readers -> FromPrimitive, shared cache -> Shared) removed
pub open spec fn root(e: PdfError) -> PdfError
    decreases e
{
    match e {
        PdfError::Try { source } => root(*source),
        PdfError::FromPrimitive { typ, field, source } => root(*source),
        PdfError::Shared { source } => root(*source),
        x => x,
    }
}
/// free entry, entry never defined (gap), number beyond the table  (== PdfError::is_missing_object, proved in units/option:
/// PdfError::is_missing_object/missing_object_is_root_cause)
pub open spec fn is_missing(e: PdfError) -> bool {
    root(e) is NullRef || root(e) is FreeObject || root(e) is UnspecifiedXRefEntry
}
/// the reference `r` dangles: looking it up fails with a missing-object root cause
pub open spec fn dangling(st: Store, r: PlainRef) -> bool {
    obj(st, r) matches Err(e) && is_missing(e)
}

pub trait Resolve {
    spec fn store(&self) -> Store;
    // pdf/src/object/mod.rs: Resolve::resolve (= resolve_flags(r, ANY, 16)).
    // `never_a_reference`: proved for the crate's resolver in units/guard: StorageResolver::resolve_flags/never_a_reference
    fn resolve(&self, r: PlainRef) -> (res: Result<Primitive>)
        ensures
            res == obj(self.store(), r),
            !(res matches Ok(Primitive::Reference(_)));
    // pdf/src/object/mod.rs: Resolve::get. Proved for the crate's resolver in units/guard:
    //   StorageResolver::get/get_keeps_full_reference, StorageResolver::get/load_error_has_resolve_root
    fn get<T>(&self, r: Ref<T>) -> (res: Result<RcRef<T>>)
        ensures
            res == load::<T>(self.store(), r.inner),
            res matches Ok(rc) ==> rc.inner == r.inner,
            obj(self.store(), r.inner) matches Err(e) ==> (res matches Err(e2) && root(e2) == root(e));
}
pub trait Updater: Sized {}

// abstract element codec (hypothesis)
pub trait Object: Sized {
    spec fn reads(p: Primitive, st: Store) -> Result<Self>;
    fn from_primitive<R: Resolve>(p: Primitive, resolve: &R) -> (r: Result<Self>)
        ensures r == Self::reads(p, resolve.store());
}
pub trait ObjectWrite: Sized {
    spec fn writes(&self) -> Primitive;
    spec fn wfail(&self) -> bool;
    fn to_primitive<U: Updater>(&self, update: &mut U) -> (r: Result<Primitive>)
        ensures
            r matches Ok(p) ==> p == self.writes(),
            r is Err ==> self.wfail();
}

// ---- env: std iterator adaptors (trusted model: the items still to be yielded, in order) -----------------------------
pub struct SeqIter<A> { pub items: Vec<A> }
pub struct MapIter<A, F> { pub items: Vec<A>, pub f: F }
impl<A> SeqIter<A> {
    // core::iter::Iterator::rev on a double-ended iterator
    #[verifier::external_body]
    pub fn rev(self) -> (r: SeqIter<A>) ensures r.items@ == self.items@.reverse() { unimplemented!() }
    // core::iter::Iterator::map
    #[verifier::external_body]
    pub fn map<B, F: Fn(A) -> B>(self, f: F) -> (r: MapIter<A, F>)
        requires forall|i: int| 0 <= i < self.items@.len() ==> f.requires((#[trigger] self.items@[i],))
        ensures r.items == self.items, r.f == f
    { unimplemented!() }
}
impl<A, B, F: Fn(A) -> Result<B>> MapIter<A, F> {
    // core::iter::Iterator::collect::<Result<Vec<B>, E>>: the closure is applied to the items in order; the first Err
    // ends the iteration and is the result, otherwise the Ok values in the same order
    #[verifier::external_body]
    pub fn collect<C>(self) -> (r: Result<Vec<B>>)
        ensures
            r matches Ok(v) ==> v@.len() == self.items@.len()
                && forall|i: int| 0 <= i < v@.len() ==> self.f.ensures((#[trigger] self.items@[i],), Ok::<B, PdfError>(v@[i])),
            r matches Err(e) ==> exists|i: int| 0 <= i < self.items@.len() && self.f.ensures((#[trigger] self.items@[i],), Err::<B, PdfError>(e))
                && forall|j: int| 0 <= j < i ==> exists|b: B| self.f.ensures((#[trigger] self.items@[j],), Ok::<B, PdfError>(b)),
    { unimplemented!() }
}

// ---- R7 helpers (trusted, L0) ---------------------------------------------------------------------------------------
// `v.into_iter()` (alloc::vec::IntoIter: yields the elements front to back)
#[verifier::external_body]
fn hoist_into_iter(v: Vec<Primitive>) -> (r: SeqIter<Primitive>) ensures r.items == v { SeqIter { items: v } }
// `self.iter()` on a Vec (core::slice::Iter: yields references to the elements front to back)
#[verifier::external_body]
fn hoist_iter<'a, T>(v: &'a Vec<T>) -> (r: SeqIter<&'a T>)
    ensures r.items@.len() == v@.len(), forall|i: int| 0 <= i < v@.len() ==> *#[trigger] r.items@[i] == v@[i]
{ SeqIter { items: v.iter().collect() } }
// `vec![x]`
#[verifier::external_body]
fn hoist_vec1<T>(x: T) -> (r: Vec<T>) ensures r@ == seq![x] { vec![x] }
// `res.map(MaybeRef::Indirect)` (constructor as function item)
#[verifier::external_body]
fn hoist_map_indirect<T>(x: Result<RcRef<T>>) -> (r: Result<MaybeRef<T>>)
    ensures r == (match x { Ok(rc) => Ok::<MaybeRef<T>, PdfError>(MaybeRef::Indirect(rc)), Err(e) => Err::<MaybeRef<T>, PdfError>(e) })
{ x.map(MaybeRef::Indirect) }
// `res.map(|o| MaybeRef::Direct(Arc::new(o)))`
#[verifier::external_body]
fn hoist_map_direct<T>(x: Result<T>) -> (r: Result<MaybeRef<T>>)
    ensures
        x matches Err(e) ==> r == Err::<MaybeRef<T>, PdfError>(e),
        x matches Ok(v) ==> r matches Ok(MaybeRef::Direct(a)) && *a == v,
{ x.map(|o| MaybeRef::Direct(Arc::new(o))) }
// the tail of `OnceCell::get_or_try_init(..).cloned()` on an empty cell: an Ok value is stored and (a clone of) it handed out, an
// Err is passed through and the cell stays empty (once_cell 1.x: `let val = f()?; ... self.set(val) ...; Ok(self.get_unchecked())`)
#[verifier::external_body]
fn hoist_once_init<A>(c: &mut OnceCell<A>, v: Result<A>) -> (r: Result<A>)
    requires old(c).peek() is None
    ensures
        v matches Ok(x) ==> r == Ok::<A, PdfError>(x) && final(c).peek() == Some(x),
        v matches Err(e) ==> r == Err::<A, PdfError>(e) && final(c).peek() is None,
{ unimplemented!() }
// trusted: `impl<T> Clone for MaybeRef<T>` (mod.rs: clones the Arc / the RcRef, same kind, same reference, same shared value)
impl<T> Clone for MaybeRef<T> {
    #[verifier::external_body]
    fn clone(&self) -> (r: MaybeRef<T>) ensures r == *self { unimplemented!() }
}
// `Shared::new(x)` = Arc::new
#[verifier::external_body]
fn hoist_shared_new<T>(x: T) -> (r: Shared<T>) ensures *r == x { Shared::new(x) }

// ---- specs: Primitive accessors ---------------------------------------------------------------------------------------
pub open spec fn debug_name(p: Primitive) -> &'static str {
    match p {
        Primitive::Null => "Null", Primitive::Integer(..) => "Integer", Primitive::Number(..) => "Number",
        Primitive::Boolean(..) => "Boolean", Primitive::String(..) => "String", Primitive::Stream(..) => "Stream",
        Primitive::Dictionary(..) => "Dictionary", Primitive::Array(..) => "Array",
        Primitive::Reference(..) => "Reference", Primitive::Name(..) => "Name",
    }
}
pub open spec fn unexpected<T>(expected: &'static str, p: Primitive) -> Result<T> {
    Err(PdfError::UnexpectedPrimitive { expected: expected, found: debug_name(p) })
}
/// an indirect reference stands for the object it refers to (one level: `resolve` never yields a reference)
pub open spec fn deref1(p: Primitive, st: Store) -> Result<Primitive> {
    match p { Primitive::Reference(id) => obj(st, id), _ => Ok(p) }
}

impl Primitive {
//@@ Primitive::get_debug_name
//@@ Primitive::resolve
//@@ Primitive::into_reference
//@@ Primitive::into_array
    // pdf/src/primitive.rs: Primitive::array -- `i.map(|t| t.borrow().to_primitive(update)).collect::<Result<_>>().map(Primitive::Array)`
    // (abstract callee, trusted: FnMut closure over `update`; writes every item in order, the first failure is the result)
    #[verifier::external_body]
    pub fn array<'a, O: ObjectWrite, U: Updater>(i: SeqIter<&'a O>, update: &mut U) -> (r: Result<Primitive>)
        ensures
            r matches Ok(p) ==> p matches Primitive::Array(v) && v@.len() == i.items@.len()
                && forall|k: int| 0 <= k < v@.len() ==> #[trigger] v@[k] == (*i.items@[k]).writes(),
            r is Err ==> exists|k: int| 0 <= k < i.items@.len() && (*#[trigger] i.items@[k]).wfail(),
    { unimplemented!() }
}

// ---- Ref<T> / PlainRef / RcRef<T> ------------------------------------------------------------------------------------
impl<T> Clone for Ref<T> { fn clone(&self) -> (r: Ref<T>) ensures r == *self { *self } }
impl<T> Copy for Ref<T> {}
impl<T> Ref<T> {
//@@ Ref::new
//@@ Ref::from_id
//@@ Ref::get_inner
}
impl<T> RcRef<T> {
//@@ RcRef::new
//@@ RcRef::get_ref
}
//@@ plainref_to_primitive
//@@ ref_from_primitive
//@@ ref_to_primitive
//@@ rcref_from_primitive
//@@ rcref_to_primitive

// ---- MaybeRef<T> ------------------------------------------------------------------------------------------------------
/// ISO 32000-1 7.3.10: where a value of type T is expected, either the value itself (direct) or an indirect reference to
/// it may appear. A reference is loaded under exactly that reference (object number and generation).
pub open spec fn maybe_reads<T: Object>(p: Primitive, st: Store, r: Result<MaybeRef<T>>) -> bool {
    match p {
        Primitive::Reference(id) => match load::<T>(st, id) {
            Ok(rc) => r == Ok::<MaybeRef<T>, PdfError>(MaybeRef::Indirect(rc)),
            Err(e) => r == Err::<MaybeRef<T>, PdfError>(e),
        },
        _ => match T::reads(p, st) {
            Ok(v) => r matches Ok(MaybeRef::Direct(a)) && *a == v,
            Err(e) => r == Err::<MaybeRef<T>, PdfError>(e),
        },
    }
}
/// the primitive form of a MaybeRef: the reference it was loaded under, or the direct value's own form
pub open spec fn maybe_writes<T: ObjectWrite>(m: MaybeRef<T>) -> Primitive {
    match m {
        MaybeRef::Direct(a) => (*a).writes(),
        MaybeRef::Indirect(rc) => Primitive::Reference(rc.inner),
    }
}
/// what `Resolve::get` guarantees about a reference, seen through a MaybeRef reader: the object is handed out under the
/// FULL reference it was asked for, and a failing lookup keeps its root cause
pub open spec fn indirect_facts<T>(p: Primitive, st: Store, r: Result<MaybeRef<T>>) -> bool {
    p matches Primitive::Reference(id) ==> {
        &&& (r matches Ok(m) ==> m matches MaybeRef::Indirect(rc) && rc.inner == id)
        &&& (obj(st, id) matches Err(e) ==> (r matches Err(e2) && root(e2) == root(e)))
    }
}
//@@ mayberef_from_primitive
//@@ mayberef_to_primitive

// ---- Lazy<T> ------------------------------------------------------------------------------------------------------------
/// the shared value of a MaybeRef, whichever kind
pub open spec fn maybe_data<T>(m: MaybeRef<T>) -> Shared<T> {
    match m { MaybeRef::Direct(t) => t, MaybeRef::Indirect(rc) => rc.data }
}
impl<T> MaybeRef<T> {
//@@ MaybeRef::data
}
/// C12 representation invariant of the memo: the cell is empty, or holds what the uncached load of `primitive` answers
pub open spec fn memo_ok<T: Object>(l: Lazy<T>, st: Store) -> bool {
    l.cache.peek() matches Some(m) ==> maybe_reads::<T>(l.primitive, st, Ok::<MaybeRef<T>, PdfError>(m))
}
impl<T: Object> Lazy<T> {
//@@ Lazy::load
}
//@@ lazy_from_primitive
//@@ lazy_to_primitive

// ---- Vec<T>: one-or-many ----------------------------------------------------------------------------------------------
/// ISO 32000-1 (e.g. 7.4.1 /Filter, 7.7.3.3 /Contents "a stream or an array of streams"): where "one or an array of" is
/// allowed, a single object stands for the one-element array; null / absent stands for the empty array.
/// `elems(p)`: the element primitives, in order, of an already dereferenced primitive.
pub open spec fn elems(p: Primitive) -> Seq<Primitive> {
    match p {
        Primitive::Array(v) => v@,
        Primitive::Null => Seq::empty(),
        _ => seq![p],
    }
}
/// every element read in order; the first element that fails is the error of the whole (propagated unchanged)
pub open spec fn reads_all<T: Object>(ps: Seq<Primitive>, st: Store, r: Result<Vec<T>>) -> bool {
    &&& (r matches Ok(v) ==> v@.len() == ps.len() && forall|i: int| 0 <= i < ps.len() ==> T::reads(#[trigger] ps[i], st) == Ok::<T, PdfError>(v@[i]))
    &&& (r matches Err(e) ==> exists|i: int| 0 <= i < ps.len() && T::reads(#[trigger] ps[i], st) == Err::<T, PdfError>(e)
            && forall|j: int| 0 <= j < i ==> T::reads(#[trigger] ps[j], st) is Ok)
    &&& ((forall|i: int| 0 <= i < ps.len() ==> T::reads(#[trigger] ps[i], st) is Ok) ==> r is Ok)
}
pub open spec fn vec_reads<T: Object>(p: Primitive, st: Store, r: Result<Vec<T>>) -> bool {
    match deref1(p, st) {
        Err(e) => r == Err::<Vec<T>, PdfError>(e),
        Ok(q) => reads_all::<T>(elems(q), st, r),
    }
}
//@@ vec_from_primitive
//@@ vec_to_primitive

// ---- C15: write, read, write again gives the identical primitive -- from the specs alone ------------------------------
/// MaybeRef: `7 2 R` is read under `7 2 R` and written back as `7 2 R`; a direct value round-trips iff T's does.
pub proof fn lemma_mayberef_write_read_write<T: Object + ObjectWrite>(m: MaybeRef<T>, st: Store, r: Result<MaybeRef<T>>)
    requires
        maybe_reads::<T>(maybe_writes(m), st, r),
        // hypothesis on T (its own C15 statement), needed for a direct value only
        m matches MaybeRef::Direct(a) ==> !((*a).writes() is Reference)
            && (T::reads((*a).writes(), st) matches Ok(v) ==> v.writes() == (*a).writes()),
        // Resolve::get hands the object out under the reference it was asked for (units/guard)
        forall|id: PlainRef| (#[trigger] load::<T>(st, id)) matches Ok(rc) ==> rc.inner == id,
    ensures
        r matches Ok(m2) ==> maybe_writes(m2) == maybe_writes(m),
{}
/// Vec: the array written for `x` (element k = x[k].writes()) reads back as `x`, element by element, given T's own round trip.
/// One-or-many: a one-element vector is written as a one-element ARRAY (never as the bare element), an empty one as `[]`.
pub proof fn lemma_vec_write_read<T: Object + ObjectWrite>(x: Seq<T>, v: Vec<Primitive>, st: Store, r: Result<Vec<T>>)
    requires
        v@.len() == x.len(),
        forall|k: int| 0 <= k < x.len() ==> #[trigger] v@[k] == x[k].writes() && T::reads(x[k].writes(), st) == Ok::<T, PdfError>(x[k]),
        vec_reads::<T>(Primitive::Array(v), st, r),
    ensures
        r matches Ok(out) && out@ == x,
{
    assert(elems(Primitive::Array(v)) == v@);
    assert(forall|i: int| 0 <= i < v@.len() ==> T::reads(#[trigger] v@[i], st) is Ok);
    assert(r is Ok);
    let out = r->Ok_0;
    assert forall|i: int| 0 <= i < x.len() implies out@[i] == x[i] by {
        assert(T::reads(v@[i], st) == Ok::<T, PdfError>(out@[i]));
    }
    assert(out@ =~= x);
}
}
fn main(){}
