# Unit `tostream` (C10, C04, C05): Stream::{new, new_with_filters, from_compressed, to_pdf_stream} and
# <Stream<I> as ObjectWrite>::to_primitive of pdf/src/object/stream.rs against ISO 32000-1 Table 5 / Table 6. See NOTES.md.
# Verifies completely on /repo + findings/decodeparms_not_paired_fix.diff; on a tree without that fix it fails at
# Stream::to_pdf_stream/panic_free (the `assert!(params.is_none())`) and Stream::to_pdf_stream/decodeparms_paired_by_position.
import re

STM = 'pdf/src/object/stream.rs'
PRIM = 'pdf/src/primitive.rs'
ENC = 'pdf/src/enc.rs'
O = 'pdf/src/object/mod.rs'
CTOR = r'^impl<I: Object> Stream<I>$'
WR = r'^impl<I: ObjectWrite> Stream<I>$'
PROPS = ['C10', 'C04', 'C05', 'C09', 'C20']  # C09/C20: a stream created, updated or imported is written through to_pdf_stream before it is saved

FS = 'self.info.filters@'


# ---- to_pdf_stream is read in BOTH shapes -----------------------------------------------------------------------------
#   pinned (/repo without the fix): `let mut params = None;` ... `assert!(params.is_none()); params = Some(para);` ...
#       `if let Some(para) = params { info.insert("DecodeParms", para); }`
#   fixed (findings/decodeparms_not_paired_fix.diff): `let mut params = Vec::new(); let mut has_params = false;` ... one entry
#       per filter (`Primitive::Null` for a filter without parameters) ... a single dictionary for one filter, else an array
# The loop invariants name `params` (an Option in one shape, a Vec in the other), so their text is chosen from the tree
# under verification; labels and postconditions are the same for both.
# The /DecodeParms loop is recognised by SHAPE, not by its statements (hardening round 3):
#   * `params` starts as `Vec::new()` (fixed) or `None` (pinned)                                       -> which wording of `parms_so_far`
#   * a flag `let mut has_params` exists                                                                 -> `any_parms_so_far` is stated (else there
#     is no variable to state it about; the postcondition `decodeparms_paired_by_position` then has to follow from `parms_so_far` alone)
#   * the loop is a `for <x> in self.info.filters.iter()` / `in &self.info.filters` (any variable name)  -> gets the ghost iterator + invariants
# ONE invariant template serves every loop that appends one entry per filter, whatever statement does the appending (`push` in
# both arms, `push(match ..)`, `extend(Some(..)/None)` -> R7 `hoist_vec_extend_opt`). A body without such a loop (iterator
# map/collect with a closure that captures `update`, ..) gets no loop annotation and is left to the verifier as it is: normally
# UNDECIDED (Verus does not read capturing FnMut closures), never an alarm; the BOUNDED native stand-in decides those.
FOR_HEAD = r'for\s+\w+\s+in\s+(?:self\.info\.filters\.iter\(\)|&self\.info\.filters)\s*\{'


def _shape():
    from vlib import assemble
    try:
        _raw, _sig, body = assemble.locate({'kind': 'fn', 'file': STM, 'container': WR, 'name': 'to_pdf_stream'})
        body = re.sub(r'\s+', ' ', assemble.strip_comments(body))
    except Exception:
        return {'vec': True, 'flag': True, 'loops': 1}        # anchor lost: reported by the framework when it extracts the item itself
    return {'vec': not re.search(r'let mut params\b[^=;]*= None\b', body),
            'flag': bool(re.search(r'let mut has_params\b', body)),
            'loops': len(re.findall(FOR_HEAD, body))}


SHAPE = _shape()
FIXED = SHAPE['vec']
if FIXED:
    PARM_INV = [('parms_so_far', 'params@.len() == it.index@ && forall|k: int| 0 <= k < it.index@ ==> #[trigger] params@[k] == parm_prim(%s[k])' % FS)]
    if SHAPE['flag']:
        PARM_INV.append(('any_parms_so_far', 'has_params == any_parms(%s, it.index@ as int)' % FS))
else:
    PARM_INV = [('parms_so_far', 'params matches Some(p) ==> exists|k: int| 0 <= k < it.index@ && p == parm_prim(#[trigger] %s[k])' % FS),
                ('any_parms_so_far', '(params is Some) == any_parms(%s, it.index@ as int)' % FS)]
# the first `for` over the filters is the /DecodeParms loop (its ordinal among ALL loop keywords of the body is 1 in every shape
# seen so far: it precedes the lazy /Filter chain, which has no loop keyword)
PARM_LOOPS = {1: {'for_ghost': 'it', 'invariant': PARM_INV}} if SHAPE['loops'] >= 1 else {}

OK = 'r matches Ok(out) ==> '
BASE = 'base_of(self.info.info.writes()) matches Some(base) && '

ARC_SIG = {'where': 'sig', 'rule': 'R2', 'find': 'impl Into<Arc<[u8]>>', 'replace': 'impl IntoArcBytes'}


def ctor(name, filters):
    return {'kind': 'fn', 'file': STM, 'container': CTOR, 'name': name, 'props': ['C10', 'C04'],
            'ensures': [('holds_the_bytes', 'r.inner_data matches StreamData::Generated(d) && (*d)@ == data.bytes()'),
                        ('filters_kept', 'r.info.filters@ == %s' % filters),
                        ('info_kept', 'r.info.info == i && r.info.file is None && r.info.file_filters@.len() == 0')],
            'rewrites': [ARC_SIG]}


UNIT = {
 'name': 'tostream',
 'doc': 'Stream -> PdfStream: /Length == byte count, /Filter = the filter names in order (name or array), /DecodeParms paired '
        'position by position (array with nulls), every other entry from the specialised writer; round trip against '
        'units/filterchain as a lemma',
 'tolerances': {
   'TOL_LENGTH_I32': 'Primitive::Integer is an i32: a stream of more than i32::MAX (2 GiB - 1) bytes has no representable /Length; '
                     '`data.len() as _` then wraps instead of failing. Not constrained by C10 (documents of that size are outside '
                     'every quantifier); recorded in NOTES.md as an observation.',
 },
 # BOUNDED native stand-in (vlib/native.py): the real crate, public API, exhaustively enumerated small universe. Decides rewrites of
 # the /DecodeParms loop (and of the reader's decode chain, Stream::data) that the Verus reading leaves UNDECIDED. Never counted as proved.
 'native': {'tests': [
    {'name': 'filter_lists_up_to_3_written_and_read_back', 'code': 'native_stream_roundtrip_bounded.rs',
     'place': 'pdf/tests/verif_tostream_bounded.rs', 'fn': 'Stream::to_pdf_stream', 'props': PROPS, 'tier': 'quick', 'timeout': 900,
     'bound': 'all 585 filter lists of length <= 3 over {ASCIIHexDecode, ASCII85Decode, RunLengthDecode, FlateDecode{defaults}, '
              'FlateDecode{Predictor 12, Columns 3}, LZWDecode{defaults}, LZWDecode{EarlyChange 0}, DCTDecode{ColorTransform 0}} x '
              '{Stream::from_compressed, Stream::new_with_filters} x {to_pdf_stream, to_primitive} with NoUpdate, re-read with '
              'Stream::from_primitive; and each list once through a real Updater (Storage::create, save, FileOptions::load). The 400 lists '
              'without DCTDecode carry a genuine encoding of one of 60 fixed plaintexts (9..68 bytes; hex/85/Flate/LZW encoders of pdf::enc, '
              'RunLength literal-run encoder and PNG row predictor tags 0-4 of the harness); lists with DCTDecode carry 7 arbitrary bytes '
              '(no data check)',
     'contract': '/Length == number of stream bytes; /Filter denotes the Table 6 names of the filters in order; /DecodeParms entry i carries the '
                 'parameter values of filter i (null/missing = defaults; null or empty dictionary for a filter without parameters); raw bytes '
                 'unchanged; the value read back has the same filters and parameters position by position; for the 400 codec lists '
                 'Stream::data == the plaintext for the in-memory stream, the re-read stream and the saved-and-reloaded stream; the reloaded '
                 'stream (data still in the file) written again satisfies the same'},
 ]},
 'items': {
  'struct PlainRef': {'kind': 'decl', 'file': O, 'header': r'^pub struct PlainRef$', 'attrs': ['#[derive(Clone, Copy)]']},
  'enum Primitive': {'kind': 'decl', 'file': PRIM, 'header': r'^pub enum Primitive$'},
  'struct PdfStream': {'kind': 'decl', 'file': PRIM, 'header': r'^pub struct PdfStream$',
     'rewrites': [{'rule': 'R2', 'find': 'pub (crate) inner', 'replace': 'pub inner'}]},
  'enum StreamInner': {'kind': 'decl', 'file': PRIM, 'header': r'^pub enum StreamInner$'},
  'enum StreamFilter': {'kind': 'decl', 'file': ENC, 'header': r'^pub enum StreamFilter$'},
  'struct StreamInfo': {'kind': 'decl', 'file': STM, 'header': r'^pub struct StreamInfo<I>$'},
  'enum StreamData': {'kind': 'decl', 'file': STM, 'header': r'^pub \(crate\) enum StreamData$',
     'rewrites': [{'rule': 'R2', 'find': 'pub (crate) enum', 'replace': 'pub enum'}]},
  'struct Stream': {'kind': 'decl', 'file': STM, 'header': r'^pub struct Stream<I>$',
     'rewrites': [{'rule': 'R2', 'find': 'pub (crate) inner_data', 'replace': 'pub inner_data'}]},

  # ---- constructors: which bytes and which filters a Stream value holds
  'Stream::new_with_filters': ctor('new_with_filters', 'filters@'),
  'Stream::new': ctor('new', 'Seq::<StreamFilter>::empty()'),
  'Stream::from_compressed': dict(ctor('from_compressed', 'filters@'),
     rewrites=[ARC_SIG, {'rule': 'R7', 'find': 'filters.clone()', 'replace': 'hoist_filters_clone(&filters)'}]),

  # ---- the written stream dictionary
  'Stream::to_pdf_stream': {'kind': 'fn', 'file': STM, 'container': WR, 'name': 'to_pdf_stream', 'props': PROPS,
     'attrs': ['#[verifier::loop_isolation(false)]'],
     'ensures': [
        # Table 5 Length; C10 "every stream /Length equal to its byte count"
        ('length_is_byte_count', OK + 'out.info@.dom().contains("Length"@) && ((self.byte_count() <= i32::MAX || !TOL_LENGTH_I32()) ==> '
                                      'out.info@["Length"@] == Primitive::Integer(self.byte_count() as i32))'),
        # Table 5 Filter: name or array of names "in the order in which they are to be applied"
        ('filter_names_in_order', OK + '(' + BASE + 'filter_ok(out.info, base, %s))' % FS),
        # Table 5 DecodeParms: entry i belongs to filter i; null = no parameters
        ('decodeparms_paired_by_position', OK + '(' + BASE + 'parms_ok(out.info, base, %s))' % FS),
        ('other_entries_kept', OK + '(' + BASE + 'others_ok(out.info@, base))'),
        ('data_kept', OK + 'self.carries(out.inner)'),
        ('errors_only_from_writers', 'r is Err ==> write_may_fail(*self)'),
     ],
     'loops': PARM_LOOPS,
     'rewrites': [
        {'rule': 'R1', 'regex': r'\A\s*\{', 'replace': '{ proof { lemma_keys(); }'},
        # R7: head of the lazy adaptor chain; `.map(..)` (and a `.rev()`, should one appear) are the env model's methods
        {'rule': 'R7', 'find': 'let mut filters = self.info.filters.iter()', 'replace': 'let mut filters = hoist_iter(&self.info.filters)'},
        # R1: closure contracts (Verus needs them to know the values a mapped iterator yields); bodies verbatim and checked
        {'rule': 'R1', 'regex': r'\.map\(\|filter\| (match filter \{.*?\})\s*\)\s*\.map\(\|s\| Primitive::Name\(s\.into\(\)\)\)',
         'replace': ".map(|filter: &StreamFilter| -> (nm: &'static str) ensures nm@ == filter_name(*filter), //@L filter_names_in_order\n { \\1 })"
                    r".map(|s: &'static str| -> (np: Primitive) ensures np == Primitive::Name(small(s@)) { Primitive::Name(hoist_small_from_str(s)) })"},
        # R2: turbofish of the env `Primitive::array` (item type = its borrow, iterator type fixed by the env model)
        {'rule': 'R2', 'find': 'Primitive::array::<Primitive, _, _, _>(filters, update)', 'replace': 'Primitive::array::<Primitive, _>(filters, update)'},
        # R7: std calls on Arc<[u8]> / Range<usize>
        {'rule': 'R7', 'regex': r'\bdata\.len\(\)', 'replace': 'hoist_arc_len(data)', 'count': '*'},
        {'rule': 'R7', 'regex': r'\bfile_range\.len\(\)', 'replace': 'hoist_range_len(file_range)', 'count': '*'},
        # R2: the inferred cast target spelled out (`Primitive::Integer(i32)`)
        {'rule': 'R2', 'regex': r' as _\b', 'replace': ' as i32', 'count': '*'},
        {'rule': 'R7', 'find': 'data: data.clone()', 'replace': 'data: hoist_arc_clone(data)'},
        {'rule': 'R7', 'find': 'file_range: file_range.clone()', 'replace': 'file_range: hoist_range_clone(file_range)'},
        # R1 hints (lemmas without `requires` over the spec-side terms)
        {'rule': 'R1', 'regex': r'\n(\s*)let mut filters =',
         'replace': r'\n\1proof { lemma_no_parms(%s, %s.len() as int); }\n\1let mut filters =' % (FS, FS)},
        {'rule': 'R1', 'regex': '(' + FOR_HEAD + ')', 'count': '*',
         'replace': r'\1 proof { lemma_any_parms_step(%s, it.index@ as int + 1); }' % FS},
        # GUARD (count 0): iterator consumers this unit has no model for. vstd lets `.iter().any(|p| ..)` & co. through with an
        # UNCONSTRAINED result, so a correct `if params.iter().any(|p| !matches!(p, Primitive::Null))` would be reported as a failed
        # postcondition (measured, NOTES.md "benign edits"). Such a body is UNDECIDED here; the native stand-in decides it.
        {'rule': 'R7', 'count': 0, 'replace': '',
         'regex': r'\.(?:any|all|find|find_map|position|rposition|fold|try_fold|filter|filter_map|flat_map|count|last|nth|zip|enumerate|skip|take|'
                  r'chain|sum|max|min|for_each|collect)\s*(?:::<[^()]*>)?\s*\('},
        # R7: `v.extend(<Option>)` (IntoIterator for Option: appends the value, if any)
        {'rule': 'R7', 'regex': r'\b(\w+)\.extend\(', 'replace': r'hoist_vec_extend_opt(&mut \1, ', 'count': '*'},
     ]},

  'Stream::to_primitive': {'kind': 'fn', 'file': STM, 'container': r'^impl<I: ObjectWrite> ObjectWrite for Stream<I>$', 'name': 'to_primitive',
     'props': PROPS,
     'ensures': [('writes_the_pdf_stream', 'r matches Ok(p) ==> (p matches Primitive::Stream(out) && written_ok(*self, out))'),
                 ('errors_only_from_writers', 'r is Err ==> write_may_fail(*self)')],
     'rewrites': [{'where': 'sig', 'rule': 'R2', 'regex': r'\Afn ', 'replace': 'pub fn '},
                  {'rule': 'R7', 'find': 'self.to_pdf_stream(update).map(Primitive::Stream)', 'replace': 'hoist_map_stream(self.to_pdf_stream(update))'}]},
 },
}
