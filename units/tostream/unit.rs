// Unit `tostream` (C10, C04, C05): the stream-dictionary writer of pdf/src/object/stream.rs
//   Stream::new / Stream::new_with_filters / Stream::from_compressed      constructors (what bytes / which filters a Stream holds)
//   Stream::to_pdf_stream                                                  the written PdfStream: /Length, /Filter, /DecodeParms
//   <Stream<I> as ObjectWrite>::to_primitive                               = Primitive::Stream(to_pdf_stream)
// against ISO 32000-1:2008 7.3.8.2 Table 5 (entries common to all stream dictionaries) and 7.4.1 Table 6 (filter names).
// The round trip of the (filter, parameters) list through StreamInfo::from_primitive is stated as a lemma against the reader
// model of units/filterchain (`filter_i_gets_parms_i`).
use vstd::prelude::*;
use core::ops::Range;
use std::sync::Arc;
//@@ INCLUDE _common/error_macros.rs
verus! {
global size_of usize == 8;

//@@ PDFERROR
//@@ DEVIATIONS
pub type ObjNr = u64;
pub type GenNr = u64;

//@@ struct PlainRef

// ---- environment: primitives -----------------------------------------------------------------------------------------
#[verifier::external_body] pub struct PdfString { _p: () }
#[verifier::external_body] pub struct FileSpec { _p: () }
// primitive.rs `Name(SmallString)`: only the text matters
pub struct SmallString { pub text: Ghost<Seq<char>> }
pub open spec fn small(text: Seq<char>) -> SmallString { SmallString { text: Ghost(text) } }

//@@ enum Primitive
//@@ struct PdfStream
//@@ enum StreamInner

// primitive.rs:114 -- an IndexMap<Name, Primitive>; modelled by the map of its entries (as in units build / filterchain / mapfont)
pub type DMap = Map<Seq<char>, Primitive>;
pub struct Dictionary { pub m: Ghost<DMap> }
impl Dictionary {
    pub open spec fn view(&self) -> DMap { self.m@ }
    /// the value of an entry, absent == the null object (ISO 32000-1 7.3.7)
    pub open spec fn entry(&self, key: &str) -> Primitive { if self@.dom().contains(key@) { self@[key@] } else { Primitive::Null } }
    #[verifier::external_body]
    pub fn new() -> (r: Dictionary) ensures r@ == Map::<Seq<char>, Primitive>::empty() { unimplemented!() }
    // primitive.rs:133 `insert(&mut self, key: impl Into<Name>, val: impl Into<Primitive>)` = IndexMap::insert
    #[verifier::external_body]
    pub fn insert(&mut self, key: &str, val: Primitive) -> (r: Option<Primitive>)
        ensures final(self)@ == old(self)@.insert(key@, val)
    { unimplemented!() }
}

// ---- environment: writers ---------------------------------------------------------------------------------------------
pub trait Updater {}
// object/mod.rs `trait ObjectWrite`: what a value writes (as in units expansions_hw / mapfont: a function of the value; writers
// that allocate objects through the updater are outside this model -- the filter parameters and the filter names do not)
pub trait ObjectWrite: Sized {
    spec fn writes(&self) -> Primitive;
    spec fn wfail(&self) -> bool;
    fn to_primitive<U: Updater>(&self, update: &mut U) -> (r: Result<Primitive>)
        ensures
            r matches Ok(p) ==> p == self.writes(),
            r is Err ==> self.wfail();
}
// object/mod.rs:675 `impl ObjectWrite for Primitive { Ok(self.clone()) }`
impl ObjectWrite for Primitive {
    open spec fn writes(&self) -> Primitive { *self }
    open spec fn wfail(&self) -> bool { false }
    #[verifier::external_body] fn to_primitive<U: Updater>(&self, update: &mut U) -> (r: Result<Primitive>) { unimplemented!() }
}
// the filter parameter types (enc.rs): `#[derive(ObjectWrite)]` on a struct = `to_dict(..).map(Primitive::Dictionary)`
// (pdf_derive/src/lib.rs:762; under contract in units expansions_all_*): a dictionary, or an error
#[verifier::external_body] pub struct LZWFlateParams { _p: () }
#[verifier::external_body] pub struct DCTDecodeParams { _p: () }
#[verifier::external_body] pub struct CCITTFaxDecodeParams { _p: () }
#[verifier::external_body] pub struct JBIG2DecodeParams { _p: () }
pub uninterp spec fn lzwflate_dict(p: LZWFlateParams) -> Dictionary;
pub uninterp spec fn lzwflate_wfail(p: LZWFlateParams) -> bool;
impl ObjectWrite for LZWFlateParams {
    open spec fn writes(&self) -> Primitive { Primitive::Dictionary(lzwflate_dict(*self)) }
    open spec fn wfail(&self) -> bool { lzwflate_wfail(*self) }
    #[verifier::external_body] fn to_primitive<U: Updater>(&self, update: &mut U) -> (r: Result<Primitive>) { unimplemented!() }
}
pub uninterp spec fn dct_dict(p: DCTDecodeParams) -> Dictionary;
pub uninterp spec fn dct_wfail(p: DCTDecodeParams) -> bool;
impl ObjectWrite for DCTDecodeParams {
    open spec fn writes(&self) -> Primitive { Primitive::Dictionary(dct_dict(*self)) }
    open spec fn wfail(&self) -> bool { dct_wfail(*self) }
    #[verifier::external_body] fn to_primitive<U: Updater>(&self, update: &mut U) -> (r: Result<Primitive>) { unimplemented!() }
}
pub uninterp spec fn ccitt_dict(p: CCITTFaxDecodeParams) -> Dictionary;
pub uninterp spec fn ccitt_wfail(p: CCITTFaxDecodeParams) -> bool;
impl ObjectWrite for CCITTFaxDecodeParams {
    open spec fn writes(&self) -> Primitive { Primitive::Dictionary(ccitt_dict(*self)) }
    open spec fn wfail(&self) -> bool { ccitt_wfail(*self) }
    #[verifier::external_body] fn to_primitive<U: Updater>(&self, update: &mut U) -> (r: Result<Primitive>) { unimplemented!() }
}
pub uninterp spec fn jbig2_dict(p: JBIG2DecodeParams) -> Dictionary;
pub uninterp spec fn jbig2_wfail(p: JBIG2DecodeParams) -> bool;
impl ObjectWrite for JBIG2DecodeParams {
    open spec fn writes(&self) -> Primitive { Primitive::Dictionary(jbig2_dict(*self)) }
    open spec fn wfail(&self) -> bool { jbig2_wfail(*self) }
    #[verifier::external_body] fn to_primitive<U: Updater>(&self, update: &mut U) -> (r: Result<Primitive>) { unimplemented!() }
}

//@@ enum StreamFilter
//@@ struct StreamInfo
//@@ enum StreamData
//@@ struct Stream

// ---- environment: std iterator adaptors over PURE closures (trusted; as in units readers / codecs2) ---------------------
// `slice.iter().map(f).map(g)`: a lazy iterator; the ghost sequence `rest` = the items still to be yielded. For `Fn`
// closures without side effects the i-th item of `map(f)` is a value the closure may return for the i-th input.
#[verifier::external_body]
#[verifier::reject_recursive_types(A)]
pub struct LazyIter<A> { _p: core::marker::PhantomData<A> }
impl<A> LazyIter<A> {
    pub uninterp spec fn rest(&self) -> Seq<A>;
    // core::iter::Iterator::map
    #[verifier::external_body]
    pub fn map<B, F: Fn(A) -> B>(self, f: F) -> (r: LazyIter<B>)
        requires forall|i: int| 0 <= i < self.rest().len() ==> f.requires((#[trigger] self.rest()[i],))
        ensures r.rest().len() == self.rest().len(),
            forall|i: int| 0 <= i < self.rest().len() ==> f.ensures((self.rest()[i],), #[trigger] r.rest()[i])
    { unimplemented!() }
    // core::iter::Iterator::rev (double-ended): not in the source; a shape the order obligation must see with its true meaning
    #[verifier::external_body]
    pub fn rev(self) -> (r: LazyIter<A>) ensures r.rest() == self.rest().reverse() { unimplemented!() }
    // core::iter::Iterator::next
    #[verifier::external_body]
    pub fn next(&mut self) -> (r: Option<A>)
        ensures
            old(self).rest().len() == 0 ==> r is None && final(self).rest() == old(self).rest(),
            old(self).rest().len() > 0 ==> r == Some(old(self).rest()[0]) && final(self).rest() == old(self).rest().skip(1)
    { unimplemented!() }
}
// R7: `self.info.filters.iter()` as the head of the adaptor chain (core::slice::Iter: references to the elements, front to back)
#[verifier::external_body]
fn hoist_iter<'a>(v: &'a Vec<StreamFilter>) -> (r: LazyIter<&'a StreamFilter>)
    ensures r.rest().len() == v@.len(), forall|i: int| 0 <= i < v@.len() ==> *#[trigger] r.rest()[i] == v@[i]
{ unimplemented!() /* v.iter() */ }
// R7: `s.into()` at type `&str -> SmallString` (istring: copies the text)
#[verifier::external_body]
fn hoist_small_from_str(s: &str) -> (r: SmallString) ensures r == small(s@) { unimplemented!() /* s.into() */ }
// R7: `range.len()` (ExactSizeIterator for Range<usize>)
#[verifier::external_body]
fn hoist_range_len(x: &Range<usize>) -> (r: usize) ensures r == range_len(*x) { x.len() }
#[verifier::external_body]
fn hoist_range_clone(x: &Range<usize>) -> (r: Range<usize>) ensures r == *x { x.clone() }
// R7: `data.len()` / `data.clone()` on an `Arc<[u8]>` (auto-deref to the slice; Arc::clone shares the same bytes)
#[verifier::external_body]
fn hoist_arc_len(a: &Arc<[u8]>) -> (r: usize) ensures r == (**a)@.len() { a.len() }
#[verifier::external_body]
fn hoist_arc_clone(a: &Arc<[u8]>) -> (r: Arc<[u8]>) ensures r == *a { a.clone() }
// R7: `filters.clone()` on a Vec<StreamFilter> (derive(Clone) on the enum and on the parameter structs: structural copy)
#[verifier::external_body]
fn hoist_filters_clone(v: &Vec<StreamFilter>) -> (r: Vec<StreamFilter>) ensures r@ == v@ { unimplemented!() /* v.clone() */ }
// R7: `v.extend(opt)` at type `Vec<T>::extend::<Option<T>>` (IntoIterator for Option: yields the value once, or nothing)
#[verifier::external_body]
fn hoist_vec_extend_opt<T>(v: &mut Vec<T>, o: Option<T>)
    ensures final(v)@ == (match o { Some(x) => old(v)@.push(x), None => old(v)@ })
{ v.extend(o) }
// R7: `res.map(Primitive::Stream)` (constructor as function item)
#[verifier::external_body]
fn hoist_map_stream(x: Result<PdfStream>) -> (r: Result<Primitive>)
    ensures r == (match x { Ok(s) => Ok::<Primitive, PdfError>(Primitive::Stream(s)), Err(e) => Err::<Primitive, PdfError>(e) })
{ x.map(Primitive::Stream) }
// `data: impl Into<Arc<[u8]>>` (Vec<u8>, &[u8], Arc<[u8]>, ..): the bytes the argument stands for
pub trait IntoArcBytes: Sized {
    spec fn bytes(&self) -> Seq<u8>;
    fn into(self) -> (r: Arc<[u8]>) ensures (*r)@ == self.bytes();
}

impl Primitive {
    // primitive.rs:78 `Primitive::array`: `i.map(|t| t.borrow().to_primitive(update)).collect::<Result<_>>().map(Primitive::Array)`
    // (abstract callee, trusted as in units readers: every item written in order, the first failure is the result)
    #[verifier::external_body]
    pub fn array<O: ObjectWrite, U: Updater>(i: LazyIter<O>, update: &mut U) -> (r: Result<Primitive>)
        ensures
            r matches Ok(p) ==> p matches Primitive::Array(v) && v@.len() == i.rest().len()
                && forall|k: int| 0 <= k < v@.len() ==> #[trigger] v@[k] == i.rest()[k].writes(),
            r is Err ==> exists|k: int| 0 <= k < i.rest().len() && (#[trigger] i.rest()[k]).wfail(),
    { unimplemented!() }
}

// =====================================================================================================================
// Spec, written from ISO 32000-1:2008 7.3.8.2 Table 5 and 7.4.1 Table 6. Nothing below is derived from the code.
// =====================================================================================================================
/// Table 6 "Standard filters": FILTER name
pub open spec fn filter_name(f: StreamFilter) -> Seq<char> {
    match f {
        StreamFilter::ASCIIHexDecode => "ASCIIHexDecode"@,
        StreamFilter::ASCII85Decode => "ASCII85Decode"@,
        StreamFilter::LZWDecode(_) => "LZWDecode"@,
        StreamFilter::FlateDecode(_) => "FlateDecode"@,
        StreamFilter::RunLengthDecode => "RunLengthDecode"@,
        StreamFilter::CCITTFaxDecode(_) => "CCITTFaxDecode"@,
        StreamFilter::JBIG2Decode(_) => "JBIG2Decode"@,
        StreamFilter::DCTDecode(_) => "DCTDecode"@,
        StreamFilter::JPXDecode => "JPXDecode"@,
        StreamFilter::Crypt => "Crypt"@,
    }
}
pub open spec fn name_prim(f: StreamFilter) -> Primitive { Primitive::Name(small(filter_name(f))) }
/// Table 6 column "Parameters": the parameter dictionary a filter value carries, if any (Crypt's are not held by this library)
pub open spec fn parm_dict(f: StreamFilter) -> Option<Dictionary> {
    match f {
        StreamFilter::LZWDecode(p) => Some(lzwflate_dict(p)),
        StreamFilter::FlateDecode(p) => Some(lzwflate_dict(p)),
        StreamFilter::DCTDecode(p) => Some(dct_dict(p)),
        StreamFilter::CCITTFaxDecode(p) => Some(ccitt_dict(p)),
        StreamFilter::JBIG2Decode(p) => Some(jbig2_dict(p)),
        _ => None,
    }
}
/// Table 5, DecodeParms: "either the parameter dictionary for that filter, or the null object if that filter has no parameters"
pub open spec fn parm_prim(f: StreamFilter) -> Primitive {
    match parm_dict(f) { Some(d) => Primitive::Dictionary(d), None => Primitive::Null }
}
pub open spec fn parm_wfail(f: StreamFilter) -> bool {
    match f {
        StreamFilter::LZWDecode(p) => lzwflate_wfail(p),
        StreamFilter::FlateDecode(p) => lzwflate_wfail(p),
        StreamFilter::DCTDecode(p) => dct_wfail(p),
        StreamFilter::CCITTFaxDecode(p) => ccitt_wfail(p),
        StreamFilter::JBIG2Decode(p) => jbig2_wfail(p),
        _ => false,
    }
}
/// some filter among the first n carries parameters
pub open spec fn any_parms(fs: Seq<StreamFilter>, n: int) -> bool
    decreases n
{
    if n <= 0 { false } else { any_parms(fs, n - 1) || parm_dict(fs[n - 1]) is Some }
}
pub open spec fn any_parm_wfail(fs: Seq<StreamFilter>) -> bool { exists|k: int| 0 <= k < fs.len() && parm_wfail(#[trigger] fs[k]) }

/// Table 5: "Filter: name or array ... The name of a filter ... or an array of zero, one or several names";
/// "DecodeParms: dictionary or array ... A parameter dictionary or an array of such dictionaries": the list a value denotes
/// (null / absent: no element; an array: its elements in order; anything else: that one element)
pub open spec fn elems(p: Primitive) -> Seq<Primitive> {
    match p { Primitive::Null => Seq::<Primitive>::empty(), Primitive::Array(v) => v@, _ => seq![p] }
}
/// Table 5, DecodeParms: "an array with one entry for each filter: either the parameter dictionary for that filter, or the
/// null object ... If none of the filters have parameters, or if all their parameters have default values, the DecodeParms
/// entry may be omitted": the parameters of filter i are entry i; a missing entry i is the null object
pub open spec fn entry_i(s: Seq<Primitive>, i: int) -> Primitive { if 0 <= i < s.len() { s[i] } else { Primitive::Null } }

pub open spec fn range_len(r: Range<usize>) -> usize { if r.start <= r.end { (r.end - r.start) as usize } else { 0 } }

impl<I> Stream<I> {
    /// the number of bytes between `stream` and `endstream` that a writer emits for this value: the bytes held in memory
    /// (written verbatim by PdfStream::serialize, unit primser) or the extent of the original bytes in the source file
    pub open spec fn byte_count(&self) -> int {
        match self.inner_data {
            StreamData::Generated(data) => (*data)@.len() as int,
            StreamData::Original(range, _) => range_len(range) as int,
        }
    }
    pub open spec fn carries(&self, inner: StreamInner) -> bool {
        match self.inner_data {
            StreamData::Generated(data) => inner == (StreamInner::Pending { data: data }),
            StreamData::Original(range, id) => inner == (StreamInner::InFile { id: id, file_range: range }),
        }
    }
}
/// what the specialised part `I` of the stream dictionary writes: a dictionary, or null for "no entries" (e.g. `()`)
pub open spec fn base_of(p: Primitive) -> Option<DMap> {
    match p { Primitive::Dictionary(d) => Some(d@), Primitive::Null => Some(Map::<Seq<char>, Primitive>::empty()), _ => None }
}

// ---- the written stream dictionary (Table 5), obligation by obligation -------------------------------------------------
/// "Length (Required) The number of bytes from the beginning of the line following the keyword stream to the last byte just
/// before the keyword endstream". (Primitive::Integer is an i32: a count above i32::MAX has no representation, TOL_LENGTH_I32)
pub open spec fn length_ok(d: DMap, n: int) -> bool {
    d.dom().contains("Length"@) && (n <= i32::MAX ==> d["Length"@] == Primitive::Integer(n as i32))
}
/// "Filter (Optional) ... Multiple filters shall be specified in the order in which they are to be applied."
pub open spec fn filter_ok(d: Dictionary, base: DMap, fs: Seq<StreamFilter>) -> bool {
    if fs.len() == 0 { d@.dom().contains("Filter"@) == base.dom().contains("Filter"@) && (base.dom().contains("Filter"@) ==> d@["Filter"@] == base["Filter"@]) }
    else {
        d@.dom().contains("Filter"@) && elems(d@["Filter"@]).len() == fs.len()
        && forall|i: int| 0 <= i < fs.len() ==> #[trigger] elems(d@["Filter"@])[i] == name_prim(fs[i])
    }
}
/// DecodeParms: filter i finds its own parameters at position i (null / nothing: it has none)
pub open spec fn parms_ok(d: Dictionary, base: DMap, fs: Seq<StreamFilter>) -> bool {
    if !any_parms(fs, fs.len() as int) {
        d@.dom().contains("DecodeParms"@) == base.dom().contains("DecodeParms"@) && (base.dom().contains("DecodeParms"@) ==> d@["DecodeParms"@] == base["DecodeParms"@])
    } else {
        d@.dom().contains("DecodeParms"@)
        && forall|i: int| 0 <= i < fs.len() ==> #[trigger] entry_i(elems(d@["DecodeParms"@]), i) == parm_prim(fs[i])
    }
}
/// every other entry is the one the specialised writer `I` produced
pub open spec fn others_ok(d: DMap, base: DMap) -> bool {
    forall|k: Seq<char>| k != "Length"@ && k != "Filter"@ && k != "DecodeParms"@ ==>
        (#[trigger] d.dom().contains(k) == base.dom().contains(k) && (base.dom().contains(k) ==> d[k] == base[k]))
}
pub open spec fn written_ok<I: ObjectWrite>(s: Stream<I>, out: PdfStream) -> bool {
    base_of(s.info.info.writes()) matches Some(base)
    && length_ok(out.info@, s.byte_count())
    && filter_ok(out.info, base, s.info.filters@)
    && parms_ok(out.info, base, s.info.filters@)
    && others_ok(out.info@, base)
    && s.carries(out.inner)
}
/// the only reasons for an error: the specialised writer fails or does not write a dictionary, a parameter writer fails
pub open spec fn write_may_fail<I: ObjectWrite>(s: Stream<I>) -> bool {
    s.info.info.wfail() || base_of(s.info.info.writes()) is None || any_parm_wfail(s.info.filters@)
}

// ---- string literals (distinct keys / names) ---------------------------------------------------------------------------
pub proof fn lemma_keys()
    ensures "Length"@ != "Filter"@, "Length"@ != "DecodeParms"@, "Filter"@ != "DecodeParms"@
{
    reveal_strlit("Length"); reveal_strlit("Filter"); reveal_strlit("DecodeParms");
    assert("Length"@.len() == 6 && "Filter"@.len() == 6 && "DecodeParms"@.len() == 11);
    assert("Length"@[0] == 'L' && "Filter"@[0] == 'F');
}
pub proof fn lemma_any_parms_step(fs: Seq<StreamFilter>, n: int)
    ensures n >= 1 ==> any_parms(fs, n) == (any_parms(fs, n - 1) || parm_dict(fs[n - 1]) is Some),
        !any_parms(fs, 0)
{}
pub proof fn lemma_no_parms(fs: Seq<StreamFilter>, n: int)
    ensures 0 <= n <= fs.len() && !any_parms(fs, n) ==> forall|k: int| 0 <= k < n ==> parm_dict(#[trigger] fs[k]) is None
    decreases n
{
    if n > 0 { lemma_no_parms(fs, n - 1); }
}
pub proof fn lemma_single_elem(p: Primitive)
    ensures !(p is Null) && !(p is Array) ==> elems(p) =~= seq![p]
{}

// =====================================================================================================================
// extracted functions
// =====================================================================================================================
impl<I: ObjectWrite> Stream<I> {
//@@ Stream::new_with_filters
//@@ Stream::new
//@@ Stream::from_compressed
//@@ Stream::to_pdf_stream
// R2: the trait method `<Stream<I> as ObjectWrite>::to_primitive` emitted as an inherent fn
//@@ Stream::to_primitive
}

// =====================================================================================================================
// Round trip through the READER, against the model of units/filterchain (StreamInfo::from_primitive, obligation
// `filter_i_gets_parms_i`): info.filters[i] == filter_of(names[i], parms_for(parms, i)) where names / parms are the
// /Filter and /DecodeParms entries read as lists (`Vec<Name>`, `Vec<Option<Dictionary>>`).
// The definitions of `parms_for` and `filter_of` below are filterchain's, restated (same text; its Store argument dropped:
// the values written here contain no references).
// =====================================================================================================================
#[verifier::external_body] pub struct Name { _p: () }
pub uninterp spec fn name_chars(n: Name) -> Seq<char>;
pub uninterp spec fn empty_dict() -> Dictionary;
/// filterchain: parms_for
pub open spec fn parms_for(parms: Seq<Option<Dictionary>>, i: int) -> Dictionary {
    if 0 <= i < parms.len() && parms[i] is Some { parms[i].unwrap() } else { empty_dict() }
}
// the parameter READERS (derived `Object` impls, units expansions_all_*): functions of the dictionary
pub uninterp spec fn lzwflate_reads(p: Primitive) -> Result<LZWFlateParams>;
pub uninterp spec fn dct_reads(p: Primitive) -> Result<DCTDecodeParams>;
pub uninterp spec fn ccitt_reads(p: Primitive) -> Result<CCITTFaxDecodeParams>;
pub uninterp spec fn jbig2_reads(p: Primitive) -> Result<JBIG2DecodeParams>;
/// filterchain: filter_of
pub open spec fn filter_of(kind: Seq<char>, params: Dictionary) -> Option<StreamFilter> {
    let pd = Primitive::Dictionary(params);
    if kind == "ASCIIHexDecode"@ { Some(StreamFilter::ASCIIHexDecode) }
    else if kind == "ASCII85Decode"@ { Some(StreamFilter::ASCII85Decode) }
    else if kind == "LZWDecode"@ { match lzwflate_reads(pd) { Ok(p) => Some(StreamFilter::LZWDecode(p)), Err(_) => None } }
    else if kind == "FlateDecode"@ { match lzwflate_reads(pd) { Ok(p) => Some(StreamFilter::FlateDecode(p)), Err(_) => None } }
    else if kind == "RunLengthDecode"@ { Some(StreamFilter::RunLengthDecode) }
    else if kind == "CCITTFaxDecode"@ { match ccitt_reads(pd) { Ok(p) => Some(StreamFilter::CCITTFaxDecode(p)), Err(_) => None } }
    else if kind == "JBIG2Decode"@ { match jbig2_reads(pd) { Ok(p) => Some(StreamFilter::JBIG2Decode(p)), Err(_) => None } }
    else if kind == "DCTDecode"@ { match dct_reads(pd) { Ok(p) => Some(StreamFilter::DCTDecode(p)), Err(_) => None } }
    else if kind == "JPXDecode"@ { Some(StreamFilter::JPXDecode) }
    else if kind == "Crypt"@ { Some(StreamFilter::Crypt) }
    else { None }
}
/// `Vec<Name>::from_primitive` on the written /Filter value (object/mod.rs:609 `impl Object for Vec<T>`: null -> no element,
/// array -> its elements in order, anything else -> that one element; Name reader: the text of a name object):
/// `names` is what that reader returns
pub open spec fn names_read(filter_entry: Primitive, names: Seq<Name>) -> bool {
    names.len() == elems(filter_entry).len()
    && forall|i: int| 0 <= i < names.len() ==> (#[trigger] elems(filter_entry)[i] matches Primitive::Name(s) && s == small(name_chars(names[i])))
}
/// `Vec<Option<Dictionary>>::from_primitive` on the written /DecodeParms value (element reader object/mod.rs:743
/// `impl Object for Option<T>`: null -> None; a dictionary -> Some(it))
pub open spec fn parms_read(parms_entry: Primitive, parms: Seq<Option<Dictionary>>) -> bool {
    parms.len() == elems(parms_entry).len()
    && forall|i: int| 0 <= i < parms.len() ==> match #[trigger] elems(parms_entry)[i] {
        Primitive::Null => parms[i] is None,
        Primitive::Dictionary(d) => parms[i] == Some(d),
        _ => false }
}
/// the parameter types round-trip through their derived writer / reader (units expansions_all_*: `rt_strong`), and the
/// reader maps "no entries" to a value this filter writes back the same way -- only needed for filters WITH parameters
pub open spec fn parm_roundtrips(f: StreamFilter) -> bool {
    match f {
        StreamFilter::LZWDecode(p) => lzwflate_reads(Primitive::Dictionary(lzwflate_dict(p))) == Ok::<LZWFlateParams, PdfError>(p),
        StreamFilter::FlateDecode(p) => lzwflate_reads(Primitive::Dictionary(lzwflate_dict(p))) == Ok::<LZWFlateParams, PdfError>(p),
        StreamFilter::DCTDecode(p) => dct_reads(Primitive::Dictionary(dct_dict(p))) == Ok::<DCTDecodeParams, PdfError>(p),
        StreamFilter::CCITTFaxDecode(p) => ccitt_reads(Primitive::Dictionary(ccitt_dict(p))) == Ok::<CCITTFaxDecodeParams, PdfError>(p),
        StreamFilter::JBIG2Decode(p) => jbig2_reads(Primitive::Dictionary(jbig2_dict(p))) == Ok::<JBIG2DecodeParams, PdfError>(p),
        _ => true,
    }
}
pub proof fn lemma_filter_names_distinct()
    ensures
        "ASCIIHexDecode"@.len() == 14,
        "ASCII85Decode"@.len() == 13,
        "LZWDecode"@.len() == 9,
        "FlateDecode"@.len() == 11,
        "RunLengthDecode"@.len() == 15,
        "CCITTFaxDecode"@.len() == 14,
        "JBIG2Decode"@.len() == 11,
        "DCTDecode"@.len() == 9,
        "JPXDecode"@.len() == 9,
        "Crypt"@.len() == 5,
        "ASCIIHexDecode"@ != "LZWDecode"@,
        "ASCIIHexDecode"@ != "FlateDecode"@,
        "ASCIIHexDecode"@ != "RunLengthDecode"@,
        "ASCIIHexDecode"@ != "CCITTFaxDecode"@,
        "ASCIIHexDecode"@ != "JBIG2Decode"@,
        "ASCIIHexDecode"@ != "DCTDecode"@,
        "ASCIIHexDecode"@ != "JPXDecode"@,
        "ASCIIHexDecode"@ != "Crypt"@,
        "ASCII85Decode"@ != "ASCIIHexDecode"@,
        "ASCII85Decode"@ != "LZWDecode"@,
        "ASCII85Decode"@ != "FlateDecode"@,
        "ASCII85Decode"@ != "RunLengthDecode"@,
        "ASCII85Decode"@ != "CCITTFaxDecode"@,
        "ASCII85Decode"@ != "JBIG2Decode"@,
        "ASCII85Decode"@ != "DCTDecode"@,
        "ASCII85Decode"@ != "JPXDecode"@,
        "ASCII85Decode"@ != "Crypt"@,
        "LZWDecode"@ != "RunLengthDecode"@,
        "FlateDecode"@ != "LZWDecode"@,
        "FlateDecode"@ != "RunLengthDecode"@,
        "FlateDecode"@ != "JBIG2Decode"@,
        "FlateDecode"@ != "JPXDecode"@,
        "CCITTFaxDecode"@ != "LZWDecode"@,
        "CCITTFaxDecode"@ != "FlateDecode"@,
        "CCITTFaxDecode"@ != "RunLengthDecode"@,
        "CCITTFaxDecode"@ != "JBIG2Decode"@,
        "CCITTFaxDecode"@ != "DCTDecode"@,
        "CCITTFaxDecode"@ != "JPXDecode"@,
        "CCITTFaxDecode"@ != "Crypt"@,
        "JBIG2Decode"@ != "LZWDecode"@,
        "JBIG2Decode"@ != "RunLengthDecode"@,
        "JBIG2Decode"@ != "JPXDecode"@,
        "DCTDecode"@ != "LZWDecode"@,
        "DCTDecode"@ != "FlateDecode"@,
        "DCTDecode"@ != "RunLengthDecode"@,
        "DCTDecode"@ != "JBIG2Decode"@,
        "DCTDecode"@ != "JPXDecode"@,
        "JPXDecode"@ != "LZWDecode"@,
        "JPXDecode"@ != "RunLengthDecode"@,
        "Crypt"@ != "LZWDecode"@,
        "Crypt"@ != "FlateDecode"@,
        "Crypt"@ != "RunLengthDecode"@,
        "Crypt"@ != "JBIG2Decode"@,
        "Crypt"@ != "DCTDecode"@,
        "Crypt"@ != "JPXDecode"@,
{
    reveal_strlit("ASCIIHexDecode");
    reveal_strlit("ASCII85Decode");
    reveal_strlit("LZWDecode");
    reveal_strlit("FlateDecode");
    reveal_strlit("RunLengthDecode");
    reveal_strlit("CCITTFaxDecode");
    reveal_strlit("JBIG2Decode");
    reveal_strlit("DCTDecode");
    reveal_strlit("JPXDecode");
    reveal_strlit("Crypt");
    assert("ASCIIHexDecode"@.len() == 14);
    assert("ASCII85Decode"@.len() == 13);
    assert("LZWDecode"@.len() == 9);
    assert("FlateDecode"@.len() == 11);
    assert("RunLengthDecode"@.len() == 15);
    assert("CCITTFaxDecode"@.len() == 14);
    assert("JBIG2Decode"@.len() == 11);
    assert("DCTDecode"@.len() == 9);
    assert("JPXDecode"@.len() == 9);
    assert("Crypt"@.len() == 5);
    assert("ASCIIHexDecode"@[0] == 'A');
    assert("CCITTFaxDecode"@[0] == 'C');
    assert("DCTDecode"@[0] == 'D');
    assert("FlateDecode"@[0] == 'F');
    assert("JBIG2Decode"@[0] == 'J');
    assert("JPXDecode"@[0] == 'J');
    assert("LZWDecode"@[0] == 'L');
}
/// THE ROUND TRIP (C05 / C04 pairing): whatever dictionary satisfies this unit's `filter_ok` and `parms_ok` for the filter
/// list `fs` (and does not inherit /Filter or /DecodeParms entries from the specialised writer), read back with
/// filterchain's pairing, yields the same list: filter i with ITS parameters.
pub proof fn lemma_filters_roundtrip(d: Dictionary, base: DMap, fs: Seq<StreamFilter>, names: Seq<Name>, parms: Seq<Option<Dictionary>>)
    requires
        filter_ok(d, base, fs), parms_ok(d, base, fs),
        !base.dom().contains("Filter"@), !base.dom().contains("DecodeParms"@),
        names_read(d.entry("Filter"), names), parms_read(d.entry("DecodeParms"), parms),
        forall|i: int| 0 <= i < fs.len() ==> parm_roundtrips(#[trigger] fs[i]),
        // a parameter-bearing filter whose parameters are absent on reload: only happens below when NO filter has parameters,
        // which cannot be (any_parms is then true); kept out of the hypotheses on purpose
    ensures
        names.len() == fs.len(),
        forall|i: int| 0 <= i < fs.len() ==> name_chars(#[trigger] names[i]) == filter_name(fs[i]),
        forall|i: int| 0 <= i < fs.len() && parm_dict(#[trigger] fs[i]) is Some ==> parms_for(parms, i) == parm_dict(fs[i]).unwrap(),
        forall|i: int| 0 <= i < fs.len() ==> filter_of(name_chars(#[trigger] names[i]), parms_for(parms, i)) == Some(fs[i]),
{
    lemma_filter_names_distinct();
    let n = fs.len() as int;
    let fe = d.entry("Filter");
    let pe = d.entry("DecodeParms");
    if n == 0 {
        assert(elems(fe).len() == 0);
    } else {
        assert forall|i: int| 0 <= i < n implies name_chars(#[trigger] names[i]) == filter_name(fs[i]) by {
            assert(elems(fe)[i] == name_prim(fs[i]));
            lemma_small_injective(name_chars(names[i]), filter_name(fs[i]));
        }
    }
    assert forall|i: int| 0 <= i < n && parm_dict(#[trigger] fs[i]) is Some implies parms_for(parms, i) == parm_dict(fs[i]).unwrap() by {
        lemma_any_parms_mono(fs, i + 1, n);
        assert(any_parms(fs, n));
        assert(entry_i(elems(pe), i) == parm_prim(fs[i]));
        assert(0 <= i < elems(pe).len());
        assert(elems(pe)[i] == Primitive::Dictionary(parm_dict(fs[i]).unwrap()));
    }
    assert forall|i: int| 0 <= i < n implies filter_of(name_chars(#[trigger] names[i]), parms_for(parms, i)) == Some(fs[i]) by {
        assert(name_chars(names[i]) == filter_name(fs[i]));
        assert(parm_roundtrips(fs[i]));
        if parm_dict(fs[i]) is Some { assert(parms_for(parms, i) == parm_dict(fs[i]).unwrap()); }
    }
}
/// a name object is determined by its text (SmallString compares by content)
pub proof fn lemma_small_injective(a: Seq<char>, b: Seq<char>)
    ensures small(a) == small(b) ==> a == b
{
    if small(a) == small(b) { assert(small(a).text@ == a && small(b).text@ == b); }
}
pub proof fn lemma_any_parms_mono(fs: Seq<StreamFilter>, m: int, n: int)
    ensures m <= n && any_parms(fs, m) ==> any_parms(fs, n)
    decreases n - m
{
    if m < n { lemma_any_parms_mono(fs, m, n - 1); }
}

}
fn main(){}
