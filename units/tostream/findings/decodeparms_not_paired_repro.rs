// Repro for units/tostream finding `decodeparms_not_paired`: drop into a scratch copy as pdf/tests/verif_tostream.rs and run
//   CARGO_TARGET_DIR=/tmp/tostream_target cargo test --offline -p pdf --test verif_tostream
// (a) two parameter-bearing filters: Stream::to_pdf_stream panics (`assert!(params.is_none())`)
// (b) a parameterless filter followed by a parameter-bearing one: /DecodeParms is written as ONE dictionary, which
//     StreamInfo::from_primitive pairs with filter 0; the predictor of the FlateDecode stage is lost on reload
// Both must pass on a tree with findings/decodeparms_not_paired_fix.diff applied.
use pdf::enc::{StreamFilter, LZWFlateParams, DCTDecodeParams};
use pdf::object::{Stream, NoUpdate, NoResolve, Object};
use pdf::primitive::Primitive;

fn flate(predictor: i32, columns: i32) -> StreamFilter {
    StreamFilter::FlateDecode(LZWFlateParams { predictor, n_components: 1, bits_per_component: 8, columns, early_change: 1 })
}
fn describe(f: &StreamFilter) -> String { format!("{:?}", f) }

fn reload(s: &Stream<()>) -> Stream<()> {
    let p = s.to_pdf_stream(&mut NoUpdate).expect("to_pdf_stream");
    Stream::<()>::from_primitive(Primitive::Stream(p), &NoResolve).expect("read back")
}

#[test]
fn two_parameter_bearing_filters_do_not_panic() {
    // ISO 32000-1 7.4.1 allows any cascade; [/FlateDecode /DCTDecode] is what a deflated JPEG carries
    let filters = vec![flate(1, 1), StreamFilter::DCTDecode(DCTDecodeParams { color_transform: None })];
    let s = Stream::from_compressed((), vec![1u8, 2, 3], filters.clone());
    let back = reload(&s);
    assert_eq!(back.info.filters.iter().map(describe).collect::<Vec<_>>(), filters.iter().map(describe).collect::<Vec<_>>());
}

#[test]
fn params_stay_with_their_filter() {
    let filters = vec![StreamFilter::ASCII85Decode, flate(12, 5)];
    let s = Stream::from_compressed((), vec![1u8, 2, 3], filters.clone());
    let p = s.to_pdf_stream(&mut NoUpdate).expect("to_pdf_stream");
    println!("written /DecodeParms = {:?}", p.info.get("DecodeParms"));
    let back = reload(&s);
    println!("reloaded filters = {:?}", back.info.filters);
    assert_eq!(back.info.filters.iter().map(describe).collect::<Vec<_>>(), filters.iter().map(describe).collect::<Vec<_>>());
}

#[test]
fn length_is_byte_count() {
    let s = Stream::new((), vec![0u8; 1234]);
    let p = s.to_pdf_stream(&mut NoUpdate).expect("to_pdf_stream");
    assert_eq!(p.info.get("Length"), Some(&Primitive::Integer(1234)));
    assert!(p.info.get("Filter").is_none() && p.info.get("DecodeParms").is_none());
}
