// BOUNDED native stand-in of unit `tostream` (C10, C04, C05, C09, C20): runs the REAL crate through its public API.
//
// Why it exists: Verus reads `Stream::to_pdf_stream` as a `for` loop over the filters that appends one /DecodeParms entry per
// filter (one invariant template, units/tostream/NOTES.md). A rewrite of that loop into another shape (iterator
// map/collect with a capturing closure, ..) leaves the unit UNDECIDED by design. `Stream::data` (the reader's decode chain,
// unit filterchain) has the same limit. This harness decides such changes on a small, exhaustively enumerated universe; it
// is reported under bounded_checks, never as a proof.
//
// Universe (the bound): EVERY filter list of length 0..=3 (1 + 8 + 64 + 512 = 585 lists) over
//     ASCIIHexDecode, ASCII85Decode, RunLengthDecode, FlateDecode{defaults}, FlateDecode{Predictor 12, Columns 3},
//     LZWDecode{defaults}, LZWDecode{EarlyChange 0}, DCTDecode{ColorTransform 0}
//   x constructor {Stream::from_compressed, Stream::new_with_filters} (length 0 also Stream::new)
//   x writer {to_pdf_stream, ObjectWrite::to_primitive} with the NoUpdate helper, re-read with Stream::<()>::from_primitive;
//   and once more through a REAL Updater: every list `create`d in a fresh Storage, saved (Storage::save), the bytes loaded with
//   FileOptions::load and the created reference read back.
// Payload: for the 400 lists without DCTDecode the stream bytes are a genuine encoding of a known plaintext (the first of 60
// fixed plaintexts of 9..=68 bytes for which every PNG-predictor stage sees whole rows; encoders: pdf::enc::encode for hex / 85 /
// Flate / LZW, and in THIS file a literal-run RunLength encoder and a PNG row predictor written from the PNG specification,
// tags 0-4 in rotation). Lists with DCTDecode carry 7 arbitrary bytes (the crate cannot encode JPEG): no data check there.
//
// Statement checked for every element of the universe (ISO 32000-1 7.3.8.2 Table 5, 7.4.1 Table 6):
//   W1 nothing panics, writing succeeds;
//   W2 /Length is the integer = number of payload bytes;
//   W3 /Filter denotes (name = one element, array = its elements, absent = none) exactly the Table 6 names of the filters, in order;
//   W4 /DecodeParms entry i (missing / null = no parameters = all defaults) carries the parameter values of filter i:
//      Predictor, Colors, BitsPerComponent, Columns, EarlyChange, ColorTransform compared value by value with defaults filled in;
//      a filter without parameters finds null or an empty dictionary at its position;
//   W5 the payload bytes are handed on unchanged (PdfStream::raw_data);
//   R1 reading the written value back (Stream::from_primitive) gives the same filters with the same parameters, position by
//      position, and the same raw bytes;
//   D1 (codec lists) `Stream::data` of the in-memory stream BEFORE writing == the plaintext (the decode chain applies filter 1
//      to the raw bytes, filter 2 to that result, ..);
//   D2 (codec lists) `Stream::data` of the re-read stream == the plaintext;
//   F1-F3 (real Updater, saved and reloaded file) the created reference resolves to a stream whose dictionary satisfies W2-W4
//      against the bytes actually found between `stream` and `endstream`, whose typed filters equal the written ones, and
//      (codec lists) whose decoded data == the plaintext;
//   F4 that reloaded stream (its data still in the file) written once more with to_pdf_stream satisfies W2-W5 again.
use pdf::enc::{encode, DCTDecodeParams, LZWFlateParams, StreamFilter};
use pdf::file::{FileOptions, NoCache, NoLog, Storage, Trailer};
use pdf::object::*;
use pdf::primitive::{Dictionary, PdfString, Primitive};
use std::panic::{catch_unwind, AssertUnwindSafe};

// ---------------------------------------------------------------------------------------------------------------- universe
fn lzwflate(predictor: i32, columns: i32, early_change: i32) -> LZWFlateParams {
    LZWFlateParams { predictor, n_components: 1, bits_per_component: 8, columns, early_change }
}
fn universe() -> Vec<StreamFilter> {
    vec![
        StreamFilter::ASCIIHexDecode,
        StreamFilter::ASCII85Decode,
        StreamFilter::RunLengthDecode,
        StreamFilter::FlateDecode(LZWFlateParams::default()),
        StreamFilter::FlateDecode(lzwflate(12, 3, 1)),
        StreamFilter::LZWDecode(LZWFlateParams::default()),
        StreamFilter::LZWDecode(lzwflate(1, 1, 0)),
        StreamFilter::DCTDecode(DCTDecodeParams { color_transform: Some(0) }),
    ]
}
fn all_lists(max_len: usize) -> Vec<Vec<StreamFilter>> {
    let u = universe();
    let mut out: Vec<Vec<StreamFilter>> = vec![vec![]];
    let mut last: Vec<Vec<StreamFilter>> = vec![vec![]];
    for _ in 0..max_len {
        let mut next = Vec::new();
        for l in &last {
            for f in &u {
                let mut v = l.clone();
                v.push(f.clone());
                next.push(v);
            }
        }
        out.extend(next.iter().cloned());
        last = next;
    }
    out
}

// ------------------------------------------------------------------------------------- the specification side (ISO 32000-1)
/// Table 6: filter name
fn iso_name(f: &StreamFilter) -> &'static str {
    match f {
        StreamFilter::ASCIIHexDecode => "ASCIIHexDecode",
        StreamFilter::ASCII85Decode => "ASCII85Decode",
        StreamFilter::LZWDecode(_) => "LZWDecode",
        StreamFilter::FlateDecode(_) => "FlateDecode",
        StreamFilter::RunLengthDecode => "RunLengthDecode",
        StreamFilter::CCITTFaxDecode(_) => "CCITTFaxDecode",
        StreamFilter::JBIG2Decode(_) => "JBIG2Decode",
        StreamFilter::DCTDecode(_) => "DCTDecode",
        StreamFilter::JPXDecode => "JPXDecode",
        StreamFilter::Crypt => "Crypt",
    }
}
/// the parameter values a filter works with: (Predictor, Colors, BitsPerComponent, Columns, EarlyChange, ColorTransform),
/// Table 8 / Table 13 defaults filled in; None = the filter takes no parameters
#[derive(Debug, Clone, PartialEq)]
struct ParmView { predictor: i32, colors: i32, bpc: i32, columns: i32, early_change: i32, color_transform: Option<i32> }
fn defaults() -> ParmView { ParmView { predictor: 1, colors: 1, bpc: 8, columns: 1, early_change: 1, color_transform: None } }
fn view_of_filter(f: &StreamFilter) -> Option<ParmView> {
    match f {
        StreamFilter::LZWDecode(p) | StreamFilter::FlateDecode(p) => Some(ParmView {
            predictor: p.predictor, colors: p.n_components, bpc: p.bits_per_component, columns: p.columns, early_change: p.early_change,
            color_transform: None }),
        StreamFilter::DCTDecode(p) => Some(ParmView { color_transform: p.color_transform, ..defaults() }),
        StreamFilter::ASCIIHexDecode | StreamFilter::ASCII85Decode | StreamFilter::RunLengthDecode | StreamFilter::JPXDecode | StreamFilter::Crypt => None,
        other => panic!("not in the universe: {:?}", other),
    }
}
/// a /DecodeParms entry seen with the defaults filled in; Err = not a dictionary / null, or a non-integer value
fn view_of_entry(e: &Primitive) -> Result<(ParmView, bool), String> {
    let d = match e {
        Primitive::Null => return Ok((defaults(), true)),
        Primitive::Dictionary(d) => d,
        other => return Err(format!("entry is neither a dictionary nor null: {:?}", other)),
    };
    let int = |key: &str, dflt: i32| -> Result<i32, String> {
        match d.get(key) { None | Some(Primitive::Null) => Ok(dflt), Some(Primitive::Integer(n)) => Ok(*n), Some(o) => Err(format!("/{} is {:?}", key, o)) }
    };
    let ct = match d.get("ColorTransform") { None | Some(Primitive::Null) => None, Some(Primitive::Integer(n)) => Some(*n), Some(o) => return Err(format!("/ColorTransform is {:?}", o)) };
    Ok((ParmView { predictor: int("Predictor", 1)?, colors: int("Colors", 1)?, bpc: int("BitsPerComponent", 8)?, columns: int("Columns", 1)?,
                   early_change: int("EarlyChange", 1)?, color_transform: ct }, d.is_empty()))
}
/// Table 5: the list a /Filter or /DecodeParms value denotes
fn elems(p: Option<&Primitive>) -> Vec<Primitive> {
    match p { None | Some(Primitive::Null) => vec![], Some(Primitive::Array(v)) => v.clone(), Some(other) => vec![other.clone()] }
}

/// W2-W4 on a written stream dictionary
fn check_dict(info: &Dictionary, filters: &[StreamFilter], byte_count: usize, what: &str, fails: &mut Vec<String>) {
    match info.get("Length") {
        Some(Primitive::Integer(n)) if *n as i64 == byte_count as i64 => {}
        other => fails.push(format!("{}: W2 /Length is {:?}, the stream has {} bytes", what, other, byte_count)),
    }
    let names = elems(info.get("Filter"));
    let want: Vec<Primitive> = filters.iter().map(|f| Primitive::Name(iso_name(f).into())).collect();
    if names != want {
        fails.push(format!("{}: W3 /Filter is {:?}, expected the names {:?}", what, info.get("Filter"), filters.iter().map(iso_name).collect::<Vec<_>>()));
    }
    let parms = elems(info.get("DecodeParms"));
    for (i, f) in filters.iter().enumerate() {
        let entry = parms.get(i).cloned().unwrap_or(Primitive::Null);
        match (view_of_filter(f), view_of_entry(&entry)) {
            (_, Err(e)) => fails.push(format!("{}: W4 /DecodeParms entry {} for {}: {} (whole value {:?})", what, i, iso_name(f), e, info.get("DecodeParms"))),
            (Some(v), Ok((w, _))) => if v != w {
                fails.push(format!("{}: W4 filter {} ({}) finds the parameters {:?} at its position in /DecodeParms, it was written with {:?} (whole value {:?})",
                                   what, i, iso_name(f), w, v, info.get("DecodeParms")));
            },
            (None, Ok((_, empty))) => if !empty {
                fails.push(format!("{}: W4 filter {} ({}) takes no parameters but finds {:?} at its position in /DecodeParms (whole value {:?})",
                                   what, i, iso_name(f), entry, info.get("DecodeParms")));
            },
        }
    }
    if parms.len() > filters.len() {
        fails.push(format!("{}: W4 /DecodeParms has {} entries for {} filters: {:?}", what, parms.len(), filters.len(), info.get("DecodeParms")));
    }
}
/// R1: the typed filters read back, position by position (StreamFilter has no PartialEq: Debug text of each element)
fn check_filters_equal(got: &[StreamFilter], want: &[StreamFilter], what: &str, tag: &str, fails: &mut Vec<String>) {
    let g: Vec<String> = got.iter().map(|f| format!("{:?}", f)).collect();
    let w: Vec<String> = want.iter().map(|f| format!("{:?}", f)).collect();
    if g.len() != w.len() {
        fails.push(format!("{}: {} read back {} filters {:?}, written {:?}", what, tag, g.len(), g, w));
        return;
    }
    for i in 0..w.len() {
        if g[i] != w[i] { fails.push(format!("{}: {} filter {} read back as {}, written as {}", what, tag, i, g[i], w[i])); }
    }
}

// ----------------------------------------------------------------------------------------------- encoders (the payloads)
/// ISO 32000-1 7.4.5 RunLengthDecode, encoder side: literal runs only (length byte n-1 followed by n bytes), EOD = 128
fn run_length_encode(data: &[u8]) -> Vec<u8> {
    let mut out = Vec::new();
    for c in data.chunks(128) {
        out.push((c.len() - 1) as u8);
        out.extend_from_slice(c);
    }
    out.push(128);
    out
}
/// PNG specification 9.2-9.4 (filter types 0-4), encoder side, one byte per pixel, rows of `columns` bytes; tag of row r = r % 5
fn png_predict(data: &[u8], columns: usize) -> Vec<u8> {
    assert!(data.len() % columns == 0);
    let mut out = Vec::new();
    let zero = vec![0u8; columns];
    for (r, row) in data.chunks(columns).enumerate() {
        let up: &[u8] = if r == 0 { &zero } else { &data[(r - 1) * columns..r * columns] };
        let tag = (r % 5) as u8;
        out.push(tag);
        for i in 0..columns {
            let a = if i >= 1 { row[i - 1] as i32 } else { 0 };        // left
            let b = up[i] as i32;                                       // above
            let c = if i >= 1 { up[i - 1] as i32 } else { 0 };         // upper left
            let pred = match tag {
                0 => 0,
                1 => a,
                2 => b,
                3 => (a + b) / 2,
                _ => { let p = a + b - c; let (pa, pb, pc) = ((p - a).abs(), (p - b).abs(), (p - c).abs());
                       if pa <= pb && pa <= pc { a } else if pb <= pc { b } else { c } }
            };
            out.push(row[i].wrapping_sub(pred as u8));
        }
    }
    out
}
fn crate_encode(data: &[u8], f: &StreamFilter) -> Vec<u8> {
    encode(data, f).unwrap_or_else(|e| panic!("pdf::enc::encode({:?}) failed: {:?}", f, e))
}
/// bytes that decode to `plain` through the chain `filters` (filter 0 is undone first, so it is applied last), or None if some
/// predictor stage would not see whole rows. `next` = the filter that will read the output of a stage (padding that this
/// reader ignores by specification: white space for the ASCII filters, anything after EOD for RunLength)
fn encode_chain(plain: &[u8], filters: &[StreamFilter]) -> Option<Vec<u8>> {
    let mut cur = plain.to_vec();
    for (i, f) in filters.iter().enumerate().rev() {
        cur = match f {
            StreamFilter::ASCIIHexDecode | StreamFilter::ASCII85Decode => crate_encode(&cur, f),
            StreamFilter::RunLengthDecode => run_length_encode(&cur),
            StreamFilter::LZWDecode(p) if p.predictor == 1 => crate_encode(&cur, f),
            StreamFilter::FlateDecode(p) if p.predictor == 1 => crate_encode(&cur, f),
            StreamFilter::FlateDecode(p) if p.predictor >= 10 && p.n_components == 1 && p.bits_per_component == 8 => {
                let cols = p.columns as usize;
                while cur.len() % cols != 0 {
                    match filters.get(i + 1) {
                        Some(StreamFilter::ASCIIHexDecode) | Some(StreamFilter::ASCII85Decode) => cur.push(b' '),
                        Some(StreamFilter::RunLengthDecode) => cur.push(0),
                        _ => return None,
                    }
                }
                crate_encode(&png_predict(&cur, cols), &StreamFilter::FlateDecode(LZWFlateParams::default()))
            }
            _ => return None,
        };
    }
    Some(cur)
}
fn plaintexts() -> Vec<Vec<u8>> {
    // lengths 9, 10, .., 68: odd and even neighbours, repeats, zeros, 0xff
    (0..60usize).map(|k| (0..9 + k).map(|i| match i % 7 { 0 => 1, 1 => 3, 2 => 0xff, 3 => 0, 4 => (i * 37 + k) as u8, 5 => 7, _ => (i * i + 5 * k) as u8 }).collect()).collect()
}
fn is_codec_list(filters: &[StreamFilter]) -> bool { !filters.iter().any(|f| matches!(f, StreamFilter::DCTDecode(_))) }
/// (raw bytes, Some(plaintext) if the raw bytes are a genuine encoding)
fn payload(filters: &[StreamFilter]) -> (Vec<u8>, Option<Vec<u8>>) {
    if is_codec_list(filters) {
        for p in plaintexts() {
            if let Some(raw) = encode_chain(&p, filters) { return (raw, Some(p)); }
        }
    }
    (vec![0xff, 0xd8, 1, 2, 3, 0xff, 0xd9], None)
}

fn panic_text(e: Box<dyn std::any::Any + Send>) -> String {
    if let Some(s) = e.downcast_ref::<&str>() { s.to_string() } else if let Some(s) = e.downcast_ref::<String>() { s.clone() } else { "(no message)".into() }
}
fn names_of(filters: &[StreamFilter]) -> String { format!("{:?}", filters) }

// --------------------------------------------------------------------------------------------------- value level (NoUpdate)
fn check_value_level(filters: &[StreamFilter], ctor: &str, fails: &mut Vec<String>) -> bool {
    let (raw, plain) = payload(filters);
    let what = format!("{}({})", ctor, names_of(filters));
    let s: Stream<()> = match ctor {
        "from_compressed" => Stream::from_compressed((), raw.clone(), filters.to_vec()),
        "new_with_filters" => Stream::new_with_filters((), raw.clone(), filters.to_vec()),
        _ => Stream::new((), raw.clone()),
    };
    // D1
    if let Some(ref plain) = plain {
        match catch_unwind(AssertUnwindSafe(|| s.data(&NoResolve))) {
            Err(p) => fails.push(format!("{}: D1 Stream::data PANICKED: {}", what, panic_text(p))),
            Ok(Err(e)) => fails.push(format!("{}: D1 Stream::data of the in-memory stream = Err({:?}); raw bytes {:?} are an encoding of {:?}", what, e, raw, plain)),
            Ok(Ok(d)) => if &*d != &plain[..] { fails.push(format!("{}: D1 Stream::data of the in-memory stream = {:?}, expected {:?} (raw bytes {:?})", what, &*d, plain, raw)) },
        }
    }
    for writer in ["to_pdf_stream", "to_primitive"] {
        let what = format!("{} {}", what, writer);
        let written = catch_unwind(AssertUnwindSafe(|| match writer {
            "to_pdf_stream" => s.to_pdf_stream(&mut NoUpdate).map(Primitive::Stream),
            _ => ObjectWrite::to_primitive(&s, &mut NoUpdate),
        }));
        let prim = match written {
            Err(p) => { fails.push(format!("{}: W1 PANICKED: {}", what, panic_text(p))); continue; }
            Ok(Err(e)) => { fails.push(format!("{}: W1 writing failed: {:?}", what, e)); continue; }
            Ok(Ok(p)) => p,
        };
        let ps = match prim { Primitive::Stream(ref ps) => ps.clone(), ref other => { fails.push(format!("{}: W1 wrote {:?}, not a stream", what, other)); continue; } };
        check_dict(&ps.info, filters, raw.len(), &what, fails);
        match ps.raw_data(&NoResolve) {
            Ok(d) => if &*d != &raw[..] { fails.push(format!("{}: W5 the written stream carries {:?}, the value held {:?}", what, &*d, raw)) },
            Err(e) => fails.push(format!("{}: W5 raw_data = Err({:?})", what, e)),
        }
        // R1, D2
        match catch_unwind(AssertUnwindSafe(|| Stream::<()>::from_primitive(prim.clone(), &NoResolve))) {
            Err(p) => fails.push(format!("{}: R1 from_primitive PANICKED: {}", what, panic_text(p))),
            Ok(Err(e)) => fails.push(format!("{}: R1 the written dictionary {:?} does not read back: {:?}", what, ps.info, e)),
            Ok(Ok(back)) => {
                check_filters_equal(&back.info.filters, filters, &what, "R1", fails);
                if let Some(ref plain) = plain {
                    match catch_unwind(AssertUnwindSafe(|| back.data(&NoResolve))) {
                        Err(p) => fails.push(format!("{}: D2 Stream::data PANICKED: {}", what, panic_text(p))),
                        Ok(Err(e)) => fails.push(format!("{}: D2 Stream::data of the re-read stream = Err({:?}) (dictionary {:?})", what, e, ps.info)),
                        Ok(Ok(d)) => if &*d != &plain[..] { fails.push(format!("{}: D2 the re-read stream decodes to {:?}, expected {:?} (dictionary {:?})", what, &*d, plain, ps.info)) },
                    }
                }
            }
        }
    }
    plain.is_some()
}

fn report(fails: Vec<String>, checked: usize, with_data: usize) {
    println!("checked {} universe elements, {} of them with a decodable payload", checked, with_data);
    if !fails.is_empty() {
        let shown: Vec<&String> = fails.iter().take(12).collect();
        panic!("{} failure(s); first {}:\n{}", fails.len(), shown.len(), shown.iter().map(|s| s.as_str()).collect::<Vec<_>>().join("\n"));
    }
}

#[test]
fn written_dictionary_and_round_trip_all_filter_lists_up_to_3() {
    let mut fails = Vec::new();
    let (mut checked, mut with_data) = (0, 0);
    for filters in all_lists(3) {
        let ctors: &[&str] = if filters.is_empty() { &["from_compressed", "new_with_filters", "new"] } else { &["from_compressed", "new_with_filters"] };
        for ctor in ctors {
            checked += 1;
            if check_value_level(&filters, ctor, &mut fails) { with_data += 1; }
        }
    }
    // the universe is what the header says: 585 lists, 400 of them without DCTDecode, every one of those with a genuine payload
    assert_eq!(checked, 2 * 585 + 1);
    assert_eq!(with_data, 2 * 400 + 1, "some codec list got no genuine payload (encoder side of this harness)");
    report(fails, checked, with_data);
}

// --------------------------------------------------------------------------------- file level (real Updater, save, reload)
type St = Storage<Vec<u8>, NoCache, NoCache, NoLog>;

#[test]
fn created_streams_survive_save_and_reload_all_filter_lists_up_to_3() {
    let lists = all_lists(3);
    let mut st: St = FileOptions::uncached().storage();
    let mut refs: Vec<PlainRef> = Vec::new();
    let mut payloads = Vec::new();
    let mut fails = Vec::new();
    for filters in &lists {
        let (raw, plain) = payload(filters);
        let s: Stream<()> = Stream::from_compressed((), raw.clone(), filters.clone());
        match catch_unwind(AssertUnwindSafe(|| st.create(s))) {
            Ok(Ok(rc)) => refs.push(rc.get_ref().get_inner()),
            Ok(Err(e)) => { fails.push(format!("create({}): F1 failed: {:?}", names_of(filters), e)); refs.push(PlainRef { id: 0, gen: 0 }); }
            Err(p) => { fails.push(format!("create({}): F1 PANICKED: {}", names_of(filters), panic_text(p))); refs.push(PlainRef { id: 0, gen: 0 }); }
        }
        payloads.push((raw, plain));
    }
    let tree = PageTree { parent: None, kids: vec![], count: 0, resources: None, media_box: None, crop_box: None };
    let root = PagesRc::create(tree, &mut st).expect("page tree");
    let catalog = Catalog { version: Some("1.7".into()), pages: root, names: None, dests: None, metadata: None, outlines: None,
                            struct_tree_root: None, forms: None, page_labels: None };
    let mut trailer = Trailer { root: st.create(catalog).expect("catalog"), encrypt_dict: None, size: 0,
                                id: vec![PdfString::from("foo"), PdfString::from("bar")], info_dict: None, prev_trailer_pos: None };
    st.save(&mut trailer).expect("save");
    let bytes = st.into_inner();
    let file = FileOptions::uncached().load(bytes).expect("the saved file loads");
    let resolver = file.resolver();
    let mut with_data = 0;
    for ((filters, r), (raw, plain)) in lists.iter().zip(&refs).zip(&payloads) {
        if r.id == 0 { continue; }
        let what = format!("create({}) saved+reloaded as {} {} R", names_of(filters), r.id, r.gen);
        let ps = match resolver.resolve(*r) {
            Ok(Primitive::Stream(ps)) => ps,
            other => { fails.push(format!("{}: F1 resolves to {:?}", what, other)); continue; }
        };
        // the bytes actually found between `stream` and `endstream`
        match ps.raw_data(&resolver) {
            Ok(d) => {
                if &*d != &raw[..] { fails.push(format!("{}: F2 the file holds the stream bytes {:?}, written {:?}", what, &*d, raw)); }
                check_dict(&ps.info, filters, d.len(), &what, &mut fails);
            }
            Err(e) => fails.push(format!("{}: F2 raw_data = Err({:?})", what, e)),
        }
        match catch_unwind(AssertUnwindSafe(|| resolver.get(Ref::<Stream<()>>::new(*r)))) {
            Err(p) => fails.push(format!("{}: F3 get PANICKED: {}", what, panic_text(p))),
            Ok(Err(e)) => fails.push(format!("{}: F3 does not read back as a stream: {:?}", what, e)),
            Ok(Ok(s)) => {
                check_filters_equal(&s.info.filters, filters, &what, "F3", &mut fails);
                // F4: the stream read from the file (data still in the file: StreamData::Original) written once more
                match catch_unwind(AssertUnwindSafe(|| s.to_pdf_stream(&mut NoUpdate))) {
                    Err(p) => fails.push(format!("{}: F4 to_pdf_stream of the reloaded stream PANICKED: {}", what, panic_text(p))),
                    Ok(Err(e)) => fails.push(format!("{}: F4 to_pdf_stream of the reloaded stream failed: {:?}", what, e)),
                    Ok(Ok(again)) => {
                        check_dict(&again.info, filters, raw.len(), &format!("{} F4 written again", what), &mut fails);
                        match again.raw_data(&resolver) {
                            Ok(d) => if &*d != &raw[..] { fails.push(format!("{}: F4 written again it carries {:?}, the file holds {:?}", what, &*d, raw)) },
                            Err(e) => fails.push(format!("{}: F4 raw_data = Err({:?})", what, e)),
                        }
                    }
                }
                if let Some(plain) = plain {
                    with_data += 1;
                    match catch_unwind(AssertUnwindSafe(|| Stream::data(&s, &resolver))) {
                        Err(p) => fails.push(format!("{}: F3 Stream::data PANICKED: {}", what, panic_text(p))),
                        Ok(Err(e)) => fails.push(format!("{}: F3 Stream::data = Err({:?}) (dictionary {:?})", what, e, ps.info)),
                        Ok(Ok(d)) => if &*d != &plain[..] { fails.push(format!("{}: F3 decodes to {:?}, expected {:?} (dictionary {:?})", what, &*d, plain, ps.info)) },
                    }
                }
            }
        }
    }
    assert_eq!(lists.len(), 585);
    if fails.is_empty() { assert_eq!(with_data, 400, "some codec list got no genuine payload (encoder side of this harness)"); }
    report(fails, lists.len(), with_data);
}
