// Unit `lexer` (C03 token level, C01, C17): pdf/src/parser/lexer/mod.rs
//   Lexer::{next_word, skip_whitespace, advance_pos, new_substr, next, peek, back, next_expect, next_stream,
//           set_pos, set_pos_from_end, offset_pos, read_n, seek_substr, seek_substr_back, seek_newline, incr_pos,
//           get_remaining_slice, get_pos, new, with_offset, is_whitespace, is_delimiter}
//   Substr::{is_integer, real_number, is_real_number, reslice, file_range, as_slice}, is_whitespace, is_int
// against the ISO 32000-1 7.2 token function (token_start / token_end) and the 7.3.3 number grammar.
use vstd::prelude::*;
use std::ops::{Range, RangeFrom};   // the `use` line of the source file (env)
//@@ INCLUDE _common/error_macros.rs

// Leaves of /repo that only the external_body helpers below call (not under Verus; Kani harnesses kani_lexer.rs).
//@@ fn boundary_rev
//@@ fn boundary
//@@ fn not
impl<'a> Substr<'a> {
//@@ fn Substr::equals
}

verus! {
global size_of usize == 8;

//@@ PDFERROR

//@@ struct Lexer
//@@ struct Substr

// =====================================================================================================
// Named deviations of the pinned code from ISO 32000-1 (switches; `true` = the pinned behaviour is accepted)
// =====================================================================================================
//@@ DEVIATIONS

//@@ INCLUDE lexer/spec/l1_tokens_numbers.rs

// ---- lemmas -------------------------------------------------------------------------------------------
pub proof fn lemma_ws_end(buf: Seq<u8>, p: int)
    requires 0 <= p <= buf.len()
    ensures p <= ws_end(buf, p) <= buf.len(),
        forall|i: int| p <= i < ws_end(buf, p) ==> is_ws(buf[i]),
        ws_end(buf, p) < buf.len() ==> !is_ws(buf[ws_end(buf, p)]),
    decreases buf.len() - p
{ if p < buf.len() && is_ws(buf[p]) { lemma_ws_end(buf, p + 1); } }
pub proof fn lemma_ws_unique(buf: Seq<u8>, p: int, r: int)
    requires 0 <= p <= r <= buf.len(), forall|i: int| p <= i < r ==> is_ws(buf[i]), r < buf.len() ==> !is_ws(buf[r])
    ensures ws_end(buf, p) == r
    decreases r - p
{ if p < r { lemma_ws_unique(buf, p + 1, r); } }
pub proof fn lemma_reg_unique(buf: Seq<u8>, p: int, r: int)
    requires 0 <= p <= r <= buf.len(), forall|i: int| p <= i < r ==> is_reg(buf[i]), r < buf.len() ==> !is_reg(buf[r])
    ensures reg_end(buf, p) == r
    decreases r - p
{ if p < r { lemma_reg_unique(buf, p + 1, r); } }
pub proof fn lemma_eol_unique(buf: Seq<u8>, p: int, k: int)
    requires 0 <= p <= k < buf.len(), forall|i: int| p <= i < k ==> !is_eol(buf[i]), is_eol(buf[k])
    ensures eol_after(buf, p) == Some(k + 1)
    decreases k - p
{ if p < k { lemma_eol_unique(buf, p + 1, k); } }
pub proof fn lemma_eol_none(buf: Seq<u8>, p: int)
    requires 0 <= p, forall|i: int| p <= i < buf.len() ==> !is_eol(buf[i])
    ensures eol_after(buf, p) is None
    decreases buf.len() - p
{ if p < buf.len() { lemma_eol_none(buf, p + 1); } }
pub proof fn lemma_eol_bound(buf: Seq<u8>, p: int)
    requires 0 <= p
    ensures eol_after(buf, p) matches Some(e) ==> p < e <= buf.len()
    decreases buf.len() - p
{ if p < buf.len() && !is_eol(buf[p]) { lemma_eol_bound(buf, p + 1); } }
pub proof fn lemma_ts_shift(buf: Seq<u8>, p: int, q: int)
    requires 0 <= p <= q <= buf.len(), q == ws_end(buf, p)
    ensures token_start(buf, p) == token_start(buf, q)
{
    lemma_ws_end(buf, p);
    lemma_eol_bound(buf, q + 1);
    if q < buf.len() { lemma_ws_unique(buf, q, q); }
    else { assert(ws_end(buf, q) == q); }
}
// one comment step: q is a '%' and the scan for the end of the line started at q + 1
pub proof fn lemma_ts_comment(buf: Seq<u8>, q: int, np: int)
    requires 0 <= q < buf.len(), buf[q] == 37,
    ensures
        eol_after(buf, q + 1) == Some(np) ==> token_start(buf, q) == token_start(buf, np) && q < np <= buf.len(),
        eol_after(buf, q + 1) is None && DEV_UNTERMINATED_COMMENT_IS_LEXED() ==> token_start(buf, q) == token_start(buf, q + 1),
        eol_after(buf, q + 1) is None && !DEV_UNTERMINATED_COMMENT_IS_LEXED() ==> token_start(buf, q) is None,
{
    assert(!is_ws(buf[q]));
    lemma_ws_unique(buf, q, q);
    lemma_eol_bound(buf, q + 1);
}

// ---- number grammar lemmas ----------------------------------------------------------------------------
pub proof fn lemma_ureal_nodot(t: Seq<u8>)
    requires forall|i: int| 0 <= i < t.len() ==> t[i] != 46
    ensures is_ureal(t) == (all_digits(t) && t.len() > 0)
{ }
pub proof fn lemma_ureal_firstdot(t: Seq<u8>, i0: int)
    requires 0 <= i0 < t.len(), t[i0] == 46, forall|i: int| 0 <= i < i0 ==> t[i] != 46
    ensures is_ureal(t) == (all_digits(t.subrange(0, i0)) && all_digits(t.subrange(i0 + 1, t.len() as int)) && (t.len() > 1 || DEV_LONE_DOT_IS_REAL()))
{
    assert(!digit(t[i0]));
    if is_ureal(t) {
        let i = choose|i: int| 0 <= i < t.len() && #[trigger] t[i] == 46 && all_digits(t.subrange(0, i)) && all_digits(t.subrange(i + 1, t.len() as int))
            && (t.len() > 1 || DEV_LONE_DOT_IS_REAL());
        if i > i0 { assert(t.subrange(0, i)[i0] == t[i0]); }
        assert(i == i0);
    }
}
// what real_number() has established when it reaches its last `if let`: the part after the sign is `t`, `dot` is the index of
// its first '.', the part before it is all digits, `u` is what follows the '.' (or all of t)
pub open spec fn real_scan(t: Seq<u8>, dot: Option<int>, u: Seq<u8>) -> bool {
    match dot {
        Some(i0) => 0 <= i0 < t.len() && t[i0] == 46 && (forall|i: int| 0 <= i < i0 ==> t[i] != 46)
            && all_digits(t.subrange(0, i0)) && u == t.subrange(i0 + 1, t.len() as int),
        None => (forall|i: int| 0 <= i < t.len() ==> t[i] != 46) && u == t,
    }
}
pub proof fn lemma_real_some(t: Seq<u8>, dot: Option<int>, u: Seq<u8>, l: int)
    requires real_scan(t, dot, u), 0 <= l < u.len(), !digit(u[l]), forall|j: int| 0 <= j < l ==> digit(u[j])
    ensures !is_ureal(t), l > 0 ==> is_ureal(t.subrange(0, t.len() - u.len() + l))
{
    match dot {
        Some(i0) => {
            lemma_ureal_firstdot(t, i0);
            assert(!digit(u[l]));
            if l > 0 {
                let p = t.subrange(0, i0 + 1 + l);
                assert(p[i0] == 46);
                lemma_ureal_firstdot(p, i0);
                assert(p.subrange(0, i0) =~= t.subrange(0, i0));
                assert(p.subrange(i0 + 1, p.len() as int) =~= u.subrange(0, l));
                assert forall|j: int| 0 <= j < l implies digit(#[trigger] u.subrange(0, l)[j]) by { }
            }
        }
        None => {
            lemma_ureal_nodot(t);
            assert(!digit(t[l]));
            if l > 0 {
                let p = t.subrange(0, l);
                assert forall|j: int| 0 <= j < l implies digit(#[trigger] p[j]) by { }
            }
        }
    }
}
pub proof fn lemma_real_none(t: Seq<u8>, dot: Option<int>, u: Seq<u8>)
    requires real_scan(t, dot, u), t.len() > 0, forall|j: int| 0 <= j < u.len() ==> digit(u[j])
    ensures is_ureal(t) == (dot is None || t.len() > 1 || DEV_LONE_DOT_IS_REAL())
{
    match dot {
        Some(i0) => { lemma_ureal_firstdot(t, i0); }
        None => { lemma_ureal_nodot(t); }
    }
}

// ---- L0 helpers (R7): expressions Verus cannot read; the body IS the hoisted source expression ----------
// callee in /repo: `boundary` + `is_whitespace`  (Kani: boundary_ws_leaf, bounded <= 8 bytes)
#[verifier::external_body]
fn hoist_boundary_ws(data: &[u8], pos: usize) -> (r: usize)
    requires pos <= data@.len()
    ensures pos <= r <= data@.len(), forall|i: int| pos <= i < r ==> is_ws(data@[i]), r < data@.len() ==> !is_ws(data@[r as int]),
{ boundary(data, pos, is_whitespace) }
// callee in /repo: `boundary_rev` + `is_whitespace`  (Kani: boundary_rev_ws_leaf)
#[verifier::external_body]
fn hoist_boundary_rev_ws(data: &[u8], pos: usize) -> (r: usize)
    requires pos <= data@.len()
    ensures r <= pos, forall|i: int| r <= i < pos ==> is_ws(data@[i]), r > 0 ==> !is_ws(data@[r - 1]),
{ boundary_rev(data, pos, is_whitespace) }
// callee in /repo: `boundary_rev` + `not(is_whitespace)`  (Kani: boundary_rev_notws_leaf)
#[verifier::external_body]
fn hoist_boundary_rev_not_ws(data: &[u8], pos: usize) -> (r: usize)
    requires pos <= data@.len()
    ensures r <= pos, forall|i: int| r <= i < pos ==> !is_ws(data@[i]), r > 0 ==> is_ws(data@[r - 1]),
{ boundary_rev(data, pos, not(is_whitespace)) }
// std: Iterator::position over a slice
#[verifier::external_body]
fn hoist_position_lf(s: &[u8]) -> (r: Option<usize>)
    ensures r matches Some(k) ==> k < s@.len() && s@[k as int] == 10u8 && forall|i: int| 0 <= i < k ==> s@[i] != 10u8,
        r is None ==> forall|i: int| 0 <= i < s@.len() ==> s@[i] != 10u8,
{ s.iter().position(|&b| b == b'\n') }
// (only used by a tree repaired with findings/comment_eol_cr_fix.diff)
#[verifier::external_body]
fn hoist_position_lf_cr(s: &[u8]) -> (r: Option<usize>)
    ensures r matches Some(k) ==> k < s@.len() && (s@[k as int] == 10u8 || s@[k as int] == 13u8) && forall|i: int| 0 <= i < k ==> s@[i] != 10u8 && s@[i] != 13u8,
        r is None ==> forall|i: int| 0 <= i < s@.len() ==> s@[i] != 10u8 && s@[i] != 13u8,
{ s.iter().position(|&b| b == b'\n' || b == b'\r') }
#[verifier::external_body]
fn hoist_position_dot(s: &[u8]) -> (r: Option<usize>)
    ensures r matches Some(k) ==> k < s@.len() && s@[k as int] == 46u8 && forall|i: int| 0 <= i < k ==> s@[i] != 46u8,
        r is None ==> forall|i: int| 0 <= i < s@.len() ==> s@[i] != 46u8,
{ s.iter().position(|&b| b == b'.') }
#[verifier::external_body]
fn hoist_position_nondigit(s: &[u8]) -> (r: Option<usize>)
    ensures r matches Some(k) ==> k < s@.len() && !digit(s@[k as int]) && forall|i: int| 0 <= i < k ==> digit(s@[i]),
        r is None ==> forall|i: int| 0 <= i < s@.len() ==> digit(s@[i]),
{ s.iter().position(|&b| !b.is_ascii_digit()) }
// std: Iterator::all + u8::is_ascii_digit   (Kani on the real `is_int`: is_int_leaf)
#[verifier::external_body]
fn hoist_all_ascii_digit(b: &[u8]) -> (r: bool)
    ensures r == all_digits(b@)
{ b.iter().all(|&b| b.is_ascii_digit()) }
// std: <[u8]>::get(RangeInclusive)
#[verifier::external_body]
fn hoist_get_incl(buf: &[u8], a: usize, b: usize) -> (r: Option<&[u8]>)
    requires a <= b
    ensures b < buf@.len() ==> (r matches Some(s) && s@ == buf@.subrange(a as int, b + 1)), b >= buf@.len() ==> r is None
{ buf.get(a..=b) }
// std: slice == byte-string literal
#[verifier::external_body]
fn hoist_eq_ltlt(s: &[u8]) -> (r: bool) ensures r == (s@.len() == 2 && s@[0] == 60u8 && s@[1] == 60u8) { s == b"<<" }
#[verifier::external_body]
fn hoist_eq_gtgt(s: &[u8]) -> (r: bool) ensures r == (s@.len() == 2 && s@[0] == 62u8 && s@[1] == 62u8) { s == b">>" }
// std: starts_with; the result is not used by the pinned code (the check is commented out in /repo)
#[verifier::external_body]
fn hoist_starts_with_stream(s: &[u8]) -> (r: bool) { s.starts_with(b"stream") }
// callee in /repo: free fn `is_whitespace` through Option::map with a `|&b|` closure (Kani: lexer_is_whitespace_leaf)
#[verifier::external_body]
fn hoist_get_is_ws(buf: &[u8], pos: usize) -> (r: bool)
    ensures r == (pos < buf@.len() && is_ws(buf@[pos as int]))
{ buf.get(pos).map(|&b| is_whitespace(b)).unwrap_or(false) }
// std: <[u8]>::get + Option::map + <[u8]>::contains + unwrap_or; the set is an ARGUMENT (the source's byte-string literal,
// re-spelled as an array of byte literals), so which bytes are in it is under proof (Kani on the real `Lexer::is_delimiter`:
// lexer_is_delimiter_leaf)
pub open spec fn in_set(s: Seq<u8>, x: u8) -> bool decreases s.len() {
    if s.len() == 0 { false } else { s.last() == x || in_set(s.drop_last(), x) }
}
#[verifier::external_body]
fn hoist_get_in_set(buf: &[u8], pos: usize, set: &[u8]) -> (r: bool)
    ensures r == (pos < buf@.len() && in_set(set@, buf@[pos as int]))
{ buf.get(pos).map(|b| set.contains(b)).unwrap_or(false) }
// bytes of a &'static str (UTF-8); opaque: only equality with it is used
pub uninterp spec fn str_bytes(s: &str) -> Seq<u8>;
// callee in /repo: Substr::equals (slice == other.as_ref()) with str::as_bytes
#[verifier::external_body]
fn hoist_equals_str(word: &Substr, expected: &'static str) -> (r: bool)
    ensures r == (word.slice@ == str_bytes(expected))
{ word.equals(expected.as_bytes()) }
// std: windows(n).rposition(|w| w == needle)
pub open spec fn occurs_at(hay: Seq<u8>, needle: Seq<u8>, k: int) -> bool {
    0 <= k && k + needle.len() <= hay.len() && hay.subrange(k, k + needle.len()) == needle
}
#[verifier::external_body]
fn hoist_windows_rposition(hay: &[u8], n: usize, needle: &[u8]) -> (r: Option<usize>)
    requires n > 0, n == needle@.len()
    ensures r matches Some(k) ==> occurs_at(hay@, needle@, k as int) && forall|j: int| k < j ==> !occurs_at(hay@, needle@, j),
        r is None ==> forall|j: int| !occurs_at(hay@, needle@, j),
{ hay.windows(n).rposition(|w| w == needle) }

// =====================================================================================================
// extracted code
// =====================================================================================================
//@@ is_whitespace
//@@ is_int

impl<'a> Substr<'a> {
    // file_offset + len fits: every Substr made by Lexer::new_substr of a well-formed Lexer has it
    pub open spec fn swf(&self) -> bool { self.file_offset + self.slice@.len() <= usize::MAX }
    // the byte range of the underlying data this lexeme was cut from (C17: file_offset + position)
    pub open spec fn cut_from(&self, buf: Seq<u8>, base: int, lo: int, hi: int) -> bool {
        0 <= lo <= hi <= buf.len() && self.slice@ == buf.subrange(lo, hi) && self.file_offset == base + lo
    }
//@@ Substr::is_integer
//@@ Substr::real_number
//@@ Substr::is_real_number
//@@ Substr::as_slice
//@@ Substr::reslice
//@@ Substr::file_range
}

impl<'a> Lexer<'a> {
    // the position invariant (C01) + [A: Rust] a slice is at most isize::MAX bytes + file offsets of the buffer fit
    pub open spec fn wf(&self) -> bool {
        self.pos <= self.buf@.len() && self.buf@.len() <= isize::MAX && self.file_offset + self.buf@.len() <= usize::MAX
    }
    pub open spec fn same_data(&self, o: &Lexer<'a>) -> bool { self.buf@ == o.buf@ && self.file_offset == o.file_offset }

//@@ Lexer::new
//@@ Lexer::with_offset
//@@ Lexer::get_pos
//@@ Lexer::is_whitespace
//@@ Lexer::is_delimiter
//@@ Lexer::advance_pos
//@@ Lexer::skip_whitespace
//@@ Lexer::new_substr
//@@ Lexer::next_word
//@@ Lexer::next
//@@ Lexer::peek
//@@ Lexer::next_expect
//@@ Lexer::next_stream
//@@ Lexer::back
//@@ Lexer::set_pos
//@@ Lexer::set_pos_from_end
//@@ Lexer::offset_pos
//@@ Lexer::get_remaining_slice
//@@ Lexer::seek_substr
//@@ Lexer::seek_substr_back
//@@ Lexer::incr_pos
//@@ Lexer::seek_newline
//@@ Lexer::read_n
}
}
fn main(){}
