F = 'pdf/src/parser/lexer/mod.rs'
LX = r"^impl<'a> Lexer<'a>$"
SB = r"^impl<'a> Substr<'a>$"

BUF = 'self.buf@'
SAME = 'final(self).buf@ == old(self).buf@ && final(self).file_offset == old(self).file_offset'
TS0 = 'token_start(old(self).buf@, old(self).pos as int)'

# ---- ghost text injected into next_word (R1) ---------------------------------------------------------
NW_LINK = '''assert(self.buf@[i] == self.buf@.subrange(p0 + 1, self.buf@.len() as int)[i - (p0 + 1)]);'''
# inside `if let Some(off) = <position of the end of the line>`: off is relative to p0 + 1
NW_COMMENT_SOME = '''proof {
    eol_found = true;
    assert forall|i: int| p0 + 1 <= i <= p0 + 1 + off implies #[trigger] self.buf@[i] == self.buf@.subrange(p0 + 1, self.buf@.len() as int)[i - (p0 + 1)] by { }
    assert forall|i: int| p0 + 1 <= i < p0 + 1 + off implies self.buf@[i] != 10u8 by { ''' + NW_LINK + ''' }
    ''' + NW_LINK.replace('[i]', '[p0 + 1 + off]').replace('[i - (p0 + 1)]', '[off as int]') + '''
    if DEV_COMMENT_EOL_LF_ONLY() || ((forall|i: int| p0 + 1 <= i < p0 + 1 + off ==> !is_eol(self.buf@[i])) && is_eol(self.buf@[p0 + 1 + off])) {
        lemma_eol_unique(self.buf@, p0 + 1, p0 + 1 + off);
    }
} pos += off+1;'''
# after the `if let`: eol_found is false iff no end of line was found
NW_COMMENT_JOIN = '''proof {
    if !eol_found {
        assert forall|i: int| p0 + 1 <= i < self.buf@.len() implies #[trigger] self.buf@[i] == self.buf@.subrange(p0 + 1, self.buf@.len() as int)[i - (p0 + 1)] by { }
        assert forall|i: int| p0 + 1 <= i < self.buf@.len() implies self.buf@[i] != 10u8 by { ''' + NW_LINK + ''' }
        if DEV_COMMENT_EOL_LF_ONLY() || (forall|i: int| p0 + 1 <= i < self.buf@.len() ==> !is_eol(self.buf@[i])) { lemma_eol_none(self.buf@, p0 + 1); }
    }
    lemma_ts_comment(self.buf@, p0, pos as int);
    assert(token_start(self.buf@, self.buf@.len() as int) is None);
}
let ghost e0 = pos as int;
proof { lemma_ws_end(self.buf@, e0); }
pos = self.skip_whitespace(pos)?;
proof { lemma_ts_shift(self.buf@, e0, pos as int); }'''

UNIT = {
 'name': 'lexer',
 'doc': 'Lexer/Substr of parser/lexer/mod.rs: ISO 32000-1 7.2 token function, 7.3.3 number grammar, position invariant',
 'timeout': 900,
 'deviations': {
   'DEV_FORMFEED_NOT_WHITESPACE': 'ISO 7.2.2 Table 1 lists FF (0x0C) as white-space; is_whitespace() omits it, so FF is lexed as a regular character',
   'DEV_COMMENT_EOL_LF_ONLY': 'ISO 7.2.3: a comment ends at the end-of-line marker, CR or LF; next_word only looks for LF, so a CR-terminated comment swallows the following line(s)',
   'DEV_UNTERMINATED_COMMENT_IS_LEXED': 'a comment with no LF before the end of the buffer: ISO = no further token; next_word only steps over the % and lexes the comment text as tokens',
   'DEV_STREAM_KEYWORD_COMMENT_NOT_SKIPPED': 'ISO 7.2.3 allows a comment between the stream dictionary and the keyword `stream`; next_stream only skips white-space (peek()/next() skip the comment, next_stream then measures 6 bytes from the %)',
   'DEV_NO_PLUS_SIGN': 'ISO 7.3.3: numbers may carry a leading +; is_integer()/real_number() only strip -',
 },
 'tolerances': {  # C03 constrains conformant spellings only; what a NON-number token does is left open by the property
   'DEV_LONE_DOT_IS_REAL': 'ISO 7.3.3 requires at least one digit; real_number() accepts "." and "-."',
   'DEV_REAL_PREFIX_ACCEPTED': 'real_number() returns the longest numeric prefix of a token that is not a number as a whole ("12abc" -> "12", "1.5.6" -> "1.5"); ISO: such a token is not a number',
 },
 'allowed_assumes': [],
 'items': {
  # ---- leaves that stay outside verus! (called only by the external_body helpers) -------------------
  'fn boundary_rev': {'kind': 'decl', 'file': F, 'header': r'^fn boundary_rev\('},
  'fn boundary': {'kind': 'decl', 'file': F, 'header': r'^fn boundary\('},
  'fn not': {'kind': 'decl', 'file': F, 'header': r'^fn not<T>\('},
  'fn Substr::equals': {'kind': 'decl', 'file': F, 'container': SB, 'header': r'^pub fn equals\('},
  # ---- types ------------------------------------------------------------------------------------------
  'struct Lexer': {'kind': 'decl', 'file': F, 'header': r"^pub struct Lexer<'a>$", 'attrs': ['#[derive(Clone, Copy)]'],
     'rewrites': [{'rule': 'R2', 'find': 'pos:', 'replace': 'pub pos:'},
                  {'rule': 'R2', 'find': 'buf:', 'replace': 'pub buf:'},
                  {'rule': 'R2', 'find': 'file_offset:', 'replace': 'pub file_offset:'}]},
  'struct Substr': {'kind': 'decl', 'file': F, 'header': r"^pub struct Substr<'a>$", 'attrs': ['#[derive(Clone, Copy)]'],
     'rewrites': [{'rule': 'R2', 'find': 'slice:', 'replace': 'pub slice:'},
                  {'rule': 'R2', 'find': 'file_offset:', 'replace': 'pub file_offset:'}]},
  # ---- free leaves under proof ------------------------------------------------------------------------
  'is_whitespace': {'kind': 'fn', 'file': F, 'container': None, 'name': 'is_whitespace', 'props': ['C03', 'C01'],
     'ensures': [('ws_table', 'r == is_ws(b)')]},
  'is_int': {'kind': 'fn', 'file': F, 'container': None, 'name': 'is_int', 'props': ['C03', 'C01'],
     'ensures': [('all_digits', 'r == all_digits(b@)')],
     'rewrites': [{'rule': 'R7', 'find': 'b.iter().all(|&b| b.is_ascii_digit())', 'replace': 'hoist_all_ascii_digit(b)'}]},
  # ---- Substr -----------------------------------------------------------------------------------------
  'Substr::is_integer': {'kind': 'fn', 'file': F, 'container': SB, 'name': 'is_integer', 'props': ['C03', 'C01'],
     'ensures': [('int_grammar', 'r == is_int_lit(self.slice@)')],
     'rewrites': [{'rule': 'R1', 'find': 'is_int(slice)', 'replace':
        'proof { let s = self.slice@; assert(slice@ =~= s.subrange(s.len() - slice@.len(), s.len() as int)); } is_int(slice)'}]},
  'Substr::as_slice': {'kind': 'fn', 'file': F, 'container': SB, 'name': 'as_slice', 'props': ['C01'],
     'ensures': [('as_slice_is_slice', 'r@ == self.slice@')]},
  'Substr::reslice': {'kind': 'fn', 'file': F, 'container': SB, 'name': 'reslice', 'props': ['C01', 'C17'],
     'requires': ['self.swf()', 'range.start <= self.slice@.len()'],
     'ensures': [('reslice_tail', 'r.slice@ == self.slice@.subrange(range.start as int, self.slice@.len() as int)'),
                 ('reslice_offset', 'r.file_offset == self.file_offset + range.start && r.swf()')]},
  'Substr::file_range': {'kind': 'fn', 'file': F, 'container': SB, 'name': 'file_range', 'props': ['C01', 'C17'],
     'requires': ['self.swf()'],
     'ensures': [('file_range_is_offset_plus_len', 'r.start == self.file_offset && r.end == self.file_offset + self.slice@.len()')]},
  # ---- Lexer: construction, accessors -----------------------------------------------------------------
  'Lexer::new': {'kind': 'fn', 'file': F, 'container': LX, 'name': 'new', 'props': ['C01'],
     'requires': ['buf@.len() <= isize::MAX'],
     'ensures': [('new_wf', 'r.wf() && r.pos == 0 && r.file_offset == 0 && r.buf@ == buf@')]},
  'Lexer::with_offset': {'kind': 'fn', 'file': F, 'container': LX, 'name': 'with_offset', 'props': ['C01', 'C17'],
     'requires': ['buf@.len() <= isize::MAX', 'file_offset + buf@.len() <= usize::MAX'],
     'ensures': [('with_offset_wf', 'r.wf() && r.pos == 0 && r.file_offset == file_offset && r.buf@ == buf@')]},
  'Lexer::get_pos': {'kind': 'fn', 'file': F, 'container': LX, 'name': 'get_pos', 'props': ['C01'],
     'ensures': [('get_pos_is_pos', 'r == self.pos')]},
  'Lexer::is_whitespace': {'kind': 'fn', 'file': F, 'container': LX, 'name': 'is_whitespace', 'props': ['C03', 'C01'],
     'ensures': [('ws_at', 'r == (pos < self.buf@.len() && is_ws(self.buf@[pos as int]))')],
     'rewrites': [{'rule': 'R7', 'find': 'self.buf.get(pos).map(|&b| is_whitespace(b)).unwrap_or(false)',
                   'replace': 'hoist_get_is_ws(self.buf, pos)'}]},
  'Lexer::is_delimiter': {'kind': 'fn', 'file': F, 'container': LX, 'name': 'is_delimiter', 'props': ['C03', 'C01'],
     'ensures': [('delim_at', 'r == (pos < self.buf@.len() && is_delim(self.buf@[pos as int]))')],
     # R7 by shape: only `<buf>.get(<pos>).map(|x| <set>.contains(x)).unwrap_or(false)` is hoisted; the byte set itself stays
     # under proof: the byte-string literal (opaque to Verus) is re-spelled as the array of its bytes, `b"()"` -> `[b'(', b')', ]`
     # (marker « ... » around the literal's content, every (escaped) character inside it -> a byte literal, markers dropped).
     'rewrites': [{'rule': 'R7', 'regex': r'([\w.]+)\.get\((\w+)\)\s*\.map\(\|\s*&?(\w+)\s*\|\s*b"((?:[^"\\]|\\.)*)"\.contains\(&?\3\)\)\s*\.unwrap_or\(false\)',
                   'replace': r'hoist_get_in_set(\1, \2, &[«\4»])'},
                  {'rule': 'R7', 'regex': r'(\\.|[^\\«»])(?=(?:\\.|[^\\«»])*»)', 'replace': r"b'\1', ", 'count': '*'},
                  {'rule': 'R7', 'regex': r'[«»]', 'replace': '', 'count': 2},
                  {'rule': 'R1', 'regex': r'\A\s*\{', 'replace': '{ proof { reveal_with_fuel(in_set, 24); }'}]},
  'Lexer::advance_pos': {'kind': 'fn', 'file': F, 'container': LX, 'name': 'advance_pos', 'props': ['C01', 'C03'],
     'ensures': [('advance_ok', 'r matches Ok(p) ==> p == pos + 1 && pos < self.buf@.len()'),
                 ('advance_eof', 'r is Err ==> pos >= self.buf@.len() && r matches Err(PdfError::EOF)')]},
  'Lexer::skip_whitespace': {'kind': 'fn', 'file': F, 'container': LX, 'name': 'skip_whitespace', 'props': ['C03', 'C01'],
     'requires': ['pos <= self.buf@.len()'],
     'ensures': [('skip_ws_ok', 'r matches Ok(p) ==> p == ws_end(self.buf@, pos as int) && pos <= p < self.buf@.len()'),
                 ('skip_ws_eof', 'r is Err ==> ws_end(self.buf@, pos as int) >= self.buf@.len() && r matches Err(PdfError::EOF)')],
     'rewrites': [{'rule': 'R7', 'regex': r'boundary\((self\.buf), (pos), is_whitespace\)', 'replace': r'hoist_boundary_ws(\1, \2)'},
                  {'rule': 'R1', 'find': 'let pos = hoist_boundary_ws(self.buf, pos);', 'replace':
                   'let ghost pos0 = pos; let pos = hoist_boundary_ws(self.buf, pos); proof { lemma_ws_unique(self.buf@, pos0 as int, pos as int); }'}]},
  'Lexer::new_substr': {'kind': 'fn', 'file': F, 'container': LX, 'name': 'new_substr', 'props': ['C01', 'C17'],
     'requires': ['self.wf()',
                  'if range.start <= range.end { range.end <= self.buf@.len() } else { range.start < self.buf@.len() }'],
     'ensures': [('substr_is_range', 'range.start <= range.end ==> r.cut_from(self.buf@, self.file_offset as int, range.start as int, range.end as int)'),
                 ('substr_backward_range', 'range.start > range.end ==> r.cut_from(self.buf@, self.file_offset as int, range.end + 1, range.start + 1)'),
                 ('substr_offset_fits', 'r.swf()')]},
  # ---- Lexer: tokens ------------------------------------------------------------------------------------
  'Lexer::next_word': {'kind': 'fn', 'file': F, 'container': LX, 'name': 'next_word', 'props': ['C03', 'C01'],
     'requires': ['self.wf()'],
     'ensures': [('token_none_is_eof', 'token_start(self.buf@, self.pos as int) is None ==> r matches Err(PdfError::EOF)'),
                 ('token_is_iso_token', 'token_start(self.buf@, self.pos as int) matches Some(s) ==> (r matches Ok((sub, p)) && p == token_end(self.buf@, s) && sub.cut_from(self.buf@, self.file_offset as int, s, p as int) && sub.swf())')],
     'rewrites': [
        {'rule': 'R7', 'count': '*', 'regex': r"(self\.buf\[pos\s*\.\.\])\.iter\(\)\.position\(\|&b\| b == b'\\n'\)", 'replace': r'hoist_position_lf(&\1)'},
        # shape after findings/comment_eol_cr_fix.diff (either this or the previous one matches; neither -> Verus rejects the closure -> undecided)
        {'rule': 'R7', 'count': '*', 'regex': r"(self\.buf\[pos\s*\.\.\])\.iter\(\)\.position\(\|&b\| b == b'\\n' \|\| b == b'\\r'\)", 'replace': r'hoist_position_lf_cr(&\1)'},
        {'rule': 'R7', 'regex': r'self\.buf\.get\((pos)\.\.=(pos\+1)\)', 'replace': r'hoist_get_incl(self.buf, \1, \2)'},
        {'rule': 'R7', 'find': 'slice == b"<<"', 'replace': 'hoist_eq_ltlt(slice)'},
        {'rule': 'R7', 'find': 'slice == b">>"', 'replace': 'hoist_eq_gtgt(slice)'},
        {'rule': 'R1', 'find': 'let mut pos = self.skip_whitespace(self.pos)?;', 'replace':
         'proof { lemma_ws_end(self.buf@, self.pos as int); } let mut pos = self.skip_whitespace(self.pos)?; proof { lemma_ts_shift(self.buf@, self.pos as int, pos as int); }'},
        {'rule': 'R1', 'find': 'pos += 1;', 'replace': 'let ghost p0 = pos as int; let ghost mut eol_found = false; pos += 1;'},
        {'rule': 'R1', 'find': 'pos += off+1;', 'replace': NW_COMMENT_SOME},
        {'rule': 'R1', 'find': 'pos = self.skip_whitespace(pos)?;', 'replace': NW_COMMENT_JOIN},
        {'rule': 'R1', 'find': 'let start_pos = pos;', 'replace': 'let start_pos = pos; proof { lemma_ws_unique(self.buf@, pos as int, pos as int); }'},
        {'rule': 'R1', 'find': 'return Ok((self.new_substr(start_pos..pos), pos)); }', 'count': 2, 'replace':
         'proof { if self.buf@[start_pos as int] == 47u8 { lemma_reg_unique(self.buf@, start_pos as int + 1, pos as int); } } return Ok((self.new_substr(start_pos..pos), pos)); }'},
        {'rule': 'R1', 'find': 'let result = self.new_substr(start_pos..pos);', 'replace':
         'proof { lemma_reg_unique(self.buf@, start_pos as int, pos as int); } let result = self.new_substr(start_pos..pos);'},
     ],
     'loops': {
        1: {'invariant': ['self.wf()', 'self.pos <= pos < self.buf@.len()', '!is_ws(self.buf@[pos as int])',
                          ('comments_skipped', 'token_start(self.buf@, self.pos as int) == token_start(self.buf@, pos as int)')],
            'decreases': 'self.buf@.len() - pos'},
        2: {'invariant': ['self.wf()', 'start_pos < pos <= self.buf@.len()',
                          ('name_is_regular_run', 'forall|j: int| start_pos < j < pos ==> is_reg(self.buf@[j])')],
            'ensures': [('name_run_maximal', 'pos < self.buf@.len() ==> !is_reg(self.buf@[pos as int])')],
            'decreases': 'self.buf@.len() - pos'},
        3: {'invariant': ['self.wf()', 'start_pos <= pos <= self.buf@.len()',
                          ('word_is_regular_run', 'forall|j: int| start_pos <= j < pos ==> is_reg(self.buf@[j])')],
            'ensures': [('word_run_maximal', 'pos < self.buf@.len() ==> !is_reg(self.buf@[pos as int])')],
            'decreases': 'self.buf@.len() - pos'},
     }},
  'Lexer::next': {'kind': 'fn', 'file': F, 'container': LX, 'name': 'next', 'props': ['C03', 'C01'],
     'requires': ['old(self).wf()'],
     'ensures': [('next_wf', 'final(self).wf() && ' + SAME),
                 ('next_eof_keeps_pos', TS0 + ' is None ==> final(self).pos == old(self).pos && r matches Err(PdfError::EOF)'),
                 ('next_is_iso_token', TS0 + ' matches Some(s) ==> (r matches Ok(sub) && final(self).pos == token_end(old(self).buf@, s) && sub.cut_from(old(self).buf@, old(self).file_offset as int, s, final(self).pos as int) && sub.swf())')]},
  'Lexer::peek': {'kind': 'fn', 'file': F, 'container': LX, 'name': 'peek', 'props': ['C03', 'C01'],
     'requires': ['self.wf()'],
     'ensures': [('peek_eof_is_empty', 'token_start(self.buf@, self.pos as int) is None ==> (r matches Ok(sub) && sub.cut_from(self.buf@, self.file_offset as int, self.pos as int, self.pos as int))'),
                 ('peek_is_iso_token', 'token_start(self.buf@, self.pos as int) matches Some(s) ==> (r matches Ok(sub) && sub.cut_from(self.buf@, self.file_offset as int, s, token_end(self.buf@, s)) && sub.swf())')]},
  'Lexer::next_expect': {'kind': 'fn', 'file': F, 'container': LX, 'name': 'next_expect', 'props': ['C03', 'C01'],
     'requires': ['old(self).wf()'],
     'ensures': [('expect_wf', 'final(self).wf() && ' + SAME),
                 ('expect_eof', TS0 + ' is None ==> final(self).pos == old(self).pos && r matches Err(PdfError::EOF)'),
                 ('expect_compares_iso_token', TS0 + ' matches Some(s) ==> final(self).pos == token_end(old(self).buf@, s) && (r is Ok <==> old(self).buf@.subrange(s, token_end(old(self).buf@, s)) == str_bytes(expected)) && (r matches Err(e) ==> (e matches PdfError::UnexpectedLexeme { pos: ep, expected: ee } && ep == final(self).pos && ee == expected))')],
     'rewrites': [{'rule': 'R7', 'find': 'word.equals(expected.as_bytes())', 'replace': 'hoist_equals_str(&word, expected)'},
                  {'rule': 'R3', 'find': 'lexeme: word.to_string(),', 'replace': ''}]},
  'Lexer::next_stream': {'kind': 'fn', 'file': F, 'container': LX, 'name': 'next_stream', 'props': ['C03', 'C01'],
     'requires': ['old(self).wf()'],
     'ensures': [('stream_wf', 'final(self).wf() && ' + SAME),
                 ('stream_no_keyword', 'stream_kw_pos(old(self).buf@, old(self).pos as int) is None ==> r is Err && final(self).pos == old(self).pos'),
                 ('stream_lf_or_crlf_only', 'stream_kw_pos(old(self).buf@, old(self).pos as int) matches Some(k) ==> match stream_data_start(old(self).buf@, k) { Some(d) => r is Ok && final(self).pos == d, None => r is Err && final(self).pos == old(self).pos }')],
     'rewrites': [{'rule': 'R7', 'regex': r'(self\.buf\[pos \.\.\])\.starts_with\(b"stream"\)', 'replace': r'hoist_starts_with_stream(&\1)'},
                  {'rule': 'R5', 'find': 'let &b0 = self.buf.get(pos + 6).ok_or(PdfError::EOF)?;', 'replace': 'let b0 = *self.buf.get(pos + 6).ok_or(PdfError::EOF)?;'},
                  {'rule': 'R5', 'find': 'let &b1 = self.buf.get(pos + 7).ok_or(PdfError::EOF)?;', 'replace': 'let b1 = *self.buf.get(pos + 7).ok_or(PdfError::EOF)?;'},
                  {'rule': 'R1', 'find': 'let pos = self.skip_whitespace(self.pos)?;', 'replace':
                   'proof { lemma_ws_end(self.buf@, self.pos as int); } let pos = self.skip_whitespace(self.pos)?;'}]},
  'Lexer::back': {'kind': 'fn', 'file': F, 'container': LX, 'name': 'back', 'props': ['C01'],
     'requires': ['old(self).wf()'],
     'ensures': [('back_wf', 'final(self).wf() && ' + SAME),
                 ('back_previous_word', 'r matches Ok(sub) && final(self).pos + sub.slice@.len() <= old(self).pos && sub.cut_from(old(self).buf@, old(self).file_offset as int, final(self).pos as int, final(self).pos + sub.slice@.len())'),
                 ('back_skipped_is_ws', 'r matches Ok(sub) && forall|i: int| final(self).pos + sub.slice@.len() <= i < old(self).pos ==> is_ws(old(self).buf@[i])'),
                 ('back_word_is_not_ws', 'r matches Ok(sub) && (forall|i: int| final(self).pos <= i < final(self).pos + sub.slice@.len() ==> !is_ws(old(self).buf@[i])) && (final(self).pos > 0 ==> is_ws(old(self).buf@[final(self).pos - 1]))')],
     'rewrites': [{'rule': 'R7', 'regex': r'boundary_rev\((self\.buf), (self\.pos), is_whitespace\)', 'replace': r'hoist_boundary_rev_ws(\1, \2)'},
                  {'rule': 'R7', 'regex': r'boundary_rev\((self\.buf), (end_pos), not\(is_whitespace\)\)', 'replace': r'hoist_boundary_rev_not_ws(\1, \2)'}]},
  'Lexer::set_pos': {'kind': 'fn', 'file': F, 'container': LX, 'name': 'set_pos', 'props': ['C01'],
     'requires': ['old(self).wf()'],
     'ensures': [('set_pos_wf', 'final(self).wf() && ' + SAME),
                 ('set_pos_clamped', 'final(self).pos == if wanted_pos <= old(self).buf@.len() { wanted_pos as int } else { old(self).buf@.len() as int }'),
                 ('set_pos_between', 'r.cut_from(old(self).buf@, old(self).file_offset as int, if old(self).pos < final(self).pos { old(self).pos as int } else { final(self).pos as int }, if old(self).pos < final(self).pos { final(self).pos as int } else { old(self).pos as int }) && r.swf()')]},
  'Lexer::set_pos_from_end': {'kind': 'fn', 'file': F, 'container': LX, 'name': 'set_pos_from_end', 'props': ['C01'],
     'requires': ['old(self).wf()'],
     'ensures': [('from_end_wf', 'final(self).wf() && ' + SAME),
                 ('from_end_pos', 'final(self).pos == if old(self).buf@.len() >= new_pos + 1 { old(self).buf@.len() - new_pos - 1 } else { 0 }')]},
  'Lexer::offset_pos': {'kind': 'fn', 'file': F, 'container': LX, 'name': 'offset_pos', 'props': ['C01'],
     'requires': ['old(self).wf()'],
     'ensures': [('offset_wf', 'final(self).wf() && ' + SAME),
                 ('offset_forward_clamped', 'old(self).pos + offset <= usize::MAX ==> final(self).pos == if old(self).pos + offset <= old(self).buf@.len() { old(self).pos + offset } else { old(self).buf@.len() as int }')]},
  'Lexer::get_remaining_slice': {'kind': 'fn', 'file': F, 'container': LX, 'name': 'get_remaining_slice', 'props': ['C01'],
     'requires': ['self.wf()'],
     'ensures': [('remaining_is_tail', 'r@ == self.buf@.subrange(self.pos as int, self.buf@.len() as int)')]},
  'Substr::real_number': {'kind': 'fn', 'file': F, 'container': SB, 'name': 'real_number', 'props': ['C03', 'C01'],
     'ensures': [('real_accepts_conformant', 'is_real_lit(self.slice@) ==> (r matches Some(p) && p.slice@ == self.slice@ && p.file_offset == self.file_offset)'),
                 ('real_rejects_others', '!is_real_lit(self.slice@) ==> (r is None || (DEV_REAL_PREFIX_ACCEPTED() && (r matches Some(p) && p.file_offset == self.file_offset && p.slice@.len() < self.slice@.len() && p.slice@ == self.slice@.subrange(0, p.slice@.len() as int) && is_real_lit(p.slice@))))')],
     'rewrites': [
        {'rule': 'R7', 'find': "slice.iter().position(|&b| b == b'.')", 'replace': 'hoist_position_dot(slice)'},
        {'rule': 'R7', 'find': 'slice.iter().position(|&b| !b.is_ascii_digit())', 'replace': 'hoist_position_nondigit(slice)'},
        {'rule': 'R1', 'find': 'let mut slice = self.slice;', 'replace': 'let mut slice = self.slice; let ghost s = self.slice@;'},
        {'rule': 'R1', 'find': 'if let Some(i) = hoist_position_dot(slice) {', 'replace':
         'let ghost k: int = s.len() - slice@.len(); let ghost t = slice@; proof { assert(t =~= s.subrange(k, s.len() as int)); } '
         'let ghost mut dot: Option<int> = None; '
         'if let Some(i) = hoist_position_dot(slice) { proof { dot = Some(i as int); lemma_ureal_firstdot(t, i as int); }'},
        {'rule': 'R1', 'find': 'if let Some(len) = hoist_position_nondigit(slice) {', 'replace':
         'let ghost u = slice@; '
         'if let Some(len) = hoist_position_nondigit(slice) { proof { if real_scan(t, dot, u) { lemma_real_some(t, dot, u, len as int); } }'},
        {'rule': 'R1', 'find': 'Some(Substr {', 'replace':
         'proof { assert(self.slice@.subrange(0, end as int).subrange(k, end as int) =~= t.subrange(0, end - k)); assert(self.slice@.subrange(0, end as int)[0] == s[0]); } Some(Substr {'},
        {'rule': 'R1', 'find': 'else { Some(*self) }', 'replace': 'else { proof { if real_scan(t, dot, u) { lemma_real_none(t, dot, u); } } Some(*self) }'},
     ]},
  'Substr::is_real_number': {'kind': 'fn', 'file': F, 'container': SB, 'name': 'is_real_number', 'props': ['C03', 'C01'],
     'ensures': [('is_real_accepts_conformant', 'is_real_lit(self.slice@) ==> r'),
                 ('is_real_rejects_others', '!is_real_lit(self.slice@) && !DEV_REAL_PREFIX_ACCEPTED() ==> !r')]},
  'Lexer::seek_substr': {'kind': 'fn', 'file': F, 'container': LX, 'name': 'seek_substr', 'props': ['C01'],
     'requires': ['old(self).wf()', 'substr@.len() > 0'],
     'ensures': [('seek_wf', 'final(self).wf() && ' + SAME),
                 ('seek_none_at_end', 'r is None ==> final(self).pos == old(self).buf@.len()'),
                 ('seek_found_after_match', 'r matches Some(sub) ==> final(self).pos >= old(self).pos + substr@.len() && occurs_at(old(self).buf@, substr@, final(self).pos - substr@.len()) && sub.cut_from(old(self).buf@, old(self).file_offset as int, old(self).pos as int, final(self).pos - substr@.len())')],
     'rewrites': [{'where': 'sig', 'rule': 'R2', 'find': 'substr: impl AsRef<[u8]>', 'replace': 'substr: &[u8]'},
                  {'rule': 'R2', 'find': 'let substr = substr.as_ref();', 'replace': ''},
                  {'rule': 'R1', 'find': 'Some(self.new_substr(start..(self.pos - substr.len())))', 'replace':
                   'proof { assert(self.buf@.subrange(self.pos - substr@.len(), self.pos as int) =~= substr@); } Some(self.new_substr(start..(self.pos - substr.len())))'}],
     'loops': {1: {'invariant': ['self.wf()', 'self.buf@ == old(self).buf@', 'self.file_offset == old(self).file_offset',
                                 'substr@.len() > 0', 'start == old(self).pos', 'start <= self.pos'],
                   'invariant_except_break': ['matched < substr@.len()', 'matched <= self.pos - start',
                                 ('seek_partial_match', 'forall|j: int| 0 <= j < matched ==> self.buf@[self.pos - matched + j] == substr@[j]')],
                   'ensures': ['self.pos < self.buf@.len()', 'self.pos + 1 >= start + substr@.len()',
                               ('seek_full_match', 'forall|j: int| 0 <= j < substr@.len() ==> self.buf@[self.pos + 1 - substr@.len() + j] == substr@[j]')],
                   'decreases': 'self.buf@.len() - self.pos'}}},
  'Lexer::seek_substr_back': {'kind': 'fn', 'file': F, 'container': LX, 'name': 'seek_substr_back', 'props': ['C01'],
     'requires': ['old(self).wf()', 'substr@.len() > 0'],
     'ensures': [('seek_back_wf', 'final(self).wf() && ' + SAME),
                 ('seek_back_last_match', 'r matches Ok(sub) ==> final(self).pos <= old(self).pos && occurs_at(old(self).buf@.subrange(0, old(self).pos as int), substr@, final(self).pos - substr@.len()) && (forall|j: int| final(self).pos - substr@.len() < j ==> !occurs_at(old(self).buf@.subrange(0, old(self).pos as int), substr@, j)) && sub.cut_from(old(self).buf@, old(self).file_offset as int, final(self).pos as int, old(self).pos as int)'),
                 ('seek_back_not_found', 'r matches Err(e) ==> e matches PdfError::NotFound && final(self).pos == old(self).pos && (forall|j: int| !occurs_at(old(self).buf@.subrange(0, old(self).pos as int), substr@, j))')],
     'rewrites': [{'rule': 'R7', 'regex': r'(self\.buf\[\.\. end\])\.windows\((substr\.len\(\))\)\.rposition\(\|w\| w == (substr)\)', 'replace': r'hoist_windows_rposition(&\1, \2, \3)'},
                  {'rule': 'R3', 'find': 'PdfError::NotFound {word: String::from_utf8_lossy(substr).into() }', 'replace': 'PdfError::NotFound'}]},
  'Lexer::incr_pos': {'kind': 'fn', 'file': F, 'container': LX, 'name': 'incr_pos', 'props': ['C01'],
     'requires': ['old(self).wf()'],
     'ensures': [('incr_wf', 'final(self).wf() && ' + SAME),
                 ('incr_by_one', 'final(self).pos == if r { old(self).pos + 1 } else { old(self).pos as int }')]},
  'Lexer::seek_newline': {'kind': 'fn', 'file': F, 'container': LX, 'name': 'seek_newline', 'props': ['C01'],
     'requires': ['old(self).wf()'],
     'ensures': [('seek_newline_wf', 'final(self).wf() && ' + SAME),
                 ('seek_newline_skipped', 'old(self).pos <= final(self).pos && r.cut_from(old(self).buf@, old(self).file_offset as int, old(self).pos as int, final(self).pos as int)')],
     'loops': {1: {'invariant': ['self.wf()', 'self.buf@ == old(self).buf@', 'self.file_offset == old(self).file_offset', 'start <= self.pos'],
                   'decreases': 'self.buf@.len() - self.pos'}}},
  'Lexer::read_n': {'kind': 'fn', 'file': F, 'container': LX, 'name': 'read_n', 'props': ['C01', 'C17'],
     'requires': ['old(self).wf()', 'n <= isize::MAX'],
     'ensures': [('read_n_wf', 'final(self).wf() && ' + SAME),
                 ('read_n_at_most_n', 'r.slice@.len() <= n && r.swf()'),
                 ('read_n_from_old_pos', 'if old(self).pos < old(self).buf@.len() { r.cut_from(old(self).buf@, old(self).file_offset as int, old(self).pos as int, final(self).pos as int) } else { r.slice@.len() == 0 }'),
                 ('read_n_full_when_available', 'old(self).pos + n < old(self).buf@.len() ==> final(self).pos == old(self).pos + n')]},
 },
 'kani': {
   'modules': [{'file': F, 'code': 'kani_lexer.rs'}],
   'jobs': 8, 'timeout': 1500,
   'harnesses': [
     {'name': 'is_whitespace_table', 'fn': 'is_whitespace', 'file': F, 'props': ['C03', 'C01'], 'kind': 'complete', 'covers': True,
      'contract': 'forall b: u8. is_whitespace(b) == (b in {0,9,10,12,13,32} minus FF under DEV_FORMFEED_NOT_WHITESPACE); not(is_whitespace)(b) is its negation'},
     {'name': 'lexer_is_whitespace_leaf', 'fn': 'Lexer::is_whitespace', 'file': F, 'props': ['C03', 'C01'], 'kind': 'complete', 'covers': True,
      'contract': 'forall byte values, buffers of 0..2 bytes, every pos: usize. is_whitespace(pos) == (pos < len && is_ws(buf[pos])); never panics  [= hoist_get_is_ws]'},
     {'name': 'lexer_is_delimiter_leaf', 'fn': 'Lexer::is_delimiter', 'file': F, 'props': ['C03', 'C01'], 'kind': 'complete', 'covers': True,
      'contract': 'forall byte values, buffers of 0..2 bytes, every pos: usize. is_delimiter(pos) == (pos < len && buf[pos] in "()<>[]{}/%"); never panics  [= hoist_get_in_set with the set of the source literal]'},
     {'name': 'boundary_ws_leaf', 'fn': 'boundary', 'file': F, 'props': ['C03', 'C01'], 'kind': 'bounded', 'bound': 'slices <= 8 bytes, unwind 10', 'covers': True,
      'contract': 'pos <= len ==> pos <= r <= len, is_ws on [pos,r), r < len ==> !is_ws(data[r])  [= hoist_boundary_ws]'},
     {'name': 'boundary_rev_ws_leaf', 'fn': 'boundary_rev', 'file': F, 'props': ['C01'], 'kind': 'bounded', 'bound': 'slices <= 8 bytes, unwind 10', 'covers': True,
      'contract': 'pos <= len ==> r <= pos, is_ws on [r,pos), r > 0 ==> !is_ws(data[r-1])  [= hoist_boundary_rev_ws]'},
     {'name': 'boundary_rev_not_ws_leaf', 'fn': 'boundary_rev', 'file': F, 'props': ['C01'], 'kind': 'bounded', 'bound': 'slices <= 8 bytes, unwind 10', 'covers': True,
      'contract': 'pos <= len ==> r <= pos, !is_ws on [r,pos), r > 0 ==> is_ws(data[r-1])  [= hoist_boundary_rev_not_ws]'},
     {'name': 'is_int_leaf', 'fn': 'is_int', 'file': F, 'props': ['C03', 'C01'], 'kind': 'bounded', 'bound': 'slices <= 8 bytes, unwind 10', 'covers': True,
      'contract': 'is_int(s) == all bytes of s are ASCII digits  [= hoist_all_ascii_digit]'},
     {'name': 'is_integer_grammar_bounded', 'fn': 'Substr::is_integer', 'file': F, 'props': ['C03'], 'kind': 'bounded', 'bound': 'tokens <= 6 bytes, unwind 10', 'covers': True,
      'contract': 'is_integer(s) == s matches [+-]? d+ (the + only with DEV_NO_PLUS_SIGN off)'},
   ],
 },
}
