// =====================================================================================================
// Specification, written from ISO 32000-1:2008
// =====================================================================================================
// 7.2.2 Table 1: NUL, HT, LF, FF, CR, SP
pub open spec fn is_ws_iso(b: u8) -> bool { b == 0 || b == 9 || b == 10 || b == 12 || b == 13 || b == 32 }
pub open spec fn is_ws(b: u8) -> bool { is_ws_iso(b) && !(DEV_FORMFEED_NOT_WHITESPACE() && b == 12) }
// 7.2.2 Table 2: ( ) < > [ ] { } / %
pub open spec fn is_delim(b: u8) -> bool { b == 40 || b == 41 || b == 60 || b == 62 || b == 91 || b == 93 || b == 123 || b == 125 || b == 47 || b == 37 }
// 7.2.2: "all characters except the white-space characters and delimiters are referred to as regular characters"
pub open spec fn is_reg(b: u8) -> bool { !is_ws(b) && !is_delim(b) }
// 7.2.2: CR and LF are the end-of-line markers; 7.2.3: a comment runs "up to but not including the end of the line"
pub open spec fn is_eol(b: u8) -> bool { b == 10 || (b == 13 && !DEV_COMMENT_EOL_LF_ONLY()) }

pub open spec fn ws_end(buf: Seq<u8>, p: int) -> int decreases buf.len() - p {
    if 0 <= p < buf.len() && is_ws(buf[p]) { ws_end(buf, p + 1) } else { p }
}
pub open spec fn reg_end(buf: Seq<u8>, p: int) -> int decreases buf.len() - p {
    if 0 <= p < buf.len() && is_reg(buf[p]) { reg_end(buf, p + 1) } else { p }
}
// index just past the first EOL byte at or after p; None if the line never ends
pub open spec fn eol_after(buf: Seq<u8>, p: int) -> Option<int> decreases buf.len() - p {
    if p < 0 || p >= buf.len() { None } else if is_eol(buf[p]) { Some(p + 1) } else { eol_after(buf, p + 1) }
}
// 7.2.3: first byte of the next token at or after p: white-space and comments are skipped ("the comment ... shall be
// treated as a single white-space character"); None = no token before the end of the data.
pub open spec fn token_start(buf: Seq<u8>, p: int) -> Option<int> decreases buf.len() - p {
    let q = ws_end(buf, p);
    if p < 0 || q < p || q >= buf.len() { None }
    else if buf[q] == 37 {
        match eol_after(buf, q + 1) {
            Some(e) => if p < e <= buf.len() { token_start(buf, e) } else { None },
            // a comment that is still open at the end of the data contains no token ...
            None => if DEV_UNTERMINATED_COMMENT_IS_LEXED() { token_start(buf, q + 1) } else { None },
        }
    } else { Some(q) }
}
// 7.2.2: a delimiter is a token by itself, except `<<` `>>` (7.3.7) and `/` which introduces a name that extends
// over the following regular characters (7.3.5); otherwise the token is the maximal run of regular characters.
pub open spec fn token_end(buf: Seq<u8>, s: int) -> int {
    if is_delim(buf[s]) {
        if buf[s] == 47 { reg_end(buf, s + 1) }
        else if s + 1 < buf.len() && ((buf[s] == 60 && buf[s+1] == 60) || (buf[s] == 62 && buf[s+1] == 62)) { s + 2 }
        else { s + 1 }
    } else { reg_end(buf, s) }
}

// 7.3.8.1: "The keyword stream that follows the stream dictionary shall be followed by an end-of-line marker
// consisting of either a CARRIAGE RETURN and a LINE FEED or just a LINE FEED, and not by a CARRIAGE RETURN alone."
// k = index of the `s` of the keyword; result = index of the first byte of stream data.
pub open spec fn stream_data_start(buf: Seq<u8>, k: int) -> Option<int> {
    if k + 6 < buf.len() && buf[k + 6] == 10 { Some(k + 7) }
    else if k + 7 < buf.len() && buf[k + 6] == 13 && buf[k + 7] == 10 { Some(k + 8) }
    else { None }
}
// where the keyword is: the next token (comments skipped, 7.2.3)
pub open spec fn stream_kw_pos(buf: Seq<u8>, p: int) -> Option<int> {
    if DEV_STREAM_KEYWORD_COMMENT_NOT_SKIPPED() { let q = ws_end(buf, p); if p <= q < buf.len() { Some(q) } else { None } }
    else { token_start(buf, p) }
}

// 7.3.3 numbers:  integer = [+-]? d+      real = [+-]? ( d+ | d+ . d* | . d+ )
pub open spec fn digit(b: u8) -> bool { 48 <= b <= 57 }
pub open spec fn all_digits(s: Seq<u8>) -> bool { forall|i: int| 0 <= i < s.len() ==> digit(#[trigger] s[i]) }
pub open spec fn sign_len(s: Seq<u8>) -> int { if s.len() > 0 && (s[0] == 45 || (!DEV_NO_PLUS_SIGN() && s[0] == 43)) { 1 } else { 0 } }
pub open spec fn is_int_lit(s: Seq<u8>) -> bool {
    let k = sign_len(s);
    s.len() > k && all_digits(s.subrange(k, s.len() as int))
}
// unsigned part of a real: d+ | d+.d* | .d+   (equivalently: digits with at most one '.', at least one digit)
pub open spec fn is_ureal(t: Seq<u8>) -> bool {
    all_digits(t) && t.len() > 0
    || exists|i: int| 0 <= i < t.len() && #[trigger] t[i] == 46 && all_digits(t.subrange(0, i)) && all_digits(t.subrange(i + 1, t.len() as int))
        && (t.len() > 1 || DEV_LONE_DOT_IS_REAL())
}
pub open spec fn is_real_lit(s: Seq<u8>) -> bool { is_ureal(s.subrange(sign_len(s), s.len() as int)) }