// Kani harnesses on the real leaf functions of pdf/src/parser/lexer/mod.rs (appended as a #[cfg(kani)] module).
// They prove, on the real code, the statements that unit.rs gives to the external_body (R7) helpers:
//   hoist_boundary_ws / hoist_boundary_rev_ws / hoist_boundary_rev_not_ws   <- boundary, boundary_rev (+ is_whitespace, not)
//   hoist_get_is_ws / hoist_get_in_set                                       <- Lexer::is_whitespace, Lexer::is_delimiter
//   hoist_all_ascii_digit                                                    <- is_int
// and repeat the Verus obligations of is_whitespace / Substr::is_integer as an independent second opinion.
// None of these functions constructs a PdfError.

// Mirror of the Verus deviation switch of the same name (unit.py 'deviations'); the framework cannot hand deviation
// switches to Kani, so the maintainer flips this constant together with known_findings.txt when the code is repaired.
const DEV_FORMFEED_NOT_WHITESPACE: bool = false; // repaired in /repo (fix: FORM FEED is white-space)
const DEV_NO_PLUS_SIGN: bool = false; // repaired in /repo (fix: leading plus sign)

// spec: ISO 32000-1 7.2.2 Table 1 (NUL HT LF FF CR SP) / Table 2 (delimiters)
fn is_ws_iso(b: u8) -> bool { b == 0 || b == 9 || b == 10 || b == 12 || b == 13 || b == 32 }
fn is_ws_spec(b: u8) -> bool { is_ws_iso(b) && !(DEV_FORMFEED_NOT_WHITESPACE && b == 12) }
fn is_delim_spec(b: u8) -> bool {
    b == b'(' || b == b')' || b == b'<' || b == b'>' || b == b'[' || b == b']' || b == b'{' || b == b'}' || b == b'/' || b == b'%'
}
fn digit_spec(b: u8) -> bool { b >= b'0' && b <= b'9' }

// ---- complete: the u8 predicates over all 256 bytes ----------------------------------------------------
#[kani::proof]
fn is_whitespace_table() {
    let b: u8 = kani::any();
    kani::cover!(is_ws_spec(b));
    assert!(is_whitespace(b) == is_ws_spec(b));
    assert!(not(is_whitespace)(b) == !is_ws_spec(b));
}

#[kani::proof]
#[kani::unwind(12)]
fn lexer_is_whitespace_leaf() {
    let data: [u8; 2] = kani::any();
    let n: usize = kani::any();
    kani::assume(n <= 2);
    let pos: usize = kani::any();          // any position, in or out of the buffer
    let lx = Lexer::new(&data[..n]);
    kani::cover!(pos < n && is_ws_spec(data[pos]));
    kani::cover!(pos >= n);
    let r = lx.is_whitespace(pos);
    assert!(r == (pos < n && is_ws_spec(data[pos])));
}

#[kani::proof]
#[kani::unwind(12)]
fn lexer_is_delimiter_leaf() {
    let data: [u8; 2] = kani::any();
    let n: usize = kani::any();
    kani::assume(n <= 2);
    let pos: usize = kani::any();
    let lx = Lexer::new(&data[..n]);
    kani::cover!(pos < n && is_delim_spec(data[pos]));
    kani::cover!(pos >= n);
    let r = lx.is_delimiter(pos);
    assert!(r == (pos < n && is_delim_spec(data[pos])));
}

// ---- bounded: slices of at most 8 bytes -----------------------------------------------------------------
const N: usize = 8;

// boundary(data, pos, c): first index r >= pos with !c(data[r]), data.len() if none      (pos <= len: Lexer invariant)
fn check_boundary(data: &[u8], pos: usize, r: usize, c: impl Fn(u8) -> bool) {
    assert!(pos <= r && r <= data.len());
    let mut i = 0;
    while i < N {
        if pos <= i && i < r { assert!(c(data[i])); }
        i += 1;
    }
    if r < data.len() { assert!(!c(data[r])); }
}
// boundary_rev(data, pos, c): smallest r <= pos such that c holds on data[r..pos]
fn check_boundary_rev(data: &[u8], pos: usize, r: usize, c: impl Fn(u8) -> bool) {
    assert!(r <= pos);
    let mut i = 0;
    while i < N {
        if r <= i && i < pos { assert!(c(data[i])); }
        i += 1;
    }
    if r > 0 { assert!(!c(data[r - 1])); }
}

#[kani::proof]
#[kani::unwind(10)]
fn boundary_ws_leaf() {
    let data: [u8; N] = kani::any();
    let n: usize = kani::any();
    kani::assume(n <= N);
    let pos: usize = kani::any();
    kani::assume(pos <= n);
    let s = &data[..n];
    let r = boundary(s, pos, is_whitespace);
    kani::cover!(r > pos && r < n);
    kani::cover!(r == n && n == N && pos == 0);
    check_boundary(s, pos, r, is_ws_spec);
}

#[kani::proof]
#[kani::unwind(10)]
fn boundary_rev_ws_leaf() {
    let data: [u8; N] = kani::any();
    let n: usize = kani::any();
    kani::assume(n <= N);
    let pos: usize = kani::any();
    kani::assume(pos <= n);
    let s = &data[..n];
    let r = boundary_rev(s, pos, is_whitespace);
    kani::cover!(r < pos && r > 0);
    kani::cover!(r == 0 && pos == N);
    check_boundary_rev(s, pos, r, is_ws_spec);
}

#[kani::proof]
#[kani::unwind(10)]
fn boundary_rev_not_ws_leaf() {
    let data: [u8; N] = kani::any();
    let n: usize = kani::any();
    kani::assume(n <= N);
    let pos: usize = kani::any();
    kani::assume(pos <= n);
    let s = &data[..n];
    let r = boundary_rev(s, pos, not(is_whitespace));
    kani::cover!(r < pos && r > 0);
    kani::cover!(r == 0 && pos == N);
    check_boundary_rev(s, pos, r, |b| !is_ws_spec(b));
}

#[kani::proof]
#[kani::unwind(10)]
fn is_int_leaf() {
    let data: [u8; N] = kani::any();
    let n: usize = kani::any();
    kani::assume(n <= N);
    let s = &data[..n];
    let r = is_int(s);
    let mut all = true;
    let mut i = 0;
    while i < N {
        if i < n && !digit_spec(data[i]) { all = false; }
        i += 1;
    }
    kani::cover!(all && n == N);
    kani::cover!(!all);
    assert!(r == all);
}

// ---- second opinion on a Verus obligation: Substr::is_integer == [+-]? d+  (ISO 7.3.3), tokens of at most 6 bytes
#[kani::proof]
#[kani::unwind(10)]
fn is_integer_grammar_bounded() {
    const M: usize = 6;
    let data: [u8; M] = kani::any();
    let n: usize = kani::any();
    kani::assume(n <= M);
    let sub = Substr::new(&data[..n], 0);
    let r = sub.is_integer();
    let k = if n > 0 && (data[0] == b'-' || (!DEV_NO_PLUS_SIGN && data[0] == b'+')) { 1 } else { 0 };
    let mut all = true;
    let mut i = 0;
    while i < M {
        if k <= i && i < n && !digit_spec(data[i]) { all = false; }
        i += 1;
    }
    let spec = n > k && all;
    kani::cover!(spec && k == 1);
    kani::cover!(!spec && n > 1);
    assert!(r == spec);
}
