// lexer/Lexer::seek_newline/panic_free, lexer/Lexer::incr_pos/panic_free — cargo test --offline -p pdf --test seek_newline_oob_repro
// seek_newline indexes buf[pos] with pos == buf.len() (a position every other method may leave behind), and incr_pos
// computes `buf.len() - 1` on an empty buffer. pub API, no call site inside the crate.
use pdf::parser::Lexer;

#[test]
fn seek_newline_at_end_of_buffer_does_not_panic() {
    let mut lx = Lexer::new(b"abc");
    lx.set_pos(3);                       // pos == len is a legal position (e.g. after next() consumed the last token)
    let s = lx.seek_newline();
    assert_eq!(s.as_slice(), b"");
}
#[test]
fn seek_newline_on_empty_buffer_does_not_panic() {
    let mut lx = Lexer::new(b"");
    let s = lx.seek_newline();
    assert_eq!(s.as_slice(), b"");
}
