// DEV_NO_PLUS_SIGN — cargo test --offline -p pdf --test no_plus_sign_repro
// ISO 32000-1 7.3.3: "an optional sign" — `+17` is an integer, `+.5` / `+3.` are reals (the standard's own examples: +17, +123.6).
use pdf::parser::{Substr, parse, ParseFlags};
use pdf::object::NoResolve;
use pdf::primitive::Primitive;

#[test]
fn plus_sign_integer() {
    assert!(Substr::new("+17", 0).is_integer(), "ISO: +17 is an integer; is_integer() == false");
}
#[test]
fn plus_sign_real() {
    assert!(Substr::new("+.5", 0).is_real_number(), "ISO: +.5 is a real; is_real_number() == false");
    assert!(Substr::new("+123.6", 0).is_real_number(), "ISO: +123.6 is a real; is_real_number() == false");
}
#[test]
fn plus_sign_parses() {
    // (inside an array: a bare integer at the very end of the data is a separate parser problem, `parse(b"17")` is Err(EOF))
    match parse(b"[+17 +.5]", &NoResolve, ParseFlags::ANY) {
        Ok(Primitive::Array(a)) => {
            assert!(matches!(a[0], Primitive::Integer(17)), "ISO: +17 denotes the integer 17; observed {:?}", a[0]);
            assert!(matches!(a[1], Primitive::Number(x) if x == 0.5), "ISO: +.5 denotes the real 0.5; observed {:?}", a[1]);
        }
        other => panic!("ISO: [+17 +.5] is an array of the numbers 17 and 0.5; observed {:?}", other),
    }
}
#[test]
fn observation_bare_integer_at_end_of_data() {
    // not part of this finding (parser/mod.rs look-ahead for `n g R`); recorded because it shapes the test above
    let p = parse(b"17", &NoResolve, ParseFlags::ANY);
    eprintln!("parse(b\"17\") == {:?}", p);
}
