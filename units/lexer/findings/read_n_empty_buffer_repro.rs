// lexer/Lexer::read_n/panic_free — cargo test --offline -p pdf --test read_n_empty_buffer_repro
// `self.buf.len() - 1` underflows when the buffer is empty (pub API; both call sites in parser/mod.rs have a non-empty buffer).
use pdf::parser::Lexer;

#[test]
fn read_n_on_empty_buffer_does_not_panic() {
    let mut lx = Lexer::new(b"");
    let s = lx.read_n(1);
    assert_eq!(s.as_slice(), b"");
    assert_eq!(lx.get_pos(), 0);
}
