// DEV_REAL_PREFIX_ACCEPTED — cargo test --offline -p pdf --test real_prefix_accepted_repro
// ISO 32000-1 7.3.3 / 7.2.2: the token is the maximal run of regular characters; `12abc` / `1.5.6` are not numbers.
// real_number() returns their longest numeric prefix and the parser silently reads 12 / 1.5. (Over-acceptance.)
use pdf::parser::{Substr, parse, ParseFlags};
use pdf::object::NoResolve;

#[test]
fn token_with_trailing_garbage_is_not_a_number() {
    let r = Substr::new("12abc", 0).real_number();
    assert!(r.is_none(), "ISO: 12abc is not a number; real_number() == Some({:?})", r.map(|s| s.to_string()));
}
#[test]
fn two_dots_is_not_a_number() {
    let r = Substr::new("1.5.6", 0).real_number();
    assert!(r.is_none(), "ISO: 1.5.6 is not a number; real_number() == Some({:?})", r.map(|s| s.to_string()));
}
#[test]
fn parser_reads_garbage_as_number() {
    let p = parse(b"12abc", &NoResolve, ParseFlags::ANY);
    assert!(p.is_err(), "ISO: 12abc is not an object; parse() == {:?}", p);
}
