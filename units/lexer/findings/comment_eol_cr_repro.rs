// DEV_COMMENT_EOL_LF_ONLY — cargo test --offline -p pdf --test comment_eol_cr_repro
// ISO 32000-1 7.2.3: a comment extends to the end of the line; 7.2.2: CR alone is an end-of-line marker.
use pdf::parser::Lexer;

#[test]
fn cr_terminates_a_comment() {
    let mut lx = Lexer::new(b"% comment\r42\n43");
    let t = lx.next().unwrap();
    assert_eq!(t.as_slice(), b"42", "ISO: the token after a CR-terminated comment is `42`; observed {:?} (the line after the comment was swallowed)",
        String::from_utf8_lossy(t.as_slice()));
}
