// DEV_LONE_DOT_IS_REAL — cargo test --offline -p pdf --test lone_dot_is_real_repro
// ISO 32000-1 7.3.3: a real has "one or more decimal digits"; `.` and `-.` have none. (Over-acceptance of a non-conformant token.)
use pdf::parser::Substr;

#[test]
fn lone_dot_is_not_a_number() {
    assert!(!Substr::new(".", 0).is_real_number(), "ISO: `.` is not a number; is_real_number() == true");
    assert!(!Substr::new("-.", 0).is_real_number(), "ISO: `-.` is not a number; is_real_number() == true");
}
