// DEV_STREAM_KEYWORD_COMMENT_NOT_SKIPPED — cargo test --offline -p pdf --test stream_keyword_after_comment_repro
// ISO 32000-1 7.2.3: a comment may stand wherever white-space may (here: between the stream dictionary and `stream`);
// 7.3.8.1: the keyword is followed by LF or CRLF. peek()/next() skip the comment, next_stream() does not.
use pdf::parser::Lexer;

#[test]
fn next_stream_after_comment() {
    let mut lx = Lexer::new(b"% c\nstream\nDATA");
    assert_eq!(lx.peek().unwrap().as_slice(), b"stream");          // what parse_with_lexer tests before calling next_stream
    let r = lx.next_stream();
    assert!(r.is_ok(), "ISO: `stream` LF is a valid stream start; observed {:?}", r);
    assert_eq!(lx.get_remaining_slice(), b"DATA");
}
