// DEV_UNTERMINATED_COMMENT_IS_LEXED — cargo test --offline -p pdf --test unterminated_comment_repro
// ISO 32000-1 7.2.3: everything from % to the end of the line is a comment; a comment that runs to the end of the data holds no token.
use pdf::parser::Lexer;

#[test]
fn comment_running_to_end_of_data_holds_no_token() {
    let mut lx = Lexer::new(b"1 % trailing comment");
    assert_eq!(lx.next().unwrap().as_slice(), b"1");
    let t = lx.next();
    assert!(t.is_err(), "ISO: no token after `1`; observed token {:?} taken from inside the comment",
        t.as_ref().map(|s| String::from_utf8_lossy(s.as_slice()).into_owned()));
}
