// DEV_FORMFEED_NOT_WHITESPACE — drop into pdf/tests/ of a scratch copy: cargo test --offline -p pdf --test formfeed_not_whitespace_repro
// ISO 32000-1 7.2.2 Table 1: FORM FEED (0x0C) is a white-space character and separates tokens.
use pdf::parser::{Lexer, parse, ParseFlags};
use pdf::object::NoResolve;
use pdf::primitive::Primitive;

#[test]
fn formfeed_separates_tokens() {
    let mut lx = Lexer::new(b"1\x0c2 R");
    let t = lx.next().unwrap();
    assert_eq!(t.as_slice(), b"1", "ISO: FF ends the token `1`; observed token {:?}", String::from_utf8_lossy(t.as_slice()));
    assert_eq!(lx.next().unwrap().as_slice(), b"2");
}

#[test]
fn formfeed_separated_array_parses() {
    let p = parse(b"[1\x0c2]", &NoResolve, ParseFlags::ANY);
    match p {
        Ok(Primitive::Array(a)) => assert_eq!(a.len(), 2, "ISO: [1 FF 2] is an array of two integers; observed {:?}", a),
        other => panic!("ISO: [1 FF 2] is an array of two integers; observed {:?}", other),
    }
}
