// Unit `rc4` (C06): the hand-written RC4 of pdf/src/crypt.rs -- struct Rc4, Rc4::new (key schedule), Rc4::next
// (one keystream byte), Rc4::encrypt -- against RC4 as described in Schneier, "Applied Cryptography" 2nd ed. 17.1
// and restated in RFC 6229 section 1 / RFC 7465 (KSA + PRGA). Nothing here is uninterpreted. The spec functions and the
// spec-level lemmas are in rc4_spec.rs, shared (INCLUDE) with units `decrypt` and `cryptkdf`, which use them instead of an
// uninterpreted function + axiom.
use vstd::prelude::*;
verus! {
global size_of usize == 8;

//@@ struct Rc4

//@@ INCLUDE rc4/rc4_spec.rs


// ---- abstraction of the implementation's struct ----
impl Rc4 {
    pub open spec fn gen(&self) -> Gen { Gen { s: self.state@, i: self.i as int, j: self.j as int } }
}

// ---- environment: std (trusted, documented contract of `<[T]>::swap`: "Panics if a or b are out of bounds") ----
pub assume_specification<T> [<[T]>::swap] (s: &mut [T], a: usize, b: usize)
    requires a < old(s)@.len(), b < old(s)@.len()
    ensures final(s)@ == old(s)@.update(a as int, old(s)@[b as int]).update(b as int, old(s)@[a as int]);

// ---- lemmas used by the bodies (no `requires`: hypotheses are in the `ensures`) ----
pub proof fn lemma_swap_perm(s: Seq<u8>, a: int, b: int)
    ensures is_perm(s) && 0 <= a < 256 && 0 <= b < 256 ==> is_perm(swap_seq(s, a, b))
{
    if is_perm(s) && 0 <= a < 256 && 0 <= b < 256 {
        let t = swap_seq(s, a, b);
        assert forall|x: int, y: int| 0 <= x < 256 && 0 <= y < 256 && x != y implies t[x] != t[y] by {
            let px = if x == a { b } else if x == b { a } else { x };
            let py = if y == a { b } else if y == b { a } else { y };
            assert(t[x] == s[px] && t[y] == s[py] && px != py);
        }
    }
}
pub proof fn lemma_identity_perm()
    ensures is_perm(identity_sbox())
{
    assert forall|a: int, b: int| 0 <= a < 256 && 0 <= b < 256 && a != b implies identity_sbox()[a] != identity_sbox()[b] by {
        assert(identity_sbox()[a] == a as u8 && identity_sbox()[b] == b as u8);
    }
}
/// one unfolding of the key-schedule recursion
pub proof fn lemma_ksa_round(key: Seq<u8>, n: int)
    ensures n >= 1 ==> ksa_rounds(key, n) == ({
        let (s, j) = ksa_rounds(key, n - 1);
        let j2 = (j + s[n - 1] + key[(n - 1) % (key.len() as int)]) % 256;
        (swap_seq(s, n - 1, j2), j2) })
{}
pub proof fn lemma_ksa_rounds_wf(key: Seq<u8>, n: int)
    ensures 0 <= n <= 256 ==> is_perm(ksa_rounds(key, n).0) && 0 <= ksa_rounds(key, n).1 < 256
    decreases n
{
    if 0 <= n <= 256 {
        if n == 0 { lemma_identity_perm(); } else {
            lemma_ksa_rounds_wf(key, n - 1);
            let (s, j) = ksa_rounds(key, n - 1);
            let j2 = (j + s[n - 1] + key[(n - 1) % (key.len() as int)]) % 256;
            lemma_swap_perm(s, n - 1, j2);
        }
    }
}
/// u8 arithmetic: wrapping addition is addition mod 256
pub proof fn lemma_wrap2(a: u8, b: u8)
    ensures (if a + b > 255 { a + b - 256 } else { a + b }) == (a + b) % 256
{}
pub proof fn lemma_wrap3(j: int, a: u8, b: u8)
    ensures 0 <= j < 256 ==> ((j + a) % 256 + b) % 256 == (j + a + b) % 256
{}

impl Rc4 {
//@@ Rc4::new
//@@ Rc4::next
//@@ Rc4::encrypt
}


// =====================================================================================================
// Validation of the SPEC (not of the code) against published test vectors, by evaluation (`by (compute)`):
// RFC 6229 section 2, 40-bit key 0x0102030405 (offsets 0 and 16) and 56-bit key 0x01020304050607 (offset 0);
// the classic "Key"/"Plaintext" vector. A typo in the transcription of KSA/PRGA above would fail here.
// =====================================================================================================
proof fn rfc6229_key_40_bit()
{
    assert(keystream(seq![1u8, 2u8, 3u8, 4u8, 5u8], 32) =~= seq![
        0xb2u8, 0x39u8, 0x63u8, 0x05u8, 0xf0u8, 0x3du8, 0xc0u8, 0x27u8, 0xccu8, 0xc3u8, 0x52u8, 0x4au8, 0x0au8, 0x11u8, 0x18u8, 0xa8u8,
        0x69u8, 0x82u8, 0x94u8, 0x4fu8, 0x18u8, 0xfcu8, 0x82u8, 0xd5u8, 0x89u8, 0xc4u8, 0x03u8, 0xa4u8, 0x7au8, 0x0du8, 0x09u8, 0x19u8]) by (compute);
}
proof fn rfc6229_key_56_bit()
{
    assert(keystream(seq![1u8, 2u8, 3u8, 4u8, 5u8, 6u8, 7u8], 16) =~= seq![
        0x29u8, 0x3fu8, 0x02u8, 0xd4u8, 0x7fu8, 0x37u8, 0xc9u8, 0xb6u8, 0x33u8, 0xf2u8, 0xafu8, 0x52u8, 0x85u8, 0xfeu8, 0xb4u8, 0x6bu8]) by (compute);
}
proof fn vector_key_plaintext()
{
    // key "Key", plaintext "Plaintext" -> BB F3 16 E8 D9 40 AF 0A D3
    assert(rc4(seq![0x4bu8, 0x65u8, 0x79u8], seq![0x50u8, 0x6cu8, 0x61u8, 0x69u8, 0x6eu8, 0x74u8, 0x65u8, 0x78u8, 0x74u8]) =~= seq![
        0xbbu8, 0xf3u8, 0x16u8, 0xe8u8, 0xd9u8, 0x40u8, 0xafu8, 0x0au8, 0xd3u8]) by (compute);
}

fn main() {}
}
