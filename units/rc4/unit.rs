// Unit `rc4` (C06): the hand-written RC4 of pdf/src/crypt.rs -- struct Rc4, Rc4::new (key schedule), Rc4::next
// (one keystream byte), Rc4::encrypt -- against RC4 as described in Schneier, "Applied Cryptography" 2nd ed. 17.1
// and restated in RFC 6229 section 1 / RFC 7465 (KSA + PRGA). Nothing here is uninterpreted: units `decrypt` and
// `cryptkdf` keep `rc4_spec` uninterpreted + one trusted axiom; this unit defines it and proves the axiom as a lemma.
use vstd::prelude::*;
verus! {
global size_of usize == 8;

//@@ struct Rc4

// =====================================================================================================
// RC4, written from the standard description (NOT from the code):
//
//   "RC4 has a 8 x 8 S-box: S0, S1, ..., S255. The entries are a permutation of the numbers 0 through 255, and the
//    permutation is a function of the variable-length key. It has two counters, i and j, initialized to zero.
//    To generate a random byte, do the following:
//          i = (i + 1) mod 256
//          j = (j + S_i) mod 256
//          swap S_i and S_j
//          t = (S_i + S_j) mod 256
//          K = S_t
//    The byte K is XORed with the plaintext to produce ciphertext or XORed with the ciphertext to produce plaintext.
//    Initializing the S-box is also easy. First, fill it linearly: S0 = 0, S1 = 1, ..., S255 = 255. Then fill another
//    256-byte array with the key, repeating the key as necessary to fill the entire array: K0, K1, ..., K255. Set the
//    index j to zero. Then:
//          for i = 0 to 255:
//              j = (j + S_i + K_i) mod 256
//              swap S_i and S_j"                                            (Schneier 17.1; K_i = key[i mod keylen])
// =====================================================================================================

/// "swap S_a and S_b"
pub open spec fn swap_seq(s: Seq<u8>, a: int, b: int) -> Seq<u8> { s.update(a, s[b]).update(b, s[a]) }
/// "fill it linearly: S0 = 0, S1 = 1, ..., S255 = 255"
pub open spec fn identity_sbox() -> Seq<u8> { Seq::new(256, |i: int| i as u8) }
/// "the entries are a permutation of the numbers 0 through 255": 256 pairwise different bytes
pub open spec fn is_perm(s: Seq<u8>) -> bool {
    s.len() == 256 && forall|a: int, b: int| 0 <= a < 256 && 0 <= b < 256 && a != b ==> s[a] != s[b]
}

/// the S-box and the index j after the first n rounds of the key-schedule loop ("for i = 0 to 255")
pub open spec fn ksa_rounds(key: Seq<u8>, n: int) -> (Seq<u8>, int)
    decreases n
{
    if n <= 0 { (identity_sbox(), 0int) } else {
        let (s, j) = ksa_rounds(key, n - 1);
        let i = n - 1;
        let j2 = (j + s[i] + key[i % (key.len() as int)]) % 256;
        (swap_seq(s, i, j2), j2)
    }
}
/// KSA: the 256-entry permutation the key selects
pub open spec fn ksa(key: Seq<u8>) -> Seq<u8> { ksa_rounds(key, 256).0 }

/// generator state: S-box and the two counters
pub struct Gen { pub s: Seq<u8>, pub i: int, pub j: int }
/// "i = (i + 1) mod 256; j = (j + S_i) mod 256; swap S_i and S_j"
pub open spec fn prga_step(g: Gen) -> Gen {
    let i = (g.i + 1) % 256;
    let j = (g.j + g.s[i]) % 256;
    Gen { s: swap_seq(g.s, i, j), i: i, j: j }
}
/// "t = (S_i + S_j) mod 256; K = S_t" -- read in the state the step has just produced
pub open spec fn prga_out(g: Gen) -> u8 { g.s[(g.s[g.i] + g.s[g.j]) % 256] }
/// generator state after n bytes
pub open spec fn prga_state(g: Gen, n: int) -> Gen
    decreases n
{
    if n <= 0 { g } else { prga_step(prga_state(g, n - 1)) }
}
/// PRGA: the first n keystream bytes from state (s, i, j); byte number t is emitted by step t + 1
pub open spec fn prga(s: Seq<u8>, i: int, j: int, n: int) -> Seq<u8> {
    Seq::new(n as nat, |t: int| prga_out(prga_state(Gen { s: s, i: i, j: j }, t + 1)))
}
/// "two counters, i and j, initialized to zero"
pub open spec fn keystream(key: Seq<u8>, n: int) -> Seq<u8> { prga(ksa(key), 0, 0, n) }
/// "The byte K is XORed with the plaintext to produce ciphertext or XORed with the ciphertext to produce plaintext."
pub open spec fn rc4(key: Seq<u8>, data: Seq<u8>) -> Seq<u8> {
    Seq::new(data.len(), |t: int| data[t] ^ keystream(key, data.len() as int)[t])
}

// ---- abstraction of the implementation's struct ----
impl Rc4 {
    pub open spec fn gen(&self) -> Gen { Gen { s: self.state@, i: self.i as int, j: self.j as int } }
}

// ---- environment: std (trusted, documented contract of `<[T]>::swap`: "Panics if a or b are out of bounds") ----
pub assume_specification<T> [<[T]>::swap] (s: &mut [T], a: usize, b: usize)
    requires a < old(s)@.len(), b < old(s)@.len()
    ensures final(s)@ == old(s)@.update(a as int, old(s)@[b as int]).update(b as int, old(s)@[a as int]);

// ---- lemmas used by the bodies (no `requires`: hypotheses are in the `ensures`) ----
pub proof fn lemma_swap_perm(s: Seq<u8>, a: int, b: int)
    ensures is_perm(s) && 0 <= a < 256 && 0 <= b < 256 ==> is_perm(swap_seq(s, a, b))
{
    if is_perm(s) && 0 <= a < 256 && 0 <= b < 256 {
        let t = swap_seq(s, a, b);
        assert forall|x: int, y: int| 0 <= x < 256 && 0 <= y < 256 && x != y implies t[x] != t[y] by {
            let px = if x == a { b } else if x == b { a } else { x };
            let py = if y == a { b } else if y == b { a } else { y };
            assert(t[x] == s[px] && t[y] == s[py] && px != py);
        }
    }
}
pub proof fn lemma_identity_perm()
    ensures is_perm(identity_sbox())
{
    assert forall|a: int, b: int| 0 <= a < 256 && 0 <= b < 256 && a != b implies identity_sbox()[a] != identity_sbox()[b] by {
        assert(identity_sbox()[a] == a as u8 && identity_sbox()[b] == b as u8);
    }
}
/// one unfolding of the key-schedule recursion
pub proof fn lemma_ksa_round(key: Seq<u8>, n: int)
    ensures n >= 1 ==> ksa_rounds(key, n) == ({
        let (s, j) = ksa_rounds(key, n - 1);
        let j2 = (j + s[n - 1] + key[(n - 1) % (key.len() as int)]) % 256;
        (swap_seq(s, n - 1, j2), j2) })
{}
pub proof fn lemma_ksa_rounds_wf(key: Seq<u8>, n: int)
    ensures 0 <= n <= 256 ==> is_perm(ksa_rounds(key, n).0) && 0 <= ksa_rounds(key, n).1 < 256
    decreases n
{
    if 0 <= n <= 256 {
        if n == 0 { lemma_identity_perm(); } else {
            lemma_ksa_rounds_wf(key, n - 1);
            let (s, j) = ksa_rounds(key, n - 1);
            let j2 = (j + s[n - 1] + key[(n - 1) % (key.len() as int)]) % 256;
            lemma_swap_perm(s, n - 1, j2);
        }
    }
}
/// u8 arithmetic: wrapping addition is addition mod 256
pub proof fn lemma_wrap2(a: u8, b: u8)
    ensures (if a + b > 255 { a + b - 256 } else { a + b }) == (a + b) % 256
{}
pub proof fn lemma_wrap3(j: int, a: u8, b: u8)
    ensures 0 <= j < 256 ==> ((j + a) % 256 + b) % 256 == (j + a + b) % 256
{}

impl Rc4 {
//@@ Rc4::new
//@@ Rc4::next
//@@ Rc4::encrypt
}

// =====================================================================================================
// What the other units assume about RC4, proved over the spec above (cite as `units/rc4: lemma_*`).
// All hold for EVERY key sequence (also empty / longer than 256): `rc4` is total and length-preserving.
// =====================================================================================================
pub proof fn lemma_xor_involution(x: u8, k: u8) ensures (x ^ k) ^ k == x { assert((x ^ k) ^ k == x) by (bit_vector); }
pub proof fn lemma_xor_exchange(x: u8, a: u8, b: u8) ensures (x ^ a) ^ b == (x ^ b) ^ a { assert((x ^ a) ^ b == (x ^ b) ^ a) by (bit_vector); }

/// RC4 preserves the length
pub proof fn lemma_rc4_len(key: Seq<u8>, data: Seq<u8>)
    ensures rc4(key, data).len() == data.len()
{}
/// byte t of the output depends on byte t of the input and byte t of a keystream that does not depend on the data
pub proof fn lemma_rc4_byte(key: Seq<u8>, data: Seq<u8>, t: int)
    ensures 0 <= t < data.len() ==> rc4(key, data)[t] == data[t] ^ prga_out(prga_state(Gen { s: ksa(key), i: 0, j: 0 }, t + 1))
{}
/// the keystream of a longer request extends the keystream of a shorter one (stream cipher)
pub proof fn lemma_keystream_prefix(key: Seq<u8>, m: int, n: int)
    ensures 0 <= m <= n ==> keystream(key, n).subrange(0, m) =~= keystream(key, m)
{}
/// textbook reading of the PRGA: "emit K, continue from the new state"
pub proof fn lemma_prga_unfold(s: Seq<u8>, i: int, j: int, n: int)
    ensures n >= 1 ==> ({ let g = prga_step(Gen { s: s, i: i, j: j });
                         prga(s, i, j, n) =~= seq![prga_out(g)] + prga(g.s, g.i, g.j, n - 1) })
{
    if n >= 1 {
        let g0 = Gen { s: s, i: i, j: j };
        let g = prga_step(g0);
        assert(Gen { s: g.s, i: g.i, j: g.j } == g);
        assert forall|t: int| 0 <= t implies prga_state(g, t) == #[trigger] prga_state(g0, t + 1) by { lemma_state_shift(g0, t); }
        assert forall|t: int| 1 <= t < n implies prga(s, i, j, n)[t] == prga(g.s, g.i, g.j, n - 1)[t - 1] by {
            assert(prga_state(g, t) == prga_state(g0, t + 1));
        }
        assert(prga_state(g0, 1) == prga_step(prga_state(g0, 0)));
    }
}
pub proof fn lemma_state_shift(g0: Gen, t: int)
    ensures 0 <= t ==> prga_state(prga_step(g0), t) == prga_state(g0, t + 1)
    decreases t
{
    if t > 0 { lemma_state_shift(g0, t - 1); }
    else if t == 0 { assert(prga_state(g0, 1) == prga_step(prga_state(g0, 0))); }
}

/// decryption = encryption: rc4(k, rc4(k, d)) == d
pub proof fn lemma_rc4_involution(key: Seq<u8>, data: Seq<u8>)
    ensures rc4(key, rc4(key, data)) == data
{
    let e = rc4(key, data);
    assert forall|t: int| 0 <= t < data.len() implies rc4(key, e)[t] == data[t] by {
        lemma_xor_involution(data[t], keystream(key, data.len() as int)[t]);
    }
    assert(rc4(key, e) =~= data);
}
/// the statement of `axiom_rc4_commutes` in units/decrypt and units/cryptkdf, with `rc4_spec := rc4`:
/// two RC4 applications with (any) two keys commute
pub proof fn lemma_rc4_commutes(a: Seq<u8>, b: Seq<u8>, d: Seq<u8>)
    ensures rc4(a, rc4(b, d)) == rc4(b, rc4(a, d))
{
    let n = d.len() as int;
    assert forall|t: int| 0 <= t < n implies rc4(a, rc4(b, d))[t] == rc4(b, rc4(a, d))[t] by {
        lemma_xor_exchange(d[t], keystream(b, n)[t], keystream(a, n)[t]);
    }
    assert(rc4(a, rc4(b, d)) =~= rc4(b, rc4(a, d)));
}

// =====================================================================================================
// Validation of the SPEC (not of the code) against published test vectors, by evaluation (`by (compute)`):
// RFC 6229 section 2, 40-bit key 0x0102030405 (offsets 0 and 16) and 56-bit key 0x01020304050607 (offset 0);
// the classic "Key"/"Plaintext" vector. A typo in the transcription of KSA/PRGA above would fail here.
// =====================================================================================================
proof fn rfc6229_key_40_bit()
{
    assert(keystream(seq![1u8, 2u8, 3u8, 4u8, 5u8], 32) =~= seq![
        0xb2u8, 0x39u8, 0x63u8, 0x05u8, 0xf0u8, 0x3du8, 0xc0u8, 0x27u8, 0xccu8, 0xc3u8, 0x52u8, 0x4au8, 0x0au8, 0x11u8, 0x18u8, 0xa8u8,
        0x69u8, 0x82u8, 0x94u8, 0x4fu8, 0x18u8, 0xfcu8, 0x82u8, 0xd5u8, 0x89u8, 0xc4u8, 0x03u8, 0xa4u8, 0x7au8, 0x0du8, 0x09u8, 0x19u8]) by (compute);
}
proof fn rfc6229_key_56_bit()
{
    assert(keystream(seq![1u8, 2u8, 3u8, 4u8, 5u8, 6u8, 7u8], 16) =~= seq![
        0x29u8, 0x3fu8, 0x02u8, 0xd4u8, 0x7fu8, 0x37u8, 0xc9u8, 0xb6u8, 0x33u8, 0xf2u8, 0xafu8, 0x52u8, 0x85u8, 0xfeu8, 0xb4u8, 0x6bu8]) by (compute);
}
proof fn vector_key_plaintext()
{
    // key "Key", plaintext "Plaintext" -> BB F3 16 E8 D9 40 AF 0A D3
    assert(rc4(seq![0x4bu8, 0x65u8, 0x79u8], seq![0x50u8, 0x6cu8, 0x61u8, 0x69u8, 0x6eu8, 0x74u8, 0x65u8, 0x78u8, 0x74u8]) =~= seq![
        0xbbu8, 0xf3u8, 0x16u8, 0xe8u8, 0xd9u8, 0x40u8, 0xafu8, 0x0au8, 0xd3u8]) by (compute);
}

fn main() {}
}
