# Unit `rc4` (C06): the hand-written RC4 of pdf/src/crypt.rs against the textbook KSA/PRGA. See NOTES.md.
F = 'pdf/src/crypt.rs'
IMPL = r'^impl Rc4$'

KEY_OK = '1 <= key@.len() <= 256'     # = the `assert!(!key.is_empty() && key.len() <= 256)` of Rc4::new
G0 = 'Gen { s: ksa(key@), i: 0, j: 0 }'

UNIT = {
 'name': 'rc4',
 'doc': 'Rc4::{new, next, encrypt} == RC4 (KSA + PRGA, Schneier 17.1 / RFC 6229) in place, panic-free, S-box stays a permutation; '
        'lemmas over the spec (rc4_spec.rs, shared with units decrypt/cryptkdf): XOR involution (decrypt = encrypt) and the commutation fact those units used to trust as an axiom',
 'items': {
  'struct Rc4': {'kind': 'decl', 'file': F, 'header': r'^pub struct Rc4$', 'attrs': ['#[derive(Clone, Copy)]'],
     'rewrites': [{'rule': 'R2', 'find': 'i: u8', 'replace': 'pub i: u8'},
                  {'rule': 'R2', 'find': 'j: u8', 'replace': 'pub j: u8'},
                  {'rule': 'R2', 'find': 'state:', 'replace': 'pub state:'}]},

  'Rc4::new': {'kind': 'fn', 'file': F, 'container': IMPL, 'name': 'new', 'props': ['C06'],
     # the only call site in /repo is Rc4::encrypt (same impl); see there
     'requires': [KEY_OK],
     'ensures': [('ksa_state', 'r.state@ == ksa(key@)'),
                 ('counters_zero', 'r.i == 0 && r.j == 0'),
                 ('sbox_is_permutation', 'is_perm(r.state@)')],
     'loops': {
        1: {'invariant': [('fill_linear', 'forall|k: int| 0 <= k < i ==> rc4.state@[k] == k as u8'),
                          'rc4.i == 0 && rc4.j == 0', 'rc4.state@.len() == 256']},
        2: {'invariant': [KEY_OK, 'rc4.i == 0 && rc4.j == 0', '0 <= i <= 256',
                          ('ksa_round_sbox', 'rc4.state@ =~= ksa_rounds(key@, i as int).0'),
                          ('ksa_round_j', 'j as int == ksa_rounds(key@, i as int).1'),
                          ('ksa_round_perm', 'is_perm(rc4.state@)')]},
     },
     'rewrites': [
        # R6: `iter_mut().enumerate()` (core::iter::Enumerate is not modelled by vstd) -> index loop over the same array,
        # same elements in the same order; the loop body `*x = i as u8;` stays verbatim
        {'rule': 'R6', 'find': 'for (i, x) in rc4.state.iter_mut().enumerate() {',
         'replace': 'for i in 0..rc4.state.len() { let x = &mut rc4.state[i];'},
        # R1: hints (lemmas without `requires`, over the spec-side terms only)
        {'rule': 'R1', 'find': 'let mut j: u8 = 0;',
         'replace': 'proof { lemma_identity_perm(); assert(rc4.state@ =~= identity_sbox()); } let mut j: u8 = 0;'},
        # (anchored on the loop head, not on a statement of the body, so that a body statement may disappear without losing the anchor)
        {'rule': 'R1', 'find': 'for i in 0..256 {',
         'replace': 'for i in 0..256 { proof { lemma_ksa_round(key@, i as int + 1); lemma_ksa_rounds_wf(key@, i as int + 1); }'},
        {'rule': 'R1', 'find': 'rc4\n    }', 'count': 1,
         'replace': 'proof { lemma_ksa_rounds_wf(key@, 256); } rc4\n    }'},
     ]},

  'Rc4::next': {'kind': 'fn', 'file': F, 'container': IMPL, 'name': 'next', 'props': ['C06'],
     'ensures': [('prga_step', 'final(self).gen() == prga_step(old(self).gen())'),
                 ('prga_output', 'r == prga_out(prga_step(old(self).gen()))'),
                 ('sbox_stays_permutation', 'is_perm(old(self).state@) ==> is_perm(final(self).state@)')],
     'rewrites': [
        {'rule': 'R1', 'find': 'self.state.swap(self.i as usize, self.j as usize);',
         'replace': 'proof { lemma_swap_perm(self.state@, self.i as int, self.j as int); } self.state.swap(self.i as usize, self.j as usize);'},
     ]},

  'Rc4::encrypt': {'kind': 'fn', 'file': F, 'container': IMPL, 'name': 'encrypt', 'props': ['C06'],
     # call sites in /repo (all in crypt.rs): compute_u_rev_2, compute_u_rev_3_4 (x2), key_derivation_owner_password_rc4 (x2),
     # from_password Algorithm 7 loop, Decoder::decrypt. units/cryptkdf and units/decrypt prove `1 <= key@.len() <= 256` at each of
     # them (it is the `requires` of their Rc4::encrypt stub).
     'requires': [KEY_OK],
     'ensures': [('is_rc4_in_place', 'final(data)@ == rc4(key@, old(data)@)')],
     'loops': {
        1: {'for_ghost': 'it',
            'invariant': ['it.seq().len() == old(data)@.len()',
                          'forall|k: int| 0 <= k < it.seq().len() ==> *it.seq()[k] == old(data)@[k]',
                          ('generator_in_step', 'rc4.gen() == prga_state(%s, it.index@ as int)' % G0),
                          ('sbox_stays_permutation', 'is_perm(rc4.state@)'),
                          ('xor_with_keystream', 'forall|k: int| 0 <= k < it.index@ ==> '
                             '*final(it.seq()[k]) == old(data)@[k] ^ prga_out(prga_state(%s, k + 1))' % G0)]},
     },
     'rewrites': [
        # R1: `rc4` is opaque in the shared spec file (units decrypt/cryptkdf see it as an uninterpreted symbol); unfold it here
        {'rule': 'R1', 'find': 'let mut rc4 = Rc4::new(key);', 'replace': 'proof { reveal(rc4); } let mut rc4 = Rc4::new(key);'},
        {'rule': 'R1', 'find': 'for b in data.iter_mut() {',
         'replace': 'for b in data.iter_mut() { proof { assert(prga_state(%s, it.index@ as int + 1) == prga_step(prga_state(%s, it.index@ as int))); }' % (G0, G0)},
     ]},
 },
 'kani': {
   'modules': [{'file': F, 'code': 'kani_rc4.rs'}],
   'harnesses': [
     {'name': 'rfc6229_key_0102030405', 'fn': 'Rc4::encrypt', 'file': F, 'props': ['C06'], 'kind': 'bounded',
      'tier': 'thorough', 'bound': 'one concrete key (RFC 6229 40-bit), 16 zero bytes, unwind 258',
      'contract': 'Rc4::encrypt(0102030405, 0^16) == RFC 6229 keystream at offset 0: b2396305 f03dc027 ccc3524a 0a1118a8'},
     {'name': 'rfc6229_key_01020304050607', 'fn': 'Rc4::encrypt', 'file': F, 'props': ['C06'], 'kind': 'bounded',
      'tier': 'thorough', 'bound': 'one concrete key (RFC 6229 56-bit), 16 zero bytes, unwind 258',
      'contract': 'Rc4::encrypt(01020304050607, 0^16) == 293f02d4 7f37c9b6 33f2af52 85feb46b'},
     {'name': 'vector_key_plaintext', 'fn': 'Rc4::encrypt', 'file': F, 'props': ['C06'], 'kind': 'bounded', 'tier': 'thorough',
      'bound': 'one concrete key/plaintext, unwind 258',
      'contract': 'Rc4::encrypt("Key", "Plaintext") == BBF316E8D940AF0AD3'},
     {'name': 'next_step_any_state', 'fn': 'Rc4::next', 'file': F, 'props': ['C06'], 'kind': 'complete',
      'contract': 'forall i, j: u8, state: [u8;256]. next() never panics, sets i=(i+1)%256, j=(j+S[i])%256, exchanges S[i],S[j], moves nothing else, returns S[(S[i]+S[j])%256]'},
   ],
   'jobs': 4, 'timeout': 1200 },
}
