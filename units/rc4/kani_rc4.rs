// Kani harnesses on the real Rc4::{new, next, encrypt} of pdf/src/crypt.rs (appended as a #[cfg(kani)] module):
// a second opinion next to the Verus proof (which reads the init loop through rewrite R6 and trusts vstd's model of
// `iter_mut` and `<[T]>::swap`). Published vectors: RFC 6229 section 2 (keystream = encryption of zero bytes).

const RFC6229_40: [u8; 16] = [
    0xb2, 0x39, 0x63, 0x05, 0xf0, 0x3d, 0xc0, 0x27, 0xcc, 0xc3, 0x52, 0x4a, 0x0a, 0x11, 0x18, 0xa8,   // DEC    0
];
const RFC6229_56: [u8; 16] = [
    0x29, 0x3f, 0x02, 0xd4, 0x7f, 0x37, 0xc9, 0xb6, 0x33, 0xf2, 0xaf, 0x52, 0x85, 0xfe, 0xb4, 0x6b,   // DEC    0
];

#[kani::proof]
#[kani::unwind(258)]
fn rfc6229_key_0102030405() {
    let key = [1u8, 2, 3, 4, 5];
    let mut data = [0u8; 16];
    Rc4::encrypt(&key, &mut data);
    assert!(data == RFC6229_40);
}

#[kani::proof]
#[kani::unwind(258)]
fn rfc6229_key_01020304050607() {
    let key = [1u8, 2, 3, 4, 5, 6, 7];
    let mut data = [0u8; 16];
    Rc4::encrypt(&key, &mut data);
    assert!(data == RFC6229_56);
}

// "Key" / "Plaintext" -> BBF316E8D940AF0AD3
#[kani::proof]
#[kani::unwind(258)]
fn vector_key_plaintext() {
    let mut data = *b"Plaintext";
    Rc4::encrypt(b"Key", &mut data);
    assert!(data == [0xbb, 0xf3, 0x16, 0xe8, 0xd9, 0x40, 0xaf, 0x0a, 0xd3]);
}

// one keystream step from ANY generator state (complete: loop-free, all 2^(8*258) states): indices stay in bounds,
// counters advance as in the description, the two swapped cells are exchanged and nothing else moves
#[kani::proof]
fn next_step_any_state() {
    let mut g = Rc4 { i: kani::any(), j: kani::any(), state: kani::any() };
    let g0 = g;
    let k = g.next();
    let i = ((g0.i as u32 + 1) % 256) as usize;
    let j = ((g0.j as u32 + g0.state[i] as u32) % 256) as usize;
    assert!(g.i as usize == i && g.j as usize == j);
    assert!(g.state[i] == g0.state[j] && g.state[j] == g0.state[i]);
    let p: usize = kani::any();
    kani::assume(p < 256 && p != i && p != j);
    assert!(g.state[p] == g0.state[p]);
    assert!(k == g.state[((g.state[i] as u32 + g.state[j] as u32) % 256) as usize]);
}
