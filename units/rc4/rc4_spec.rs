// Shared RC4 specification + lemmas (INCLUDE file: `//@@ INCLUDE rc4/rc4_spec.rs`, inside `verus! { }`).
// Included by units `rc4` (which proves the REAL Rc4::{new, next, encrypt} of pdf/src/crypt.rs against it:
// obligation Rc4::encrypt/is_rc4_in_place, `final(data)@ == rc4(key@, old(data)@)`), `decrypt` and `cryptkdf` (whose
// Algorithm 1/3/4/5/7 specs are written over `rc4` and whose env stub of Rc4::encrypt restates that obligation).
// Nothing in this file is trusted: only `spec fn` definitions and proved `proof fn`s.
// `rc4` is `#[verifier::opaque]`: callers that only need "some fixed function of (key, data)" see an uninterpreted
// symbol (no KSA/PRGA recursion in their queries); the lemmas below `reveal` it.
// =====================================================================================================
// RC4, written from the standard description (NOT from the code):
//
//   "RC4 has a 8 x 8 S-box: S0, S1, ..., S255. The entries are a permutation of the numbers 0 through 255, and the
//    permutation is a function of the variable-length key. It has two counters, i and j, initialized to zero.
//    To generate a random byte, do the following:
//          i = (i + 1) mod 256
//          j = (j + S_i) mod 256
//          swap S_i and S_j
//          t = (S_i + S_j) mod 256
//          K = S_t
//    The byte K is XORed with the plaintext to produce ciphertext or XORed with the ciphertext to produce plaintext.
//    Initializing the S-box is also easy. First, fill it linearly: S0 = 0, S1 = 1, ..., S255 = 255. Then fill another
//    256-byte array with the key, repeating the key as necessary to fill the entire array: K0, K1, ..., K255. Set the
//    index j to zero. Then:
//          for i = 0 to 255:
//              j = (j + S_i + K_i) mod 256
//              swap S_i and S_j"                                            (Schneier 17.1; K_i = key[i mod keylen])
// =====================================================================================================

/// "swap S_a and S_b"
pub open spec fn swap_seq(s: Seq<u8>, a: int, b: int) -> Seq<u8> { s.update(a, s[b]).update(b, s[a]) }
/// "fill it linearly: S0 = 0, S1 = 1, ..., S255 = 255"
pub open spec fn identity_sbox() -> Seq<u8> { Seq::new(256, |i: int| i as u8) }
/// "the entries are a permutation of the numbers 0 through 255": 256 pairwise different bytes
pub open spec fn is_perm(s: Seq<u8>) -> bool {
    s.len() == 256 && forall|a: int, b: int| 0 <= a < 256 && 0 <= b < 256 && a != b ==> s[a] != s[b]
}

/// the S-box and the index j after the first n rounds of the key-schedule loop ("for i = 0 to 255")
pub open spec fn ksa_rounds(key: Seq<u8>, n: int) -> (Seq<u8>, int)
    decreases n
{
    if n <= 0 { (identity_sbox(), 0int) } else {
        let (s, j) = ksa_rounds(key, n - 1);
        let i = n - 1;
        let j2 = (j + s[i] + key[i % (key.len() as int)]) % 256;
        (swap_seq(s, i, j2), j2)
    }
}
/// KSA: the 256-entry permutation the key selects
pub open spec fn ksa(key: Seq<u8>) -> Seq<u8> { ksa_rounds(key, 256).0 }

/// generator state: S-box and the two counters
pub struct Gen { pub s: Seq<u8>, pub i: int, pub j: int }
/// "i = (i + 1) mod 256; j = (j + S_i) mod 256; swap S_i and S_j"
pub open spec fn prga_step(g: Gen) -> Gen {
    let i = (g.i + 1) % 256;
    let j = (g.j + g.s[i]) % 256;
    Gen { s: swap_seq(g.s, i, j), i: i, j: j }
}
/// "t = (S_i + S_j) mod 256; K = S_t" -- read in the state the step has just produced
pub open spec fn prga_out(g: Gen) -> u8 { g.s[(g.s[g.i] + g.s[g.j]) % 256] }
/// generator state after n bytes
pub open spec fn prga_state(g: Gen, n: int) -> Gen
    decreases n
{
    if n <= 0 { g } else { prga_step(prga_state(g, n - 1)) }
}
/// PRGA: the first n keystream bytes from state (s, i, j); byte number t is emitted by step t + 1
pub open spec fn prga(s: Seq<u8>, i: int, j: int, n: int) -> Seq<u8> {
    Seq::new(n as nat, |t: int| prga_out(prga_state(Gen { s: s, i: i, j: j }, t + 1)))
}
/// "two counters, i and j, initialized to zero"
pub open spec fn keystream(key: Seq<u8>, n: int) -> Seq<u8> { prga(ksa(key), 0, 0, n) }
/// "The byte K is XORed with the plaintext to produce ciphertext or XORed with the ciphertext to produce plaintext."
#[verifier::opaque]
pub open spec fn rc4(key: Seq<u8>, data: Seq<u8>) -> Seq<u8> {
    Seq::new(data.len(), |t: int| data[t] ^ keystream(key, data.len() as int)[t])
}

// =====================================================================================================
// What the other units assume about RC4, proved over the spec above (cite as `units/rc4: lemma_*`).
// All hold for EVERY key sequence (also empty / longer than 256): `rc4` is total and length-preserving.
// =====================================================================================================
pub proof fn lemma_xor_involution(x: u8, k: u8) ensures (x ^ k) ^ k == x { assert((x ^ k) ^ k == x) by (bit_vector); }
pub proof fn lemma_xor_exchange(x: u8, a: u8, b: u8) ensures (x ^ a) ^ b == (x ^ b) ^ a { assert((x ^ a) ^ b == (x ^ b) ^ a) by (bit_vector); }

/// RC4 preserves the length
pub proof fn lemma_rc4_len(key: Seq<u8>, data: Seq<u8>)
    ensures rc4(key, data).len() == data.len()
{ reveal(rc4); }
/// byte t of the output depends on byte t of the input and byte t of a keystream that does not depend on the data
pub proof fn lemma_rc4_byte(key: Seq<u8>, data: Seq<u8>, t: int)
    ensures 0 <= t < data.len() ==> rc4(key, data)[t] == data[t] ^ prga_out(prga_state(Gen { s: ksa(key), i: 0, j: 0 }, t + 1))
{ reveal(rc4); }
/// the keystream of a longer request extends the keystream of a shorter one (stream cipher)
pub proof fn lemma_keystream_prefix(key: Seq<u8>, m: int, n: int)
    ensures 0 <= m <= n ==> keystream(key, n).subrange(0, m) =~= keystream(key, m)
{}
/// textbook reading of the PRGA: "emit K, continue from the new state"
pub proof fn lemma_prga_unfold(s: Seq<u8>, i: int, j: int, n: int)
    ensures n >= 1 ==> ({ let g = prga_step(Gen { s: s, i: i, j: j });
                         prga(s, i, j, n) =~= seq![prga_out(g)] + prga(g.s, g.i, g.j, n - 1) })
{
    if n >= 1 {
        let g0 = Gen { s: s, i: i, j: j };
        let g = prga_step(g0);
        assert(Gen { s: g.s, i: g.i, j: g.j } == g);
        assert forall|t: int| 0 <= t implies prga_state(g, t) == #[trigger] prga_state(g0, t + 1) by { lemma_state_shift(g0, t); }
        assert forall|t: int| 1 <= t < n implies prga(s, i, j, n)[t] == prga(g.s, g.i, g.j, n - 1)[t - 1] by {
            assert(prga_state(g, t) == prga_state(g0, t + 1));
        }
        assert(prga_state(g0, 1) == prga_step(prga_state(g0, 0)));
    }
}
pub proof fn lemma_state_shift(g0: Gen, t: int)
    ensures 0 <= t ==> prga_state(prga_step(g0), t) == prga_state(g0, t + 1)
    decreases t
{
    if t > 0 { lemma_state_shift(g0, t - 1); }
    else if t == 0 { assert(prga_state(g0, 1) == prga_step(prga_state(g0, 0))); }
}

/// decryption = encryption: rc4(k, rc4(k, d)) == d
pub proof fn lemma_rc4_involution(key: Seq<u8>, data: Seq<u8>)
    ensures rc4(key, rc4(key, data)) == data
{
    reveal(rc4);
    let e = rc4(key, data);
    assert forall|t: int| 0 <= t < data.len() implies rc4(key, e)[t] == data[t] by {
        lemma_xor_involution(data[t], keystream(key, data.len() as int)[t]);
    }
    assert(rc4(key, e) =~= data);
}
/// the statement of `axiom_rc4_commutes` in units/decrypt and units/cryptkdf, with `rc4_spec := rc4`:
/// two RC4 applications with (any) two keys commute
pub proof fn lemma_rc4_commutes(a: Seq<u8>, b: Seq<u8>, d: Seq<u8>)
    ensures rc4(a, rc4(b, d)) == rc4(b, rc4(a, d))
{
    reveal(rc4);
    let n = d.len() as int;
    assert forall|t: int| 0 <= t < n implies rc4(a, rc4(b, d))[t] == rc4(b, rc4(a, d))[t] by {
        lemma_xor_exchange(d[t], keystream(b, n)[t], keystream(a, n)[t]);
    }
    assert(rc4(a, rc4(b, d)) =~= rc4(b, rc4(a, d)));
}
