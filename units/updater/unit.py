FILE = 'pdf/src/file.rs'
XREF = 'pdf/src/xref.rs'
OBJ = 'pdf/src/object/mod.rs'
UPD = r'^impl<B, OC, SC, L> Updater for Storage<B, OC, SC, L>'
XT = r'^impl XRefTable$'

N0 = 'old(self).refs.entries@.len()'


def pub(*fields):
    return [{'rule': 'R2', 'find': f + ':', 'replace': 'pub ' + f + ':'} for f in fields]


# R8 (`&mut` alias inlined): the HashMap entry-API `match` of `update`, BY SHAPE. The entry API hands out a `&mut` alias of
# the slot of the map; it is re-spelled with the map operations Verus can read (vstd's HashMap model):
#   match M.entry(K) { Entry::Vacant(e) => { e.insert(V); } Entry::Occupied(mut e) => match (e.get_mut(), P) { ARMS } }
#   ==> if !M.contains_key(&K) { M.insert(K, V); } else { let mut __slot = M.remove(&K).unwrap(); match (&mut __slot, P) { ARMS } M.insert(K, __slot); }
# K, V, P and the ARMS (patterns AND bodies: which dictionary is appended to which, what is stored) stay verbatim under proof.
# Arms may hold one level of braces. Trusted: the equivalence of the two spellings (NOTES.md).
ENTRY_MATCH = (r'match\s+self\.changes\.entry\(([^()]*)\)\s*\{\s*'
               r'Entry::Vacant\((\w+)\)\s*=>\s*\{\s*\2\.insert\(([^;]*)\);\s*\}\s*,?\s*'
               r'Entry::Occupied\(mut\s+(\w+)\)\s*=>\s*match\s*\(\4\.get_mut\(\),\s*(\w+)\)\s*\{'
               r'((?:[^{}]*\{[^{}]*\}\s*,?\s*)+)\}\s*,?\s*\}')
ENTRY_REPL = (r'if !self.changes.contains_key(&\1) { self.changes.insert(\1, \3); } else { '
              r'let mut __slot = self.changes.remove(&\1).unwrap(); match (&mut __slot, \5) {\6} self.changes.insert(\1, __slot); }')


def update_contract(ref, idx_len):
    """Contract shared by update(old_, obj) and fulfill(promise, obj); `ref` is the PlainRef expression."""
    ent = 'old(self).refs.entries@[%s.id as int]' % ref
    req = ['old(self).wf()',
           # Free / Invalid targets `panic!()`: precondition, see NOTES.md "Preconditions"
           '%s.id < %s ==> !(%s is Free) && !(%s is Invalid)' % (ref, N0, ent, ent)]
    ens = [
        ('wf', 'final(self).wf()'),
        ('err_range', '%s.id >= %s ==> r is Err' % (ref, N0)),
        ('err_frame', 'r is Err ==> extends(*old(self), *final(self))'),
        # C09: "the very reference the caller passed or was handed"
        ('same_ref', 'r matches Ok(rc) ==> rc.inner.id == %s.id' % ref),
        ('gen', 'r matches Ok(rc) ==> rc.inner.gen == table_gen(%s)' % ent),
        # C09: "resolves ... to the last value written" (resolve_ref reads `changes` first: unit resolve_ref / C02)
        ('value', 'r matches Ok(rc) ==> final(self).changes@.dom().contains(rc.inner.id) && final(self).changes@[rc.inner.id] == '
                  '(value_after_update(pending(*old(self), rc.inner.id), obj.prim(ids_taken(%s, rc.inner.id))), rc.inner.gen)' % N0),
        # C09: "and nothing else changes"
        ('frame', 'r matches Ok(rc) ==> extends_except(*old(self), *final(self), rc.inner.id)'),
    ]
    return req, ens


UPD_REQ, UPD_ENS = update_contract('old_', N0)
FUL_REQ, FUL_ENS = update_contract('promise.inner', N0)


def lab(prefix, ens):
    return [(prefix + '_' + l, e) for (l, e) in ens]


UNIT = {
 'name': 'updater',
 'doc': 'Updater for Storage: create/update/promise/fulfill bookkeeping of pending changes and the xref table',
 'deviations': {
   'DEV_UPDATE_MERGES_DICT': 'a second update of the same id appends the new dictionary to the pending one instead of '
                             'replacing it: keys written by the first update and absent from the second survive '
                             '(findings/update_merge_stale_keys.md)',
 },
 'allowed_assumes': [],
 'items': {
  'struct PlainRef': {'kind': 'decl', 'file': OBJ, 'header': r'^pub struct PlainRef$', 'attrs': ['#[derive(Clone, Copy)]']},
  'enum XRef': {'kind': 'decl', 'file': XREF, 'header': r'^pub enum XRef$', 'attrs': ['#[derive(Clone, Copy)]']},
  'struct XRefTable': {'kind': 'decl', 'file': XREF, 'header': r'^pub struct XRefTable$', 'rewrites': pub('entries')},
  'struct RcRef': {'kind': 'decl', 'file': OBJ, 'header': r'^pub struct RcRef<T>$', 'rewrites': pub('inner', 'data')},
  'struct PromisedRef': {'kind': 'decl', 'file': FILE, 'header': r'^pub struct PromisedRef<T>$', 'rewrites': pub('inner', '_marker')},
  # R2 (shape): Storage reduced to the fields the Updater impl and `save` touch; the backend is the `Vec<u8>` of
  # the `impl Storage<Vec<u8>, ..>` block that owns `save`
  'struct Storage': {'kind': 'decl', 'file': FILE, 'header': r'^pub struct Storage<B, OC, SC, L>$',
     'rewrites': [
        {'rule': 'R2', 'find': 'pub struct Storage<B, OC, SC, L>', 'replace': 'pub struct Storage'},
        {'rule': 'R2', 'find': 'cache: OC,', 'replace': 'pub cache: CacheStub,'},
        {'rule': 'R2', 'find': 'stream_cache: SC,', 'replace': ''},
        {'rule': 'R2', 'find': 'changes:', 'replace': 'pub changes:'},
        {'rule': 'R2', 'find': 'refs:', 'replace': 'pub refs:'},
        {'rule': 'R2', 'find': 'decoder: Option<Decoder>,', 'replace': ''},
        {'rule': 'R2', 'find': 'options: ParseOptions,', 'replace': ''},
        {'rule': 'R2', 'find': 'backend: B,', 'replace': 'pub backend: Vec<u8>,'},
        {'rule': 'R2', 'find': 'start_offset:', 'replace': 'pub start_offset:'},
        {'rule': 'R2', 'find': 'log: L', 'replace': ''},
     ]},

  # ---- the table accessors the Updater impl goes through (real text, small contracts) ----
  'XRefTable::get': {'kind': 'fn', 'file': XREF, 'container': XT, 'name': 'get', 'props': ['C09'],
     'ensures': [('get_in_range', 'id < self.entries@.len() ==> r == Ok::<XRef, PdfError>(self.entries@[id as int])'),
                 ('get_out_of_range', 'id >= self.entries@.len() ==> r is Err')],
     # R5 by shape, count '*' (same as units xreftable / resolve)
     'rewrites': [{'rule': 'R5', 'regex': r'Some\(&(\w+)\)\s*=>\s*\{', 'replace': r'Some(\1_) => { let \1 = *\1_;', 'count': '*'},
                  {'rule': 'R5', 'regex': r'Some\(&(\w+)\)\s*=>\s*([^,{}]*),', 'replace': r'Some(\1_) => { let \1 = *\1_; \2 },', 'count': '*'}]},
  'XRefTable::set': {'kind': 'fn', 'file': XREF, 'container': XT, 'name': 'set', 'props': ['C09'],
     # call sites: Storage::save, with ids of pending changes / of a promise just made (< len by Storage::wf); the error path of
     # Storage::create, with the id it has just pushed (< len: `to_primitive` only appends, env contract `extends`)
     'requires': ['id < old(self).entries@.len()'],
     'ensures': [('set_update', 'final(self).entries@ == old(self).entries@.update(id as int, r)')]},
  'XRefTable::len': {'kind': 'fn', 'file': XREF, 'container': XT, 'name': 'len', 'props': ['C09'],
     'ensures': [('len_is_len', 'r == self.entries@.len()')]},
  'XRefTable::push': {'kind': 'fn', 'file': XREF, 'container': XT, 'name': 'push', 'props': ['C09'],
     'ensures': [('push_appends', 'final(self).entries@ == old(self).entries@.push(new_entry)')]},
  'RcRef::new': {'kind': 'fn', 'file': OBJ, 'container': r'^impl<T> RcRef<T>$', 'name': 'new', 'props': ['C09'],
     'ensures': [('new_fields', 'r.inner == inner && r.data == data')]},
  'PromisedRef::get_inner': {'kind': 'fn', 'file': FILE, 'container': r'^impl<T> PromisedRef<T>$', 'name': 'get_inner', 'props': ['C09'],
     'ensures': [('get_inner_is_inner', 'r == self.inner')]},

  # ---- the Updater impl ----
  'Storage::create': {'kind': 'fn', 'file': FILE, 'container': UPD, 'name': 'create', 'props': ['C09'],
     'requires': ['old(self).wf()'],
     'ensures': [
        ('create_wf', 'final(self).wf()'),
        ('create_id', 'r matches Ok(rc) ==> rc.inner.id == %s && rc.inner.gen == 0' % N0),
        # the new number is reserved while the value is pending; a create that FAILS hands no id to the caller, so nobody could ever
        # fulfil it: the number is then a free entry (ISO 32000-1 7.5.4), which save writes as such (fix failed_create_blocks_save)
        ('create_table', 'final(self).refs.entries@.len() > %s && (r is Ok ==> final(self).refs.entries@[%s as int] is Promised)' % (N0, N0)),
        ('create_err_entry_free', 'r is Err ==> final(self).refs.entries@[%s as int] == (XRef::Free { next_obj_nr: 0, gen_nr: 0 })' % N0),
        ('create_value', 'r matches Ok(rc) ==> final(self).changes@.dom().contains(rc.inner.id) && '
                         'final(self).changes@[rc.inner.id] == (obj.prim(ids_taken(%s, rc.inner.id)), 0u64)' % N0),
        ('create_frame', 'extends(*old(self), *final(self))'),
        ('create_err_no_value', 'r is Err ==> !final(self).changes@.dom().contains(%s as u64)' % N0),
     ],
     # by shape: `let primitive = obj.to_primitive(self)?;` (before the fix) or `let primitive = match obj.to_primitive(self) { .. }`
     'rewrites': [{'rule': 'R1', 'regex': r'let primitive = (match )?obj\.to_primitive\(self\)',
                   'replace': r'proof { assert(extends(*old(self), *self)); } let primitive = \1obj.to_primitive(self)'}]},
  'Storage::update': {'kind': 'fn', 'file': FILE, 'container': UPD, 'name': 'update', 'props': ['C09'],
     'requires': UPD_REQ, 'ensures': lab('update', UPD_ENS),
     'rewrites': [
        {'where': 'sig', 'rule': 'R2', 'find': 'old: PlainRef', 'replace': 'old_: PlainRef'},
        {'rule': 'R2', 'find': 'use std::collections::hash_map::Entry;', 'replace': ''},
        {'rule': 'R8', 'regex': ENTRY_MATCH, 'replace': ENTRY_REPL},
        {'rule': 'R2', 'find': 'old', 'replace': 'old_', 'count': '*'},   # parameter rename, every use
     ]},
  'Storage::promise': {'kind': 'fn', 'file': FILE, 'container': UPD, 'name': 'promise', 'props': ['C09'],
     'requires': ['old(self).wf()'],
     'ensures': [
        ('promise_wf', 'final(self).wf()'),
        ('promise_id', 'r.inner.id == %s && r.inner.gen == 0' % N0),
        ('promise_table', 'final(self).refs.entries@ == old(self).refs.entries@.push(XRef::Promised)'),
        ('promise_frame', 'final(self).changes@ == old(self).changes@ && final(self).backend@ == old(self).backend@ '
                          '&& final(self).start_offset == old(self).start_offset'),
     ]},
  'Storage::fulfill': {'kind': 'fn', 'file': FILE, 'container': UPD, 'name': 'fulfill', 'props': ['C09'],
     'requires': FUL_REQ, 'ensures': lab('fulfill', FUL_ENS)},

  # ---- stretch: Storage::save (C09/C10) ----
  'Storage::save': {'kind': 'fn', 'file': FILE, 'container': r'^impl<OC, SC, L> Storage<Vec<u8>, OC, SC, L> where .*L: Log$',
     'name': 'save', 'props': ['C09', 'C10'],
     'requires': [
        'old(self).wf()',
        # Storage::with_cache: start_offset = backend.locate_start_offset() (a position inside the buffer); empty(): 0
        'old(self).start_offset <= old(self).backend@.len()',
        # language fact: a Vec<XRef> (24-byte elements) cannot hold more than isize::MAX / 24 elements
        'old(self).refs.entries@.len() < 0x0555_5555_5555_5555',
     ],
     'ensures': [
        ('save_prefix', 'grows(old(self).backend@, final(self).backend@)'),
        ('save_wf', 'final(self).wf()'),
        ('save_ok', 'r is Ok ==> exists|xid: ObjNr| save_ok(*old(self), *final(self), final(trailer).size, xid)'),
     ],
     'loops': {1: {
        'invariant': [
           'self.wf()', 'self.changes@ == at_loop.changes@', 'self.refs.entries@.len() == at_loop.refs.entries@.len()',
           'self.start_offset == old(self).start_offset', 'self.start_offset <= self.backend@.len()',
           ('save_prefix_inv', 'grows(old(self).backend@, self.backend@)'),
           '0 <= i_ <= changes@.len()',
           'forall|j: int| 0 <= j < changes@.len() ==> self.changes@.dom().contains(*(#[trigger] changes@[j]).0) && *changes@[j].1 == self.changes@[*changes@[j].0]',
           'forall|a: int, b: int| 0 <= a < b < changes@.len() ==> *(#[trigger] changes@[a]).0 < *(#[trigger] changes@[b]).0',
           ('save_placed_inv', 'forall|j: int| 0 <= j < i_ ==> placed(*self, *(#[trigger] changes@[j]).0, changes@[j].1.1)'),
           'forall|i: int| 0 <= i < self.refs.entries@.len() && !self.changes@.dom().contains(i as ObjNr) ==> #[trigger] self.refs.entries@[i] == at_loop.refs.entries@[i]',
        ],
        'decreases': 'changes@.len() - i_'}},
     'rewrites': [
        {'rule': 'R1', 'find': 'let xref_promise = self.promise::<Stream<XRefInfo>>();',
         'replace': 'let ghost before_promise = *self; let xref_promise = self.promise::<Stream<XRefInfo>>(); let ghost xid = xref_promise.inner.id; let ghost at_loop = *self;'},
        {'rule': 'R7', 'find': 'let mut changes: Vec<_> = self.changes.iter().collect(); changes.sort_unstable_by_key(|&(id, _)| id);',
         'replace': 'let changes = hoist_sorted_changes(&self.changes);'},
        # R5/R10: nested reference patterns in a `for` head -> index loop with deref lets
        {'rule': 'R5', 'find': 'for &(&id, &(ref primitive, gen)) in changes.iter() {',
         'replace': 'let mut i_: usize = 0; while i_ < changes.len() { let id = *changes[i_].0; let gen = changes[i_].1.1; '
                    'let primitive = &changes[i_].1.0; i_ = i_ + 1; let ghost s0 = *self;'},
        {'rule': 'R7', 'regex': r'writeln!\(self\.backend,\s*"\{\} \{\} obj",\s*(.*?),\s*(.*?)\)\?;',
         'replace': r'hoist_write_obj_header(&mut self.backend, \1, \2)?;', 'count': 2},
        {'rule': 'R7', 'regex': r'primitive\.serialize\(&mut self\.backend\)\?;\s*writeln!\(self\.backend,\s*"(?:\\n)?endobj"\)\?;',
         'replace': 'proof { lemma_header_appended(s0.backend@, id, gen); } let ghost s1 = *self; '
                    'primitive.serialize(&mut self.backend)?; hoist_write_endobj(&mut self.backend)?; '
                    'proof { if placed(s1, id, gen) { lemma_placed_stable(s1, *self, id, gen); } '
                    'assert forall|j: int| 0 <= j < i_ - 1 implies placed(*self, *(#[trigger] changes@[j]).0, changes@[j].1.1) by '
                    '{ lemma_placed_stable(s0, *self, *changes@[j].0, changes@[j].1.1); } }'},
        {'rule': 'R7', 'regex': r'xref_and_trailer\.serialize\(&mut self\.backend\)\?;\s*writeln!\(self\.backend,\s*"(?:\\n)?endobj"\)\?;',
         'replace': 'xref_and_trailer.serialize(&mut self.backend)?; hoist_write_endobj(&mut self.backend)?;'},
        {'rule': 'R1', 'find': 'let xref_pos = self.backend.len',
         'replace': 'let ghost s2 = *self; let xref_pos = self.backend.len'},
        {'rule': 'R1', 'find': 'let mut xref_and_trailer =',
         'replace': 'proof { lemma_header_appended(s2.backend@, xid, 0); } let ghost s3 = *self; let mut xref_and_trailer ='},
        {'rule': 'R7', 'find': 'for (k, v) in trailer_dict.iter() { xref_and_trailer.info.insert(k.clone(), v.clone()); }',
         'replace': 'hoist_copy_trailer_entries(&mut xref_and_trailer, &trailer_dict);'},
        {'rule': 'R7', 'regex': r'write!\(self\.backend,\s*"\\nstartxref\\n\{\}\\n%%EOF",\s*(.*?)\)\.unwrap\(\);',
         'replace': r'let ghost s4 = *self; hoist_write_startxref(&mut self.backend, \1);'},
        {'rule': 'R1', 'find': 'Ok(&self.backend)',
         'replace': 'proof { if placed(s3, xid, 0) { lemma_grows_append(s4.backend@, startxref_bytes(xref_pos)); '
                    'assert(self.backend@.subrange(self.backend@.len() - startxref_bytes(xref_pos).len(), self.backend@.len() as int) =~= startxref_bytes(xref_pos)); '
                    'assert forall|k: ObjNr| #[trigger] self.changes@.dom().contains(k) && k <= xid implies placed(*self, k, self.changes@[k].1) by '
                    '{ if k == xid { lemma_placed_stable(s3, *self, xid, 0); } else { lemma_placed_stable(s2, *self, k, self.changes@[k].1); } } '
                    'let ghost witness = save_ok(*old(self), *self, trailer.size, xid); } } Ok(&self.backend)'},
     ]},
 },
 # BOUNDED native stand-in (vlib/native.py) for the END-TO-END sentence of C09 (write, save, reload through the public API), which the
 # proofs reach only per function. The test file lives in units/xrefchain (one generator for C02, C17, C09). Never counted as proved.
 'native': {'tests': [
    {'name': 'write_save_reload_end_to_end', 'code': '../xrefchain/e2e_docs_bounded.rs', 'place': 'pdf/tests/verif_e2e_c09.rs', 'filter': 'c09_',
     'fn': 'Storage::save', 'props': ['C09'], 'tier': 'quick', 'timeout': 900,
     'bound': 'sequences of 1..=3 operations over atoms {create(v), update(existing id k, v) for k in two in-use ids, update(id held by an object stream, v), promise then fulfill(v)} x v in {integer -77, string with CR / CR LF / "(", name "A#B c/d", dictionary with a "#" key holding [null 1 0 R], stream with /Filter /ASCIIHexDecode}: all single atoms, a fixed 1/5 (generated files) or all (corpus) of the ordered pairs, every 97th / 41st triple; one save or two saves in a row with a create in between; on generated files (hand-written bytes, no crate writer): base body of 6 objects (catalog, page tree, page, content stream, integer, string) + 0..=2 incremental updates of kind {Redef 3 4 5 6 | Free5 (free entry gen 1) + 6 | Reuse5 (gen 1, after Free5) | AddGap (new 9, 11; 7, 8, 10 undefined) | Pack (5, 6 inside a new object stream, xref-stream sections only)}: all 18 well-formed kind sequences; every section in one of 3 formats {classic | xref stream /W [1 2 1] one /Index run per entry | /W [1 3 2] maximal runs} (+ base variants objects 5, 6 in an object stream, /Index omitted): 654 files (152 of them with a compressed target; 306 with undefined numbers below /Size), each with 1/16 of the sequences (all files together: every sequence many times), 8056 runs; on files/example.pdf (classic table) and files/xelatex.pdf (xref stream, compressed objects): 967 runs. Excluded as recorded: two dictionary-valued updates of ONE id in a sequence (known finding DEV_UPDATE_MERGES_DICT). Retry clause: on each of the 654 files and 25 value pairs on each corpus file (704 runs): update, promise left open, save (must fail), fulfill, save, reload. The two repaired defects pinned: update + create + save + reload of 3 files with undefined numbers 7, 8, 10 (save_fails_on_undefined_entries); a create that FAILS (stream whose info is an integer) followed by update + save + reload (failed_create_blocks_save). Not covered: encrypted files, updates that re-serialise an in-file stream.',
     'contract': 'every create / update / fulfill succeeds; update and fulfill hand back the very id given, create an id not in use; before any save and after each '
                 'save every written id reads, through the same open Storage, as the last value written; each save succeeds and its output starts with the previous '
                 'revision; reloading the bytes of every save (FileOptions::load): each written id resolves to the last value written (streams: /Filter, raw and decoded '
                 'data), every untouched object number 0 ..= /Size + 2 resolves as before (stream data included), same page count; a save that failed because of an open '
                 'promise succeeds after the promise is fulfilled, with the same reload guarantees; a create that fails leaves the document savable; nothing panics.'},
 ]},
}
