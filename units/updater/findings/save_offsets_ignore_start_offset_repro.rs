// Repro for finding `save_offsets_ignore_start_offset` (C09/C10, obligations updater/Storage::save/save_placed_inv
// and updater/Storage::save/save_ok).  Drop into a scratch copy of /repo as pdf/tests/save_offset.rs and run
//   CARGO_TARGET_DIR=/tmp/updater_target cargo test --offline -p pdf --test save_offset -- --nocapture
//
// files/offset.pdf has bytes in front of `%PDF-`; the reader measures every cross-reference offset from the header
// (it adds `start_offset`), `Storage::save` records offsets from the start of the buffer.
use std::path::{Path, PathBuf};
use pdf::file::FileOptions;
use pdf::object::*;

fn files() -> PathBuf {
    Path::new(env!("CARGO_MANIFEST_DIR")).parent().unwrap().join("files")
}

#[test]
fn save_of_a_file_with_bytes_before_the_header_reloads() {
    let data = std::fs::read(files().join("offset.pdf")).unwrap();
    let start = data.windows(5).position(|w| w == b"%PDF-").unwrap();
    println!("header at byte {}", start);
    assert!(start > 0, "test premise: junk before the header");

    let mut file = FileOptions::uncached().load(data.clone()).unwrap();
    let page = file.get_page(0).unwrap();
    let r: PlainRef = page.get_ref().get_inner();
    let mut page2: Page = (*page).clone();
    page2.rotate = 90;
    page2.contents = None; // in-file streams cannot be re-serialised by the pinned writer (unimplemented!)
    let handed_back = file.update(r, PagesNode::Leaf(page2)).unwrap().get_ref().get_inner();
    println!("updated {:?}, handed back {:?}", r, handed_back);

    let out = std::env::temp_dir().join("updater_repro_offset_out.pdf");
    file.save_to(&out).unwrap();
    let saved = std::fs::read(&out).unwrap();
    let _ = std::fs::remove_file(&out);
    assert!(saved.starts_with(&data), "previous revision is not a prefix");

    // independent reading of the new bytes: the number after the last `startxref`, measured from the header,
    // must be where an `N 0 obj` header of the xref stream starts
    let tail = &saved[data.len()..];
    let sx = tail.windows(9).rposition(|w| w == b"startxref").unwrap();
    let num: usize = std::str::from_utf8(&tail[sx + 9..]).unwrap().split_whitespace().next().unwrap().parse().unwrap();
    let at_header_relative = &saved[(start + num).min(saved.len())..];
    let at_absolute = &saved[num.min(saved.len())..];
    let show = |b: &[u8]| String::from_utf8_lossy(&b[..b.len().min(12)]).into_owned();
    println!("startxref {}: bytes at header+{} = {:?}, bytes at absolute {} = {:?}", num, num, show(at_header_relative), num, show(at_absolute));

    match FileOptions::uncached().load(saved) {
        Ok(file2) => {
            let again = file2.get_page(0).unwrap();
            println!("after reload: page 0 rotate {}", again.rotate);
            assert_eq!(again.rotate, 90);
        }
        Err(e) => panic!("the saved file does not load: {}", e),
    }
}

trait RPos { fn rposition(self, f: impl FnMut(&[u8]) -> bool) -> Option<usize>; }
impl<'a> RPos for std::slice::Windows<'a, u8> {
    fn rposition(self, mut f: impl FnMut(&[u8]) -> bool) -> Option<usize> {
        let mut last = None;
        for (i, w) in self.enumerate() { if f(w) { last = Some(i); } }
        last
    }
}
