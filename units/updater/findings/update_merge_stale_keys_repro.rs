// Repro for finding `update_merge_stale_keys` (C09, obligation updater/Storage::update/update_value).
// Drop into a scratch copy of /repo as pdf/tests/update_merge.rs and run
//   CARGO_TARGET_DIR=/tmp/updater_target cargo test --offline -p pdf --test update_merge -- --nocapture
//
// Two updates of the same reference: the second value lacks a key (/CropBox) the first one had.  C09: the reference
// resolves "to the last value written".  The pinned code appends the second dictionary to the pending first one,
// so the key of the FIRST write survives.
use std::path::{Path, PathBuf};
use pdf::file::FileOptions;
use pdf::object::*;

fn files() -> PathBuf {
    Path::new(env!("CARGO_MANIFEST_DIR")).parent().unwrap().join("files")
}
fn is_compressed(data: &[u8], id: u64) -> bool {
    let a = format!("\n{} 0 obj", id).into_bytes();
    let b = format!("\r{} 0 obj", id).into_bytes();
    !data.windows(a.len()).any(|w| w == &a[..] || w == &b[..])
}

#[test]
fn second_update_replaces_the_first() {
    let path = files().join("example.pdf");
    let data = std::fs::read(&path).unwrap();
    let mut file = FileOptions::uncached().load(data.clone()).unwrap();
    let page = file.get_page(0).unwrap();
    let r: PlainRef = page.get_ref().get_inner();
    println!("page 0 ref {:?} compressed {} crop_box {:?}", r, is_compressed(&data, r.id), page.crop_box);
    let mut v1: Page = (*page).clone();
    v1.crop_box = Some(Rectangle { left: 1., bottom: 2., right: 3., top: 4. });
    let h1 = file.update(r, PagesNode::Leaf(v1)).unwrap().get_ref().get_inner();
    let mut v2: Page = (*page).clone();
    v2.crop_box = None;
    let h2 = file.update(h1, PagesNode::Leaf(v2)).unwrap().get_ref().get_inner();
    let again: RcRef<PagesNode> = file.resolver().get(Ref::new(h2)).unwrap();
    let crop = match *again { PagesNode::Leaf(ref p) => p.crop_box, _ => unreachable!() };
    println!("last value written has crop_box None; read back: {:?}", crop);
    assert!(crop.is_none(), "key written by the FIRST update is still there after the second update removed it");
}
