// Repro for candidate finding `save_fails_on_undefined_entries` (C09 end-to-end sentence; found by the bounded native stand-in
// units/xrefchain/e2e_docs_bounded.rs, test `candidate_save_of_a_file_with_undefined_numbers`).
// Drop into a scratch copy of /repo as pdf/tests/save_undefined.rs and run
//   CARGO_TARGET_DIR=/tmp/n2_target cargo test --offline -p pdf --test save_undefined -- --nocapture
//
// A loadable file whose cross-reference data leaves a number below /Size undefined (here: 3 and 4; the table lists 0, 1, 2, 5 and
// /Size is 6) cannot be saved: XRefTable::write_stream refuses the table because of its XRef::Invalid entries.
use pdf::file::{FileOptions, NoCache, NoLog, Storage, Trailer};
use pdf::object::*;
use pdf::primitive::Primitive;

fn file_with_a_gap() -> Vec<u8> {
    let mut out = b"%PDF-1.7\n".to_vec();
    let mut offs = Vec::new();
    for &(id, body) in &[(1u64, "<< /Type /Catalog /Pages 2 0 R >>"), (2, "<< /Type /Pages /Kids [] /Count 0 >>"), (5, "(five)")] {
        offs.push(out.len());
        out.extend_from_slice(format!("{} 0 obj\n{}\nendobj\n", id, body).as_bytes());
    }
    let xref = out.len();
    out.extend_from_slice(format!("xref\n0 3\n0000000000 65535 f \n{:010} 00000 n \n{:010} 00000 n \n5 1\n{:010} 00000 n \n", offs[0], offs[1], offs[2]).as_bytes());
    out.extend_from_slice(format!("trailer\n<< /Size 6 /Root 1 0 R >>\nstartxref\n{}\n%%EOF\n", xref).as_bytes());
    out
}

#[test]
fn save_of_a_loadable_file_with_an_undefined_number_below_size() {
    let bytes = file_with_a_gap();
    // the file loads and reads as expected
    let file = FileOptions::uncached().load(bytes.clone()).expect("the file loads");
    assert_eq!(file.resolver().resolve(PlainRef { id: 5, gen: 0 }).unwrap().as_string().unwrap().as_bytes(), b"five");
    assert!(file.resolver().resolve(PlainRef { id: 3, gen: 0 }).unwrap_err().is_missing_object());

    let mut st: Storage<Vec<u8>, NoCache, NoCache, NoLog> = Storage::with_cache(bytes.clone(), ParseOptions::strict(), NoCache, NoCache, NoLog).unwrap();
    let dict = st.load_storage_and_trailer().unwrap();
    let mut trailer = Trailer::from_primitive(Primitive::Dictionary(dict), &st.resolver()).unwrap();
    let r = st.update(PlainRef { id: 5, gen: 0 }, Primitive::Integer(42)).unwrap().get_ref().get_inner();
    assert_eq!(r, PlainRef { id: 5, gen: 0 });
    match st.save(&mut trailer) {
        Ok(_) => {}
        Err(e) => panic!("Storage::save of a loadable file fails: {}", e),
    }
    let saved = st.into_inner();
    assert!(saved.starts_with(&bytes));
    let again = FileOptions::uncached().load(saved).expect("the saved file loads");
    assert_eq!(again.resolver().resolve(PlainRef { id: 5, gen: 0 }).unwrap().as_integer().unwrap(), 42);
    assert!(again.resolver().resolve(PlainRef { id: 3, gen: 0 }).unwrap_err().is_missing_object());
    assert!(again.resolver().resolve(PlainRef { id: 4, gen: 0 }).unwrap_err().is_missing_object());
}
