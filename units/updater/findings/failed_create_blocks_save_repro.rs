// Repro for candidate finding `failed_create_blocks_save` (C09; anticipated by reading the code in units/updater/NOTES.md
// "Observations, not claimed", now replayed; test `candidate_failed_create_leaves_the_document_savable` of
// units/xrefchain/e2e_docs_bounded.rs). Drop into a scratch copy of /repo as pdf/tests/failed_create.rs and run
//   CARGO_TARGET_DIR=/tmp/n2_target cargo test --offline -p pdf --test failed_create -- --nocapture
use pdf::file::{FileOptions, NoCache, NoLog, Storage, Trailer};
use pdf::object::*;
use pdf::primitive::Primitive;

#[test]
fn a_failed_create_does_not_make_the_document_unsavable() {
    let bytes = std::fs::read(std::path::Path::new(env!("CARGO_MANIFEST_DIR")).parent().unwrap().join("files/example.pdf")).unwrap();
    let mut st: Storage<Vec<u8>, NoCache, NoCache, NoLog> = Storage::with_cache(bytes.clone(), ParseOptions::strict(), NoCache, NoCache, NoLog).unwrap();
    let dict = st.load_storage_and_trailer().unwrap();
    let mut trailer = Trailer::from_primitive(Primitive::Dictionary(dict), &st.resolver()).unwrap();

    // a value that cannot be written: the info of a stream must be a dictionary (Stream::to_pdf_stream bails)
    let refused = st.create(Stream::new(5i32, b"x".to_vec()));
    assert!(refused.is_err());

    // the caller carries on with something else
    let r = st.update(PlainRef { id: 5, gen: 0 }, Primitive::Integer(42)).unwrap().get_ref().get_inner();
    assert_eq!(r, PlainRef { id: 5, gen: 0 });
    if let Err(e) = st.save(&mut trailer) { panic!("save after a failed create: {}", e); }
    let saved = st.into_inner();
    let again = FileOptions::uncached().load(saved).expect("the saved file loads");
    assert_eq!(again.resolver().resolve(PlainRef { id: 5, gen: 0 }).unwrap().as_integer().unwrap(), 42);
}
