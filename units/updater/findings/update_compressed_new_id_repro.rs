// Repro for finding `update_compressed_new_id` (C09, obligation updater/Storage::update/update_same_ref).
// Drop into a scratch copy of /repo as pdf/tests/update_compressed.rs and run
//   CARGO_TARGET_DIR=/tmp/updater_target cargo test --offline -p pdf --test update_compressed -- --nocapture
//
// xelatex.pdf keeps its page objects inside an object stream (cross-reference entries of type 2).
// `File::update(r, v)` on such a reference `r` must hand back `r` itself and every later read through `r`
// must see `v` (C09: "the very reference the caller passed ... before any save every read through the same
// open document already reflects each write").
use std::path::{Path, PathBuf};
use pdf::file::FileOptions;
use pdf::object::*;

fn files() -> PathBuf {
    Path::new(env!("CARGO_MANIFEST_DIR")).parent().unwrap().join("files")
}

/// true iff the object `id` has no top-level `id 0 obj` header in the file, i.e. it is compressed.
fn is_compressed(data: &[u8], id: u64) -> bool {
    let a = format!("\n{} 0 obj", id).into_bytes();
    let b = format!("\r{} 0 obj", id).into_bytes();
    !data.windows(a.len()).any(|w| w == &a[..] || w == &b[..])
}

#[test]
fn update_of_compressed_object_returns_the_reference_passed_in() {
    let path = files().join("xelatex.pdf");
    let data = std::fs::read(&path).unwrap();
    let mut file = FileOptions::uncached().load(data.clone()).unwrap();

    let page = file.get_page(0).unwrap();
    let r: PlainRef = page.get_ref().get_inner();
    assert!(is_compressed(&data, r.id), "test premise: page object {} lives in an object stream", r.id);
    assert_eq!(page.rotate, 0);

    let mut page2: Page = (*page).clone();
    page2.rotate = 90;
    let handed_back = file.update(r, PagesNode::Leaf(page2)).unwrap();
    println!("passed in   {:?}", r);
    println!("handed back {:?}", handed_back.get_ref().get_inner());

    // (1) read-your-writes through the reference the caller holds (uncached storage: no stale cache involved)
    let again = file.get_page(0).unwrap();
    println!("page 0 /Rotate read back through the page tree: {}", again.rotate);

    assert_eq!(handed_back.get_ref().get_inner(), r, "update returned a different reference");
    assert_eq!(again.rotate, 90, "the write is not visible through the reference that was updated");
}

#[test]
fn update_of_compressed_object_survives_save_and_reload() {
    let path = files().join("xelatex.pdf");
    let data = std::fs::read(&path).unwrap();
    let mut file = FileOptions::uncached().load(data.clone()).unwrap();
    let page = file.get_page(0).unwrap();
    let r: PlainRef = page.get_ref().get_inner();
    let mut page2: Page = (*page).clone();
    page2.rotate = 90;
    page2.contents = None; // in-file streams cannot be re-serialised by the pinned writer (unimplemented!)
    file.update(r, PagesNode::Leaf(page2)).unwrap();
    let out = std::env::temp_dir().join("updater_repro_out.pdf");
    file.save_to(&out).unwrap();
    let saved = std::fs::read(&out).unwrap();
    let _ = std::fs::remove_file(&out);
    assert!(saved.starts_with(&data), "previous revision is not a prefix");
    let file2 = FileOptions::uncached().load(saved).unwrap();
    let again = file2.get_page(0).unwrap();
    println!("after reload: page 0 ref {:?} rotate {}", again.get_ref().get_inner(), again.rotate);
    assert_eq!(again.get_ref().get_inner(), r);
    assert_eq!(again.rotate, 90, "the saved file does not show the update");
}
