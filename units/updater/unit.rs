// Unit `updater` (C09; `save` bookkeeping C09/C10): `impl Updater for Storage<..>` of pdf/src/file.rs
// -- create / update / promise / fulfill -- plus the four XRefTable accessors they use (pdf/src/xref.rs),
// RcRef::new and PromisedRef::get_inner.  Trait-impl methods are emitted as inherent fns of a `Storage` reduced
// to the fields they touch (R2).  `changes` stays a real `HashMap` (vstd's model: `changes@` is a `Map`).
use vstd::prelude::*;
use std::sync::Arc;
use std::marker::PhantomData;
use std::collections::HashMap;
//@@ INCLUDE _common/error_macros.rs
verus! {
global size_of usize == 8;
broadcast use vstd::std_specs::hash::group_hash_axioms;

//@@ PDFERROR
//@@ DEVIATIONS

pub type ObjNr = u64;
pub type GenNr = u64;
pub type Shared<T> = Arc<T>;

// ---- env: the value model.  `Primitive` is reduced to the one distinction `update` makes (dictionary or not);
// payloads are abstract tokens.  `dict_append(a, b)` = a after `Dictionary::append(b)` (indexmap: keys of b
// override, keys only in a stay). ----
pub struct Dictionary { pub tok: Ghost<int> }
pub uninterp spec fn dict_append(a: Dictionary, b: Dictionary) -> Dictionary;
impl Dictionary {
    #[verifier::external_body]
    pub fn append(&mut self, other: Dictionary)
        ensures *final(self) == dict_append(*old(self), other)
    { unimplemented!() }
}
pub enum Primitive { Dictionary(Dictionary), Other(Ghost<int>) }
// std operators a refactor of the merge would naturally use (obvious std semantics, TRUSTED):
// `Dictionary: Default` (derived in primitive.rs) and `std::mem::take` = returns the old value, leaves the default behind
impl Default for Dictionary {
    #[verifier::external_body]
    fn default() -> (r: Dictionary) { unimplemented!() }
}
pub uninterp spec fn default_of<T>() -> T;
pub assume_specification<T: Default>[core::mem::take::<T>](dest: &mut T) -> (r: T)
    ensures r == *old(dest), *final(dest) == default_of::<T>();

pub trait Object {}

// ---- env for `save` (abstract callees, TRUSTED contracts; see NOTES.md) ----
pub struct CacheStub { pub tok: Ghost<int> }
impl CacheStub { #[verifier::external_body] pub fn clear(&self) { unimplemented!() } }
pub struct NoUpdate;
pub struct XRefInfo { pub tok: Ghost<int> }
pub struct Stream<I> { pub info: I, pub tok: Ghost<int> }
pub struct PdfStream { pub info: Dictionary, pub tok: Ghost<int> }
pub struct Resolver { pub tok: Ghost<int> }
pub struct Trailer { pub size: i32, pub tok: Ghost<int> }
impl Object for Stream<XRefInfo> {}

//@@ struct PlainRef
//@@ enum XRef
//@@ struct XRefTable
//@@ struct RcRef
//@@ struct PromisedRef
//@@ struct Storage

impl XRefTable {
//@@ XRefTable::get
//@@ XRefTable::set
//@@ XRefTable::len
//@@ XRefTable::push
}
impl<T> RcRef<T> {
//@@ RcRef::new
}
impl<T> PromisedRef<T> {
//@@ PromisedRef::get_inner
}

// ---- specification vocabulary (written from C09 / ISO 32000-1 7.5.4, 7.5.7, 7.5.8) ----

// the generation number under which object `id` is (to be) written: the one its cross-reference entry carries;
// compressed objects and objects that did not exist in the previous revision have generation 0.
pub open spec fn table_gen(x: XRef) -> GenNr {
    match x {
        XRef::Raw { pos, gen_nr } => gen_nr,
        XRef::Free { next_obj_nr, gen_nr } => gen_nr,
        XRef::Stream { stream_id, index } => 0,
        XRef::Promised => 0,
        XRef::Invalid => 0,
    }
}

// "resolves ... to the last value written": what a pending change must hold after `update(r, v)`.
// DEV_UPDATE_MERGES_DICT (finding update_merge_stale_keys): the pinned code appends the new dictionary to a
// dictionary already pending for the same id instead of replacing it.
pub open spec fn value_after_update(prev: Option<Primitive>, new: Primitive) -> Primitive {
    if DEV_UPDATE_MERGES_DICT() {
        match (prev, new) {
            (Some(Primitive::Dictionary(a)), Primitive::Dictionary(b)) => Primitive::Dictionary(dict_append(a, b)),
            _ => new,
        }
    } else {
        new
    }
}

pub open spec fn pending(s: Storage, id: ObjNr) -> Option<Primitive> {
    if s.changes@.dom().contains(id) { Some(s.changes@[id].0) } else { None }
}

impl Storage {
    // representation invariant: every pending change belongs to an id of the table that is neither free nor
    // unspecified, and carries the generation of its table entry.
    pub open spec fn wf(&self) -> bool {
        forall|k: ObjNr| #[trigger] self.changes@.dom().contains(k) ==>
            k < self.refs.entries@.len()
            && !(self.refs.entries@[k as int] is Free) && !(self.refs.entries@[k as int] is Invalid)
            && self.changes@[k].1 == table_gen(self.refs.entries@[k as int])
    }
}

// `b` extends `a`: ids are only appended, nothing that existed is touched, new pending changes sit on new ids.
pub open spec fn extends(a: Storage, b: Storage) -> bool {
    &&& b.refs.entries@.len() >= a.refs.entries@.len()
    &&& forall|i: int| 0 <= i < a.refs.entries@.len() ==> #[trigger] b.refs.entries@[i] == a.refs.entries@[i]
    &&& forall|k: ObjNr| #[trigger] a.changes@.dom().contains(k) ==> b.changes@.dom().contains(k) && b.changes@[k] == a.changes@[k]
    &&& forall|k: ObjNr| #[trigger] b.changes@.dom().contains(k) && !a.changes@.dom().contains(k) ==> k >= a.refs.entries@.len()
    &&& b.backend@ == a.backend@ && b.start_offset == a.start_offset
}

// like `extends`, but the pending change of the one id `id` may differ
pub open spec fn extends_except(a: Storage, b: Storage, id: ObjNr) -> bool {
    &&& b.refs.entries@.len() >= a.refs.entries@.len()
    &&& forall|i: int| 0 <= i < a.refs.entries@.len() ==> #[trigger] b.refs.entries@[i] == a.refs.entries@[i]
    &&& forall|k: ObjNr| k != id && #[trigger] a.changes@.dom().contains(k) ==> b.changes@.dom().contains(k) && b.changes@[k] == a.changes@[k]
    &&& forall|k: ObjNr| k != id && #[trigger] b.changes@.dom().contains(k) && !a.changes@.dom().contains(k) ==> k >= a.refs.entries@.len()
    &&& b.backend@ == a.backend@ && b.start_offset == a.start_offset
}

// number of ids in existence when the value of object `own` is serialised by an operation that started with `n`
// ids: all previous ones and its own.  Nested objects created while serialising get ids from there on.
pub open spec fn ids_taken(n: nat, own: ObjNr) -> nat { if own < n { n } else { (own + 1) as nat } }

// ---- env: the abstract callee `obj.to_primitive(updater)` (TRUSTED contract, see NOTES.md).
// Re-entrant: may allocate further ids through the updater (every impl in pdf/src and pdf_derive only ever calls
// `create` on it), never touches an existing id.  The primitive it returns is a function of the object and of the
// first id it may allocate (references to the objects it created are part of the value). ----
pub trait ObjectWrite: Sized {
    spec fn prim(&self, first_free_id: nat) -> Primitive;
    fn to_primitive(&self, update: &mut Storage) -> (r: Result<Primitive>)
        requires old(update).wf(),
        ensures final(update).wf(), extends(*old(update), *final(update)),
            r matches Ok(p) ==> p == self.prim(old(update).refs.entries@.len());
}

// (the HashMap entry-API `match` of `update` is no longer hoisted as a whole: see ENTRY_MATCH in unit.py, rule R8)

// ---- `save`: vocabulary.  The bytes a `write!` produces are abstract (std::fmt is out of reach); what is
// proved is WHERE they land and which number is printed. ----
pub uninterp spec fn obj_header_bytes(id: ObjNr, gen: GenNr) -> Seq<u8>;   // "{id} {gen} obj\n"
pub uninterp spec fn endobj_bytes() -> Seq<u8>;                            // "endobj\n"
pub uninterp spec fn startxref_bytes(pos: usize) -> Seq<u8>;               // "\nstartxref\n{pos}\n%%EOF"

// `a` is an unmodified prefix of `b`
pub open spec fn grows(a: Seq<u8>, b: Seq<u8>) -> bool {
    a.len() <= b.len() && forall|i: int| 0 <= i < a.len() ==> #[trigger] b[i] == a[i]
}
pub open spec fn has_header_at(b: Seq<u8>, at: int, id: ObjNr, gen: GenNr) -> bool {
    0 <= at && at + obj_header_bytes(id, gen).len() <= b.len()
    && b.subrange(at, at + obj_header_bytes(id, gen).len()) == obj_header_bytes(id, gen)
}
// C10: "every in-use entry pointing at the matching object header"; offsets count from the header of the file
// (the reader adds `start_offset` to every offset it follows: backend.rs read_xref_table_and_trailer, file.rs resolve_ref)
pub open spec fn placed(s: Storage, id: ObjNr, gen: GenNr) -> bool {
    id < s.refs.entries@.len()
    && (s.refs.entries@[id as int] matches XRef::Raw { pos, gen_nr } && gen_nr == gen
        && has_header_at(s.backend@, s.start_offset + pos, id, gen))
}
pub open spec fn ends_with(b: Seq<u8>, t: Seq<u8>) -> bool {
    t.len() <= b.len() && b.subrange(b.len() - t.len(), b.len() as int) == t
}
// what a successful save leaves behind, `xid` being the object number of the cross-reference stream it wrote
pub open spec fn save_ok(pre: Storage, post: Storage, size: i32, xid: ObjNr) -> bool {
    &&& xid < post.refs.entries@.len() && xid >= pre.refs.entries@.len()
    // every object written (all pending changes up to and including the xref stream itself) has a table entry
    // `Raw` with its generation, pointing at its own `id gen obj` header
    &&& forall|k: ObjNr| #[trigger] post.changes@.dom().contains(k) && k <= xid ==> placed(post, k, post.changes@[k].1)
    &&& post.changes@.dom().contains(xid) && post.changes@[xid].1 == 0
    // the number printed after `startxref` is the position of the xref stream object
    &&& post.refs.entries@[xid as int] matches XRef::Raw { pos, gen_nr } && ends_with(post.backend@, startxref_bytes(pos))
    // /Size exceeds every object number of the file (ISO 32000-1 7.5.5), below the i32 range of the field
    &&& pre.refs.entries@.len() + 2 <= i32::MAX ==> size > xid
    // nothing pending is lost, untouched table entries stay
    &&& forall|k: ObjNr| #[trigger] pre.changes@.dom().contains(k) ==> post.changes@.dom().contains(k) && post.changes@[k] == pre.changes@[k]
    &&& forall|i: int| 0 <= i < pre.refs.entries@.len() && !pre.changes@.dom().contains(i as ObjNr) ==> #[trigger] post.refs.entries@[i] == pre.refs.entries@[i]
}

pub proof fn lemma_header_stable(b: Seq<u8>, b2: Seq<u8>, at: int, id: ObjNr, gen: GenNr)
    requires has_header_at(b, at, id, gen), grows(b, b2),
    ensures has_header_at(b2, at, id, gen),
{
    let n = obj_header_bytes(id, gen).len();
    assert(b2.subrange(at, at + n) =~= b.subrange(at, at + n));
}
pub proof fn lemma_header_appended(b: Seq<u8>, id: ObjNr, gen: GenNr)
    ensures has_header_at(b + obj_header_bytes(id, gen), b.len() as int, id, gen),
{
    let h = obj_header_bytes(id, gen);
    assert((b + h).subrange(b.len() as int, (b.len() + h.len()) as int) =~= h);
}
pub proof fn lemma_placed_stable(a: Storage, b: Storage, id: ObjNr, gen: GenNr)
    requires placed(a, id, gen), id < b.refs.entries@.len(), b.refs.entries@[id as int] == a.refs.entries@[id as int],
        grows(a.backend@, b.backend@), a.start_offset == b.start_offset,
    ensures placed(b, id, gen),
{
    match a.refs.entries@[id as int] {
        XRef::Raw { pos, gen_nr } => { lemma_header_stable(a.backend@, b.backend@, a.start_offset + pos, id, gen); }
        _ => {}
    }
}
pub proof fn lemma_grows_append(a: Seq<u8>, t: Seq<u8>) ensures grows(a, a + t) {}

impl Trailer {
    // derived `ToDict` (pdf_derive): serialises the fields; the only `indirect` field is `info_dict`, so at most ONE
    // id is allocated -- the `+ 2` of `save` relies on exactly this.  `dict_size` = the /Size entry.
    #[verifier::external_body]
    pub fn to_dict(&self, update: &mut Storage) -> (r: Result<Dictionary>)
        requires old(update).wf(),
        ensures final(update).wf(), extends(*old(update), *final(update)),
            final(update).refs.entries@.len() <= old(update).refs.entries@.len() + 1,
            r matches Ok(d) ==> dict_size(d) == self.size,
    { unimplemented!() }
    #[verifier::external_body]
    pub fn from_dict(dict: Dictionary, resolve: &Resolver) -> (r: Result<Trailer>)
        ensures r matches Ok(t) ==> t.size == dict_size(dict),
    { unimplemented!() }
}
pub uninterp spec fn dict_size(d: Dictionary) -> i32;
pub uninterp spec fn stream_prim(s: Stream<XRefInfo>, first_free_id: nat) -> Primitive;
impl ObjectWrite for Stream<XRefInfo> {
    open spec fn prim(&self, first_free_id: nat) -> Primitive { stream_prim(*self, first_free_id) }
    #[verifier::external_body]
    fn to_primitive(&self, update: &mut Storage) -> (r: Result<Primitive>) { unimplemented!() }
}
impl<I> Stream<I> {
    #[verifier::external_body]
    pub fn to_pdf_stream(&self, update: &mut NoUpdate) -> (r: Result<PdfStream>) { unimplemented!() }
}
impl PdfStream {
    // writes into `out`; whatever happens, what was there stays (io::Write for Vec<u8> only appends)
    #[verifier::external_body]
    pub fn serialize(&self, out: &mut Vec<u8>) -> (r: Result<()>)
        ensures grows(old(out)@, final(out)@),
    { unimplemented!() }
}
impl Primitive {
    #[verifier::external_body]
    pub fn serialize(&self, out: &mut Vec<u8>) -> (r: Result<()>)
        ensures grows(old(out)@, final(out)@),
    { unimplemented!() }
}
impl XRefTable {
    // contract of the real function: unit xrefstm (C10); here only "reads the table"
    #[verifier::external_body]
    pub fn write_stream(&self, size: usize) -> (r: Result<Stream<XRefInfo>>) { unimplemented!() }
}
impl Storage {
    #[verifier::external_body]
    pub fn resolver(&self) -> (r: Resolver) { unimplemented!() }
}

// ---- L0 helpers (R7) of `save`: bodies are the hoisted source text (io::Error -> PdfError::Io is what `?` does
// through `From`, R3).  TRUSTED: "appends exactly these bytes". ----
#[verifier::external_body]
fn hoist_write_obj_header(out: &mut Vec<u8>, id: ObjNr, gen: GenNr) -> (r: Result<()>)
    ensures grows(old(out)@, final(out)@),
        r is Ok ==> final(out)@ == old(out)@ + obj_header_bytes(id, gen),
{
    use std::io::Write;
    writeln!(out, "{} {} obj", id, gen).map_err(|_| PdfError::Io)
}
#[verifier::external_body]
fn hoist_write_endobj(out: &mut Vec<u8>) -> (r: Result<()>)
    ensures grows(old(out)@, final(out)@),
        r is Ok ==> final(out)@ == old(out)@ + endobj_bytes(),
{
    use std::io::Write;
    writeln!(out, "endobj").map_err(|_| PdfError::Io)
}
#[verifier::external_body]
fn hoist_write_startxref(out: &mut Vec<u8>, xref_pos: usize)
    ensures final(out)@ == old(out)@ + startxref_bytes(xref_pos),
{
    use std::io::Write;
    write!(out, "\nstartxref\n{}\n%%EOF", xref_pos).unwrap();
}
#[verifier::external_body]
fn hoist_copy_trailer_entries(xref_and_trailer: &mut PdfStream, trailer_dict: &Dictionary)
{
    unimplemented!() // for (k, v) in trailer_dict.iter() { xref_and_trailer.info.insert(k.clone(), v.clone()); }
}
// the pending changes in ascending id order
#[verifier::external_body]
fn hoist_sorted_changes<'a>(m: &'a HashMap<ObjNr, (Primitive, GenNr)>) -> (v: Vec<(&'a ObjNr, &'a (Primitive, GenNr))>)
    ensures
        forall|j: int| 0 <= j < v@.len() ==> m@.dom().contains(*(#[trigger] v@[j]).0) && *v@[j].1 == m@[*v@[j].0],
        forall|a: int, b: int| 0 <= a < b < v@.len() ==> *(#[trigger] v@[a]).0 < *(#[trigger] v@[b]).0,
        forall|k: ObjNr| m@.dom().contains(k) ==> exists|j: int| 0 <= j < v@.len() && *(#[trigger] v@[j]).0 == k,
{
    let mut changes: Vec<_> = m.iter().collect();
    changes.sort_unstable_by_key(|&(id, _)| id);
    changes
}

impl Storage {
//@@ Storage::create
//@@ Storage::update
//@@ Storage::promise
//@@ Storage::fulfill
//@@ Storage::save
}
}
fn main(){}
