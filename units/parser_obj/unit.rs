// Unit `parser_obj` (C03, C04, C11, C01, C06 placement): the object grammar of pdf/src/parser/mod.rs and
// pdf/src/parser/parse_object.rs:
//   parse_with_lexer_ctx (rollback), _parse_with_lexer_ctx, parse_dictionary_object, parse_stream_object, check,
//   parse, parse_with_lexer, parse_stream, parse_stream_with_lexer, parse_indirect_object, Context::decrypt
//   (+ Lexer::read_n / new_substr re-proved here with one more postcondition, PdfString::new)
// against `obj_at`, an object function written from ISO 32000-1:2008 7.3 over the token function of unit `lexer`
// (7.2) and the string step functions of unit `strlex` (7.3.4.2 / 7.3.4.3).
use vstd::prelude::*;
use std::ops::Range;
use std::sync::Arc;
//@@ INCLUDE _common/error_macros.rs
// R4: `err!` in match-arm position (`PAT => err!(..)`, renamed `err_arm!` by a shape-only rewrite) with the control flow of the crate's
// macro (always `return Err(e)`), spelled so that the enclosing match arm is not
// never-typed: Verus 0.2026.09.13 loses `final(x)` of a `&mut` parameter at a `return` inside a match whose only value-producing arm
// is guarded (`match p { A(n) if g => v, other => err!(..) }` followed by a later use of x) -- a false alarm on `*_frame`.
// `unreached()` requires false, i.e. Verus proves that nothing follows the return.
macro_rules! err_arm { ($e: expr) => ({ if true { return Err($e); } unreached() }) }
// R4: log macro dropped; unlike the shared twin it is usable in expression position too (`other => warn!(..)`): its value is `()`
macro_rules! warn { ($($t:tt)*) => { () } }
// R4: pdf/src/primitive.rs `unexpected_primitive!`: same control flow (evaluates to Err(UnexpectedPrimitive{..}));
// `stringify!($expected)` is replaced by a fixed string (payload text, R3)
macro_rules! unexpected_primitive {
    ($expected:ident, $found:expr) => (
        Err(PdfError::UnexpectedPrimitive { expected: "", found: $found })
    )
}
verus! {
global size_of usize == 8;

//@@ PDFERROR
//@@ type ObjNr
//@@ type GenNr
//@@ struct PlainRef
//@@ struct ParseOptions
//@@ struct Lexer
//@@ struct Substr
//@@ struct StringLexer
//@@ struct HexStringLexer
//@@ const MAX_DEPTH

// ---- named deviations / tolerances ----
//@@ DEVIATIONS

// =====================================================================================================
// env: opaque data types of the object model (istring / indexmap / crypt), with ghost views
// =====================================================================================================
#[verifier::external_body]
pub struct Decoder { _p: () }

/// istring::IBytes: a growable byte string
#[verifier::external_body]
pub struct IBytes { _p: () }
impl IBytes {
    pub uninterp spec fn view(&self) -> Seq<u8>;
    #[verifier::external_body]
    pub fn new() -> (r: IBytes) ensures r@ == Seq::<u8>::empty() { unimplemented!() }
    #[verifier::external_body]
    pub fn push(&mut self, b: u8) ensures final(self)@ == old(self)@.push(b) { unimplemented!() }
    #[verifier::external_body]
    pub fn extend_from_slice(&mut self, s: &[u8]) ensures final(self)@ == old(self)@ + s@ { unimplemented!() }
    #[verifier::external_body]
    pub fn as_slice(&self) -> (r: &[u8]) ensures r@ == self@ { unimplemented!() }
}
/// istring::SmallBytes
#[verifier::external_body]
pub struct SmallBytes { _p: () }
impl SmallBytes {
    pub uninterp spec fn view(&self) -> Seq<u8>;
    /// `From<&[u8]> for SmallBytes`
    #[verifier::external_body]
    pub fn from(s: &[u8]) -> (r: SmallBytes) ensures r@ == s@ { unimplemented!() }
}
/// the byte sequence is well-formed UTF-8 (std::str::from_utf8 succeeds)
pub uninterp spec fn utf8_ok(s: Seq<u8>) -> bool;
/// istring::SmallString (view = its UTF-8 bytes)
#[verifier::external_body]
pub struct SmallString { _p: () }
impl SmallString {
    pub uninterp spec fn view(&self) -> Seq<u8>;
    /// `SmallString::from_utf8(SmallBytes) -> Result<_, FromUtf8Error>` followed by `?` (`From<FromUtf8Error> for PdfError`
    /// folded into the stub, R3)
    #[verifier::external_body]
    pub fn from_utf8(s: SmallBytes) -> (r: Result<SmallString>)
        ensures utf8_ok(s@) ==> (r matches Ok(x) && x@ == s@), !utf8_ok(s@) ==> r is Err
    { unimplemented!() }
}
/// primitive.rs: `pub struct Name(pub SmallString);`
pub struct Name(pub SmallString);
impl Name {
    pub open spec fn view(&self) -> Seq<u8> { self.0@ }
}

/// parser/mod.rs:22 `bitflags! { pub struct ParseFlags: u16 { .. } }` (restated; the macro is not extracted)
#[derive(Clone, Copy)]
pub struct ParseFlags { pub bits: u16 }
impl ParseFlags {
    pub const INTEGER: ParseFlags = ParseFlags { bits: 1 };
    pub const STREAM: ParseFlags = ParseFlags { bits: 2 };
    pub const DICT: ParseFlags = ParseFlags { bits: 4 };
    pub const NUMBER: ParseFlags = ParseFlags { bits: 8 };
    pub const NAME: ParseFlags = ParseFlags { bits: 16 };
    pub const ARRAY: ParseFlags = ParseFlags { bits: 32 };
    pub const STRING: ParseFlags = ParseFlags { bits: 64 };
    pub const BOOL: ParseFlags = ParseFlags { bits: 128 };
    pub const NULL: ParseFlags = ParseFlags { bits: 256 };
    pub const REF: ParseFlags = ParseFlags { bits: 512 };
    pub const ANY: ParseFlags = ParseFlags { bits: 1023 };
    /// bitflags: `intersects(other)` == some bit of other is set (`&` is commutative: stated both ways)
    #[verifier::external_body]
    pub fn intersects(&self, other: ParseFlags) -> (r: bool) ensures r == (self.bits & other.bits != 0), r == (other.bits & self.bits != 0) { unimplemented!() }
}
/// bitflags: `impl BitOr for ParseFlags` (R7: the operator is spelled as a call)
#[verifier::external_body]
pub fn flags_or(a: ParseFlags, b: ParseFlags) -> (r: ParseFlags) ensures r.bits == a.bits | b.bits { unimplemented!() }

//@@ struct PdfString
//@@ enum StreamInner
//@@ struct PdfStream
//@@ enum Primitive
//@@ struct Context

/// primitive.rs: `Dictionary { dict: IndexMap<Name, Primitive> }` as a ghost map from the key's bytes to the value
#[verifier::external_body]
pub struct Dictionary { _p: () }
impl Dictionary {
    pub uninterp spec fn view(&self) -> Map<Seq<u8>, Primitive>;
    /// `#[derive(Default)]`
    #[verifier::external_body]
    pub fn default() -> (r: Dictionary) ensures r@ == Map::<Seq<u8>, Primitive>::empty() { unimplemented!() }
    /// IndexMap::insert: a later duplicate key replaces the value
    #[verifier::external_body]
    pub fn insert(&mut self, key: Name, val: Primitive) -> (r: Option<Primitive>)
        ensures final(self)@ == old(self)@.insert(key@, val)
    { unimplemented!() }
    #[verifier::external_body]
    pub fn get(&self, key: &str) -> (r: Option<&Primitive>)
        ensures match r { Some(p) => self@.dom().contains(ascii(key@)) && *p == self@[ascii(key@)], None => !self@.dom().contains(ascii(key@)) }
    { unimplemented!() }
}
/// never called (see the `err_arm!` twin above)
#[verifier::external_body]
pub fn unreached<T>() -> T requires false { unreachable!() }
/// R5: `Option<&Primitive>::cloned()` (`#[derive(Clone)]` of Primitive): the value itself
#[verifier::external_body]
pub fn opt_cloned(o: Option<&Primitive>) -> (r: Option<Primitive>)
    ensures r == (match o { Some(p) => Some(*p), None => None })
{ unimplemented!() /* o.cloned() */ }
impl Primitive {
    /// primitive.rs:495 (only feeds an error payload)
    #[verifier::external_body]
    pub fn get_debug_name(&self) -> (r: &'static str) { unimplemented!() }
    /// primitive.rs:536
    #[verifier::external_body]
    pub fn as_usize(&self) -> (r: Result<usize>)
        ensures match *self { Primitive::Integer(n) => if n >= 0 { r matches Ok(v) && v == n } else { r is Err }, _ => r is Err }
    { unimplemented!() }
}

/// the bytes of an ASCII string literal
pub open spec fn ascii(s: Seq<char>) -> Seq<u8> { Seq::new(s.len(), |i: int| s[i] as u8) }
/// R7: a byte-string literal `b"lit"` read through `str::as_bytes` (Verus knows the length of `b".."` but not its bytes)
#[verifier::external_body]
pub fn blit(s: &'static str) -> (r: &'static [u8]) ensures r@ == ascii(s@) { s.as_bytes() }

// ---- the resolver (abstract) ----
pub trait Resolve {
    spec fn resolve_spec(&self, r: PlainRef, flags: ParseFlags, depth: usize) -> Result<Primitive>;
    fn resolve_flags(&self, r: PlainRef, flags: ParseFlags, depth: usize) -> (res: Result<Primitive>)
        ensures res == self.resolve_spec(r, flags, depth);
    spec fn options_spec(&self) -> ParseOptions;
    fn options(&self) -> (o: &ParseOptions)
        ensures *o == self.options_spec();
}

// ---- decryption (abstract): crypt.rs Decoder::decrypt is under contract in unit `decrypt` ----
/// what `Decoder::decrypt(id, data)` yields for the bytes `data` (None = error)
pub uninterp spec fn decrypt_spec(d: Decoder, id: PlainRef, data: Seq<u8>) -> Option<Seq<u8>>;
impl Decoder {
    #[verifier::external_body]
    pub fn decrypt<'buf>(&self, id: PlainRef, data: &'buf mut [u8]) -> (r: Result<&'buf [u8]>)
        ensures match r { Ok(s) => decrypt_spec(*self, id, old(data)@) == Some(s@), Err(_) => decrypt_spec(*self, id, old(data)@) is None }
    { unimplemented!() }
}
/// R7: `string = t!(ctx.decrypt(&mut string)).into();` — decrypt in place (a `&mut [u8]` borrowed out of the IBytes through
/// DerefMut), copy the returned sub-slice into a new IBytes (`From<&[u8]> for IBytes`)
#[verifier::external_body]
pub fn hoist_decrypt_into(ctx: &Context, string: &mut IBytes) -> (r: Result<IBytes>)
    ensures match r { Ok(s) => ctx_decrypt(ctxv(Some(ctx)), old(string)@) == Some(s@), Err(_) => ctx_decrypt(ctxv(Some(ctx)), old(string)@) is None }
{ unimplemented!() /* Ok(ctx.decrypt(string)?.into()) */ }

// =====================================================================================================
// ISO 32000-1 7.2: tokens (same functions as unit `lexer`; the deviations repaired in /repo are gone)
// =====================================================================================================
pub open spec fn is_ws(b: u8) -> bool { b == 0 || b == 9 || b == 10 || b == 12 || b == 13 || b == 32 }
pub open spec fn is_delim(b: u8) -> bool { b == 40 || b == 41 || b == 60 || b == 62 || b == 91 || b == 93 || b == 123 || b == 125 || b == 47 || b == 37 }
pub open spec fn is_reg(b: u8) -> bool { !is_ws(b) && !is_delim(b) }
pub open spec fn is_eol(b: u8) -> bool { b == 10 || b == 13 }
pub open spec fn ws_end(buf: Seq<u8>, p: int) -> int decreases buf.len() - p {
    if 0 <= p < buf.len() && is_ws(buf[p]) { ws_end(buf, p + 1) } else { p }
}
pub open spec fn reg_end(buf: Seq<u8>, p: int) -> int decreases buf.len() - p {
    if 0 <= p < buf.len() && is_reg(buf[p]) { reg_end(buf, p + 1) } else { p }
}
pub open spec fn eol_after(buf: Seq<u8>, p: int) -> Option<int> decreases buf.len() - p {
    if p < 0 || p >= buf.len() { None } else if is_eol(buf[p]) { Some(p + 1) } else { eol_after(buf, p + 1) }
}
pub open spec fn token_start(buf: Seq<u8>, p: int) -> Option<int> decreases buf.len() - p {
    let q = ws_end(buf, p);
    if p < 0 || q < p || q >= buf.len() { None }
    else if buf[q] == 37 {
        match eol_after(buf, q + 1) {
            Some(e) => if p < e <= buf.len() { token_start(buf, e) } else { None },
            None => None,
        }
    } else { Some(q) }
}
pub open spec fn token_end(buf: Seq<u8>, s: int) -> int {
    if is_delim(buf[s]) {
        if buf[s] == 47 { reg_end(buf, s + 1) }
        else if s + 1 < buf.len() && ((buf[s] == 60 && buf[s+1] == 60) || (buf[s] == 62 && buf[s+1] == 62)) { s + 2 }
        else { s + 1 }
    } else { reg_end(buf, s) }
}
// 7.3.8.1 (unit `lexer`)
pub open spec fn stream_data_start(buf: Seq<u8>, k: int) -> Option<int> {
    if k + 6 < buf.len() && buf[k + 6] == 10 { Some(k + 7) }
    else if k + 7 < buf.len() && buf[k + 6] == 13 && buf[k + 7] == 10 { Some(k + 8) }
    else { None }
}
pub open spec fn stream_kw_pos(buf: Seq<u8>, p: int) -> Option<int> {
    if DEV_STREAM_KEYWORD_COMMENT_NOT_SKIPPED() { let q = ws_end(buf, p); if p <= q < buf.len() { Some(q) } else { None } }
    else { match tok(buf, p) { Some(t) => Some(t.0), None => None } }
}
// 7.3.3 numbers
pub open spec fn digit(b: u8) -> bool { 48 <= b <= 57 }
pub open spec fn all_digits(s: Seq<u8>) -> bool { forall|i: int| 0 <= i < s.len() ==> digit(#[trigger] s[i]) }
pub open spec fn sign_len(s: Seq<u8>) -> int { if s.len() > 0 && (s[0] == 45 || s[0] == 43) { 1 } else { 0 } }
pub open spec fn is_int_lit(s: Seq<u8>) -> bool {
    let k = sign_len(s);
    s.len() > k && all_digits(s.subrange(k, s.len() as int))
}
pub open spec fn is_ureal(t: Seq<u8>) -> bool {
    all_digits(t) && t.len() > 0
    || exists|i: int| 0 <= i < t.len() && #[trigger] t[i] == 46 && all_digits(t.subrange(0, i)) && all_digits(t.subrange(i + 1, t.len() as int))
        && (t.len() > 1 || DEV_LONE_DOT_IS_REAL())
}
pub open spec fn is_real_lit(s: Seq<u8>) -> bool { is_ureal(s.subrange(sign_len(s), s.len() as int)) }
/// the ISO-exact reading (no tolerance): what the value spec uses
pub open spec fn is_real_iso(s: Seq<u8>) -> bool {
    let t = s.subrange(sign_len(s), s.len() as int);
    all_digits(t) && t.len() > 0
    || exists|i: int| 0 <= i < t.len() && #[trigger] t[i] == 46 && all_digits(t.subrange(0, i)) && all_digits(t.subrange(i + 1, t.len() as int)) && t.len() > 1
}

/// the next token at or after p: (first byte, one past the last byte)
pub open spec fn tok(buf: Seq<u8>, p: int) -> Option<(int, int)> {
    match token_start(buf, p) { Some(s) => Some((s, token_end(buf, s))), None => None }
}

pub proof fn lemma_ws_end(buf: Seq<u8>, p: int)
    requires 0 <= p <= buf.len()
    ensures p <= ws_end(buf, p) <= buf.len()
    decreases buf.len() - p
{ if p < buf.len() && is_ws(buf[p]) { lemma_ws_end(buf, p + 1); } }
pub proof fn lemma_reg_end(buf: Seq<u8>, p: int)
    requires 0 <= p <= buf.len()
    ensures p <= reg_end(buf, p) <= buf.len()
    decreases buf.len() - p
{ if p < buf.len() && is_reg(buf[p]) { lemma_reg_end(buf, p + 1); } }
pub proof fn lemma_eol_bound(buf: Seq<u8>, p: int)
    requires 0 <= p
    ensures eol_after(buf, p) matches Some(e) ==> p < e <= buf.len()
    decreases buf.len() - p
{ if p < buf.len() && !is_eol(buf[p]) { lemma_eol_bound(buf, p + 1); } }
/// a token starts at or after p, is not white-space, not the start of a comment, and is at least one byte long
pub proof fn lemma_tok(buf: Seq<u8>, p: int)
    requires 0 <= p <= buf.len()
    ensures tok(buf, p) matches Some((s, t)) ==> p <= s < t <= buf.len() && !is_ws(buf[s]) && buf[s] != 37
    decreases buf.len() - p
{
    lemma_ws_end(buf, p);
    let q = ws_end(buf, p);
    if q < buf.len() {
        if buf[q] == 37 {
            lemma_eol_bound(buf, q + 1);
            match eol_after(buf, q + 1) { Some(e) => { if p < e <= buf.len() { lemma_tok(buf, e); } }, None => {} }
        } else {
            lemma_ws_stop(buf, p);
            lemma_reg_end(buf, q + 1);
            if !is_delim(buf[q]) { assert(is_reg(buf[q])); assert(reg_end(buf, q) == reg_end(buf, q + 1)); }
        }
    }
}
pub proof fn lemma_ws_stop(buf: Seq<u8>, p: int)
    requires 0 <= p <= buf.len()
    ensures ws_end(buf, p) < buf.len() ==> !is_ws(buf[ws_end(buf, p)])
    decreases buf.len() - p
{ if p < buf.len() && is_ws(buf[p]) { lemma_ws_stop(buf, p + 1); } }
/// white-space only up to the end of the data: no token
pub proof fn lemma_no_tok_after_ws(buf: Seq<u8>, p: int)
    requires 0 <= p <= buf.len(), forall|i: int| p <= i < buf.len() ==> is_ws(buf[i])
    ensures token_start(buf, p) is None
    decreases buf.len() - p
{
    if p < buf.len() { lemma_no_tok_after_ws(buf, p + 1); assert(ws_end(buf, p) == ws_end(buf, p + 1)); lemma_ws_end(buf, p + 1); lemma_ws_stop(buf, p + 1); }
}

pub broadcast proof fn b_tok(buf: Seq<u8>, p: int)
    requires 0 <= p <= buf.len()
    ensures match #[trigger] tok(buf, p) { Some(t) => p <= t.0 < t.1 <= buf.len() && !is_ws(buf[t.0]) && buf[t.0] != 37, None => true }
{ lemma_tok(buf, p); }
pub broadcast proof fn b_ws_end(buf: Seq<u8>, p: int)
    requires 0 <= p <= buf.len()
    ensures p <= #[trigger] ws_end(buf, p) <= buf.len()
{ lemma_ws_end(buf, p); }
/// a real literal (7.3.3, with the tolerances of unit lexer) starts with a digit, a point or a sign
pub broadcast proof fn b_real_first(s: Seq<u8>)
    ensures #[trigger] is_real_lit(s) ==> s.len() > 0 && (digit(s[0]) || s[0] == 46 || s[0] == 45 || s[0] == 43)
{
    if is_real_lit(s) {
        let k = sign_len(s);
        let t = s.subrange(k, s.len() as int);
        if k == 0 {
            assert(t =~= s);
            if all_digits(t) && t.len() > 0 { assert(digit(t[0])); }
            else {
                let i = choose|i: int| 0 <= i < t.len() && #[trigger] t[i] == 46 && all_digits(t.subrange(0, i)) && all_digits(t.subrange(i + 1, t.len() as int)) && (t.len() > 1 || DEV_LONE_DOT_IS_REAL());
                if i > 0 { assert(digit(t.subrange(0, i)[0])); }
            }
        }
    }
}
pub proof fn lemma_real_iso_is_lit(s: Seq<u8>)
    ensures is_real_iso(s) ==> is_real_lit(s)
{
    let t = s.subrange(sign_len(s), s.len() as int);
    if is_real_iso(s) && !(all_digits(t) && t.len() > 0) {
        let i = choose|i: int| 0 <= i < t.len() && #[trigger] t[i] == 46 && all_digits(t.subrange(0, i)) && all_digits(t.subrange(i + 1, t.len() as int)) && t.len() > 1;
        assert(t[i] == 46);
    }
}
/// `starts_with(b"/")` says the first byte is a SOLIDUS
pub proof fn lemma_starts_slash(w: Seq<u8>)
    ensures (w.len() >= 1 && w.subrange(0, 1) == K_SLASH()) <==> (w.len() > 0 && w[0] == 47), K_SLASH().len() == 1
{
    reveal(K_SLASH);
    if w.len() >= 1 {
        if w.subrange(0, 1) == K_SLASH() { assert(w.subrange(0, 1)[0] == 47); }
        if w[0] == 47 { assert(w.subrange(0, 1) =~= K_SLASH()); }
    }
}
pub proof fn lemma_flag_bits(f: u16)
    ensures (f & 513 != 0) <==> (f & 1 != 0 || f & 512 != 0), (1u16 | 512u16) == 513u16
{
    assert((f & 513 != 0) <==> (f & 1 != 0 || f & 512 != 0)) by (bit_vector);
    assert((1u16 | 512u16) == 513u16) by (bit_vector);
}
pub proof fn lemma_nibbles(h: u8, l: u8)
    ensures h < 16 && l < 16 ==> (l | h << 4) == (h * 16 + l) as u8
{
    assert(h < 16 && l < 16 ==> (l | h << 4) == (h * 16 + l) as u8) by (bit_vector);
}

// =====================================================================================================
// contracts PROVED in unit `lexer`, restated as stubs (obligation ids in the comments)
// =====================================================================================================
impl<'a> Substr<'a> {
    pub open spec fn swf(&self) -> bool { self.file_offset + self.slice@.len() <= usize::MAX }
    pub open spec fn cut_from(&self, buf: Seq<u8>, base: int, lo: int, hi: int) -> bool {
        0 <= lo <= hi <= buf.len() && self.slice@ == buf.subrange(lo, hi) && self.file_offset == base + lo
    }
    /// lexer/Substr::equals is only trusted there (hoist_equals_str: `slice == other.as_ref()`), same here
    #[verifier::external_body]
    pub fn equals(&self, other: &[u8]) -> (r: bool) ensures r == (self.slice@ == other@) { unimplemented!() }
    /// `self.slice.starts_with(..)` through Deref<Target=[u8]> (std, trusted)
    #[verifier::external_body]
    pub fn starts_with(&self, other: &[u8]) -> (r: bool)
        ensures r == (self.slice@.len() >= other@.len() && self.slice@.subrange(0, other@.len() as int) == other@)
    { unimplemented!() }
    /// `<[u8]>::len` through Deref
    #[verifier::external_body]
    pub fn len(&self) -> (r: usize) ensures r == self.slice@.len() { unimplemented!() }
    /// proved in units/lexer: Substr::is_integer/int_grammar
    #[verifier::external_body]
    pub fn is_integer(&self) -> (r: bool) ensures r == is_int_lit(self.slice@) { unimplemented!() }
    /// proved in units/lexer: Substr::real_number/real_accepts_conformant, real_rejects_others (tolerances DEV_LONE_DOT_IS_REAL,
    /// DEV_REAL_PREFIX_ACCEPTED as there)
    #[verifier::external_body]
    pub fn real_number(&self) -> (r: Option<Substr<'a>>)
        ensures is_real_lit(self.slice@) ==> (r matches Some(p) && p.slice@ == self.slice@ && p.file_offset == self.file_offset),
                !is_real_lit(self.slice@) ==> (r is None || (DEV_REAL_PREFIX_ACCEPTED() && (r matches Some(p) && p.file_offset == self.file_offset && p.slice@.len() < self.slice@.len() && p.slice@ == self.slice@.subrange(0, p.slice@.len() as int) && is_real_lit(p.slice@))))
    { unimplemented!() }
    /// proved in units/lexer: Substr::reslice/reslice_tail, reslice_offset
    #[verifier::external_body]
    pub fn reslice(&self, range: core::ops::RangeFrom<usize>) -> (r: Substr<'a>)
        requires self.swf(), range.start <= self.slice@.len()
        ensures r.slice@ == self.slice@.subrange(range.start as int, self.slice@.len() as int), r.file_offset == self.file_offset + range.start && r.swf()
    { unimplemented!() }
    /// proved in units/lexer: Substr::file_range/file_range_is_offset_plus_len
    #[verifier::external_body]
    pub fn file_range(&self) -> (r: Range<usize>)
        requires self.swf()
        ensures r.start == self.file_offset && r.end == self.file_offset + self.slice@.len()
    { unimplemented!() }
    /// `&Substr -> &[u8]` deref coercion (`let mut rest: &[u8] = &first_lexeme.reslice(1..);`): proved in units/lexer: Substr::as_slice
    #[verifier::external_body]
    pub fn as_slice(&self) -> (r: &'a [u8]) ensures r@ == self.slice@ { unimplemented!() }
    /// trusted (not reached in unit lexer): `Ok(Name(std::str::from_utf8(self.as_slice())?.into()))`
    #[verifier::external_body]
    pub fn to_name(&self) -> (r: Result<Name>)
        ensures utf8_ok(self.slice@) ==> (r matches Ok(n) && n@ == self.slice@), !utf8_ok(self.slice@) ==> r is Err
    { unimplemented!() }
    /// trusted L0 (Kani leaves in unit objstm: substr_to_usize_dec, substr_to_objnr_dec; here kani: substr_to_i32_dec):
    /// `std::str::from_utf8(slice)?.parse::<T>()` = the decimal value contract of FromStr for the integer types,
    /// and for f32 an uninterpreted value
    #[verifier::external_body]
    pub fn to<T: FromDec>(&self) -> (r: Result<T>)
        ensures match r { Ok(v) => T::dec(self.slice@) == Some(v), Err(_) => T::dec(self.slice@) is None }
    { unimplemented!() }
}
/// value of a non-empty string of ASCII digits
pub open spec fn dec_digits(s: Seq<u8>) -> Option<nat>
    decreases s.len()
{
    if s.len() == 0 { None }
    else if !(0x30 <= s.last() <= 0x39) { None }
    else if s.len() == 1 { Some((s.last() - 0x30) as nat) }
    else { match dec_digits(s.drop_last()) { None => None, Some(v) => Some(v * 10 + (s.last() - 0x30) as nat) } }
}
/// `str::parse::<uN>()`: optional '+', at least one digit
pub open spec fn dec_unsigned(s: Seq<u8>) -> Option<int> {
    let body = if s.len() > 0 && s[0] == 0x2b { s.subrange(1, s.len() as int) } else { s };
    match dec_digits(body) { Some(v) => Some(v as int), None => None }
}
/// `str::parse::<iN>()`: optional '+' or '-', at least one digit
pub open spec fn dec_signed(s: Seq<u8>) -> Option<int> {
    if s.len() > 0 && s[0] == 0x2d { match dec_digits(s.subrange(1, s.len() as int)) { Some(v) => Some(-(v as int)), None => None } }
    else { dec_unsigned(s) }
}
/// 7.3.3 + Annex C (Table C.1: the range of integers is an architectural limit of the reader, not part of the syntax): a token made of an
/// optional sign and decimal digits denotes the number it spells -- an Integer if that number fits the implementation's integer type
/// (i32), else the SAME number as a real (the literal; its value is f32_of(literal), as for every real).  It is never "not a number".
pub open spec fn int_tok_val(w: Seq<u8>) -> Option<Val> {
    match dec_signed(w) {
        Some(v) => if i32::MIN <= v <= i32::MAX { Some(Val::Int(v)) } else { Some(Val::Real(w)) },
        None => None,
    }
}
/// an integer literal (7.3.3) is also a real literal in the ISO-exact reading (`[+-]?d+`)
pub proof fn lemma_int_is_real_iso(s: Seq<u8>)
    ensures is_int_lit(s) ==> is_real_iso(s)
{
    if is_int_lit(s) { let t = s.subrange(sign_len(s), s.len() as int); assert(all_digits(t) && t.len() > 0); }
}
/// the f32 that `str::parse::<f32>()` yields (uninterpreted; None = parse error)
pub uninterp spec fn f32_of(s: Seq<u8>) -> Option<f32>;
/// trusted (std): the grammar of `f32::from_str` contains the ISO 7.3.3 reals `[+-]?(d+ | d+.d* | .d+)`
#[verifier::external_body]
pub proof fn axiom_f32_accepts_iso_reals(s: Seq<u8>)
    ensures is_real_iso(s) ==> f32_of(s) is Some
{}
pub trait FromDec: Sized {
    spec fn dec(s: Seq<u8>) -> Option<Self>;
}
impl FromDec for u64 {
    open spec fn dec(s: Seq<u8>) -> Option<u64> {
        match dec_unsigned(s) { Some(v) => if v <= u64::MAX { Some(v as u64) } else { None }, None => None }
    }
}
impl FromDec for i32 {
    open spec fn dec(s: Seq<u8>) -> Option<i32> {
        match dec_signed(s) { Some(v) => if i32::MIN <= v <= i32::MAX { Some(v as i32) } else { None }, None => None }
    }
}
impl FromDec for f32 {
    open spec fn dec(s: Seq<u8>) -> Option<f32> { f32_of(s) }
}

impl<'a> Lexer<'a> {
    pub open spec fn wf(&self) -> bool {
        self.pos <= self.buf@.len() && self.buf@.len() <= isize::MAX && self.file_offset + self.buf@.len() <= usize::MAX
    }
    pub open spec fn same(&self, o: &Lexer<'a>) -> bool { self.buf@ == o.buf@ && self.file_offset == o.file_offset }
    // (the stubs below state token_start / token_end of unit lexer through the pair `tok`)

    /// proved in units/lexer: Lexer::new/new_wf
    #[verifier::external_body]
    pub fn new(buf: &'a [u8]) -> (r: Lexer<'a>)
        requires buf@.len() <= isize::MAX
        ensures r.wf() && r.pos == 0 && r.file_offset == 0 && r.buf@ == buf@
    { unimplemented!() }
    /// proved in units/lexer: Lexer::get_pos/get_pos_is_pos
    #[verifier::external_body]
    pub fn get_pos(&self) -> (r: usize) ensures r == self.pos { unimplemented!() }
    /// proved in units/lexer: Lexer::next/next_wf, next_eof_keeps_pos, next_is_iso_token
    #[verifier::external_body]
    pub fn next(&mut self) -> (r: Result<Substr<'a>>)
        requires old(self).wf()
        ensures final(self).wf() && final(self).same(old(self)),
            match tok(old(self).buf@, old(self).pos as int) {
                None => final(self).pos == old(self).pos && r matches Err(PdfError::EOF),
                Some(t) => r matches Ok(sub) && final(self).pos == t.1 && sub.cut_from(old(self).buf@, old(self).file_offset as int, t.0, t.1) && sub.swf() },
    { unimplemented!() }
    /// proved in units/lexer: Lexer::peek/peek_eof_is_empty, peek_is_iso_token
    #[verifier::external_body]
    pub fn peek(&self) -> (r: Result<Substr<'a>>)
        requires self.wf()
        ensures
            match tok(self.buf@, self.pos as int) {
                None => r matches Ok(sub) && sub.cut_from(self.buf@, self.file_offset as int, self.pos as int, self.pos as int),
                Some(t) => r matches Ok(sub) && sub.cut_from(self.buf@, self.file_offset as int, t.0, t.1) && sub.swf() },
    { unimplemented!() }
    /// proved in units/lexer: Lexer::next_expect/expect_wf, expect_eof, expect_compares_iso_token (str_bytes there = ascii(expected@) here)
    #[verifier::external_body]
    pub fn next_expect(&mut self, expected: &'static str) -> (r: Result<()>)
        requires old(self).wf()
        ensures final(self).wf() && final(self).same(old(self)),
            match tok(old(self).buf@, old(self).pos as int) {
                None => final(self).pos == old(self).pos && r matches Err(PdfError::EOF),
                Some(t) => final(self).pos == t.1 && (r is Ok <==> old(self).buf@.subrange(t.0, t.1) == ascii(expected@)) },
    { unimplemented!() }
    /// proved in units/lexer: Lexer::next_stream/stream_wf, stream_no_keyword, stream_lf_or_crlf_only
    #[verifier::external_body]
    pub fn next_stream(&mut self) -> (r: Result<()>)
        requires old(self).wf()
        ensures final(self).wf() && final(self).same(old(self)),
            stream_kw_pos(old(self).buf@, old(self).pos as int) is None ==> r is Err && final(self).pos == old(self).pos,
            stream_kw_pos(old(self).buf@, old(self).pos as int) matches Some(k) ==> match stream_data_start(old(self).buf@, k) { Some(d) => r is Ok && final(self).pos == d, None => r is Err && final(self).pos == old(self).pos },
    { unimplemented!() }
    /// proved in units/lexer: Lexer::set_pos/set_pos_wf, set_pos_clamped
    #[verifier::external_body]
    pub fn set_pos(&mut self, wanted_pos: usize) -> (r: Substr<'a>)
        requires old(self).wf()
        ensures final(self).wf() && final(self).same(old(self)),
            final(self).pos == if wanted_pos <= old(self).buf@.len() { wanted_pos as int } else { old(self).buf@.len() as int },
    { unimplemented!() }
    /// proved in units/lexer: Lexer::offset_pos/offset_wf, offset_forward_clamped
    #[verifier::external_body]
    pub fn offset_pos(&mut self, offset: usize) -> (r: Substr<'a>)
        requires old(self).wf()
        ensures final(self).wf() && final(self).same(old(self)),
            old(self).pos + offset <= usize::MAX ==> final(self).pos == if old(self).pos + offset <= old(self).buf@.len() { old(self).pos + offset } else { old(self).buf@.len() as int },
    { unimplemented!() }
    /// proved in units/lexer: Lexer::get_remaining_slice/remaining_is_tail
    #[verifier::external_body]
    pub fn get_remaining_slice(&self) -> (r: &'a [u8])
        requires self.wf()
        ensures r@ == self.buf@.subrange(self.pos as int, self.buf@.len() as int)
    { unimplemented!() }

    // re-proved here (same text, same contract as in unit lexer, plus `read_n_back_at_most_one`)
//@@ Lexer::new_substr
//@@ Lexer::read_n
}

// =====================================================================================================
// ISO 32000-1 7.3.4.2 / 7.3.4.3: string step functions (same functions as unit `strlex`, deviations repaired)
// =====================================================================================================
pub struct Step { pub eof: bool, pub trunc: bool, pub out: Option<u8>, pub pos: int, pub nested: int }
pub open spec fn st_eof(pos: int, nested: int) -> Step { Step { eof: true, trunc: false, out: None, pos, nested } }
pub open spec fn st_emit(b: u8, pos: int, nested: int) -> Step { Step { eof: false, trunc: false, out: Some(b), pos, nested } }
pub open spec fn is_oct(c: u8) -> bool { 0x30 <= c <= 0x37 }
pub open spec fn oct_len(buf: Seq<u8>, p: int) -> int {
    if p < buf.len() && is_oct(buf[p]) {
        if p + 1 < buf.len() && is_oct(buf[p + 1]) {
            if p + 2 < buf.len() && is_oct(buf[p + 2]) { 3 } else { 2 }
        } else { 1 }
    } else { 0 }
}
pub open spec fn oct_val(buf: Seq<u8>, p: int, n: int) -> int decreases n {
    if n <= 0 { 0 } else { oct_val(buf, p, n - 1) * 8 + (buf[p + n - 1] - 0x30) }
}
pub open spec fn lit_step(buf: Seq<u8>, pos: int, nested: int) -> Step
    decreases buf.len() - pos
{
    if pos < 0 || pos >= buf.len() { st_eof(pos, nested) } else {
    let c = buf[pos];
    if c == 0x5C {
        if pos + 1 >= buf.len() { st_eof(pos + 1, nested) } else {
        let d = buf[pos + 1];
        if d == 0x6E { st_emit(0x0A, pos + 2, nested) }
        else if d == 0x72 { st_emit(0x0D, pos + 2, nested) }
        else if d == 0x74 { st_emit(0x09, pos + 2, nested) }
        else if d == 0x62 { st_emit(0x08, pos + 2, nested) }
        else if d == 0x66 { st_emit(0x0C, pos + 2, nested) }
        else if d == 0x28 { st_emit(0x28, pos + 2, nested) }
        else if d == 0x29 { st_emit(0x29, pos + 2, nested) }
        else if d == 0x5C { st_emit(0x5C, pos + 2, nested) }
        else if d == 0x0A { lit_step(buf, pos + 2, nested) }
        else if d == 0x0D { lit_step(buf, if pos + 2 < buf.len() && buf[pos + 2] == 0x0A { pos + 3 } else { pos + 2 }, nested) }
        else if is_oct(d) {
            let n = oct_len(buf, pos + 1);
            Step { eof: false, trunc: n < 3 && pos + 1 + n >= buf.len(),
                   out: Some((oct_val(buf, pos + 1, n) % 256) as u8), pos: pos + 1 + n, nested } }
        else { st_emit(d, pos + 2, nested) }
        } }
    else if c == 0x28 { st_emit(0x28, pos + 1, nested + 1) }
    else if c == 0x29 {
        if nested - 1 < 0 { Step { eof: false, trunc: false, out: None, pos: pos + 1, nested: nested - 1 } }
        else { st_emit(0x29, pos + 1, nested - 1) } }
    else if c == 0x0D { st_emit(0x0A, if pos + 1 < buf.len() && buf[pos + 1] == 0x0A { pos + 2 } else { pos + 1 }, nested) }
    else { st_emit(c, pos + 1, nested) } }
}
pub open spec fn depth_fits(n: int) -> bool { n <= i32::MAX }
pub open spec fn lex_post(st: Step, r: Result<Option<u8>>, fpos: int, fnested: int) -> bool {
    if st.eof || !depth_fits(st.nested) { r is Err }
    else if st.trunc { r is Err || (r == Ok::<Option<u8>, PdfError>(st.out) && fpos == st.pos && fnested == st.nested) }
    else { r == Ok::<Option<u8>, PdfError>(st.out) && fpos == st.pos && fnested == st.nested }
}
pub open spec fn as_lexeme(r: Option<Result<u8>>) -> Result<Option<u8>> {
    match r { None => Ok(None), Some(Ok(b)) => Ok(Some(b)), Some(Err(e)) => Err(e) }
}
/// every step that is not `eof` consumes at least one byte and stays inside the buffer
pub proof fn lemma_lit_progress(buf: Seq<u8>, pos: int, nested: int)
    requires 0 <= pos
    ensures !lit_step(buf, pos, nested).eof ==> pos < lit_step(buf, pos, nested).pos <= buf.len()
    decreases buf.len() - pos
{
    if pos < buf.len() && buf[pos] == 0x5C && pos + 1 < buf.len() {
        let d = buf[pos + 1];
        if d == 0x0A { lemma_lit_progress(buf, pos + 2, nested); }
        else if d == 0x0D { lemma_lit_progress(buf, if pos + 2 < buf.len() && buf[pos + 2] == 0x0A { pos + 3 } else { pos + 2 }, nested); }
    }
}
impl<'a> StringLexer<'a> {
    pub open spec fn wf(&self) -> bool { self.pos <= self.buf@.len() }
    /// proved in units/strlex: StringLexer::new/new_state
    #[verifier::external_body]
    pub fn new(buf: &'a [u8]) -> (r: StringLexer<'a>) ensures r.pos == 0 && r.nested == 0 && r.buf == buf && r.wf() { unimplemented!() }
    /// proved in units/strlex: StringLexer::get_offset/is_pos
    #[verifier::external_body]
    pub fn get_offset(&self) -> (r: usize) ensures r == self.pos { unimplemented!() }
    /// `self.iter().next()`; proved in units/strlex: StringLexer::iter/iter_borrows_self + StringLexerIter::next/iter_frame,
    /// iter_depth, iter_is_lit_step
    #[verifier::external_body]
    pub fn iter_next(&mut self) -> (r: Option<Result<u8>>)
        requires old(self).wf(), 0 <= old(self).nested
        ensures final(self).buf == old(self).buf && final(self).wf(),
            r matches Some(Ok(_)) ==> final(self).nested >= 0,
            lex_post(lit_step(old(self).buf@, old(self).pos as int, old(self).nested as int), as_lexeme(r), final(self).pos as int, final(self).nested as int),
    { unimplemented!() }
}
pub open spec fn hex_ws(b: u8) -> bool { b == 0x20 || b == 0x09 || b == 0x0A || b == 0x0D || b == 0x0C || b == 0x00 }
pub open spec fn hexval(c: u8) -> Option<u8> {
    if 0x30 <= c <= 0x39 { Some((c - 0x30) as u8) } else if 0x41 <= c <= 0x46 { Some((c - 0x41 + 10) as u8) }
    else if 0x61 <= c <= 0x66 { Some((c - 0x61 + 10) as u8) } else { None }
}
pub open spec fn skip(buf: Seq<u8>, p: int) -> int decreases buf.len() - p {
    if 0 <= p < buf.len() && hex_ws(buf[p]) { skip(buf, p + 1) } else { p }
}
pub struct HStep { pub eof: bool, pub bad: bool, pub out: Option<u8>, pub pos: int }
pub open spec fn hex_step(buf: Seq<u8>, pos: int) -> HStep {
    let p1 = skip(buf, pos);
    if p1 >= buf.len() { HStep { eof: true, bad: false, out: None, pos: p1 } } else {
    let c1 = buf[p1];
    if c1 == 0x3E { HStep { eof: false, bad: false, out: None, pos: p1 + 1 } }
    else { match hexval(c1) {
        None => HStep { eof: false, bad: true, out: None, pos: p1 + 1 },
        Some(h) => {
            let p2 = skip(buf, p1 + 1);
            if p2 >= buf.len() { HStep { eof: true, bad: false, out: None, pos: p2 } } else {
            let c2 = buf[p2];
            if c2 == 0x3E { HStep { eof: false, bad: false, out: Some((h * 16) as u8), pos: p2 } }
            else { match hexval(c2) {
                None => HStep { eof: false, bad: true, out: None, pos: p2 + 1 },
                Some(l) => HStep { eof: false, bad: false, out: Some((h * 16 + l) as u8), pos: p2 + 1 } } } } } } } }
}
pub proof fn lemma_skip_bounds(buf: Seq<u8>, p: int)
    requires 0 <= p <= buf.len()
    ensures p <= skip(buf, p) <= buf.len()
    decreases buf.len() - p
{ if p < buf.len() && hex_ws(buf[p]) { lemma_skip_bounds(buf, p + 1); } }
pub proof fn lemma_hex_progress(buf: Seq<u8>, pos: int)
    requires 0 <= pos <= buf.len()
    ensures !hex_step(buf, pos).eof ==> pos < hex_step(buf, pos).pos <= buf.len()
{
    lemma_skip_bounds(buf, pos);
    let p1 = skip(buf, pos);
    if p1 < buf.len() { lemma_skip_bounds(buf, p1 + 1); }
}
impl<'a> HexStringLexer<'a> {
    pub open spec fn wf(&self) -> bool { self.pos <= self.buf@.len() }
    /// proved in units/strlex: HexStringLexer::new/new_state
    #[verifier::external_body]
    pub fn new(buf: &'a [u8]) -> (r: HexStringLexer<'a>) ensures r.pos == 0 && r.buf == buf && r.wf() { unimplemented!() }
    /// proved in units/strlex: HexStringLexer::get_offset/is_pos
    #[verifier::external_body]
    pub fn get_offset(&self) -> (r: usize) ensures r == self.pos { unimplemented!() }
    /// `self.iter().next()`; proved in units/strlex: HexStringLexer::iter/iter_borrows_self + HexStringLexerIter::next/iter_frame, iter_is_hex_step
    #[verifier::external_body]
    pub fn iter_next(&mut self) -> (r: Option<Result<u8>>)
        requires old(self).wf()
        ensures final(self).buf == old(self).buf && final(self).wf(),
            ({ let st = hex_step(old(self).buf@, old(self).pos as int); if st.eof || st.bad { r matches Some(Err(_)) }
               else { r == (match st.out { Some(b) => Some(Ok::<u8, PdfError>(b)), None => None }) && final(self).pos == st.pos } }),
    { unimplemented!() }
}
/// proved in units/enc_leaf (Kani, complete over u8): decode_nibble_hexval
#[verifier::external_body]
pub fn decode_nibble(c: u8) -> (r: Option<u8>)
    ensures hexval(c) matches Some(v) ==> r == Some(v)
{ unimplemented!() }

// ---- R7 helpers over std slices (bodies are the hoisted source expressions) ----
#[verifier::external_body]
fn hoist_contains_hash(rest: &[u8]) -> (r: bool)
    ensures r == exists|i: int| 0 <= i < rest@.len() && rest@[i] == 35u8
{ rest.contains(&b'#') }
#[verifier::external_body]
fn hoist_position_hash(rest: &[u8]) -> (r: Option<usize>)
    ensures r matches Some(k) ==> k < rest@.len() && rest@[k as int] == 35u8 && forall|i: int| 0 <= i < k ==> rest@[i] != 35u8,
        r is None ==> forall|i: int| 0 <= i < rest@.len() ==> rest@[i] != 35u8,
{ rest.iter().position(|&b| b == b'#') }
/// `rest.get(idx+1 .. idx+3)` followed by `.try_into().unwrap()` into `[u8; 2]` (a 2-byte slice always converts)
#[verifier::external_body]
fn hoist_get2(rest: &[u8], a: usize, b: usize) -> (r: Option<[u8; 2]>)
    requires b == a + 2
    ensures b <= rest@.len() ==> (r matches Some(x) && x[0] == rest@[a as int] && x[1] == rest@[a + 1]), b > rest@.len() ==> r is None
{ use std::convert::TryInto; rest.get(a .. b).map(|s| s.try_into().unwrap()) }

// =====================================================================================================
// ISO 32000-1 7.3: objects.  `Val` is the denoted value; `rep(p, v)`: the Primitive p represents v.
// =====================================================================================================
pub enum Val {
    Null,
    Bool(bool),
    Int(int),
    Real(Seq<u8>),                                   // the literal; its value is f32_of(literal)
    Str(Seq<u8>),
    Name(Seq<u8>),
    Arr(Seq<Val>),
    Dict(Map<Seq<u8>, Val>),
    Ref(int, int),                                   // object number, generation number
    Stream(Map<Seq<u8>, Val>, PlainRef, int, int),   // dictionary, id of the indirect object, file range of the data
}
pub open spec fn rep(p: Primitive, v: Val) -> bool decreases v {
    match v {
        Val::Null => p is Null,
        Val::Bool(b) => p matches Primitive::Boolean(x) && x == b,
        Val::Int(n) => p matches Primitive::Integer(x) && x == n,
        Val::Real(w) => p matches Primitive::Number(x) && f32_of(w) == Some(x),
        Val::Str(s) => p matches Primitive::String(x) && x.data@ == s,
        Val::Name(s) => p matches Primitive::Name(x) && x@ == s,
        Val::Arr(s) => p matches Primitive::Array(a) && a@.len() == s.len() && forall|i: int| 0 <= i < s.len() ==> rep(a@[i], #[trigger] s[i]),
        Val::Dict(m) => p matches Primitive::Dictionary(d) && d@.dom() == m.dom() && forall|k: Seq<u8>| m.dom().contains(k) ==> rep(d@[k], #[trigger] m[k]),
        Val::Ref(id, gen) => p matches Primitive::Reference(x) && x.id == id && x.gen == gen,
        Val::Stream(m, id, lo, hi) => p matches Primitive::Stream(s) && s.info@.dom() == m.dom() && (forall|k: Seq<u8>| m.dom().contains(k) ==> rep(s.info@[k], #[trigger] m[k]))
            && (s.inner matches StreamInner::InFile { id: i, file_range: fr } && i == id && fr.start == lo && fr.end == hi),
    }
}
pub open spec fn rep_map(dm: Map<Seq<u8>, Primitive>, m: Map<Seq<u8>, Val>) -> bool {
    dm.dom() == m.dom() && forall|k: Seq<u8>| m.dom().contains(k) ==> rep(dm[k], #[trigger] m[k])
}
pub open spec fn rep_dict(d: Dictionary, m: Map<Seq<u8>, Val>) -> bool { rep_map(d@, m) }
pub proof fn lemma_rep_map_insert(dm: Map<Seq<u8>, Primitive>, m: Map<Seq<u8>, Val>, k: Seq<u8>, p: Primitive, v: Val)
    ensures rep_map(dm, m) && rep(p, v) ==> rep_map(dm.insert(k, p), m.insert(k, v))
{
    if rep_map(dm, m) && rep(p, v) {
        assert(dm.insert(k, p).dom() =~= m.insert(k, v).dom());
        assert forall|j: Seq<u8>| m.insert(k, v).dom().contains(j) implies rep(dm.insert(k, p)[j], #[trigger] m.insert(k, v)[j]) by {
            if j != k { assert(m.dom().contains(j)); assert(rep(dm[j], m[j])); }
        }
    }
}
pub open spec fn arr_prepend(a: Seq<Val>, r: Option<(Seq<Val>, int)>) -> Option<(Seq<Val>, int)> {
    match r { Some(x) => Some((a + x.0, x.1)), None => None }
}
pub proof fn lemma_arr_step(a: Seq<Val>, v: Val, r: Option<(Seq<Val>, int)>)
    ensures arr_prepend(a, arr_prepend(seq![v], r)) == arr_prepend(a.push(v), r)
{
    match r { Some(x) => { assert(a + (seq![v] + x.0) =~= a.push(v) + x.0); }, None => {} }
}
pub proof fn lemma_arr_ends(a: Seq<Val>, e: int, r: Option<(Seq<Val>, int)>)
    ensures arr_prepend(a, Some((Seq::<Val>::empty(), e))) == Some((a, e)), arr_prepend(Seq::<Val>::empty(), r) == r
{
    assert(a + Seq::<Val>::empty() =~= a);
    match r { Some(x) => { assert(Seq::<Val>::empty() + x.0 =~= x.0); }, None => {} }
}
pub proof fn lemma_rep_seq_push(a: Seq<Primitive>, s: Seq<Val>, p: Primitive, v: Val)
    ensures rep_seq(a, s) && rep(p, v) ==> rep_seq(a.push(p), s.push(v))
{
    if rep_seq(a, s) && rep(p, v) {
        assert forall|i: int| 0 <= i < s.push(v).len() implies rep(a.push(p)[i], #[trigger] s.push(v)[i]) by {
            if i < s.len() { assert(rep(a[i], s[i])); }
        }
    }
}
pub proof fn lemma_str_step(a: Seq<u8>, c: u8, r: Option<(Seq<u8>, int)>)
    ensures str_prepend(a, str_prepend(seq![c], r)) == str_prepend(a.push(c), r)
{
    match r { Some(x) => { assert(a + (seq![c] + x.0) =~= a.push(c) + x.0); }, None => {} }
}
pub proof fn lemma_str_ends(a: Seq<u8>, e: int, r: Option<(Seq<u8>, int)>)
    ensures str_prepend(a, Some((Seq::<u8>::empty(), e))) == Some((a, e)), str_prepend(Seq::<u8>::empty(), r) == r
{
    assert(a + Seq::<u8>::empty() =~= a);
    match r { Some(x) => { assert(Seq::<u8>::empty() + x.0 =~= x.0); }, None => {} }
}
pub open spec fn rep_seq(a: Seq<Primitive>, s: Seq<Val>) -> bool {
    a.len() == s.len() && forall|i: int| 0 <= i < s.len() ==> rep(a[i], #[trigger] s[i])
}

/// the (ghost) view of the context of an indirect object: decoder and id
pub struct CtxV { pub dec: Option<Decoder>, pub id: PlainRef }
pub open spec fn ctxv(c: Option<&Context>) -> Option<CtxV> {
    match c { Some(x) => Some(CtxV { dec: match x.decoder { Some(d) => Some(*d), None => None }, id: x.id }), None => None }
}
/// C06 placement: a string is decrypted once, with the key of the enclosing indirect object, only when there is a decoder
pub open spec fn ctx_decrypt(c: Option<CtxV>, s: Seq<u8>) -> Option<Seq<u8>> {
    match c { None => Some(s), Some(x) => match x.dec { None => Some(s), Some(d) => decrypt_spec(d, x.id, s) } }
}
/// what the parser works on: the data, the file offset of its first byte, the context
pub struct Env { pub buf: Seq<u8>, pub base: int, pub ctx: Option<CtxV> }

// keywords and delimiters
#[verifier::opaque] pub open spec fn K_LTLT() -> Seq<u8> { seq![60u8, 60u8] }
#[verifier::opaque] pub open spec fn K_GTGT() -> Seq<u8> { seq![62u8, 62u8] }
#[verifier::opaque] pub open spec fn K_LBRACK() -> Seq<u8> { seq![91u8] }
#[verifier::opaque] pub open spec fn K_RBRACK() -> Seq<u8> { seq![93u8] }
#[verifier::opaque] pub open spec fn K_LPAREN() -> Seq<u8> { seq![40u8] }
#[verifier::opaque] pub open spec fn K_LT() -> Seq<u8> { seq![60u8] }
#[verifier::opaque] pub open spec fn K_SLASH() -> Seq<u8> { seq![47u8] }
#[verifier::opaque] pub open spec fn K_R() -> Seq<u8> { seq![82u8] }
#[verifier::opaque] pub open spec fn K_TRUE() -> Seq<u8> { seq![116u8, 114u8, 117u8, 101u8] }
#[verifier::opaque] pub open spec fn K_FALSE() -> Seq<u8> { seq![102u8, 97u8, 108u8, 115u8, 101u8] }
#[verifier::opaque] pub open spec fn K_NULL() -> Seq<u8> { seq![110u8, 117u8, 108u8, 108u8] }
#[verifier::opaque] pub open spec fn K_STREAM() -> Seq<u8> { seq![115u8, 116u8, 114u8, 101u8, 97u8, 109u8] }
#[verifier::opaque] pub open spec fn K_ENDSTREAM() -> Seq<u8> { seq![101u8, 110u8, 100u8, 115u8, 116u8, 114u8, 101u8, 97u8, 109u8] }
#[verifier::opaque] pub open spec fn K_OBJ() -> Seq<u8> { seq![111u8, 98u8, 106u8] }
#[verifier::opaque] pub open spec fn K_ENDOBJ() -> Seq<u8> { seq![101u8, 110u8, 100u8, 111u8, 98u8, 106u8] }
#[verifier::opaque] pub open spec fn K_LENGTH() -> Seq<u8> { seq![76u8, 101u8, 110u8, 103u8, 116u8, 104u8] }
pub proof fn lemma_lits()
    ensures ascii("<<"@) == K_LTLT(), ascii(">>"@) == K_GTGT(), ascii("["@) == K_LBRACK(), ascii("]"@) == K_RBRACK(),
        ascii("("@) == K_LPAREN(), ascii("<"@) == K_LT(), ascii("/"@) == K_SLASH(), ascii("R"@) == K_R(),
        ascii("true"@) == K_TRUE(), ascii("false"@) == K_FALSE(), ascii("null"@) == K_NULL(), ascii("stream"@) == K_STREAM(),
        ascii("endstream"@) == K_ENDSTREAM(), ascii("obj"@) == K_OBJ(), ascii("endobj"@) == K_ENDOBJ(), ascii("Length"@) == K_LENGTH(),
{
    reveal(K_LTLT); reveal(K_GTGT); reveal(K_LBRACK); reveal(K_RBRACK); reveal(K_LPAREN); reveal(K_LT); reveal(K_SLASH); reveal(K_R);
    reveal(K_TRUE); reveal(K_FALSE); reveal(K_NULL); reveal(K_STREAM); reveal(K_ENDSTREAM); reveal(K_OBJ); reveal(K_ENDOBJ); reveal(K_LENGTH);
    reveal_strlit("<<"); reveal_strlit(">>"); reveal_strlit("["); reveal_strlit("]"); reveal_strlit("("); reveal_strlit("<");
    reveal_strlit("/"); reveal_strlit("R"); reveal_strlit("true"); reveal_strlit("false"); reveal_strlit("null");
    reveal_strlit("stream"); reveal_strlit("endstream"); reveal_strlit("obj"); reveal_strlit("endobj"); reveal_strlit("Length");
    assert(ascii("<<"@) =~= K_LTLT()); assert(ascii(">>"@) =~= K_GTGT()); assert(ascii("["@) =~= K_LBRACK()); assert(ascii("]"@) =~= K_RBRACK());
    assert(ascii("("@) =~= K_LPAREN()); assert(ascii("<"@) =~= K_LT()); assert(ascii("/"@) =~= K_SLASH()); assert(ascii("R"@) =~= K_R());
    assert(ascii("true"@) =~= K_TRUE()); assert(ascii("false"@) =~= K_FALSE()); assert(ascii("null"@) =~= K_NULL());
    assert(ascii("stream"@) =~= K_STREAM()); assert(ascii("endstream"@) =~= K_ENDSTREAM()); assert(ascii("obj"@) =~= K_OBJ());
    assert(ascii("endobj"@) =~= K_ENDOBJ()); assert(ascii("Length"@) =~= K_LENGTH());
}

/// first bytes of the delimiters and keywords that open an object (none of them can start a number)
pub proof fn lemma_kw_first()
    ensures K_LBRACK().len() == 1 && K_LBRACK()[0] == 91, K_LPAREN().len() == 1 && K_LPAREN()[0] == 40, K_LT().len() == 1 && K_LT()[0] == 60,
        K_TRUE().len() == 4 && K_TRUE()[0] == 116, K_FALSE().len() == 5 && K_FALSE()[0] == 102, K_NULL().len() == 4 && K_NULL()[0] == 110,
        K_SLASH().len() == 1 && K_SLASH()[0] == 47, K_LTLT().len() == 2, K_GTGT().len() == 2, K_RBRACK().len() == 1, K_R().len() == 1,
        K_STREAM().len() == 6, K_ENDSTREAM().len() == 9, K_OBJ().len() == 3, K_ENDOBJ().len() == 6,
{
    reveal(K_LBRACK); reveal(K_LPAREN); reveal(K_LT); reveal(K_TRUE); reveal(K_FALSE); reveal(K_NULL); reveal(K_SLASH);
    reveal(K_LTLT); reveal(K_GTGT); reveal(K_RBRACK); reveal(K_R); reveal(K_STREAM); reveal(K_ENDSTREAM); reveal(K_OBJ); reveal(K_ENDOBJ);
}
// 7.3.5 names: "#" followed by two hexadecimal digits stands for the byte with that code
#[verifier::opaque]
pub open spec fn name_dec(s: Seq<u8>) -> Option<Seq<u8>> decreases s.len() {
    if s.len() == 0 { Some(Seq::<u8>::empty()) }
    else if s[0] == 35 {
        if s.len() >= 3 && hexval(s[1]) is Some && hexval(s[2]) is Some {
            match name_dec(s.subrange(3, s.len() as int)) {
                Some(t) => Some(seq![(hexval(s[1])->0 * 16 + hexval(s[2])->0) as u8] + t), None => None }
        } else { None }
    } else {
        match name_dec(s.subrange(1, s.len() as int)) { Some(t) => Some(seq![s[0]] + t), None => None }
    }
}
pub open spec fn opt_prepend(a: Seq<u8>, r: Option<Seq<u8>>) -> Option<Seq<u8>> {
    match r { Some(t) => Some(a + t), None => None }
}
/// a prefix without "#" is copied
pub proof fn lemma_name_dec_prefix(s: Seq<u8>, k: int)
    requires 0 <= k <= s.len(), forall|i: int| 0 <= i < k ==> s[i] != 35
    ensures name_dec(s) == opt_prepend(s.subrange(0, k), name_dec(s.subrange(k, s.len() as int)))
    decreases k
{
    reveal_with_fuel(name_dec, 2);
    if k == 0 {
        assert(s.subrange(0, s.len() as int) =~= s);
        match name_dec(s) { Some(t) => { assert(s.subrange(0, 0) + t =~= t); }, None => {} }
    } else {
        let s1 = s.subrange(1, s.len() as int);
        assert forall|i: int| 0 <= i < k - 1 implies s1[i] != 35 by { assert(s1[i] == s[i + 1]); }
        lemma_name_dec_prefix(s1, k - 1);
        assert(s1.subrange(k - 1, s1.len() as int) =~= s.subrange(k, s.len() as int));
        match name_dec(s.subrange(k, s.len() as int)) {
            Some(t) => { assert(seq![s[0]] + (s1.subrange(0, k - 1) + t) =~= s.subrange(0, k) + t); }, None => {} }
    }
}
/// the first "#" at k, followed by two hexadecimal digits
pub proof fn lemma_name_dec_escape(s: Seq<u8>, k: int)
    ensures (0 <= k && k + 3 <= s.len() && (forall|i: int| 0 <= i < k ==> s[i] != 35) && s[k] == 35 && hexval(s[k + 1]) is Some && hexval(s[k + 2]) is Some)
        ==> name_dec(s) == opt_prepend(s.subrange(0, k).push((hexval(s[k + 1]).unwrap() * 16 + hexval(s[k + 2]).unwrap()) as u8), name_dec(s.subrange(k + 3, s.len() as int))),
        // "#" not followed by two hexadecimal digits: not a name
        (0 <= k < s.len() && (forall|i: int| 0 <= i < k ==> s[i] != 35) && s[k] == 35 && !(k + 3 <= s.len() && hexval(s[k + 1]) is Some && hexval(s[k + 2]) is Some))
        ==> name_dec(s) is None,
{
    if 0 <= k < s.len() && (forall|i: int| 0 <= i < k ==> s[i] != 35) && s[k] == 35 && !(k + 3 <= s.len() && hexval(s[k + 1]) is Some && hexval(s[k + 2]) is Some) {
        reveal_with_fuel(name_dec, 2);
        lemma_name_dec_prefix(s, k);
        let u = s.subrange(k, s.len() as int);
        assert(u[0] == 35);
        if k + 3 <= s.len() { assert(u[1] == s[k + 1] && u[2] == s[k + 2]); }
    }
    if 0 <= k && k + 3 <= s.len() && (forall|i: int| 0 <= i < k ==> s[i] != 35) && s[k] == 35 && hexval(s[k + 1]) is Some && hexval(s[k + 2]) is Some {
        reveal_with_fuel(name_dec, 2);
        lemma_name_dec_prefix(s, k);
        let u = s.subrange(k, s.len() as int);
        assert(u.subrange(3, u.len() as int) =~= s.subrange(k + 3, s.len() as int));
        let b = (hexval(s[k + 1]).unwrap() * 16 + hexval(s[k + 2]).unwrap()) as u8;
        match name_dec(s.subrange(k + 3, s.len() as int)) {
            Some(t) => { assert(s.subrange(0, k) + (seq![b] + t) =~= s.subrange(0, k).push(b) + t); }, None => {} }
    }
}
/// no "#" at all: the name is its own spelling
pub proof fn lemma_name_dec_plain(s: Seq<u8>)
    ensures (forall|i: int| 0 <= i < s.len() ==> s[i] != 35) ==> name_dec(s) == Some(s)
{
    if forall|i: int| 0 <= i < s.len() ==> s[i] != 35 {
        reveal_with_fuel(name_dec, 2);
        lemma_name_dec_prefix(s, s.len() as int);
        assert(s.subrange(0, s.len() as int) =~= s);
        assert(s.subrange(s.len() as int, s.len() as int) =~= Seq::<u8>::empty());
        assert(s + Seq::<u8>::empty() =~= s);
    }
}

// 7.3.4.2 literal strings: the value is the sequence of lexemes up to the closing parenthesis
// (`*_def` is the defining equation; the function itself is opaque and unfolded through `lemma_*_unfold` where needed)
#[verifier::opaque]
pub open spec fn lit_str(b: Seq<u8>, pos: int, nested: int) -> Option<(Seq<u8>, int)> decreases b.len() - pos {
    let st = lit_step(b, pos, nested);
    if st.eof || st.trunc || !depth_fits(st.nested) || st.pos <= pos || st.pos > b.len() { None }
    else { match st.out {
        None => Some((Seq::<u8>::empty(), st.pos)),
        Some(c) => str_prepend(seq![c], lit_str(b, st.pos, st.nested)) } }
}
pub open spec fn lit_str_def(b: Seq<u8>, pos: int, nested: int) -> Option<(Seq<u8>, int)>
{
    let st = lit_step(b, pos, nested);
    if st.eof || st.trunc || !depth_fits(st.nested) || st.pos <= pos || st.pos > b.len() { None }
    else { match st.out {
        None => Some((Seq::<u8>::empty(), st.pos)),
        Some(c) => str_prepend(seq![c], lit_str(b, st.pos, st.nested)) } }
}
pub proof fn lemma_lit_unfold(b: Seq<u8>, pos: int, nested: int)
    ensures lit_str(b, pos, nested) == lit_str_def(b, pos, nested)
{ reveal_with_fuel(lit_str, 1); }
// 7.3.4.3 hexadecimal strings
#[verifier::opaque]
pub open spec fn hex_str(b: Seq<u8>, pos: int) -> Option<(Seq<u8>, int)> decreases b.len() - pos {
    let st = hex_step(b, pos);
    if st.eof || st.bad || st.pos <= pos || st.pos > b.len() { None }
    else { match st.out {
        None => Some((Seq::<u8>::empty(), st.pos)),
        Some(c) => str_prepend(seq![c], hex_str(b, st.pos)) } }
}
pub open spec fn hex_str_def(b: Seq<u8>, pos: int) -> Option<(Seq<u8>, int)>
{
    let st = hex_step(b, pos);
    if st.eof || st.bad || st.pos <= pos || st.pos > b.len() { None }
    else { match st.out {
        None => Some((Seq::<u8>::empty(), st.pos)),
        Some(c) => str_prepend(seq![c], hex_str(b, st.pos)) } }
}
pub proof fn lemma_hex_unfold(b: Seq<u8>, pos: int)
    ensures hex_str(b, pos) == hex_str_def(b, pos)
{ reveal_with_fuel(hex_str, 1); }
pub open spec fn str_prepend(a: Seq<u8>, r: Option<(Seq<u8>, int)>) -> Option<(Seq<u8>, int)> {
    match r { Some(x) => Some((a + x.0, x.1)), None => None }
}

/// 7.3.8.2: the value of /Length, direct or (C11) through a reference to an integer object
pub open spec fn stream_length<R: Resolve>(r: &R, m: Map<Seq<u8>, Val>) -> Option<int> {
    if !m.dom().contains(K_LENGTH()) { None } else {
        match m[K_LENGTH()] {
            Val::Int(n) => if n >= 0 { Some(n) } else { None },
            Val::Ref(id, gen) => if 0 <= id <= u64::MAX && 0 <= gen <= u64::MAX {
                    match r.resolve_spec(PlainRef { id: id as u64, gen: gen as u64 }, ParseFlags::INTEGER, 1) {
                        Ok(Primitive::Integer(n)) => if n >= 0 { Some(n as int) } else { None },
                        _ => None } } else { None },
            _ => None,
        }
    }
}
/// 7.3.8.1: keyword `stream`, LF or CRLF, exactly /Length bytes, keyword `endstream`; q = just after the dictionary's `>>`
#[verifier::opaque]
pub open spec fn stream_at<R: Resolve>(r: &R, e: Env, m: Map<Seq<u8>, Val>, q: int) -> Option<(Val, int)> {
    match e.ctx { None => None, Some(c) =>       // "All streams shall be indirect objects": the id comes from the context
    match stream_kw_pos(e.buf, q) { None => None, Some(k) =>
    match stream_data_start(e.buf, k) { None => None, Some(d) =>
    match stream_length(r, m) { None => None, Some(n) =>
        if d + n >= e.buf.len() { None } else {
        match tok(e.buf, d + n) { None => None, Some(t) =>
            if e.buf.subrange(t.0, t.1) == K_ENDSTREAM() { Some((Val::Stream(m, c.id, e.base + d, e.base + d + n), t.1)) } else { None } } } } } } }
}

/// a stream needs the context of an indirect object, and its value is a stream
pub broadcast proof fn b_stream_kind<R: Resolve>(r: &R, e: Env, m: Map<Seq<u8>, Val>, q: int)
    ensures match #[trigger] stream_at(r, e, m, q) { Some(x) => x.0 is Stream && e.ctx is Some, None => true }
{ reveal(stream_at); }

/// the object at p (after white-space and comments), nesting budget d: Some((value, position just past its last token));
/// None = not an object in the sense of 7.3 / outside the implementation limits (nothing demanded)
#[verifier::opaque]
pub open spec fn obj_at<R: Resolve>(r: &R, e: Env, p: int, d: nat) -> Option<(Val, int)>
    decreases d, e.buf.len() - p, 0nat
{
    match tok(e.buf, p) { None => None, Some(t1) => {
        let w = e.buf.subrange(t1.0, t1.1);
        if !(p < t1.1 <= e.buf.len()) { None }
        else if w == K_LTLT() {                                   // 7.3.7 dictionary, 7.3.8 stream
            if d == 0 { None } else {
            match dict_at(r, e, t1.1, (d - 1) as nat, Map::<Seq<u8>, Val>::empty()) { None => None, Some(x) =>
                if tok(e.buf, x.1) matches Some(t2) && e.buf.subrange(t2.0, t2.1) == K_STREAM() { stream_at(r, e, x.0, x.1) }
                else { Some((Val::Dict(x.0), x.1)) } } } }
        else if is_int_lit(w) {                                   // 7.3.3 integer, 7.3.10 indirect reference `n g R`
            match ref_tail(e.buf, t1.1) {
                Some(t3) => match (<u64 as FromDec>::dec(w), <u64 as FromDec>::dec(e.buf.subrange(t3.0, t3.1))) {
                    (Some(id), Some(gen)) => Some((Val::Ref(id as int, gen as int), t3.2)), _ => None },
                None => match int_tok_val(w) { Some(v) => Some((v, t1.1)), None => None },
            } }
        else if is_real_iso(w) { Some((Val::Real(w), t1.1)) }     // 7.3.3 real
        else if w.len() > 0 && w[0] == 47 {                        // 7.3.5 name
            match name_dec(w.subrange(1, w.len() as int)) {
                Some(n) => if utf8_ok(n) { Some((Val::Name(n), t1.1)) } else { None }, None => None } }
        else if w == K_LBRACK() {                                 // 7.3.6 array
            if d == 0 { None } else {
            match arr_at(r, e, t1.1, (d - 1) as nat) { None => None, Some(x) => Some((Val::Arr(x.0), x.1)) } } }
        else if w == K_LPAREN() {                                 // 7.3.4.2 literal string
            match lit_str(e.buf.subrange(t1.1, e.buf.len() as int), 0, 0) { None => None, Some(x) =>
                match ctx_decrypt(e.ctx, x.0) { None => None, Some(s) => Some((Val::Str(s), t1.1 + x.1)) } } }
        else if w == K_LT() {                                     // 7.3.4.3 hexadecimal string
            match hex_str(e.buf.subrange(t1.1, e.buf.len() as int), 0) { None => None, Some(x) =>
                match ctx_decrypt(e.ctx, x.0) { None => None, Some(s) => Some((Val::Str(s), t1.1 + x.1)) } } }
        else if w == K_TRUE() { Some((Val::Bool(true), t1.1)) }   // 7.3.2
        else if w == K_FALSE() { Some((Val::Bool(false), t1.1)) }
        else if w == K_NULL() { Some((Val::Null, t1.1)) }         // 7.3.9
        else { None }
    } }
}
pub proof fn lemma_obj_unfold<R: Resolve>(r: &R, e: Env, p: int, d: nat)
    ensures obj_at(r, e, p, d) == obj_def(r, e, p, d)
{ reveal_with_fuel(obj_at, 1); reveal_with_fuel(arr_at, 1); reveal_with_fuel(dict_at, 1); }
pub open spec fn obj_def<R: Resolve>(r: &R, e: Env, p: int, d: nat) -> Option<(Val, int)>

{
    match tok(e.buf, p) { None => None, Some(t1) => {
        let w = e.buf.subrange(t1.0, t1.1);
        if !(p < t1.1 <= e.buf.len()) { None }
        else if w == K_LTLT() {                                   // 7.3.7 dictionary, 7.3.8 stream
            if d == 0 { None } else {
            match dict_at(r, e, t1.1, (d - 1) as nat, Map::<Seq<u8>, Val>::empty()) { None => None, Some(x) =>
                if tok(e.buf, x.1) matches Some(t2) && e.buf.subrange(t2.0, t2.1) == K_STREAM() { stream_at(r, e, x.0, x.1) }
                else { Some((Val::Dict(x.0), x.1)) } } } }
        else if is_int_lit(w) {                                   // 7.3.3 integer, 7.3.10 indirect reference `n g R`
            match ref_tail(e.buf, t1.1) {
                Some(t3) => match (<u64 as FromDec>::dec(w), <u64 as FromDec>::dec(e.buf.subrange(t3.0, t3.1))) {
                    (Some(id), Some(gen)) => Some((Val::Ref(id as int, gen as int), t3.2)), _ => None },
                None => match int_tok_val(w) { Some(v) => Some((v, t1.1)), None => None },
            } }
        else if is_real_iso(w) { Some((Val::Real(w), t1.1)) }     // 7.3.3 real
        else if w.len() > 0 && w[0] == 47 {                        // 7.3.5 name
            match name_dec(w.subrange(1, w.len() as int)) {
                Some(n) => if utf8_ok(n) { Some((Val::Name(n), t1.1)) } else { None }, None => None } }
        else if w == K_LBRACK() {                                 // 7.3.6 array
            if d == 0 { None } else {
            match arr_at(r, e, t1.1, (d - 1) as nat) { None => None, Some(x) => Some((Val::Arr(x.0), x.1)) } } }
        else if w == K_LPAREN() {                                 // 7.3.4.2 literal string
            match lit_str(e.buf.subrange(t1.1, e.buf.len() as int), 0, 0) { None => None, Some(x) =>
                match ctx_decrypt(e.ctx, x.0) { None => None, Some(s) => Some((Val::Str(s), t1.1 + x.1)) } } }
        else if w == K_LT() {                                     // 7.3.4.3 hexadecimal string
            match hex_str(e.buf.subrange(t1.1, e.buf.len() as int), 0) { None => None, Some(x) =>
                match ctx_decrypt(e.ctx, x.0) { None => None, Some(s) => Some((Val::Str(s), t1.1 + x.1)) } } }
        else if w == K_TRUE() { Some((Val::Bool(true), t1.1)) }   // 7.3.2
        else if w == K_FALSE() { Some((Val::Bool(false), t1.1)) }
        else if w == K_NULL() { Some((Val::Null, t1.1)) }         // 7.3.9
        else { None }
    } }
}
/// 7.3.10: after an integer at the current position: a second integer and the keyword R (result: second token, end of R)
pub open spec fn ref_tail(buf: Seq<u8>, p: int) -> Option<(int, int, int)> {
    match tok(buf, p) { None => None, Some(t2) =>
        if !is_int_lit(buf.subrange(t2.0, t2.1)) { None } else {
        match tok(buf, t2.1) { None => None, Some(t3) =>
            if buf.subrange(t3.0, t3.1) == K_R() { Some((t2.0, t2.1, t3.1)) } else { None } } } }
}
/// 7.3.6: the elements of an array up to `]`; p = just after `[` or after an element
#[verifier::opaque]
pub open spec fn arr_at<R: Resolve>(r: &R, e: Env, p: int, d: nat) -> Option<(Seq<Val>, int)>
    decreases d, e.buf.len() - p, 1nat
{
    match tok(e.buf, p) { None => None, Some(t1) =>
        if e.buf.subrange(t1.0, t1.1) == K_RBRACK() { Some((Seq::<Val>::empty(), t1.1)) } else {
        match obj_at(r, e, p, d) { None => None, Some(x) =>
            if !(p < x.1 <= e.buf.len()) { None } else {
            arr_prepend(seq![x.0], arr_at(r, e, x.1, d)) } } } }
}
pub proof fn lemma_arr_unfold<R: Resolve>(r: &R, e: Env, p: int, d: nat)
    ensures arr_at(r, e, p, d) == arr_def(r, e, p, d)
{ reveal_with_fuel(obj_at, 1); reveal_with_fuel(arr_at, 1); reveal_with_fuel(dict_at, 1); }
pub open spec fn arr_def<R: Resolve>(r: &R, e: Env, p: int, d: nat) -> Option<(Seq<Val>, int)>

{
    match tok(e.buf, p) { None => None, Some(t1) =>
        if e.buf.subrange(t1.0, t1.1) == K_RBRACK() { Some((Seq::<Val>::empty(), t1.1)) } else {
        match obj_at(r, e, p, d) { None => None, Some(x) =>
            if !(p < x.1 <= e.buf.len()) { None } else {
            arr_prepend(seq![x.0], arr_at(r, e, x.1, d)) } } } }
}
/// 7.3.7: key/value pairs up to `>>`; a later duplicate key replaces the earlier value; acc = the entries read so far
#[verifier::opaque]
pub open spec fn dict_at<R: Resolve>(r: &R, e: Env, p: int, d: nat, acc: Map<Seq<u8>, Val>) -> Option<(Map<Seq<u8>, Val>, int)>
    decreases d, e.buf.len() - p, 1nat
{
    match tok(e.buf, p) { None => None, Some(t1) => {
        let w = e.buf.subrange(t1.0, t1.1);
        if !(p < t1.1 <= e.buf.len()) { None }
        else if w.len() > 0 && w[0] == 47 {
            match name_dec(w.subrange(1, w.len() as int)) { None => None, Some(k) =>   // the key is a name (7.3.7): `#xx` decoded (7.3.5)
                if !utf8_ok(k) { None } else {
                match obj_at(r, e, t1.1, d) { None => None, Some(x) =>
                    if !(t1.1 < x.1 <= e.buf.len()) { None } else { dict_at(r, e, x.1, d, acc.insert(k, x.0)) } } } } }
        else if w == K_GTGT() { Some((acc, t1.1)) }
        else { None }
    } }
}
pub proof fn lemma_dict_unfold<R: Resolve>(r: &R, e: Env, p: int, d: nat, acc: Map<Seq<u8>, Val>)
    ensures dict_at(r, e, p, d, acc) == dict_def(r, e, p, d, acc)
{ reveal_with_fuel(obj_at, 1); reveal_with_fuel(arr_at, 1); reveal_with_fuel(dict_at, 1); }
pub open spec fn dict_def<R: Resolve>(r: &R, e: Env, p: int, d: nat, acc: Map<Seq<u8>, Val>) -> Option<(Map<Seq<u8>, Val>, int)>

{
    match tok(e.buf, p) { None => None, Some(t1) => {
        let w = e.buf.subrange(t1.0, t1.1);
        if !(p < t1.1 <= e.buf.len()) { None }
        else if w.len() > 0 && w[0] == 47 {
            match name_dec(w.subrange(1, w.len() as int)) { None => None, Some(k) =>   // the key is a name (7.3.7): `#xx` decoded (7.3.5)
                if !utf8_ok(k) { None } else {
                match obj_at(r, e, t1.1, d) { None => None, Some(x) =>
                    if !(t1.1 < x.1 <= e.buf.len()) { None } else { dict_at(r, e, x.1, d, acc.insert(k, x.0)) } } } } }
        else if w == K_GTGT() { Some((acc, t1.1)) }
        else { None }
    } }
}

/// the object at a token that starts with a SOLIDUS is the name it spells, whatever the context and the nesting budget
pub proof fn lemma_obj_name<R: Resolve>(r: &R, e: Env, p: int, d: nat)
    requires 0 <= p <= e.buf.len()
    ensures match tok(e.buf, p) { None => true, Some(t) => { let w = e.buf.subrange(t.0, t.1);
        (w.len() > 0 && w[0] == 47) ==> obj_at(r, e, p, d) == (match name_dec(w.subrange(1, w.len() as int)) {
            Some(n) => if utf8_ok(n) { Some((Val::Name(n), t.1)) } else { None }, None => None }) } }
{
    broadcast use {b_tok, b_real_first};
    lemma_obj_unfold(r, e, p, d);
    match tok(e.buf, p) { None => {}, Some(t) => {
        let w = e.buf.subrange(t.0, t.1);
        if w.len() > 0 && w[0] == 47 {
            reveal(K_LTLT);
            assert(K_LTLT()[0] == 60);
            lemma_real_iso_is_lit(w);
            assert(sign_len(w) == 0);
            if is_int_lit(w) { assert(digit(w.subrange(0, w.len() as int)[0])); }
        }
    } }
}
pub proof fn lemma_name_allowed(n: Seq<u8>)
    ensures allowed(ParseFlags::NAME, Val::Name(n))
{ assert(16u16 & 16 != 0) by (bit_vector); }

/// the bit(s) of ParseFlags that the parser consults for a value of this kind (as found in the code: a stream is admitted by
/// DICT, the STREAM bit is only consulted by Storage::resolve_ref)
pub open spec fn kind_bits(v: Val) -> u16 {
    match v {
        Val::Null => 256, Val::Bool(_) => 128, Val::Int(_) => 1,
        // the flags classify by the syntactic kind of the token: an integer token is admitted by INTEGER whatever its magnitude
        // (as `5` was never admitted by NUMBER alone), a token with a decimal point by NUMBER
        Val::Real(w) => if is_int_lit(w) { 1 } else { 8 },
        Val::Str(_) => 64, Val::Name(_) => 16,
        Val::Arr(_) => 32, Val::Dict(_) => 4, Val::Ref(_, _) => 512, Val::Stream(_, _, _, _) => 4,
    }
}
pub open spec fn allowed(flags: ParseFlags, v: Val) -> bool { flags.bits & kind_bits(v) != 0 }
pub proof fn lemma_any_allows(v: Val)
    ensures allowed(ParseFlags::ANY, v)
{
    assert(1023u16 & 256 != 0 && 1023u16 & 128 != 0 && 1023u16 & 1 != 0 && 1023u16 & 8 != 0 && 1023u16 & 64 != 0 && 1023u16 & 16 != 0
        && 1023u16 & 32 != 0 && 1023u16 & 4 != 0 && 1023u16 & 512 != 0) by (bit_vector);
}

/// syntactic class of the object at p by its first token; only used to report `r == obj_at(..)` arm by arm
pub open spec fn obj_class(buf: Seq<u8>, p: int) -> int {
    match tok(buf, p) { None => 0, Some(t) => { let w = buf.subrange(t.0, t.1);
        if w == K_LTLT() { 1 } else if is_int_lit(w) { 2 } else if is_real_iso(w) { 3 } else if w.len() > 0 && w[0] == 47 { 4 }
        else if w == K_LBRACK() { 5 } else if w == K_LPAREN() { 6 } else if w == K_LT() { 7 } else { 8 } } }
}
/// the value demanded of a parse: the denoted value and the position just past it if the kind is allowed, else PrimitiveNotAllowed
pub open spec fn parse_post(x: Option<(Val, int)>, flags: ParseFlags, res: Result<Primitive>, fpos: int) -> bool {
    match x { None => true, Some(y) =>
        if allowed(flags, y.0) { res matches Ok(p) && rep(p, y.0) && fpos == y.1 } else { res matches Err(PdfError::PrimitiveNotAllowed) } }
}
/// parse_stream_with_lexer: `<< .. >>` (strings inside are not decrypted: the dictionary is read without a context),
/// keyword stream, data, endstream
pub open spec fn stream_obj_at<R: Resolve>(r: &R, buf: Seq<u8>, base: int, id: PlainRef, p: int) -> Option<(Val, int)> {
    match tok(buf, p) { None => None, Some(t1) =>
        if buf.subrange(t1.0, t1.1) != K_LTLT() { None } else {
        match dict_at(r, Env { buf, base, ctx: None }, t1.1, 20, Map::<Seq<u8>, Val>::empty()) { None => None, Some(x) =>
            if tok(buf, x.1) matches Some(t2) && buf.subrange(t2.0, t2.1) == K_STREAM() {
                stream_at(r, Env { buf, base, ctx: Some(CtxV { dec: None, id }) }, x.0, x.1) } else { None } } } }
}
pub open spec fn opt_deref(d: Option<&Decoder>) -> Option<Decoder> { match d { Some(x) => Some(*x), None => None } }
/// 7.3.10 indirect object: `n g obj <object> endobj`; result: (id, value, end of the value, token after the value)
pub open spec fn indirect_at<R: Resolve>(r: &R, buf: Seq<u8>, base: int, dec: Option<Decoder>, p: int) -> Option<(PlainRef, Val, int, Option<(int, int)>)> {
    match tok(buf, p) { None => None, Some(t1) =>
    match <u64 as FromDec>::dec(buf.subrange(t1.0, t1.1)) { None => None, Some(id) =>
    match tok(buf, t1.1) { None => None, Some(t2) =>
    match <u64 as FromDec>::dec(buf.subrange(t2.0, t2.1)) { None => None, Some(gen) =>
    match tok(buf, t2.1) { None => None, Some(t3) =>
        if buf.subrange(t3.0, t3.1) != K_OBJ() { None } else {
        let pr = PlainRef { id, gen };
        match obj_at(r, Env { buf, base, ctx: Some(CtxV { dec, id: pr }) }, t3.1, 20) { None => None, Some(x) =>
            Some((pr, x.0, x.1, tok(buf, x.1))) } } } } } } }
}
pub open spec fn is_endobj(buf: Seq<u8>, t: Option<(int, int)>) -> bool {
    t matches Some(t4) && buf.subrange(t4.0, t4.1) == K_ENDOBJ()
}

pub open spec fn env_of(lexer: &Lexer, ctx: Option<&Context>) -> Env {
    Env { buf: lexer.buf@, base: lexer.file_offset as int, ctx: ctxv(ctx) }
}


// =====================================================================================================
// extracted code
// =====================================================================================================
impl PdfString {
//@@ PdfString::new
}
impl Primitive {
// same text and contract as in units/ops (Primitive::into_name/name_only)
//@@ Primitive::into_name
}
impl<'a> Context<'a> {
//@@ Context::decrypt
}
//@@ integer_or_real
//@@ check
//@@ parse_with_lexer_ctx
//@@ _parse_with_lexer_ctx
//@@ parse_dictionary_object
//@@ parse_stream_object
//@@ parse_with_lexer
//@@ parse
//@@ parse_stream_with_lexer
//@@ parse_stream
//@@ parse_indirect_object
}
fn main(){}
