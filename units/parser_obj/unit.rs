// Unit `parser_obj` (C03, C04, C11, C01, C06 placement): the object grammar of pdf/src/parser/mod.rs and
// pdf/src/parser/parse_object.rs:
//   parse_with_lexer_ctx (rollback), _parse_with_lexer_ctx, parse_dictionary_object, parse_stream_object, check,
//   parse, parse_with_lexer, parse_stream, parse_stream_with_lexer, parse_indirect_object, Context::decrypt
//   (+ Lexer::read_n / new_substr re-proved here with one more postcondition, PdfString::new)
// against `obj_at`, an object function written from ISO 32000-1:2008 7.3 over the token function of unit `lexer`
// (7.2) and the string step functions of unit `strlex` (7.3.4.2 / 7.3.4.3).
use vstd::prelude::*;
use std::ops::Range;
use std::sync::Arc;
//@@ INCLUDE _common/error_macros.rs
// R4: `err!` in match-arm position (`PAT => err!(..)`, renamed `err_arm!` by a shape-only rewrite) with the control flow of the crate's
// macro (always `return Err(e)`), spelled so that the enclosing match arm is not
// never-typed: Verus 0.2026.09.13 loses `final(x)` of a `&mut` parameter at a `return` inside a match whose only value-producing arm
// is guarded (`match p { A(n) if g => v, other => err!(..) }` followed by a later use of x) -- a false alarm on `*_frame`.
// `unreached()` requires false, i.e. Verus proves that nothing follows the return.
macro_rules! err_arm { ($e: expr) => ({ if true { return Err($e); } unreached() }) }
// R4: log macro dropped; unlike the shared twin it is usable in expression position too (`other => warn!(..)`): its value is `()`
macro_rules! warn { ($($t:tt)*) => { () } }
// R4: pdf/src/primitive.rs `unexpected_primitive!`: same control flow (evaluates to Err(UnexpectedPrimitive{..}));
// `stringify!($expected)` is replaced by a fixed string (payload text, R3)
macro_rules! unexpected_primitive {
    ($expected:ident, $found:expr) => (
        Err(PdfError::UnexpectedPrimitive { expected: "", found: $found })
    )
}
verus! {
global size_of usize == 8;

//@@ PDFERROR
//@@ type ObjNr
//@@ type GenNr
//@@ struct PlainRef
//@@ struct ParseOptions
//@@ struct Lexer
//@@ struct Substr
//@@ struct StringLexer
//@@ struct HexStringLexer
//@@ const MAX_DEPTH

// ---- named deviations / tolerances ----
//@@ DEVIATIONS

// =====================================================================================================
// env: opaque data types of the object model (istring / indexmap / crypt), with ghost views
// =====================================================================================================
#[verifier::external_body]
pub struct Decoder { _p: () }

/// istring::IBytes: a growable byte string
#[verifier::external_body]
pub struct IBytes { _p: () }
impl IBytes {
    pub uninterp spec fn view(&self) -> Seq<u8>;
    #[verifier::external_body]
    pub fn new() -> (r: IBytes) ensures r@ == Seq::<u8>::empty() { unimplemented!() }
    #[verifier::external_body]
    pub fn push(&mut self, b: u8) ensures final(self)@ == old(self)@.push(b) { unimplemented!() }
    #[verifier::external_body]
    pub fn extend_from_slice(&mut self, s: &[u8]) ensures final(self)@ == old(self)@ + s@ { unimplemented!() }
    #[verifier::external_body]
    pub fn as_slice(&self) -> (r: &[u8]) ensures r@ == self@ { unimplemented!() }
}
/// istring::SmallBytes
#[verifier::external_body]
pub struct SmallBytes { _p: () }
impl SmallBytes {
    pub uninterp spec fn view(&self) -> Seq<u8>;
    /// `From<&[u8]> for SmallBytes`
    #[verifier::external_body]
    pub fn from(s: &[u8]) -> (r: SmallBytes) ensures r@ == s@ { unimplemented!() }
}
/// the byte sequence is well-formed UTF-8 (std::str::from_utf8 succeeds)
pub uninterp spec fn utf8_ok(s: Seq<u8>) -> bool;
/// istring::SmallString (view = its UTF-8 bytes)
#[verifier::external_body]
pub struct SmallString { _p: () }
impl SmallString {
    pub uninterp spec fn view(&self) -> Seq<u8>;
    /// `SmallString::from_utf8(SmallBytes) -> Result<_, FromUtf8Error>` followed by `?` (`From<FromUtf8Error> for PdfError`
    /// folded into the stub, R3)
    #[verifier::external_body]
    pub fn from_utf8(s: SmallBytes) -> (r: Result<SmallString>)
        ensures utf8_ok(s@) ==> (r matches Ok(x) && x@ == s@), !utf8_ok(s@) ==> r is Err
    { unimplemented!() }
}
/// primitive.rs: `pub struct Name(pub SmallString);`
pub struct Name(pub SmallString);
impl Name {
    pub open spec fn view(&self) -> Seq<u8> { self.0@ }
}

/// parser/mod.rs:22 `bitflags! { pub struct ParseFlags: u16 { .. } }` (restated; the macro is not extracted)
#[derive(Clone, Copy)]
pub struct ParseFlags { pub bits: u16 }
impl ParseFlags {
    pub const INTEGER: ParseFlags = ParseFlags { bits: 1 };
    pub const STREAM: ParseFlags = ParseFlags { bits: 2 };
    pub const DICT: ParseFlags = ParseFlags { bits: 4 };
    pub const NUMBER: ParseFlags = ParseFlags { bits: 8 };
    pub const NAME: ParseFlags = ParseFlags { bits: 16 };
    pub const ARRAY: ParseFlags = ParseFlags { bits: 32 };
    pub const STRING: ParseFlags = ParseFlags { bits: 64 };
    pub const BOOL: ParseFlags = ParseFlags { bits: 128 };
    pub const NULL: ParseFlags = ParseFlags { bits: 256 };
    pub const REF: ParseFlags = ParseFlags { bits: 512 };
    pub const ANY: ParseFlags = ParseFlags { bits: 1023 };
    /// bitflags: `intersects(other)` == some bit of other is set (`&` is commutative: stated both ways)
    #[verifier::external_body]
    pub fn intersects(&self, other: ParseFlags) -> (r: bool) ensures r == (self.bits & other.bits != 0), r == (other.bits & self.bits != 0) { unimplemented!() }
}
/// bitflags: `impl BitOr for ParseFlags` (R7: the operator is spelled as a call)
#[verifier::external_body]
pub fn flags_or(a: ParseFlags, b: ParseFlags) -> (r: ParseFlags) ensures r.bits == a.bits | b.bits { unimplemented!() }

//@@ struct PdfString
//@@ enum StreamInner
//@@ struct PdfStream
//@@ enum Primitive
//@@ struct Context

/// primitive.rs: `Dictionary { dict: IndexMap<Name, Primitive> }` as a ghost map from the key's bytes to the value
#[verifier::external_body]
pub struct Dictionary { _p: () }
impl Dictionary {
    pub uninterp spec fn view(&self) -> Map<Seq<u8>, Primitive>;
    /// `#[derive(Default)]`
    #[verifier::external_body]
    pub fn default() -> (r: Dictionary) ensures r@ == Map::<Seq<u8>, Primitive>::empty() { unimplemented!() }
    /// IndexMap::insert: a later duplicate key replaces the value
    #[verifier::external_body]
    pub fn insert(&mut self, key: Name, val: Primitive) -> (r: Option<Primitive>)
        ensures final(self)@ == old(self)@.insert(key@, val)
    { unimplemented!() }
    #[verifier::external_body]
    pub fn get(&self, key: &str) -> (r: Option<&Primitive>)
        ensures match r { Some(p) => self@.dom().contains(ascii(key@)) && *p == self@[ascii(key@)], None => !self@.dom().contains(ascii(key@)) }
    { unimplemented!() }
}
/// never called (see the `err_arm!` twin above)
#[verifier::external_body]
pub fn unreached<T>() -> T requires false { unreachable!() }
/// R5: `Option<&Primitive>::cloned()` (`#[derive(Clone)]` of Primitive): the value itself
#[verifier::external_body]
pub fn opt_cloned(o: Option<&Primitive>) -> (r: Option<Primitive>)
    ensures r == (match o { Some(p) => Some(*p), None => None })
{ unimplemented!() /* o.cloned() */ }
impl Primitive {
    /// primitive.rs:495 (only feeds an error payload)
    #[verifier::external_body]
    pub fn get_debug_name(&self) -> (r: &'static str) { unimplemented!() }
    /// primitive.rs:536
    #[verifier::external_body]
    pub fn as_usize(&self) -> (r: Result<usize>)
        ensures match *self { Primitive::Integer(n) => if n >= 0 { r matches Ok(v) && v == n } else { r is Err }, _ => r is Err }
    { unimplemented!() }
}

//@@ INCLUDE parser_obj/spec/r00_ascii.rs
/// R7: a byte-string literal `b"lit"` read through `str::as_bytes` (Verus knows the length of `b".."` but not its bytes)
#[verifier::external_body]
pub fn blit(s: &'static str) -> (r: &'static [u8]) ensures r@ == ascii(s@) { s.as_bytes() }

// ---- the resolver (abstract) ----
pub trait Resolve {
    spec fn resolve_spec(&self, r: PlainRef, flags: ParseFlags, depth: usize) -> Result<Primitive>;
    fn resolve_flags(&self, r: PlainRef, flags: ParseFlags, depth: usize) -> (res: Result<Primitive>)
        ensures res == self.resolve_spec(r, flags, depth);
    spec fn options_spec(&self) -> ParseOptions;
    fn options(&self) -> (o: &ParseOptions)
        ensures *o == self.options_spec();
}

// ---- decryption (abstract): crypt.rs Decoder::decrypt is under contract in unit `decrypt` ----
/// what `Decoder::decrypt(id, data)` yields for the bytes `data` (None = error)
pub uninterp spec fn decrypt_spec(d: Decoder, id: PlainRef, data: Seq<u8>) -> Option<Seq<u8>>;
impl Decoder {
    #[verifier::external_body]
    pub fn decrypt<'buf>(&self, id: PlainRef, data: &'buf mut [u8]) -> (r: Result<&'buf [u8]>)
        ensures match r { Ok(s) => decrypt_spec(*self, id, old(data)@) == Some(s@), Err(_) => decrypt_spec(*self, id, old(data)@) is None }
    { unimplemented!() }
}
/// R7: `string = t!(ctx.decrypt(&mut string)).into();` — decrypt in place (a `&mut [u8]` borrowed out of the IBytes through
/// DerefMut), copy the returned sub-slice into a new IBytes (`From<&[u8]> for IBytes`)
#[verifier::external_body]
pub fn hoist_decrypt_into(ctx: &Context, string: &mut IBytes) -> (r: Result<IBytes>)
    ensures match r { Ok(s) => ctx_decrypt(ctxv(Some(ctx)), old(string)@) == Some(s@), Err(_) => ctx_decrypt(ctxv(Some(ctx)), old(string)@) is None }
{ unimplemented!() /* Ok(ctx.decrypt(string)?.into()) */ }

//@@ INCLUDE parser_obj/spec/r01_tokens.rs

// =====================================================================================================
// contracts PROVED in unit `lexer`, restated as stubs (obligation ids in the comments)
// =====================================================================================================
impl<'a> Substr<'a> {
    pub open spec fn swf(&self) -> bool { self.file_offset + self.slice@.len() <= usize::MAX }
    pub open spec fn cut_from(&self, buf: Seq<u8>, base: int, lo: int, hi: int) -> bool {
        0 <= lo <= hi <= buf.len() && self.slice@ == buf.subrange(lo, hi) && self.file_offset == base + lo
    }
    /// lexer/Substr::equals is only trusted there (hoist_equals_str: `slice == other.as_ref()`), same here
    #[verifier::external_body]
    pub fn equals(&self, other: &[u8]) -> (r: bool) ensures r == (self.slice@ == other@) { unimplemented!() }
    /// `self.slice.starts_with(..)` through Deref<Target=[u8]> (std, trusted)
    #[verifier::external_body]
    pub fn starts_with(&self, other: &[u8]) -> (r: bool)
        ensures r == (self.slice@.len() >= other@.len() && self.slice@.subrange(0, other@.len() as int) == other@)
    { unimplemented!() }
    /// `<[u8]>::len` through Deref
    #[verifier::external_body]
    pub fn len(&self) -> (r: usize) ensures r == self.slice@.len() { unimplemented!() }
    /// proved in units/lexer: Substr::is_integer/int_grammar
    #[verifier::external_body]
    pub fn is_integer(&self) -> (r: bool) ensures r == is_int_lit(self.slice@) { unimplemented!() }
    /// proved in units/lexer: Substr::real_number/real_accepts_conformant, real_rejects_others (tolerances DEV_LONE_DOT_IS_REAL,
    /// DEV_REAL_PREFIX_ACCEPTED as there)
    #[verifier::external_body]
    pub fn real_number(&self) -> (r: Option<Substr<'a>>)
        ensures is_real_lit(self.slice@) ==> (r matches Some(p) && p.slice@ == self.slice@ && p.file_offset == self.file_offset),
                !is_real_lit(self.slice@) ==> (r is None || (DEV_REAL_PREFIX_ACCEPTED() && (r matches Some(p) && p.file_offset == self.file_offset && p.slice@.len() < self.slice@.len() && p.slice@ == self.slice@.subrange(0, p.slice@.len() as int) && is_real_lit(p.slice@))))
    { unimplemented!() }
    /// proved in units/lexer: Substr::reslice/reslice_tail, reslice_offset
    #[verifier::external_body]
    pub fn reslice(&self, range: core::ops::RangeFrom<usize>) -> (r: Substr<'a>)
        requires self.swf(), range.start <= self.slice@.len()
        ensures r.slice@ == self.slice@.subrange(range.start as int, self.slice@.len() as int), r.file_offset == self.file_offset + range.start && r.swf()
    { unimplemented!() }
    /// proved in units/lexer: Substr::file_range/file_range_is_offset_plus_len
    #[verifier::external_body]
    pub fn file_range(&self) -> (r: Range<usize>)
        requires self.swf()
        ensures r.start == self.file_offset && r.end == self.file_offset + self.slice@.len()
    { unimplemented!() }
    /// `&Substr -> &[u8]` deref coercion (`let mut rest: &[u8] = &first_lexeme.reslice(1..);`): proved in units/lexer: Substr::as_slice
    #[verifier::external_body]
    pub fn as_slice(&self) -> (r: &'a [u8]) ensures r@ == self.slice@ { unimplemented!() }
    /// trusted (not reached in unit lexer): `Ok(Name(std::str::from_utf8(self.as_slice())?.into()))`
    #[verifier::external_body]
    pub fn to_name(&self) -> (r: Result<Name>)
        ensures utf8_ok(self.slice@) ==> (r matches Ok(n) && n@ == self.slice@), !utf8_ok(self.slice@) ==> r is Err
    { unimplemented!() }
    /// trusted L0 (Kani leaves in unit objstm: substr_to_usize_dec, substr_to_objnr_dec; here kani: substr_to_i32_dec):
    /// `std::str::from_utf8(slice)?.parse::<T>()` = the decimal value contract of FromStr for the integer types,
    /// and for f32 an uninterpreted value
    #[verifier::external_body]
    pub fn to<T: FromDec>(&self) -> (r: Result<T>)
        ensures match r { Ok(v) => T::dec(self.slice@) == Some(v), Err(_) => T::dec(self.slice@) is None }
    { unimplemented!() }
}
//@@ INCLUDE parser_obj/spec/r02_numbers.rs
/// trusted (std): the grammar of `f32::from_str` contains the ISO 7.3.3 reals `[+-]?(d+ | d+.d* | .d+)`
#[verifier::external_body]
pub proof fn axiom_f32_accepts_iso_reals(s: Seq<u8>)
    ensures is_real_iso(s) ==> f32_of(s) is Some
{}
//@@ INCLUDE parser_obj/spec/r03_fromdec.rs

impl<'a> Lexer<'a> {
    pub open spec fn wf(&self) -> bool {
        self.pos <= self.buf@.len() && self.buf@.len() <= isize::MAX && self.file_offset + self.buf@.len() <= usize::MAX
    }
    pub open spec fn same(&self, o: &Lexer<'a>) -> bool { self.buf@ == o.buf@ && self.file_offset == o.file_offset }
    // (the stubs below state token_start / token_end of unit lexer through the pair `tok`)

    /// proved in units/lexer: Lexer::new/new_wf
    #[verifier::external_body]
    pub fn new(buf: &'a [u8]) -> (r: Lexer<'a>)
        requires buf@.len() <= isize::MAX
        ensures r.wf() && r.pos == 0 && r.file_offset == 0 && r.buf@ == buf@
    { unimplemented!() }
    /// proved in units/lexer: Lexer::get_pos/get_pos_is_pos
    #[verifier::external_body]
    pub fn get_pos(&self) -> (r: usize) ensures r == self.pos { unimplemented!() }
    /// proved in units/lexer: Lexer::next/next_wf, next_eof_keeps_pos, next_is_iso_token
    #[verifier::external_body]
    pub fn next(&mut self) -> (r: Result<Substr<'a>>)
        requires old(self).wf()
        ensures final(self).wf() && final(self).same(old(self)),
            match tok(old(self).buf@, old(self).pos as int) {
                None => final(self).pos == old(self).pos && r matches Err(PdfError::EOF),
                Some(t) => r matches Ok(sub) && final(self).pos == t.1 && sub.cut_from(old(self).buf@, old(self).file_offset as int, t.0, t.1) && sub.swf() },
    { unimplemented!() }
    /// proved in units/lexer: Lexer::peek/peek_eof_is_empty, peek_is_iso_token
    #[verifier::external_body]
    pub fn peek(&self) -> (r: Result<Substr<'a>>)
        requires self.wf()
        ensures
            match tok(self.buf@, self.pos as int) {
                None => r matches Ok(sub) && sub.cut_from(self.buf@, self.file_offset as int, self.pos as int, self.pos as int),
                Some(t) => r matches Ok(sub) && sub.cut_from(self.buf@, self.file_offset as int, t.0, t.1) && sub.swf() },
    { unimplemented!() }
    /// proved in units/lexer: Lexer::next_expect/expect_wf, expect_eof, expect_compares_iso_token (str_bytes there = ascii(expected@) here)
    #[verifier::external_body]
    pub fn next_expect(&mut self, expected: &'static str) -> (r: Result<()>)
        requires old(self).wf()
        ensures final(self).wf() && final(self).same(old(self)),
            match tok(old(self).buf@, old(self).pos as int) {
                None => final(self).pos == old(self).pos && r matches Err(PdfError::EOF),
                Some(t) => final(self).pos == t.1 && (r is Ok <==> old(self).buf@.subrange(t.0, t.1) == ascii(expected@)) },
    { unimplemented!() }
    /// proved in units/lexer: Lexer::next_stream/stream_wf, stream_no_keyword, stream_lf_or_crlf_only
    #[verifier::external_body]
    pub fn next_stream(&mut self) -> (r: Result<()>)
        requires old(self).wf()
        ensures final(self).wf() && final(self).same(old(self)),
            stream_kw_pos(old(self).buf@, old(self).pos as int) is None ==> r is Err && final(self).pos == old(self).pos,
            stream_kw_pos(old(self).buf@, old(self).pos as int) matches Some(k) ==> match stream_data_start(old(self).buf@, k) { Some(d) => r is Ok && final(self).pos == d, None => r is Err && final(self).pos == old(self).pos },
    { unimplemented!() }
    /// proved in units/lexer: Lexer::set_pos/set_pos_wf, set_pos_clamped
    #[verifier::external_body]
    pub fn set_pos(&mut self, wanted_pos: usize) -> (r: Substr<'a>)
        requires old(self).wf()
        ensures final(self).wf() && final(self).same(old(self)),
            final(self).pos == if wanted_pos <= old(self).buf@.len() { wanted_pos as int } else { old(self).buf@.len() as int },
    { unimplemented!() }
    /// proved in units/lexer: Lexer::offset_pos/offset_wf, offset_forward_clamped
    #[verifier::external_body]
    pub fn offset_pos(&mut self, offset: usize) -> (r: Substr<'a>)
        requires old(self).wf()
        ensures final(self).wf() && final(self).same(old(self)),
            old(self).pos + offset <= usize::MAX ==> final(self).pos == if old(self).pos + offset <= old(self).buf@.len() { old(self).pos + offset } else { old(self).buf@.len() as int },
    { unimplemented!() }
    /// proved in units/lexer: Lexer::get_remaining_slice/remaining_is_tail
    #[verifier::external_body]
    pub fn get_remaining_slice(&self) -> (r: &'a [u8])
        requires self.wf()
        ensures r@ == self.buf@.subrange(self.pos as int, self.buf@.len() as int)
    { unimplemented!() }

    // re-proved here (same text, same contract as in unit lexer, plus `read_n_back_at_most_one`)
//@@ Lexer::new_substr
//@@ Lexer::read_n
}

//@@ INCLUDE parser_obj/spec/r04_lit_step.rs
impl<'a> StringLexer<'a> {
    pub open spec fn wf(&self) -> bool { self.pos <= self.buf@.len() }
    /// proved in units/strlex: StringLexer::new/new_state
    #[verifier::external_body]
    pub fn new(buf: &'a [u8]) -> (r: StringLexer<'a>) ensures r.pos == 0 && r.nested == 0 && r.buf == buf && r.wf() { unimplemented!() }
    /// proved in units/strlex: StringLexer::get_offset/is_pos
    #[verifier::external_body]
    pub fn get_offset(&self) -> (r: usize) ensures r == self.pos { unimplemented!() }
    /// `self.iter().next()`; proved in units/strlex: StringLexer::iter/iter_borrows_self + StringLexerIter::next/iter_frame,
    /// iter_depth, iter_is_lit_step
    #[verifier::external_body]
    pub fn iter_next(&mut self) -> (r: Option<Result<u8>>)
        requires old(self).wf(), 0 <= old(self).nested
        ensures final(self).buf == old(self).buf && final(self).wf(),
            r matches Some(Ok(_)) ==> final(self).nested >= 0,
            lex_post(lit_step(old(self).buf@, old(self).pos as int, old(self).nested as int), as_lexeme(r), final(self).pos as int, final(self).nested as int),
    { unimplemented!() }
}
//@@ INCLUDE parser_obj/spec/r05_hex_step.rs
impl<'a> HexStringLexer<'a> {
    pub open spec fn wf(&self) -> bool { self.pos <= self.buf@.len() }
    /// proved in units/strlex: HexStringLexer::new/new_state
    #[verifier::external_body]
    pub fn new(buf: &'a [u8]) -> (r: HexStringLexer<'a>) ensures r.pos == 0 && r.buf == buf && r.wf() { unimplemented!() }
    /// proved in units/strlex: HexStringLexer::get_offset/is_pos
    #[verifier::external_body]
    pub fn get_offset(&self) -> (r: usize) ensures r == self.pos { unimplemented!() }
    /// `self.iter().next()`; proved in units/strlex: HexStringLexer::iter/iter_borrows_self + HexStringLexerIter::next/iter_frame, iter_is_hex_step
    #[verifier::external_body]
    pub fn iter_next(&mut self) -> (r: Option<Result<u8>>)
        requires old(self).wf()
        ensures final(self).buf == old(self).buf && final(self).wf(),
            ({ let st = hex_step(old(self).buf@, old(self).pos as int); if st.eof || st.bad { r matches Some(Err(_)) }
               else { r == (match st.out { Some(b) => Some(Ok::<u8, PdfError>(b)), None => None }) && final(self).pos == st.pos } }),
    { unimplemented!() }
}
/// proved in units/enc_leaf (Kani, complete over u8): decode_nibble_hexval
#[verifier::external_body]
pub fn decode_nibble(c: u8) -> (r: Option<u8>)
    ensures hexval(c) matches Some(v) ==> r == Some(v)
{ unimplemented!() }

// ---- R7 helpers over std slices (bodies are the hoisted source expressions) ----
#[verifier::external_body]
fn hoist_contains_hash(rest: &[u8]) -> (r: bool)
    ensures r == exists|i: int| 0 <= i < rest@.len() && rest@[i] == 35u8
{ rest.contains(&b'#') }
#[verifier::external_body]
fn hoist_position_hash(rest: &[u8]) -> (r: Option<usize>)
    ensures r matches Some(k) ==> k < rest@.len() && rest@[k as int] == 35u8 && forall|i: int| 0 <= i < k ==> rest@[i] != 35u8,
        r is None ==> forall|i: int| 0 <= i < rest@.len() ==> rest@[i] != 35u8,
{ rest.iter().position(|&b| b == b'#') }
/// `rest.get(idx+1 .. idx+3)` followed by `.try_into().unwrap()` into `[u8; 2]` (a 2-byte slice always converts)
#[verifier::external_body]
fn hoist_get2(rest: &[u8], a: usize, b: usize) -> (r: Option<[u8; 2]>)
    requires b == a + 2
    ensures b <= rest@.len() ==> (r matches Some(x) && x[0] == rest@[a as int] && x[1] == rest@[a + 1]), b > rest@.len() ==> r is None
{ use std::convert::TryInto; rest.get(a .. b).map(|s| s.try_into().unwrap()) }

//@@ INCLUDE parser_obj/spec/r06_val.rs
pub open spec fn rep(p: Primitive, v: Val) -> bool decreases v {
    match v {
        Val::Null => p is Null,
        Val::Bool(b) => p matches Primitive::Boolean(x) && x == b,
        Val::Int(n) => p matches Primitive::Integer(x) && x == n,
        Val::Real(w) => p matches Primitive::Number(x) && f32_of(w) == Some(x),
        Val::Str(s) => p matches Primitive::String(x) && x.data@ == s,
        Val::Name(s) => p matches Primitive::Name(x) && x@ == s,
        Val::Arr(s) => p matches Primitive::Array(a) && a@.len() == s.len() && forall|i: int| 0 <= i < s.len() ==> rep(a@[i], #[trigger] s[i]),
        Val::Dict(m) => p matches Primitive::Dictionary(d) && d@.dom() == m.dom() && forall|k: Seq<u8>| m.dom().contains(k) ==> rep(d@[k], #[trigger] m[k]),
        Val::Ref(id, gen) => p matches Primitive::Reference(x) && x.id == id && x.gen == gen,
        Val::Stream(m, id, lo, hi) => p matches Primitive::Stream(s) && s.info@.dom() == m.dom() && (forall|k: Seq<u8>| m.dom().contains(k) ==> rep(s.info@[k], #[trigger] m[k]))
            && (s.inner matches StreamInner::InFile { id: i, file_range: fr } && i == id && fr.start == lo && fr.end == hi),
    }
}
pub open spec fn rep_map(dm: Map<Seq<u8>, Primitive>, m: Map<Seq<u8>, Val>) -> bool {
    dm.dom() == m.dom() && forall|k: Seq<u8>| m.dom().contains(k) ==> rep(dm[k], #[trigger] m[k])
}
pub open spec fn rep_dict(d: Dictionary, m: Map<Seq<u8>, Val>) -> bool { rep_map(d@, m) }
pub proof fn lemma_rep_map_insert(dm: Map<Seq<u8>, Primitive>, m: Map<Seq<u8>, Val>, k: Seq<u8>, p: Primitive, v: Val)
    ensures rep_map(dm, m) && rep(p, v) ==> rep_map(dm.insert(k, p), m.insert(k, v))
{
    if rep_map(dm, m) && rep(p, v) {
        assert(dm.insert(k, p).dom() =~= m.insert(k, v).dom());
        assert forall|j: Seq<u8>| m.insert(k, v).dom().contains(j) implies rep(dm.insert(k, p)[j], #[trigger] m.insert(k, v)[j]) by {
            if j != k { assert(m.dom().contains(j)); assert(rep(dm[j], m[j])); }
        }
    }
}
//@@ INCLUDE parser_obj/spec/r07_arr_prepend.rs
pub proof fn lemma_rep_seq_push(a: Seq<Primitive>, s: Seq<Val>, p: Primitive, v: Val)
    ensures rep_seq(a, s) && rep(p, v) ==> rep_seq(a.push(p), s.push(v))
{
    if rep_seq(a, s) && rep(p, v) {
        assert forall|i: int| 0 <= i < s.push(v).len() implies rep(a.push(p)[i], #[trigger] s.push(v)[i]) by {
            if i < s.len() { assert(rep(a[i], s[i])); }
        }
    }
}
//@@ INCLUDE parser_obj/spec/r08_str_lemmas.rs
pub open spec fn rep_seq(a: Seq<Primitive>, s: Seq<Val>) -> bool {
    a.len() == s.len() && forall|i: int| 0 <= i < s.len() ==> rep(a[i], #[trigger] s[i])
}

//@@ INCLUDE parser_obj/spec/r09_ctx_env.rs

//@@ INCLUDE parser_obj/spec/r10_objects.rs
/// the value demanded of a parse: the denoted value and the position just past it if the kind is allowed, else PrimitiveNotAllowed
pub open spec fn parse_post(x: Option<(Val, int)>, flags: ParseFlags, res: Result<Primitive>, fpos: int) -> bool {
    match x { None => true, Some(y) =>
        if allowed(flags, y.0) { res matches Ok(p) && rep(p, y.0) && fpos == y.1 } else { res matches Err(PdfError::PrimitiveNotAllowed) } }
}
//@@ INCLUDE parser_obj/spec/r11_indirect.rs

pub open spec fn env_of(lexer: &Lexer, ctx: Option<&Context>) -> Env {
    Env { buf: lexer.buf@, base: lexer.file_offset as int, ctx: ctxv(ctx) }
}


// =====================================================================================================
// extracted code
// =====================================================================================================
impl PdfString {
//@@ PdfString::new
}
impl Primitive {
// same text and contract as in units/ops (Primitive::into_name/name_only)
//@@ Primitive::into_name
}
impl<'a> Context<'a> {
//@@ Context::decrypt
}
//@@ integer_or_real
//@@ check
//@@ parse_with_lexer_ctx
//@@ _parse_with_lexer_ctx
//@@ parse_dictionary_object
//@@ parse_stream_object
//@@ parse_with_lexer
//@@ parse
//@@ parse_stream_with_lexer
//@@ parse_stream
//@@ parse_indirect_object
}
fn main(){}
