// BOUNDED native stand-in of units `parser_obj` / `lexer` / `strlex` for C03 on the REAL public API
// (placed at pdf/tests/verif_c03_spellings.rs by vlib/native.py). A test, not a proof: it decides restructurings of the
// object parser / lexers that the Verus units cannot read (UNDECIDED there) on an exhaustively enumerated small universe.
//
// Statement (C03): every CONFORMANT spelling (ISO 32000-1 7.2 - 7.3) parses to exactly the denoted value, and a sequence of
// spellings parses to the sequence (each parse consumes exactly its own text).
//
// Universe (the BOUND). Every expected value is written by hand in the token table below (never computed by crate code).
//   TOKENS (T = the table `tokens()`): integers (sign, leading zeros, i32 limits); reals `1.` `.5` `-.002` `+17.0` `00.50` ..;
//     names (every regular character class, `#xx` escapes incl. `#23`, `#20`, `#28#29`, two-byte UTF-8 through `#c3#a9`, the empty
//     name `/`); literal strings (every escape \n \r \t \b \f \( \) \\, \ddd with 1, 2, 3 digits, \377, \400 (overflow ignored), octal
//     followed by a digit, unknown escape, balanced nested parentheses, `%` and delimiters inside, line continuation backslash+CR / LF /
//     CRLF, raw EOL CR / CRLF / LF / LF CR); hex strings (empty, both cases, every white-space character inside, odd digit count);
//     true false null; references `12 0 R` with every separator inside; small nested arrays / dictionaries.
//   SEPARATORS (S = `seps()`): nothing (only where two tokens need no separator: one of them ends / starts with a delimiter), each
//     white-space character NUL HT LF FF CR SP, CR LF, two blanks, comments `%c` ended by LF, CR, CRLF, an empty comment, a comment
//     holding delimiters `( [ << /x )`, a comment framed by blanks.
//   CONTEXTS: (Q) top-level sequence, parsed with ONE lexer by repeated parse_with_lexer: values in order, after each parse the lexer
//     stands between the end of that token and the start of the next, nothing but white-space/comments is left at the end;
//     (A) array `[ t1 t2 t3 ]`; (D) dictionary `<< /K1 t1 /K#32 t2 /K3 t3 >>` (keys spelled with and without escapes).
//   ENUMERATION: all single tokens x all S^2 (before, after) x Q A D;  all ordered PAIRS of T x all S (one separator used in every gap)
//     x Q A D, and all pairs x all (s1, s2) of S x S alternating through the gaps in context A;  all ordered TRIPLES over the
//     representative subset R (one or two tokens per class, `core: true`) x all S x Q A D.
//   Streams: `7 0 obj <<..>> stream EOL data endstream endobj` with every white-space separator before the keyword and LF / CRLF after it
//     (family `streams`). EXCLUDED, known finding DEV_STREAM_KEYWORD_COMMENT_NOT_SKIPPED (/verif/known_findings.txt): a COMMENT between the
//     dictionary and the keyword `stream`.
//   Names whose bytes are not UTF-8 are outside (Name is a `str`: implementation limit stated in units/parser_obj/NOTES.md).
use pdf::object::{NoResolve, PlainRef};
use pdf::parser::{parse, parse_indirect_object, parse_with_lexer, Lexer, ParseFlags};
use pdf::primitive::{Dictionary, PdfString, Primitive};
use std::panic::{catch_unwind, AssertUnwindSafe};

#[derive(Clone)]
struct Tok { text: Vec<u8>, val: Primitive, core: bool }

fn int(i: i32) -> Primitive { Primitive::Integer(i) }
fn real(x: f32) -> Primitive { Primitive::Number(x) }
fn name(s: &str) -> Primitive { Primitive::Name(s.into()) }
fn string(b: &[u8]) -> Primitive { Primitive::String(PdfString::new(b.into())) }
fn rf(id: u64, gen: u64) -> Primitive { Primitive::Reference(PlainRef { id, gen }) }
fn arr(v: Vec<Primitive>) -> Primitive { Primitive::Array(v) }
fn dict(e: Vec<(&str, Primitive)>) -> Primitive {
    let mut d = Dictionary::new();
    for (k, v) in e { d.insert(k, v); }
    Primitive::Dictionary(d)
}

fn tokens() -> Vec<Tok> {
    let mut t: Vec<Tok> = Vec::new();
    let mut add = |text: &[u8], val: Primitive, core: bool| t.push(Tok { text: text.to_vec(), val, core });
    // integers (7.3.3)
    add(b"0", int(0), false);
    add(b"123", int(123), true);
    add(b"+17", int(17), true);
    add(b"-98", int(-98), false);
    add(b"007", int(7), true);
    add(b"-0", int(0), false);
    add(b"+0012", int(12), false);
    add(b"2147483647", int(2147483647), false);
    add(b"-2147483648", int(-2147483648), false);
    // reals
    add(b"34.5", real(34.5), false);
    add(b"-3.62", real(-3.62), false);
    add(b"+123.6", real(123.6), false);
    add(b"4.", real(4.0), true);
    add(b"1.", real(1.0), false);
    add(b".5", real(0.5), true);
    add(b"-.002", real(-0.002), true);
    add(b"+17.0", real(17.0), false);
    add(b"0.0", real(0.0), false);
    add(b"00.50", real(0.5), false);
    add(b"-4.", real(-4.0), false);
    add(b"+.25", real(0.25), false);
    // names (7.3.5)
    add(b"/Name1", name("Name1"), true);
    add(b"/ASomewhatLongerName", name("ASomewhatLongerName"), false);
    add(b"/A;Name_With-Various***Characters?", name("A;Name_With-Various***Characters?"), false);
    add(b"/1.2", name("1.2"), false);
    add(b"/$$", name("$$"), false);
    add(b"/@pattern", name("@pattern"), false);
    add(b"/.notdef", name(".notdef"), false);
    add(b"/Lime#20Green", name("Lime Green"), false);
    add(b"/paired#28#29parentheses", name("paired()parentheses"), false);
    add(b"/The_Key_of_F#23_Minor", name("The_Key_of_F#_Minor"), true);
    add(b"/A#42", name("AB"), false);
    add(b"/#23", name("#"), true);
    add(b"/#2F#25#5b#5D", name("/%[]"), false);
    add(b"/caf#c3#a9", name("caf\u{e9}"), false);
    add(b"/", name(""), false);
    add(b"/true", name("true"), false);
    add(b"/R", name("R"), false);
    // literal strings (7.3.4.2)
    add(b"()", string(b""), false);
    add(b"(This is a string)", string(b"This is a string"), true);
    add(b"(a\\nb)", string(b"a\nb"), false);
    add(b"(a\\rb)", string(b"a\rb"), false);
    add(b"(a\\tb)", string(b"a\tb"), false);
    add(b"(a\\bb)", string(b"a\x08b"), false);
    add(b"(a\\fb)", string(b"a\x0cb"), false);
    add(b"(a\\(b)", string(b"a(b"), false);
    add(b"(a\\)b)", string(b"a)b"), true);
    add(b"(a\\\\b)", string(b"a\\b"), false);
    add(b"(\\\\)", string(b"\\"), false);
    add(b"(\\n\\r\\t\\b\\f\\(\\)\\\\)", string(b"\n\r\t\x08\x0c()\\"), false);
    add(b"(\\0)", string(b"\0"), false);
    add(b"(\\7x)", string(b"\x07x"), false);
    add(b"(\\53)", string(b"+"), false);
    add(b"(\\053)", string(b"+"), false);
    add(b"(\\0053)", string(b"\x053"), true);
    add(b"(\\128)", string(b"\n8"), false);
    add(b"(\\19)", string(b"\x019"), false);
    add(b"(\\245\\307)", string(b"\xa5\xc7"), false);
    add(b"(\\377)", string(b"\xff"), false);
    add(b"(\\200\\1\\12\\123)", string(b"\x80\x01\x0aS"), false);
    add(b"(\\400)", string(b"\0"), false);
    add(b"(\\777)", string(b"\xff"), false);
    add(b"(a\\qb)", string(b"aqb"), false);
    add(b"(a(b)c)", string(b"a(b)c"), false);
    add(b"(a(b(c))d)", string(b"a(b(c))d"), true);
    add(b"(())", string(b"()"), false);
    add(b"(()())", string(b"()()"), false);
    add(b"(a%b)", string(b"a%b"), false);
    add(b"(<<>>[]{}/ % 1 0 R)", string(b"<<>>[]{}/ % 1 0 R"), true);
    add(b"(a\\\rb)", string(b"ab"), false);
    add(b"(a\\\nb)", string(b"ab"), false);
    add(b"(a\\\r\nb)", string(b"ab"), true);
    add(b"(a\\\n\\\nb)", string(b"ab"), false);
    add(b"(a\\\n\nb)", string(b"a\nb"), false);
    add(b"(a\\\n\rb)", string(b"a\nb"), false);
    add(b"(a\rb)", string(b"a\nb"), false);
    add(b"(a\r\nb)", string(b"a\nb"), true);
    add(b"(a\nb)", string(b"a\nb"), false);
    add(b"(a\n\rb)", string(b"a\n\nb"), false);
    add(b"(a\r\rb)", string(b"a\n\nb"), false);
    add(b"(a\r\n\r\nb)", string(b"a\n\nb"), false);
    add(b"(\r)", string(b"\n"), false);
    add(b"(a\0\t\x0c b)", string(b"a\0\t\x0c b"), false);
    add(b"(\x80\xff)", string(b"\x80\xff"), false);
    // hexadecimal strings (7.3.4.3)
    add(b"<>", string(b""), false);
    add(b"<41>", string(b"A"), false);
    add(b"<4E6F762073686D6F7A206B6120706F702E>", string(b"Nov shmoz ka pop."), true);
    add(b"<aBcD>", string(b"\xab\xcd"), false);
    add(b"<901FA3>", string(b"\x90\x1f\xa3"), false);
    add(b"<901FA>", string(b"\x90\x1f\xa0"), true);
    add(b"<4>", string(b"\x40"), false);
    add(b"<4 1>", string(b"A"), false);
    add(b"< 41\n42\r\n4 3\t44\x0c45\x0046 >", string(b"ABCDEF"), true);
    add(b"<\n>", string(b""), false);
    add(b"<4 1 4>", string(b"A\x40"), false);
    // keywords
    add(b"true", Primitive::Boolean(true), true);
    add(b"false", Primitive::Boolean(false), false);
    add(b"null", Primitive::Null, true);
    // references (7.3.10)
    add(b"12 0 R", rf(12, 0), true);
    add(b"1 2 R", rf(1, 2), false);
    add(b"0 65535 R", rf(0, 65535), false);
    add(b"007 00 R", rf(7, 0), false);
    add(b"12\n0\rR", rf(12, 0), false);
    add(b"12\x000\x0cR", rf(12, 0), false);
    add(b"12%c\n0%c\rR", rf(12, 0), true);
    add(b"12\t\t0 %x\r\n R", rf(12, 0), false);
    // containers (7.3.6, 7.3.7)
    add(b"[]", arr(vec![]), true);
    add(b"[[]]", arr(vec![arr(vec![])]), false);
    add(b"[1 2 3 0 R 4]", arr(vec![int(1), int(2), rf(3, 0), int(4)]), true);
    add(b"[549 3.14 false(Ralph)/SomeName]", arr(vec![int(549), real(3.14), Primitive::Boolean(false), string(b"Ralph"), name("SomeName")]), false);
    add(b"[1 0 R 2 0 R]", arr(vec![rf(1, 0), rf(2, 0)]), false);
    add(b"[1 0 0 R]", arr(vec![int(1), rf(0, 0)]), false);
    add(b"<<>>", dict(vec![]), true);
    add(b"<</A 1>>", dict(vec![("A", int(1))]), false);
    add(b"<</Type/Example/Sub<</V .5/S(x)>>/L[1 2]/R 3 0 R>>", dict(vec![("Type", name("Example")),
        ("Sub", dict(vec![("V", real(0.5)), ("S", string(b"x"))])), ("L", arr(vec![int(1), int(2)])), ("R", rf(3, 0))]), true);
    add(b"<</A/B/C/D>>", dict(vec![("A", name("B")), ("C", name("D"))]), false);
    add(b"<</K<41>/L<<>>>>", dict(vec![("K", string(b"A")), ("L", dict(vec![]))]), false);
    t
}

fn seps() -> Vec<&'static [u8]> {
    vec![b"", b"\0", b"\t", b"\n", b"\x0c", b"\r", b" ", b"\r\n", b"  ", b"%c\n", b"%c\r", b"%c\r\n", b"%\n", b"% ( [ << /x ) > 1 0 R\n", b" %c \n ",
         b"\n%a\r%b\n"]
}

fn is_delim(c: u8) -> bool { matches!(c, b'(' | b')' | b'<' | b'>' | b'[' | b']' | b'{' | b'}' | b'/' | b'%') }
/// May `a` and `b` be written next to each other with the separator `s`? (7.2.2: tokens are delimited by white-space or delimiters)
fn sep_ok(a: &[u8], s: &[u8], b: &[u8]) -> bool {
    if !s.is_empty() { return true; }
    match (a.last(), b.first()) { // (a solidus at the END of `a` is the empty name: it would swallow the regular characters of `b`)
        (Some(&x), Some(&y)) => (is_delim(x) && x != b'/') || is_delim(y), _ => true }
}

fn show(b: &[u8]) -> String { b.iter().map(|&c| std::ascii::escape_default(c).to_string()).collect() }

struct Fails { n: usize, checked: usize, shown: Vec<String> }
impl Fails {
    fn new() -> Fails { Fails { n: 0, checked: 0, shown: Vec::new() } }
    fn push(&mut self, s: String) {
        self.n += 1;
        if self.shown.len() < 6 {
            let mut t: String = s.replace('\n', " ");
            if t.len() > 420 { let mut cut = 420; while !t.is_char_boundary(cut) { cut -= 1; } t.truncate(cut); t.push_str(" ..."); }
            self.shown.push(t);
        }
    }
    fn finish(self, what: &str) {
        if self.n > 0 {
            panic!("C03 bounded spellings `{}`: {} of {} texts do not parse to the denoted value; first ones:\n  {}", what, self.n, self.checked, self.shown.join("\n  "));
        }
        println!("{}: {} texts checked", what, self.checked);
    }
}

fn same(a: &Primitive, b: &Primitive) -> bool {
    match (a, b) {
        (Primitive::Number(x), Primitive::Number(y)) => x.to_bits() == y.to_bits() || (*x == 0.0 && *y == 0.0),
        (Primitive::Array(x), Primitive::Array(y)) => x.len() == y.len() && x.iter().zip(y).all(|(p, q)| same(p, q)),
        (Primitive::Dictionary(x), Primitive::Dictionary(y)) => x.len() == y.len() && x.iter().all(|(k, v)| y.get(k.as_str()).map_or(false, |w| same(v, w))),
        _ => a == b,
    }
}

/// context A / D: one text, one value
fn check_one(text: &[u8], want: &Primitive, f: &mut Fails) {
    f.checked += 1;
    match catch_unwind(AssertUnwindSafe(|| parse(text, &NoResolve, ParseFlags::ANY))) {
        Err(_) => f.push(format!("parse(b\"{}\") PANICKED", show(text))),
        Ok(Err(e)) => f.push(format!("parse(b\"{}\") = Err({:?}), expected {:?}", show(text), e, want)),
        Ok(Ok(got)) => if !same(&got, want) { f.push(format!("parse(b\"{}\") = {:?}, expected {:?}", show(text), got, want)) },
    }
}

/// context Q: `parts` = (start, end, value) of every token inside `text`
fn check_seq(text: &[u8], parts: &[(usize, usize, &Primitive)], f: &mut Fails) {
    f.checked += 1;
    let r = catch_unwind(AssertUnwindSafe(|| {
        let mut lexer = Lexer::new(text);
        for (i, &(_start, end, want)) in parts.iter().enumerate() {
            match parse_with_lexer(&mut lexer, &NoResolve, ParseFlags::ANY) {
                Err(e) => return Err(format!("value {} is Err({:?}), expected {:?}", i + 1, e, want)),
                Ok(got) => if !same(&got, want) { return Err(format!("value {} is {:?}, expected {:?}", i + 1, got, want)) },
            }
            let pos = lexer.get_pos();
            let next_start = parts.get(i + 1).map_or(text.len(), |p| p.0);
            if pos < end || pos > next_start {
                return Err(format!("after value {} the lexer stands at {} (its text ends at {}, the next token starts at {})", i + 1, pos, end, next_start));
            }
        }
        match parse_with_lexer(&mut lexer, &NoResolve, ParseFlags::ANY) {
            Ok(extra) => Err(format!("a value {:?} is read behind the last token", extra)),
            Err(_) => Ok(()),
        }
    }));
    match r {
        Err(_) => f.push(format!("sequence b\"{}\" PANICKED", show(text))),
        Ok(Err(m)) => f.push(format!("sequence b\"{}\": {}", show(text), m)),
        Ok(Ok(())) => {}
    }
}

const KEYS: [(&[u8], &str); 3] = [(b"/K1", "K1"), (b"/K#32", "K2"), (b"/#4b3", "K3")];

/// Builds and checks the three contexts for the tokens `ts` with gap separators g[0] (before the first), g[1].., g[last] (behind the last);
/// the gaps cycle through `g`. Skips the text when an empty separator would fuse two tokens.
fn check_contexts(ts: &[&Tok], g: &[&[u8]], ctx: &str, f: &mut Fails) {
    let gap = |i: usize| g[i % g.len()];
    // Q
    if ctx.contains('Q') {
        let mut text = Vec::new();
        let mut parts = Vec::new();
        let mut ok = true;
        text.extend_from_slice(gap(0));
        for (i, t) in ts.iter().enumerate() {
            if i > 0 {
                if !sep_ok(&ts[i - 1].text, gap(i), &t.text) { ok = false; break; }
                text.extend_from_slice(gap(i));
            }
            let s = text.len();
            text.extend_from_slice(&t.text);
            parts.push((s, text.len(), &t.val));
        }
        if ok {
            text.extend_from_slice(gap(ts.len()));
            check_seq(&text, &parts, f);
        }
    }
    // A
    if ctx.contains('A') {
        let mut text = b"[".to_vec();
        let mut ok = true;
        let mut prev: &[u8] = b"[";
        for (i, t) in ts.iter().enumerate() {
            if !sep_ok(prev, gap(i), &t.text) { ok = false; break; }
            text.extend_from_slice(gap(i));
            text.extend_from_slice(&t.text);
            prev = &t.text;
        }
        if ok {
            text.extend_from_slice(gap(ts.len()));
            text.push(b']');
            check_one(&text, &arr(ts.iter().map(|t| t.val.clone()).collect()), f);
        }
    }
    // D
    if ctx.contains('D') {
        let mut text = b"<<".to_vec();
        let mut d = Dictionary::new();
        let mut ok = true;
        let mut k = 0;
        for (i, t) in ts.iter().enumerate() {
            text.extend_from_slice(gap(k)); k += 1;
            text.extend_from_slice(KEYS[i].0);
            if !sep_ok(KEYS[i].0, gap(k), &t.text) { ok = false; break; }
            text.extend_from_slice(gap(k)); k += 1;
            text.extend_from_slice(&t.text);
            d.insert(KEYS[i].1, t.val.clone());
            // the next thing is `/K..` or `>>`: both start with a delimiter, any separator is fine
        }
        if ok {
            text.extend_from_slice(gap(k));
            text.extend_from_slice(b">>");
            check_one(&text, &Primitive::Dictionary(d), f);
        }
    }
}

/// the panics caught per text stay silent; the final verdict of a test (its message starts with `C03 bounded`) is printed
fn quiet() {
    std::panic::set_hook(Box::new(|info| {
        let m = info.payload().downcast_ref::<String>().cloned().or_else(|| info.payload().downcast_ref::<&str>().map(|s| s.to_string())).unwrap_or_default();
        if m.starts_with("C03 bounded") || m.starts_with("only ") { eprintln!("{}", m); }
    }));
}

#[test]
fn singles_every_separator_pair() {
    quiet();
    let (t, s) = (tokens(), seps());
    let mut f = Fails::new();
    for a in &t { for s0 in &s { for s1 in &s { check_contexts(&[a], &[s0, s1], "QAD", &mut f); } } }
    assert!(f.checked > 50_000 || f.n > 0, "only {} texts", f.checked);
    f.finish("single tokens x S x S x {Q,A,D}");
}

#[test]
fn pairs_every_separator() {
    quiet();
    let (t, s) = (tokens(), seps());
    let mut f = Fails::new();
    for a in &t { for b in &t {
        for s0 in &s { check_contexts(&[a, b], &[s0], "QAD", &mut f); }
        for s0 in &s { for s1 in &s { if s0 != s1 { check_contexts(&[a, b], &[s0, s1], "A", &mut f); } } }
    } }
    assert!(f.checked > 1_000_000 || f.n > 0, "only {} texts", f.checked);
    f.finish("pairs T x T x (S x {Q,A,D} + S x S x {A})");
}

#[test]
fn triples_core_tokens_every_separator() {
    quiet();
    let t: Vec<Tok> = tokens().into_iter().filter(|t| t.core).collect();
    let s = seps();
    let mut f = Fails::new();
    for a in &t { for b in &t { for c in &t { for s0 in &s { check_contexts(&[a, b, c], &[s0], "QAD", &mut f); } } } }
    assert!(f.checked > 500_000 || f.n > 0, "only {} texts", f.checked);
    f.finish("triples R x R x R x S x {Q,A,D}");
}

#[test]
fn streams_lf_or_crlf_after_keyword() {
    quiet();
    let mut f = Fails::new();
    let ws: [&[u8]; 9] = [b"", b"\0", b"\t", b"\n", b"\x0c", b"\r", b" ", b"\r\n", b" \n "];
    for dict_text in [&b"<</Length 5>>"[..], b"<< /Length 5 /K (x) >>", b"<</Length\n5%c\n>>"] {
        for before in ws { for eol in [&b"\n"[..], b"\r\n"] { for tail in [&b"\n"[..], b"\r\n", b"\r", b""] {
            for data in [&b"HELLO"[..], b"\r\nAB\n", b"endst", b"\n\n\n\n\n"] {
                let mut text = b"7 0 obj\n".to_vec();
                text.extend_from_slice(dict_text);
                text.extend_from_slice(before);
                text.extend_from_slice(b"stream");
                text.extend_from_slice(eol);
                let start = text.len();
                text.extend_from_slice(data);
                text.extend_from_slice(tail);
                text.extend_from_slice(b"endstream\nendobj\n");
                f.checked += 1;
                let r = catch_unwind(AssertUnwindSafe(|| parse_indirect_object(&mut Lexer::new(&text), &NoResolve, None, ParseFlags::ANY)));
                match r {
                    Err(_) => f.push(format!("b\"{}\" PANICKED", show(&text))),
                    Ok(Err(e)) => f.push(format!("b\"{}\" = Err({:?})", show(&text), e)),
                    Ok(Ok((id, Primitive::Stream(s)))) => {
                        let dbg = format!("{:?}", s);
                        let want = format!("file_range: {}..{}", start, start + 5);
                        if id != (PlainRef { id: 7, gen: 0 }) || !dbg.contains(&want) || s.info.get("Length") != Some(&int(5)) {
                            f.push(format!("b\"{}\": stream data is {} (expected file range {}), id {:?}", show(&text), dbg, want, id));
                        }
                    }
                    Ok(Ok((_, other))) => f.push(format!("b\"{}\" = {:?}, expected a stream", show(&text), other)),
                }
            } } }
        }
    }
    f.finish("streams: white-space before the keyword x LF / CRLF after it");
}
