// =====================================================================================================
// ISO 32000-1 7.2: tokens (same functions as unit `lexer`; the deviations repaired in /repo are gone)
// =====================================================================================================
pub open spec fn is_ws(b: u8) -> bool { b == 0 || b == 9 || b == 10 || b == 12 || b == 13 || b == 32 }
pub open spec fn is_delim(b: u8) -> bool { b == 40 || b == 41 || b == 60 || b == 62 || b == 91 || b == 93 || b == 123 || b == 125 || b == 47 || b == 37 }
pub open spec fn is_reg(b: u8) -> bool { !is_ws(b) && !is_delim(b) }
pub open spec fn is_eol(b: u8) -> bool { b == 10 || b == 13 }
pub open spec fn ws_end(buf: Seq<u8>, p: int) -> int decreases buf.len() - p {
    if 0 <= p < buf.len() && is_ws(buf[p]) { ws_end(buf, p + 1) } else { p }
}
pub open spec fn reg_end(buf: Seq<u8>, p: int) -> int decreases buf.len() - p {
    if 0 <= p < buf.len() && is_reg(buf[p]) { reg_end(buf, p + 1) } else { p }
}
pub open spec fn eol_after(buf: Seq<u8>, p: int) -> Option<int> decreases buf.len() - p {
    if p < 0 || p >= buf.len() { None } else if is_eol(buf[p]) { Some(p + 1) } else { eol_after(buf, p + 1) }
}
pub open spec fn token_start(buf: Seq<u8>, p: int) -> Option<int> decreases buf.len() - p {
    let q = ws_end(buf, p);
    if p < 0 || q < p || q >= buf.len() { None }
    else if buf[q] == 37 {
        match eol_after(buf, q + 1) {
            Some(e) => if p < e <= buf.len() { token_start(buf, e) } else { None },
            None => None,
        }
    } else { Some(q) }
}
pub open spec fn token_end(buf: Seq<u8>, s: int) -> int {
    if is_delim(buf[s]) {
        if buf[s] == 47 { reg_end(buf, s + 1) }
        else if s + 1 < buf.len() && ((buf[s] == 60 && buf[s+1] == 60) || (buf[s] == 62 && buf[s+1] == 62)) { s + 2 }
        else { s + 1 }
    } else { reg_end(buf, s) }
}
// 7.3.8.1 (unit `lexer`)
pub open spec fn stream_data_start(buf: Seq<u8>, k: int) -> Option<int> {
    if k + 6 < buf.len() && buf[k + 6] == 10 { Some(k + 7) }
    else if k + 7 < buf.len() && buf[k + 6] == 13 && buf[k + 7] == 10 { Some(k + 8) }
    else { None }
}
pub open spec fn stream_kw_pos(buf: Seq<u8>, p: int) -> Option<int> {
    if DEV_STREAM_KEYWORD_COMMENT_NOT_SKIPPED() { let q = ws_end(buf, p); if p <= q < buf.len() { Some(q) } else { None } }
    else { match tok(buf, p) { Some(t) => Some(t.0), None => None } }
}
// 7.3.3 numbers
pub open spec fn digit(b: u8) -> bool { 48 <= b <= 57 }
pub open spec fn all_digits(s: Seq<u8>) -> bool { forall|i: int| 0 <= i < s.len() ==> digit(#[trigger] s[i]) }
pub open spec fn sign_len(s: Seq<u8>) -> int { if s.len() > 0 && (s[0] == 45 || s[0] == 43) { 1 } else { 0 } }
pub open spec fn is_int_lit(s: Seq<u8>) -> bool {
    let k = sign_len(s);
    s.len() > k && all_digits(s.subrange(k, s.len() as int))
}
pub open spec fn is_ureal(t: Seq<u8>) -> bool {
    all_digits(t) && t.len() > 0
    || exists|i: int| 0 <= i < t.len() && #[trigger] t[i] == 46 && all_digits(t.subrange(0, i)) && all_digits(t.subrange(i + 1, t.len() as int))
        && (t.len() > 1 || DEV_LONE_DOT_IS_REAL())
}
pub open spec fn is_real_lit(s: Seq<u8>) -> bool { is_ureal(s.subrange(sign_len(s), s.len() as int)) }
/// the ISO-exact reading (no tolerance): what the value spec uses
pub open spec fn is_real_iso(s: Seq<u8>) -> bool {
    let t = s.subrange(sign_len(s), s.len() as int);
    all_digits(t) && t.len() > 0
    || exists|i: int| 0 <= i < t.len() && #[trigger] t[i] == 46 && all_digits(t.subrange(0, i)) && all_digits(t.subrange(i + 1, t.len() as int)) && t.len() > 1
}

/// the next token at or after p: (first byte, one past the last byte)
pub open spec fn tok(buf: Seq<u8>, p: int) -> Option<(int, int)> {
    match token_start(buf, p) { Some(s) => Some((s, token_end(buf, s))), None => None }
}

pub proof fn lemma_ws_end(buf: Seq<u8>, p: int)
    requires 0 <= p <= buf.len()
    ensures p <= ws_end(buf, p) <= buf.len()
    decreases buf.len() - p
{ if p < buf.len() && is_ws(buf[p]) { lemma_ws_end(buf, p + 1); } }
pub proof fn lemma_reg_end(buf: Seq<u8>, p: int)
    requires 0 <= p <= buf.len()
    ensures p <= reg_end(buf, p) <= buf.len()
    decreases buf.len() - p
{ if p < buf.len() && is_reg(buf[p]) { lemma_reg_end(buf, p + 1); } }
pub proof fn lemma_eol_bound(buf: Seq<u8>, p: int)
    requires 0 <= p
    ensures eol_after(buf, p) matches Some(e) ==> p < e <= buf.len()
    decreases buf.len() - p
{ if p < buf.len() && !is_eol(buf[p]) { lemma_eol_bound(buf, p + 1); } }
/// a token starts at or after p, is not white-space, not the start of a comment, and is at least one byte long
pub proof fn lemma_tok(buf: Seq<u8>, p: int)
    requires 0 <= p <= buf.len()
    ensures tok(buf, p) matches Some((s, t)) ==> p <= s < t <= buf.len() && !is_ws(buf[s]) && buf[s] != 37
    decreases buf.len() - p
{
    lemma_ws_end(buf, p);
    let q = ws_end(buf, p);
    if q < buf.len() {
        if buf[q] == 37 {
            lemma_eol_bound(buf, q + 1);
            match eol_after(buf, q + 1) { Some(e) => { if p < e <= buf.len() { lemma_tok(buf, e); } }, None => {} }
        } else {
            lemma_ws_stop(buf, p);
            lemma_reg_end(buf, q + 1);
            if !is_delim(buf[q]) { assert(is_reg(buf[q])); assert(reg_end(buf, q) == reg_end(buf, q + 1)); }
        }
    }
}
pub proof fn lemma_ws_stop(buf: Seq<u8>, p: int)
    requires 0 <= p <= buf.len()
    ensures ws_end(buf, p) < buf.len() ==> !is_ws(buf[ws_end(buf, p)])
    decreases buf.len() - p
{ if p < buf.len() && is_ws(buf[p]) { lemma_ws_stop(buf, p + 1); } }
/// white-space only up to the end of the data: no token
pub proof fn lemma_no_tok_after_ws(buf: Seq<u8>, p: int)
    requires 0 <= p <= buf.len(), forall|i: int| p <= i < buf.len() ==> is_ws(buf[i])
    ensures token_start(buf, p) is None
    decreases buf.len() - p
{
    if p < buf.len() { lemma_no_tok_after_ws(buf, p + 1); assert(ws_end(buf, p) == ws_end(buf, p + 1)); lemma_ws_end(buf, p + 1); lemma_ws_stop(buf, p + 1); }
}

pub broadcast proof fn b_tok(buf: Seq<u8>, p: int)
    requires 0 <= p <= buf.len()
    ensures match #[trigger] tok(buf, p) { Some(t) => p <= t.0 < t.1 <= buf.len() && !is_ws(buf[t.0]) && buf[t.0] != 37, None => true }
{ lemma_tok(buf, p); }
pub broadcast proof fn b_ws_end(buf: Seq<u8>, p: int)
    requires 0 <= p <= buf.len()
    ensures p <= #[trigger] ws_end(buf, p) <= buf.len()
{ lemma_ws_end(buf, p); }
/// a real literal (7.3.3, with the tolerances of unit lexer) starts with a digit, a point or a sign
pub broadcast proof fn b_real_first(s: Seq<u8>)
    ensures #[trigger] is_real_lit(s) ==> s.len() > 0 && (digit(s[0]) || s[0] == 46 || s[0] == 45 || s[0] == 43)
{
    if is_real_lit(s) {
        let k = sign_len(s);
        let t = s.subrange(k, s.len() as int);
        if k == 0 {
            assert(t =~= s);
            if all_digits(t) && t.len() > 0 { assert(digit(t[0])); }
            else {
                let i = choose|i: int| 0 <= i < t.len() && #[trigger] t[i] == 46 && all_digits(t.subrange(0, i)) && all_digits(t.subrange(i + 1, t.len() as int)) && (t.len() > 1 || DEV_LONE_DOT_IS_REAL());
                if i > 0 { assert(digit(t.subrange(0, i)[0])); }
            }
        }
    }
}
pub proof fn lemma_real_iso_is_lit(s: Seq<u8>)
    ensures is_real_iso(s) ==> is_real_lit(s)
{
    let t = s.subrange(sign_len(s), s.len() as int);
    if is_real_iso(s) && !(all_digits(t) && t.len() > 0) {
        let i = choose|i: int| 0 <= i < t.len() && #[trigger] t[i] == 46 && all_digits(t.subrange(0, i)) && all_digits(t.subrange(i + 1, t.len() as int)) && t.len() > 1;
        assert(t[i] == 46);
    }
}
/// `starts_with(b"/")` says the first byte is a SOLIDUS
pub proof fn lemma_starts_slash(w: Seq<u8>)
    ensures (w.len() >= 1 && w.subrange(0, 1) == K_SLASH()) <==> (w.len() > 0 && w[0] == 47), K_SLASH().len() == 1
{
    reveal(K_SLASH);
    if w.len() >= 1 {
        if w.subrange(0, 1) == K_SLASH() { assert(w.subrange(0, 1)[0] == 47); }
        if w[0] == 47 { assert(w.subrange(0, 1) =~= K_SLASH()); }
    }
}
pub proof fn lemma_flag_bits(f: u16)
    ensures (f & 513 != 0) <==> (f & 1 != 0 || f & 512 != 0), (1u16 | 512u16) == 513u16
{
    assert((f & 513 != 0) <==> (f & 1 != 0 || f & 512 != 0)) by (bit_vector);
    assert((1u16 | 512u16) == 513u16) by (bit_vector);
}
pub proof fn lemma_nibbles(h: u8, l: u8)
    ensures h < 16 && l < 16 ==> (l | h << 4) == (h * 16 + l) as u8
{
    assert(h < 16 && l < 16 ==> (l | h << 4) == (h * 16 + l) as u8) by (bit_vector);
}