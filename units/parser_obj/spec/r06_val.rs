// =====================================================================================================
// ISO 32000-1 7.3: objects.  `Val` is the denoted value; `rep(p, v)`: the Primitive p represents v.
// =====================================================================================================
pub enum Val {
    Null,
    Bool(bool),
    Int(int),
    Real(Seq<u8>),                                   // the literal; its value is f32_of(literal)
    Str(Seq<u8>),
    Name(Seq<u8>),
    Arr(Seq<Val>),
    Dict(Map<Seq<u8>, Val>),
    Ref(int, int),                                   // object number, generation number
    Stream(Map<Seq<u8>, Val>, PlainRef, int, int),   // dictionary, id of the indirect object, file range of the data
}