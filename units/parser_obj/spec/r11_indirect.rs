/// parse_stream_with_lexer: `<< .. >>` (strings inside are not decrypted: the dictionary is read without a context),
/// keyword stream, data, endstream
pub open spec fn stream_obj_at<R: Resolve>(r: &R, buf: Seq<u8>, base: int, id: PlainRef, p: int) -> Option<(Val, int)> {
    match tok(buf, p) { None => None, Some(t1) =>
        if buf.subrange(t1.0, t1.1) != K_LTLT() { None } else {
        match dict_at(r, Env { buf, base, ctx: None }, t1.1, 20, Map::<Seq<u8>, Val>::empty()) { None => None, Some(x) =>
            if tok(buf, x.1) matches Some(t2) && buf.subrange(t2.0, t2.1) == K_STREAM() {
                stream_at(r, Env { buf, base, ctx: Some(CtxV { dec: None, id }) }, x.0, x.1) } else { None } } } }
}
pub open spec fn opt_deref(d: Option<&Decoder>) -> Option<Decoder> { match d { Some(x) => Some(*x), None => None } }
/// 7.3.10 indirect object: `n g obj <object> endobj`; result: (id, value, end of the value, token after the value)
pub open spec fn indirect_at<R: Resolve>(r: &R, buf: Seq<u8>, base: int, dec: Option<Decoder>, p: int) -> Option<(PlainRef, Val, int, Option<(int, int)>)> {
    match tok(buf, p) { None => None, Some(t1) =>
    match <u64 as FromDec>::dec(buf.subrange(t1.0, t1.1)) { None => None, Some(id) =>
    match tok(buf, t1.1) { None => None, Some(t2) =>
    match <u64 as FromDec>::dec(buf.subrange(t2.0, t2.1)) { None => None, Some(gen) =>
    match tok(buf, t2.1) { None => None, Some(t3) =>
        if buf.subrange(t3.0, t3.1) != K_OBJ() { None } else {
        let pr = PlainRef { id, gen };
        match obj_at(r, Env { buf, base, ctx: Some(CtxV { dec, id: pr }) }, t3.1, 20) { None => None, Some(x) =>
            Some((pr, x.0, x.1, tok(buf, x.1))) } } } } } } }
}
pub open spec fn is_endobj(buf: Seq<u8>, t: Option<(int, int)>) -> bool {
    t matches Some(t4) && buf.subrange(t4.0, t4.1) == K_ENDOBJ()
}