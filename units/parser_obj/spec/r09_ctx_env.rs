/// the (ghost) view of the context of an indirect object: decoder and id
pub struct CtxV { pub dec: Option<Decoder>, pub id: PlainRef }
pub open spec fn ctxv(c: Option<&Context>) -> Option<CtxV> {
    match c { Some(x) => Some(CtxV { dec: match x.decoder { Some(d) => Some(*d), None => None }, id: x.id }), None => None }
}
/// C06 placement: a string is decrypted once, with the key of the enclosing indirect object, only when there is a decoder
pub open spec fn ctx_decrypt(c: Option<CtxV>, s: Seq<u8>) -> Option<Seq<u8>> {
    match c { None => Some(s), Some(x) => match x.dec { None => Some(s), Some(d) => decrypt_spec(d, x.id, s) } }
}
/// what the parser works on: the data, the file offset of its first byte, the context
pub struct Env { pub buf: Seq<u8>, pub base: int, pub ctx: Option<CtxV> }