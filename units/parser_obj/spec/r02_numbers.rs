/// value of a non-empty string of ASCII digits
pub open spec fn dec_digits(s: Seq<u8>) -> Option<nat>
    decreases s.len()
{
    if s.len() == 0 { None }
    else if !(0x30 <= s.last() <= 0x39) { None }
    else if s.len() == 1 { Some((s.last() - 0x30) as nat) }
    else { match dec_digits(s.drop_last()) { None => None, Some(v) => Some(v * 10 + (s.last() - 0x30) as nat) } }
}
/// `str::parse::<uN>()`: optional '+', at least one digit
pub open spec fn dec_unsigned(s: Seq<u8>) -> Option<int> {
    let body = if s.len() > 0 && s[0] == 0x2b { s.subrange(1, s.len() as int) } else { s };
    match dec_digits(body) { Some(v) => Some(v as int), None => None }
}
/// `str::parse::<iN>()`: optional '+' or '-', at least one digit
pub open spec fn dec_signed(s: Seq<u8>) -> Option<int> {
    if s.len() > 0 && s[0] == 0x2d { match dec_digits(s.subrange(1, s.len() as int)) { Some(v) => Some(-(v as int)), None => None } }
    else { dec_unsigned(s) }
}
/// 7.3.3 + Annex C (Table C.1: the range of integers is an architectural limit of the reader, not part of the syntax): a token made of an
/// optional sign and decimal digits denotes the number it spells -- an Integer if that number fits the implementation's integer type
/// (i32), else the SAME number as a real (the literal; its value is f32_of(literal), as for every real).  It is never "not a number".
pub open spec fn int_tok_val(w: Seq<u8>) -> Option<Val> {
    match dec_signed(w) {
        Some(v) => if i32::MIN <= v <= i32::MAX { Some(Val::Int(v)) } else { Some(Val::Real(w)) },
        None => None,
    }
}
/// an integer literal (7.3.3) is also a real literal in the ISO-exact reading (`[+-]?d+`)
pub proof fn lemma_int_is_real_iso(s: Seq<u8>)
    ensures is_int_lit(s) ==> is_real_iso(s)
{
    if is_int_lit(s) { let t = s.subrange(sign_len(s), s.len() as int); assert(all_digits(t) && t.len() > 0); }
}
/// the f32 that `str::parse::<f32>()` yields (uninterpreted; None = parse error)
pub uninterp spec fn f32_of(s: Seq<u8>) -> Option<f32>;