pub proof fn lemma_str_step(a: Seq<u8>, c: u8, r: Option<(Seq<u8>, int)>)
    ensures str_prepend(a, str_prepend(seq![c], r)) == str_prepend(a.push(c), r)
{
    match r { Some(x) => { assert(a + (seq![c] + x.0) =~= a.push(c) + x.0); }, None => {} }
}
pub proof fn lemma_str_ends(a: Seq<u8>, e: int, r: Option<(Seq<u8>, int)>)
    ensures str_prepend(a, Some((Seq::<u8>::empty(), e))) == Some((a, e)), str_prepend(Seq::<u8>::empty(), r) == r
{
    assert(a + Seq::<u8>::empty() =~= a);
    match r { Some(x) => { assert(Seq::<u8>::empty() + x.0 =~= x.0); }, None => {} }
}