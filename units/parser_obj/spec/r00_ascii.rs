/// the bytes of an ASCII string literal
pub open spec fn ascii(s: Seq<char>) -> Seq<u8> { Seq::new(s.len(), |i: int| s[i] as u8) }