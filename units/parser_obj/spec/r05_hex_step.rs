pub open spec fn hex_ws(b: u8) -> bool { b == 0x20 || b == 0x09 || b == 0x0A || b == 0x0D || b == 0x0C || b == 0x00 }
pub open spec fn hexval(c: u8) -> Option<u8> {
    if 0x30 <= c <= 0x39 { Some((c - 0x30) as u8) } else if 0x41 <= c <= 0x46 { Some((c - 0x41 + 10) as u8) }
    else if 0x61 <= c <= 0x66 { Some((c - 0x61 + 10) as u8) } else { None }
}
pub open spec fn skip(buf: Seq<u8>, p: int) -> int decreases buf.len() - p {
    if 0 <= p < buf.len() && hex_ws(buf[p]) { skip(buf, p + 1) } else { p }
}
pub struct HStep { pub eof: bool, pub bad: bool, pub out: Option<u8>, pub pos: int }
pub open spec fn hex_step(buf: Seq<u8>, pos: int) -> HStep {
    let p1 = skip(buf, pos);
    if p1 >= buf.len() { HStep { eof: true, bad: false, out: None, pos: p1 } } else {
    let c1 = buf[p1];
    if c1 == 0x3E { HStep { eof: false, bad: false, out: None, pos: p1 + 1 } }
    else { match hexval(c1) {
        None => HStep { eof: false, bad: true, out: None, pos: p1 + 1 },
        Some(h) => {
            let p2 = skip(buf, p1 + 1);
            if p2 >= buf.len() { HStep { eof: true, bad: false, out: None, pos: p2 } } else {
            let c2 = buf[p2];
            if c2 == 0x3E { HStep { eof: false, bad: false, out: Some((h * 16) as u8), pos: p2 } }
            else { match hexval(c2) {
                None => HStep { eof: false, bad: true, out: None, pos: p2 + 1 },
                Some(l) => HStep { eof: false, bad: false, out: Some((h * 16 + l) as u8), pos: p2 + 1 } } } } } } } }
}
pub proof fn lemma_skip_bounds(buf: Seq<u8>, p: int)
    requires 0 <= p <= buf.len()
    ensures p <= skip(buf, p) <= buf.len()
    decreases buf.len() - p
{ if p < buf.len() && hex_ws(buf[p]) { lemma_skip_bounds(buf, p + 1); } }
pub proof fn lemma_hex_progress(buf: Seq<u8>, pos: int)
    requires 0 <= pos <= buf.len()
    ensures !hex_step(buf, pos).eof ==> pos < hex_step(buf, pos).pos <= buf.len()
{
    lemma_skip_bounds(buf, pos);
    let p1 = skip(buf, pos);
    if p1 < buf.len() { lemma_skip_bounds(buf, p1 + 1); }
}