// keywords and delimiters
#[verifier::opaque] pub open spec fn K_LTLT() -> Seq<u8> { seq![60u8, 60u8] }
#[verifier::opaque] pub open spec fn K_GTGT() -> Seq<u8> { seq![62u8, 62u8] }
#[verifier::opaque] pub open spec fn K_LBRACK() -> Seq<u8> { seq![91u8] }
#[verifier::opaque] pub open spec fn K_RBRACK() -> Seq<u8> { seq![93u8] }
#[verifier::opaque] pub open spec fn K_LPAREN() -> Seq<u8> { seq![40u8] }
#[verifier::opaque] pub open spec fn K_LT() -> Seq<u8> { seq![60u8] }
#[verifier::opaque] pub open spec fn K_SLASH() -> Seq<u8> { seq![47u8] }
#[verifier::opaque] pub open spec fn K_R() -> Seq<u8> { seq![82u8] }
#[verifier::opaque] pub open spec fn K_TRUE() -> Seq<u8> { seq![116u8, 114u8, 117u8, 101u8] }
#[verifier::opaque] pub open spec fn K_FALSE() -> Seq<u8> { seq![102u8, 97u8, 108u8, 115u8, 101u8] }
#[verifier::opaque] pub open spec fn K_NULL() -> Seq<u8> { seq![110u8, 117u8, 108u8, 108u8] }
#[verifier::opaque] pub open spec fn K_STREAM() -> Seq<u8> { seq![115u8, 116u8, 114u8, 101u8, 97u8, 109u8] }
#[verifier::opaque] pub open spec fn K_ENDSTREAM() -> Seq<u8> { seq![101u8, 110u8, 100u8, 115u8, 116u8, 114u8, 101u8, 97u8, 109u8] }
#[verifier::opaque] pub open spec fn K_OBJ() -> Seq<u8> { seq![111u8, 98u8, 106u8] }
#[verifier::opaque] pub open spec fn K_ENDOBJ() -> Seq<u8> { seq![101u8, 110u8, 100u8, 111u8, 98u8, 106u8] }
#[verifier::opaque] pub open spec fn K_LENGTH() -> Seq<u8> { seq![76u8, 101u8, 110u8, 103u8, 116u8, 104u8] }
pub proof fn lemma_lits()
    ensures ascii("<<"@) == K_LTLT(), ascii(">>"@) == K_GTGT(), ascii("["@) == K_LBRACK(), ascii("]"@) == K_RBRACK(),
        ascii("("@) == K_LPAREN(), ascii("<"@) == K_LT(), ascii("/"@) == K_SLASH(), ascii("R"@) == K_R(),
        ascii("true"@) == K_TRUE(), ascii("false"@) == K_FALSE(), ascii("null"@) == K_NULL(), ascii("stream"@) == K_STREAM(),
        ascii("endstream"@) == K_ENDSTREAM(), ascii("obj"@) == K_OBJ(), ascii("endobj"@) == K_ENDOBJ(), ascii("Length"@) == K_LENGTH(),
{
    reveal(K_LTLT); reveal(K_GTGT); reveal(K_LBRACK); reveal(K_RBRACK); reveal(K_LPAREN); reveal(K_LT); reveal(K_SLASH); reveal(K_R);
    reveal(K_TRUE); reveal(K_FALSE); reveal(K_NULL); reveal(K_STREAM); reveal(K_ENDSTREAM); reveal(K_OBJ); reveal(K_ENDOBJ); reveal(K_LENGTH);
    reveal_strlit("<<"); reveal_strlit(">>"); reveal_strlit("["); reveal_strlit("]"); reveal_strlit("("); reveal_strlit("<");
    reveal_strlit("/"); reveal_strlit("R"); reveal_strlit("true"); reveal_strlit("false"); reveal_strlit("null");
    reveal_strlit("stream"); reveal_strlit("endstream"); reveal_strlit("obj"); reveal_strlit("endobj"); reveal_strlit("Length");
    assert(ascii("<<"@) =~= K_LTLT()); assert(ascii(">>"@) =~= K_GTGT()); assert(ascii("["@) =~= K_LBRACK()); assert(ascii("]"@) =~= K_RBRACK());
    assert(ascii("("@) =~= K_LPAREN()); assert(ascii("<"@) =~= K_LT()); assert(ascii("/"@) =~= K_SLASH()); assert(ascii("R"@) =~= K_R());
    assert(ascii("true"@) =~= K_TRUE()); assert(ascii("false"@) =~= K_FALSE()); assert(ascii("null"@) =~= K_NULL());
    assert(ascii("stream"@) =~= K_STREAM()); assert(ascii("endstream"@) =~= K_ENDSTREAM()); assert(ascii("obj"@) =~= K_OBJ());
    assert(ascii("endobj"@) =~= K_ENDOBJ()); assert(ascii("Length"@) =~= K_LENGTH());
}

/// first bytes of the delimiters and keywords that open an object (none of them can start a number)
pub proof fn lemma_kw_first()
    ensures K_LBRACK().len() == 1 && K_LBRACK()[0] == 91, K_LPAREN().len() == 1 && K_LPAREN()[0] == 40, K_LT().len() == 1 && K_LT()[0] == 60,
        K_TRUE().len() == 4 && K_TRUE()[0] == 116, K_FALSE().len() == 5 && K_FALSE()[0] == 102, K_NULL().len() == 4 && K_NULL()[0] == 110,
        K_SLASH().len() == 1 && K_SLASH()[0] == 47, K_LTLT().len() == 2, K_GTGT().len() == 2, K_RBRACK().len() == 1, K_R().len() == 1,
        K_STREAM().len() == 6, K_ENDSTREAM().len() == 9, K_OBJ().len() == 3, K_ENDOBJ().len() == 6,
{
    reveal(K_LBRACK); reveal(K_LPAREN); reveal(K_LT); reveal(K_TRUE); reveal(K_FALSE); reveal(K_NULL); reveal(K_SLASH);
    reveal(K_LTLT); reveal(K_GTGT); reveal(K_RBRACK); reveal(K_R); reveal(K_STREAM); reveal(K_ENDSTREAM); reveal(K_OBJ); reveal(K_ENDOBJ);
}
// 7.3.5 names: "#" followed by two hexadecimal digits stands for the byte with that code
#[verifier::opaque]
pub open spec fn name_dec(s: Seq<u8>) -> Option<Seq<u8>> decreases s.len() {
    if s.len() == 0 { Some(Seq::<u8>::empty()) }
    else if s[0] == 35 {
        if s.len() >= 3 && hexval(s[1]) is Some && hexval(s[2]) is Some {
            match name_dec(s.subrange(3, s.len() as int)) {
                Some(t) => Some(seq![(hexval(s[1])->0 * 16 + hexval(s[2])->0) as u8] + t), None => None }
        } else { None }
    } else {
        match name_dec(s.subrange(1, s.len() as int)) { Some(t) => Some(seq![s[0]] + t), None => None }
    }
}
pub open spec fn opt_prepend(a: Seq<u8>, r: Option<Seq<u8>>) -> Option<Seq<u8>> {
    match r { Some(t) => Some(a + t), None => None }
}
/// a prefix without "#" is copied
pub proof fn lemma_name_dec_prefix(s: Seq<u8>, k: int)
    requires 0 <= k <= s.len(), forall|i: int| 0 <= i < k ==> s[i] != 35
    ensures name_dec(s) == opt_prepend(s.subrange(0, k), name_dec(s.subrange(k, s.len() as int)))
    decreases k
{
    reveal_with_fuel(name_dec, 2);
    if k == 0 {
        assert(s.subrange(0, s.len() as int) =~= s);
        match name_dec(s) { Some(t) => { assert(s.subrange(0, 0) + t =~= t); }, None => {} }
    } else {
        let s1 = s.subrange(1, s.len() as int);
        assert forall|i: int| 0 <= i < k - 1 implies s1[i] != 35 by { assert(s1[i] == s[i + 1]); }
        lemma_name_dec_prefix(s1, k - 1);
        assert(s1.subrange(k - 1, s1.len() as int) =~= s.subrange(k, s.len() as int));
        match name_dec(s.subrange(k, s.len() as int)) {
            Some(t) => { assert(seq![s[0]] + (s1.subrange(0, k - 1) + t) =~= s.subrange(0, k) + t); }, None => {} }
    }
}
/// the first "#" at k, followed by two hexadecimal digits
pub proof fn lemma_name_dec_escape(s: Seq<u8>, k: int)
    ensures (0 <= k && k + 3 <= s.len() && (forall|i: int| 0 <= i < k ==> s[i] != 35) && s[k] == 35 && hexval(s[k + 1]) is Some && hexval(s[k + 2]) is Some)
        ==> name_dec(s) == opt_prepend(s.subrange(0, k).push((hexval(s[k + 1]).unwrap() * 16 + hexval(s[k + 2]).unwrap()) as u8), name_dec(s.subrange(k + 3, s.len() as int))),
        // "#" not followed by two hexadecimal digits: not a name
        (0 <= k < s.len() && (forall|i: int| 0 <= i < k ==> s[i] != 35) && s[k] == 35 && !(k + 3 <= s.len() && hexval(s[k + 1]) is Some && hexval(s[k + 2]) is Some))
        ==> name_dec(s) is None,
{
    if 0 <= k < s.len() && (forall|i: int| 0 <= i < k ==> s[i] != 35) && s[k] == 35 && !(k + 3 <= s.len() && hexval(s[k + 1]) is Some && hexval(s[k + 2]) is Some) {
        reveal_with_fuel(name_dec, 2);
        lemma_name_dec_prefix(s, k);
        let u = s.subrange(k, s.len() as int);
        assert(u[0] == 35);
        if k + 3 <= s.len() { assert(u[1] == s[k + 1] && u[2] == s[k + 2]); }
    }
    if 0 <= k && k + 3 <= s.len() && (forall|i: int| 0 <= i < k ==> s[i] != 35) && s[k] == 35 && hexval(s[k + 1]) is Some && hexval(s[k + 2]) is Some {
        reveal_with_fuel(name_dec, 2);
        lemma_name_dec_prefix(s, k);
        let u = s.subrange(k, s.len() as int);
        assert(u.subrange(3, u.len() as int) =~= s.subrange(k + 3, s.len() as int));
        let b = (hexval(s[k + 1]).unwrap() * 16 + hexval(s[k + 2]).unwrap()) as u8;
        match name_dec(s.subrange(k + 3, s.len() as int)) {
            Some(t) => { assert(s.subrange(0, k) + (seq![b] + t) =~= s.subrange(0, k).push(b) + t); }, None => {} }
    }
}
/// no "#" at all: the name is its own spelling
pub proof fn lemma_name_dec_plain(s: Seq<u8>)
    ensures (forall|i: int| 0 <= i < s.len() ==> s[i] != 35) ==> name_dec(s) == Some(s)
{
    if forall|i: int| 0 <= i < s.len() ==> s[i] != 35 {
        reveal_with_fuel(name_dec, 2);
        lemma_name_dec_prefix(s, s.len() as int);
        assert(s.subrange(0, s.len() as int) =~= s);
        assert(s.subrange(s.len() as int, s.len() as int) =~= Seq::<u8>::empty());
        assert(s + Seq::<u8>::empty() =~= s);
    }
}

// 7.3.4.2 literal strings: the value is the sequence of lexemes up to the closing parenthesis
// (`*_def` is the defining equation; the function itself is opaque and unfolded through `lemma_*_unfold` where needed)
#[verifier::opaque]
pub open spec fn lit_str(b: Seq<u8>, pos: int, nested: int) -> Option<(Seq<u8>, int)> decreases b.len() - pos {
    let st = lit_step(b, pos, nested);
    if st.eof || st.trunc || !depth_fits(st.nested) || st.pos <= pos || st.pos > b.len() { None }
    else { match st.out {
        None => Some((Seq::<u8>::empty(), st.pos)),
        Some(c) => str_prepend(seq![c], lit_str(b, st.pos, st.nested)) } }
}
pub open spec fn lit_str_def(b: Seq<u8>, pos: int, nested: int) -> Option<(Seq<u8>, int)>
{
    let st = lit_step(b, pos, nested);
    if st.eof || st.trunc || !depth_fits(st.nested) || st.pos <= pos || st.pos > b.len() { None }
    else { match st.out {
        None => Some((Seq::<u8>::empty(), st.pos)),
        Some(c) => str_prepend(seq![c], lit_str(b, st.pos, st.nested)) } }
}
pub proof fn lemma_lit_unfold(b: Seq<u8>, pos: int, nested: int)
    ensures lit_str(b, pos, nested) == lit_str_def(b, pos, nested)
{ reveal_with_fuel(lit_str, 1); }
// 7.3.4.3 hexadecimal strings
#[verifier::opaque]
pub open spec fn hex_str(b: Seq<u8>, pos: int) -> Option<(Seq<u8>, int)> decreases b.len() - pos {
    let st = hex_step(b, pos);
    if st.eof || st.bad || st.pos <= pos || st.pos > b.len() { None }
    else { match st.out {
        None => Some((Seq::<u8>::empty(), st.pos)),
        Some(c) => str_prepend(seq![c], hex_str(b, st.pos)) } }
}
pub open spec fn hex_str_def(b: Seq<u8>, pos: int) -> Option<(Seq<u8>, int)>
{
    let st = hex_step(b, pos);
    if st.eof || st.bad || st.pos <= pos || st.pos > b.len() { None }
    else { match st.out {
        None => Some((Seq::<u8>::empty(), st.pos)),
        Some(c) => str_prepend(seq![c], hex_str(b, st.pos)) } }
}
pub proof fn lemma_hex_unfold(b: Seq<u8>, pos: int)
    ensures hex_str(b, pos) == hex_str_def(b, pos)
{ reveal_with_fuel(hex_str, 1); }
pub open spec fn str_prepend(a: Seq<u8>, r: Option<(Seq<u8>, int)>) -> Option<(Seq<u8>, int)> {
    match r { Some(x) => Some((a + x.0, x.1)), None => None }
}

/// 7.3.8.2: the value of /Length, direct or (C11) through a reference to an integer object
pub open spec fn stream_length<R: Resolve>(r: &R, m: Map<Seq<u8>, Val>) -> Option<int> {
    if !m.dom().contains(K_LENGTH()) { None } else {
        match m[K_LENGTH()] {
            Val::Int(n) => if n >= 0 { Some(n) } else { None },
            Val::Ref(id, gen) => if 0 <= id <= u64::MAX && 0 <= gen <= u64::MAX {
                    match r.resolve_spec(PlainRef { id: id as u64, gen: gen as u64 }, ParseFlags::INTEGER, 1) {
                        Ok(Primitive::Integer(n)) => if n >= 0 { Some(n as int) } else { None },
                        _ => None } } else { None },
            _ => None,
        }
    }
}
/// 7.3.8.1: keyword `stream`, LF or CRLF, exactly /Length bytes, keyword `endstream`; q = just after the dictionary's `>>`
#[verifier::opaque]
pub open spec fn stream_at<R: Resolve>(r: &R, e: Env, m: Map<Seq<u8>, Val>, q: int) -> Option<(Val, int)> {
    match e.ctx { None => None, Some(c) =>       // "All streams shall be indirect objects": the id comes from the context
    match stream_kw_pos(e.buf, q) { None => None, Some(k) =>
    match stream_data_start(e.buf, k) { None => None, Some(d) =>
    match stream_length(r, m) { None => None, Some(n) =>
        if d + n >= e.buf.len() { None } else {
        match tok(e.buf, d + n) { None => None, Some(t) =>
            if e.buf.subrange(t.0, t.1) == K_ENDSTREAM() { Some((Val::Stream(m, c.id, e.base + d, e.base + d + n), t.1)) } else { None } } } } } } }
}

/// a stream needs the context of an indirect object, and its value is a stream
pub broadcast proof fn b_stream_kind<R: Resolve>(r: &R, e: Env, m: Map<Seq<u8>, Val>, q: int)
    ensures match #[trigger] stream_at(r, e, m, q) { Some(x) => x.0 is Stream && e.ctx is Some, None => true }
{ reveal(stream_at); }

/// the object at p (after white-space and comments), nesting budget d: Some((value, position just past its last token));
/// None = not an object in the sense of 7.3 / outside the implementation limits (nothing demanded)
#[verifier::opaque]
pub open spec fn obj_at<R: Resolve>(r: &R, e: Env, p: int, d: nat) -> Option<(Val, int)>
    decreases d, e.buf.len() - p, 0nat
{
    match tok(e.buf, p) { None => None, Some(t1) => {
        let w = e.buf.subrange(t1.0, t1.1);
        if !(p < t1.1 <= e.buf.len()) { None }
        else if w == K_LTLT() {                                   // 7.3.7 dictionary, 7.3.8 stream
            if d == 0 { None } else {
            match dict_at(r, e, t1.1, (d - 1) as nat, Map::<Seq<u8>, Val>::empty()) { None => None, Some(x) =>
                if tok(e.buf, x.1) matches Some(t2) && e.buf.subrange(t2.0, t2.1) == K_STREAM() { stream_at(r, e, x.0, x.1) }
                else { Some((Val::Dict(x.0), x.1)) } } } }
        else if is_int_lit(w) {                                   // 7.3.3 integer, 7.3.10 indirect reference `n g R`
            match ref_tail(e.buf, t1.1) {
                Some(t3) => match (<u64 as FromDec>::dec(w), <u64 as FromDec>::dec(e.buf.subrange(t3.0, t3.1))) {
                    (Some(id), Some(gen)) => Some((Val::Ref(id as int, gen as int), t3.2)), _ => None },
                None => match int_tok_val(w) { Some(v) => Some((v, t1.1)), None => None },
            } }
        else if is_real_iso(w) { Some((Val::Real(w), t1.1)) }     // 7.3.3 real
        else if w.len() > 0 && w[0] == 47 {                        // 7.3.5 name
            match name_dec(w.subrange(1, w.len() as int)) {
                Some(n) => if utf8_ok(n) { Some((Val::Name(n), t1.1)) } else { None }, None => None } }
        else if w == K_LBRACK() {                                 // 7.3.6 array
            if d == 0 { None } else {
            match arr_at(r, e, t1.1, (d - 1) as nat) { None => None, Some(x) => Some((Val::Arr(x.0), x.1)) } } }
        else if w == K_LPAREN() {                                 // 7.3.4.2 literal string
            match lit_str(e.buf.subrange(t1.1, e.buf.len() as int), 0, 0) { None => None, Some(x) =>
                match ctx_decrypt(e.ctx, x.0) { None => None, Some(s) => Some((Val::Str(s), t1.1 + x.1)) } } }
        else if w == K_LT() {                                     // 7.3.4.3 hexadecimal string
            match hex_str(e.buf.subrange(t1.1, e.buf.len() as int), 0) { None => None, Some(x) =>
                match ctx_decrypt(e.ctx, x.0) { None => None, Some(s) => Some((Val::Str(s), t1.1 + x.1)) } } }
        else if w == K_TRUE() { Some((Val::Bool(true), t1.1)) }   // 7.3.2
        else if w == K_FALSE() { Some((Val::Bool(false), t1.1)) }
        else if w == K_NULL() { Some((Val::Null, t1.1)) }         // 7.3.9
        else { None }
    } }
}
pub proof fn lemma_obj_unfold<R: Resolve>(r: &R, e: Env, p: int, d: nat)
    ensures obj_at(r, e, p, d) == obj_def(r, e, p, d)
{ reveal_with_fuel(obj_at, 1); reveal_with_fuel(arr_at, 1); reveal_with_fuel(dict_at, 1); }
pub open spec fn obj_def<R: Resolve>(r: &R, e: Env, p: int, d: nat) -> Option<(Val, int)>

{
    match tok(e.buf, p) { None => None, Some(t1) => {
        let w = e.buf.subrange(t1.0, t1.1);
        if !(p < t1.1 <= e.buf.len()) { None }
        else if w == K_LTLT() {                                   // 7.3.7 dictionary, 7.3.8 stream
            if d == 0 { None } else {
            match dict_at(r, e, t1.1, (d - 1) as nat, Map::<Seq<u8>, Val>::empty()) { None => None, Some(x) =>
                if tok(e.buf, x.1) matches Some(t2) && e.buf.subrange(t2.0, t2.1) == K_STREAM() { stream_at(r, e, x.0, x.1) }
                else { Some((Val::Dict(x.0), x.1)) } } } }
        else if is_int_lit(w) {                                   // 7.3.3 integer, 7.3.10 indirect reference `n g R`
            match ref_tail(e.buf, t1.1) {
                Some(t3) => match (<u64 as FromDec>::dec(w), <u64 as FromDec>::dec(e.buf.subrange(t3.0, t3.1))) {
                    (Some(id), Some(gen)) => Some((Val::Ref(id as int, gen as int), t3.2)), _ => None },
                None => match int_tok_val(w) { Some(v) => Some((v, t1.1)), None => None },
            } }
        else if is_real_iso(w) { Some((Val::Real(w), t1.1)) }     // 7.3.3 real
        else if w.len() > 0 && w[0] == 47 {                        // 7.3.5 name
            match name_dec(w.subrange(1, w.len() as int)) {
                Some(n) => if utf8_ok(n) { Some((Val::Name(n), t1.1)) } else { None }, None => None } }
        else if w == K_LBRACK() {                                 // 7.3.6 array
            if d == 0 { None } else {
            match arr_at(r, e, t1.1, (d - 1) as nat) { None => None, Some(x) => Some((Val::Arr(x.0), x.1)) } } }
        else if w == K_LPAREN() {                                 // 7.3.4.2 literal string
            match lit_str(e.buf.subrange(t1.1, e.buf.len() as int), 0, 0) { None => None, Some(x) =>
                match ctx_decrypt(e.ctx, x.0) { None => None, Some(s) => Some((Val::Str(s), t1.1 + x.1)) } } }
        else if w == K_LT() {                                     // 7.3.4.3 hexadecimal string
            match hex_str(e.buf.subrange(t1.1, e.buf.len() as int), 0) { None => None, Some(x) =>
                match ctx_decrypt(e.ctx, x.0) { None => None, Some(s) => Some((Val::Str(s), t1.1 + x.1)) } } }
        else if w == K_TRUE() { Some((Val::Bool(true), t1.1)) }   // 7.3.2
        else if w == K_FALSE() { Some((Val::Bool(false), t1.1)) }
        else if w == K_NULL() { Some((Val::Null, t1.1)) }         // 7.3.9
        else { None }
    } }
}
/// 7.3.10: after an integer at the current position: a second integer and the keyword R (result: second token, end of R)
pub open spec fn ref_tail(buf: Seq<u8>, p: int) -> Option<(int, int, int)> {
    match tok(buf, p) { None => None, Some(t2) =>
        if !is_int_lit(buf.subrange(t2.0, t2.1)) { None } else {
        match tok(buf, t2.1) { None => None, Some(t3) =>
            if buf.subrange(t3.0, t3.1) == K_R() { Some((t2.0, t2.1, t3.1)) } else { None } } } }
}
/// 7.3.6: the elements of an array up to `]`; p = just after `[` or after an element
#[verifier::opaque]
pub open spec fn arr_at<R: Resolve>(r: &R, e: Env, p: int, d: nat) -> Option<(Seq<Val>, int)>
    decreases d, e.buf.len() - p, 1nat
{
    match tok(e.buf, p) { None => None, Some(t1) =>
        if e.buf.subrange(t1.0, t1.1) == K_RBRACK() { Some((Seq::<Val>::empty(), t1.1)) } else {
        match obj_at(r, e, p, d) { None => None, Some(x) =>
            if !(p < x.1 <= e.buf.len()) { None } else {
            arr_prepend(seq![x.0], arr_at(r, e, x.1, d)) } } } }
}
pub proof fn lemma_arr_unfold<R: Resolve>(r: &R, e: Env, p: int, d: nat)
    ensures arr_at(r, e, p, d) == arr_def(r, e, p, d)
{ reveal_with_fuel(obj_at, 1); reveal_with_fuel(arr_at, 1); reveal_with_fuel(dict_at, 1); }
pub open spec fn arr_def<R: Resolve>(r: &R, e: Env, p: int, d: nat) -> Option<(Seq<Val>, int)>

{
    match tok(e.buf, p) { None => None, Some(t1) =>
        if e.buf.subrange(t1.0, t1.1) == K_RBRACK() { Some((Seq::<Val>::empty(), t1.1)) } else {
        match obj_at(r, e, p, d) { None => None, Some(x) =>
            if !(p < x.1 <= e.buf.len()) { None } else {
            arr_prepend(seq![x.0], arr_at(r, e, x.1, d)) } } } }
}
/// 7.3.7: key/value pairs up to `>>`; a later duplicate key replaces the earlier value; acc = the entries read so far
#[verifier::opaque]
pub open spec fn dict_at<R: Resolve>(r: &R, e: Env, p: int, d: nat, acc: Map<Seq<u8>, Val>) -> Option<(Map<Seq<u8>, Val>, int)>
    decreases d, e.buf.len() - p, 1nat
{
    match tok(e.buf, p) { None => None, Some(t1) => {
        let w = e.buf.subrange(t1.0, t1.1);
        if !(p < t1.1 <= e.buf.len()) { None }
        else if w.len() > 0 && w[0] == 47 {
            match name_dec(w.subrange(1, w.len() as int)) { None => None, Some(k) =>   // the key is a name (7.3.7): `#xx` decoded (7.3.5)
                if !utf8_ok(k) { None } else {
                match obj_at(r, e, t1.1, d) { None => None, Some(x) =>
                    if !(t1.1 < x.1 <= e.buf.len()) { None } else { dict_at(r, e, x.1, d, acc.insert(k, x.0)) } } } } }
        else if w == K_GTGT() { Some((acc, t1.1)) }
        else { None }
    } }
}
pub proof fn lemma_dict_unfold<R: Resolve>(r: &R, e: Env, p: int, d: nat, acc: Map<Seq<u8>, Val>)
    ensures dict_at(r, e, p, d, acc) == dict_def(r, e, p, d, acc)
{ reveal_with_fuel(obj_at, 1); reveal_with_fuel(arr_at, 1); reveal_with_fuel(dict_at, 1); }
pub open spec fn dict_def<R: Resolve>(r: &R, e: Env, p: int, d: nat, acc: Map<Seq<u8>, Val>) -> Option<(Map<Seq<u8>, Val>, int)>

{
    match tok(e.buf, p) { None => None, Some(t1) => {
        let w = e.buf.subrange(t1.0, t1.1);
        if !(p < t1.1 <= e.buf.len()) { None }
        else if w.len() > 0 && w[0] == 47 {
            match name_dec(w.subrange(1, w.len() as int)) { None => None, Some(k) =>   // the key is a name (7.3.7): `#xx` decoded (7.3.5)
                if !utf8_ok(k) { None } else {
                match obj_at(r, e, t1.1, d) { None => None, Some(x) =>
                    if !(t1.1 < x.1 <= e.buf.len()) { None } else { dict_at(r, e, x.1, d, acc.insert(k, x.0)) } } } } }
        else if w == K_GTGT() { Some((acc, t1.1)) }
        else { None }
    } }
}

/// the object at a token that starts with a SOLIDUS is the name it spells, whatever the context and the nesting budget
pub proof fn lemma_obj_name<R: Resolve>(r: &R, e: Env, p: int, d: nat)
    requires 0 <= p <= e.buf.len()
    ensures match tok(e.buf, p) { None => true, Some(t) => { let w = e.buf.subrange(t.0, t.1);
        (w.len() > 0 && w[0] == 47) ==> obj_at(r, e, p, d) == (match name_dec(w.subrange(1, w.len() as int)) {
            Some(n) => if utf8_ok(n) { Some((Val::Name(n), t.1)) } else { None }, None => None }) } }
{
    broadcast use {b_tok, b_real_first};
    lemma_obj_unfold(r, e, p, d);
    match tok(e.buf, p) { None => {}, Some(t) => {
        let w = e.buf.subrange(t.0, t.1);
        if w.len() > 0 && w[0] == 47 {
            reveal(K_LTLT);
            assert(K_LTLT()[0] == 60);
            lemma_real_iso_is_lit(w);
            assert(sign_len(w) == 0);
            if is_int_lit(w) { assert(digit(w.subrange(0, w.len() as int)[0])); }
        }
    } }
}
pub proof fn lemma_name_allowed(n: Seq<u8>)
    ensures allowed(ParseFlags::NAME, Val::Name(n))
{ assert(16u16 & 16 != 0) by (bit_vector); }

/// the bit(s) of ParseFlags that the parser consults for a value of this kind (as found in the code: a stream is admitted by
/// DICT, the STREAM bit is only consulted by Storage::resolve_ref)
pub open spec fn kind_bits(v: Val) -> u16 {
    match v {
        Val::Null => 256, Val::Bool(_) => 128, Val::Int(_) => 1,
        // the flags classify by the syntactic kind of the token: an integer token is admitted by INTEGER whatever its magnitude
        // (as `5` was never admitted by NUMBER alone), a token with a decimal point by NUMBER
        Val::Real(w) => if is_int_lit(w) { 1 } else { 8 },
        Val::Str(_) => 64, Val::Name(_) => 16,
        Val::Arr(_) => 32, Val::Dict(_) => 4, Val::Ref(_, _) => 512, Val::Stream(_, _, _, _) => 4,
    }
}
pub open spec fn allowed(flags: ParseFlags, v: Val) -> bool { flags.bits & kind_bits(v) != 0 }
pub proof fn lemma_any_allows(v: Val)
    ensures allowed(ParseFlags::ANY, v)
{
    assert(1023u16 & 256 != 0 && 1023u16 & 128 != 0 && 1023u16 & 1 != 0 && 1023u16 & 8 != 0 && 1023u16 & 64 != 0 && 1023u16 & 16 != 0
        && 1023u16 & 32 != 0 && 1023u16 & 4 != 0 && 1023u16 & 512 != 0) by (bit_vector);
}

/// syntactic class of the object at p by its first token; only used to report `r == obj_at(..)` arm by arm
pub open spec fn obj_class(buf: Seq<u8>, p: int) -> int {
    match tok(buf, p) { None => 0, Some(t) => { let w = buf.subrange(t.0, t.1);
        if w == K_LTLT() { 1 } else if is_int_lit(w) { 2 } else if is_real_iso(w) { 3 } else if w.len() > 0 && w[0] == 47 { 4 }
        else if w == K_LBRACK() { 5 } else if w == K_LPAREN() { 6 } else if w == K_LT() { 7 } else { 8 } } }
}