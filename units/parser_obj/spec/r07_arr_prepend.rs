pub open spec fn arr_prepend(a: Seq<Val>, r: Option<(Seq<Val>, int)>) -> Option<(Seq<Val>, int)> {
    match r { Some(x) => Some((a + x.0, x.1)), None => None }
}
pub proof fn lemma_arr_step(a: Seq<Val>, v: Val, r: Option<(Seq<Val>, int)>)
    ensures arr_prepend(a, arr_prepend(seq![v], r)) == arr_prepend(a.push(v), r)
{
    match r { Some(x) => { assert(a + (seq![v] + x.0) =~= a.push(v) + x.0); }, None => {} }
}
pub proof fn lemma_arr_ends(a: Seq<Val>, e: int, r: Option<(Seq<Val>, int)>)
    ensures arr_prepend(a, Some((Seq::<Val>::empty(), e))) == Some((a, e)), arr_prepend(Seq::<Val>::empty(), r) == r
{
    assert(a + Seq::<Val>::empty() =~= a);
    match r { Some(x) => { assert(Seq::<Val>::empty() + x.0 =~= x.0); }, None => {} }
}