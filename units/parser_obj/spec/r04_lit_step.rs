// =====================================================================================================
// ISO 32000-1 7.3.4.2 / 7.3.4.3: string step functions (same functions as unit `strlex`, deviations repaired)
// =====================================================================================================
pub struct Step { pub eof: bool, pub trunc: bool, pub out: Option<u8>, pub pos: int, pub nested: int }
pub open spec fn st_eof(pos: int, nested: int) -> Step { Step { eof: true, trunc: false, out: None, pos, nested } }
pub open spec fn st_emit(b: u8, pos: int, nested: int) -> Step { Step { eof: false, trunc: false, out: Some(b), pos, nested } }
pub open spec fn is_oct(c: u8) -> bool { 0x30 <= c <= 0x37 }
pub open spec fn oct_len(buf: Seq<u8>, p: int) -> int {
    if p < buf.len() && is_oct(buf[p]) {
        if p + 1 < buf.len() && is_oct(buf[p + 1]) {
            if p + 2 < buf.len() && is_oct(buf[p + 2]) { 3 } else { 2 }
        } else { 1 }
    } else { 0 }
}
pub open spec fn oct_val(buf: Seq<u8>, p: int, n: int) -> int decreases n {
    if n <= 0 { 0 } else { oct_val(buf, p, n - 1) * 8 + (buf[p + n - 1] - 0x30) }
}
pub open spec fn lit_step(buf: Seq<u8>, pos: int, nested: int) -> Step
    decreases buf.len() - pos
{
    if pos < 0 || pos >= buf.len() { st_eof(pos, nested) } else {
    let c = buf[pos];
    if c == 0x5C {
        if pos + 1 >= buf.len() { st_eof(pos + 1, nested) } else {
        let d = buf[pos + 1];
        if d == 0x6E { st_emit(0x0A, pos + 2, nested) }
        else if d == 0x72 { st_emit(0x0D, pos + 2, nested) }
        else if d == 0x74 { st_emit(0x09, pos + 2, nested) }
        else if d == 0x62 { st_emit(0x08, pos + 2, nested) }
        else if d == 0x66 { st_emit(0x0C, pos + 2, nested) }
        else if d == 0x28 { st_emit(0x28, pos + 2, nested) }
        else if d == 0x29 { st_emit(0x29, pos + 2, nested) }
        else if d == 0x5C { st_emit(0x5C, pos + 2, nested) }
        else if d == 0x0A { lit_step(buf, pos + 2, nested) }
        else if d == 0x0D { lit_step(buf, if pos + 2 < buf.len() && buf[pos + 2] == 0x0A { pos + 3 } else { pos + 2 }, nested) }
        else if is_oct(d) {
            let n = oct_len(buf, pos + 1);
            Step { eof: false, trunc: n < 3 && pos + 1 + n >= buf.len(),
                   out: Some((oct_val(buf, pos + 1, n) % 256) as u8), pos: pos + 1 + n, nested } }
        else { st_emit(d, pos + 2, nested) }
        } }
    else if c == 0x28 { st_emit(0x28, pos + 1, nested + 1) }
    else if c == 0x29 {
        if nested - 1 < 0 { Step { eof: false, trunc: false, out: None, pos: pos + 1, nested: nested - 1 } }
        else { st_emit(0x29, pos + 1, nested - 1) } }
    else if c == 0x0D { st_emit(0x0A, if pos + 1 < buf.len() && buf[pos + 1] == 0x0A { pos + 2 } else { pos + 1 }, nested) }
    else { st_emit(c, pos + 1, nested) } }
}
pub open spec fn depth_fits(n: int) -> bool { n <= i32::MAX }
pub open spec fn lex_post(st: Step, r: Result<Option<u8>>, fpos: int, fnested: int) -> bool {
    if st.eof || !depth_fits(st.nested) { r is Err }
    else if st.trunc { r is Err || (r == Ok::<Option<u8>, PdfError>(st.out) && fpos == st.pos && fnested == st.nested) }
    else { r == Ok::<Option<u8>, PdfError>(st.out) && fpos == st.pos && fnested == st.nested }
}
pub open spec fn as_lexeme(r: Option<Result<u8>>) -> Result<Option<u8>> {
    match r { None => Ok(None), Some(Ok(b)) => Ok(Some(b)), Some(Err(e)) => Err(e) }
}
/// every step that is not `eof` consumes at least one byte and stays inside the buffer
pub proof fn lemma_lit_progress(buf: Seq<u8>, pos: int, nested: int)
    requires 0 <= pos
    ensures !lit_step(buf, pos, nested).eof ==> pos < lit_step(buf, pos, nested).pos <= buf.len()
    decreases buf.len() - pos
{
    if pos < buf.len() && buf[pos] == 0x5C && pos + 1 < buf.len() {
        let d = buf[pos + 1];
        if d == 0x0A { lemma_lit_progress(buf, pos + 2, nested); }
        else if d == 0x0D { lemma_lit_progress(buf, if pos + 2 < buf.len() && buf[pos + 2] == 0x0A { pos + 3 } else { pos + 2 }, nested); }
    }
}