pub trait FromDec: Sized {
    spec fn dec(s: Seq<u8>) -> Option<Self>;
}
impl FromDec for u64 {
    open spec fn dec(s: Seq<u8>) -> Option<u64> {
        match dec_unsigned(s) { Some(v) => if v <= u64::MAX { Some(v as u64) } else { None }, None => None }
    }
}
impl FromDec for i32 {
    open spec fn dec(s: Seq<u8>) -> Option<i32> {
        match dec_signed(s) { Some(v) => if i32::MIN <= v <= i32::MAX { Some(v as i32) } else { None }, None => None }
    }
}
impl FromDec for f32 {
    open spec fn dec(s: Seq<u8>) -> Option<f32> { f32_of(s) }
}