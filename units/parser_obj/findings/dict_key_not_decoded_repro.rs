// Repro for finding dict_key_not_decoded (unit parser_obj, obligation parser_obj/parse_dictionary_object/value_dictionary
// with DEV_DICT_KEY_NOT_DECODED off; properties C03, C04).
// Drop into a scratch copy of /repo as pdf/tests/dict_key_not_decoded.rs and run
//   cargo test --offline -p pdf --test dict_key_not_decoded
//
// ISO 32000-1 7.3.7: "The key shall be a name"; 7.3.5: in a name `#xx` stands for the byte xx ("/A#42" and "/AB" are the
// same name). `_parse_with_lexer_ctx` decodes `#xx` for a name in value position, `parse_dictionary_object` takes the key
// bytes raw (`token.reslice(1..).to_name()`), so `<< /A#42 1 >>` has the key "A#42" and `dict.get("AB")` is None.
use pdf::object::NoResolve;
use pdf::parser::{parse, ParseFlags};
use pdf::primitive::Primitive;

#[test]
fn control_name_value_is_decoded() {
    let p = parse(b"/A#42", &NoResolve, ParseFlags::ANY).expect("name");
    assert_eq!(p.as_name().expect("name"), "AB");
}

#[test]
fn dictionary_key_with_escape_denotes_the_decoded_name() {
    let p = parse(b"<< /A#42 1 /Lime#20Green 2 >>", &NoResolve, ParseFlags::ANY).expect("dictionary");
    let d = p.into_dictionary().expect("dictionary");
    assert_eq!(d.get("AB"), Some(&Primitive::Integer(1)), "key /A#42 must be the name AB; keys: {:?}", d.iter().map(|(k, _)| k.as_str().to_string()).collect::<Vec<_>>());
    assert_eq!(d.get("Lime Green"), Some(&Primitive::Integer(2)));
}

#[test]
fn serialised_dictionary_with_a_space_in_a_key_reads_back() {
    // C04: the writer side. Dictionary::serialize writes keys with `Display for Name` = "/{}" (no escaping at all), so a key
    // containing a space does not even survive in raw form: "/Lime Green 2" reads back as key "Lime" with value `Green`..
    use pdf::primitive::Dictionary;
    let mut d = Dictionary::new();
    d.insert("Lime Green", Primitive::Integer(2));
    let mut out = Vec::new();
    Primitive::Dictionary(d.clone()).serialize(&mut out).expect("serialize");
    let back = parse(&out, &NoResolve, ParseFlags::ANY).and_then(|p| p.into_dictionary());
    assert_eq!(back.ok(), Some(d), "written as {:?}", String::from_utf8_lossy(&out));
}
