// Repro for observation length_in_object_stream (C11, second sentence). The defect is NOT in the functions of unit parser_obj
// but at the resolver they call: parse_stream_object asks `r.resolve_flags(reference, ParseFlags::INTEGER, 1)` for an indirect
// /Length, and Storage::resolve_ref (pdf/src/file.rs:253) refuses every compressed object unless `flags` contains
// ParseFlags::STREAM:
//     XRef::Stream {stream_id, index} => { if !flags.contains(ParseFlags::STREAM) { return Err(PrimitiveNotAllowed ..) } ..
// so a stream whose /Length is a reference to an integer stored inside an object stream cannot be read, while the same
// stream with a direct /Length, or with the integer stored as an ordinary indirect object, can.
// Drop into a scratch copy of /repo as pdf/tests/length_in_object_stream.rs and run
//   cargo test --offline -p pdf --test length_in_object_stream
// (needs findings/integer_at_end_of_data_fix.diff only if the integer is the LAST member; here it is followed by a member.)
use pdf::file::FileOptions;
use pdf::object::{PlainRef, Resolve};
use pdf::primitive::Primitive;

/// object 8 is a stream with `/Length <length_entry>`; object 6 = 5 lives in object stream 3, object 7 = 5 is direct
fn build(length_entry: &str) -> Vec<u8> {
    let mut out: Vec<u8> = Vec::new();
    let mut pos = [0usize; 9];
    out.extend_from_slice(b"%PDF-1.5\n");
    pos[1] = out.len();
    out.extend_from_slice(b"1 0 obj\n<< /Type /Catalog /Pages 2 0 R >>\nendobj\n");
    pos[2] = out.len();
    out.extend_from_slice(b"2 0 obj\n<< /Type /Pages /Kids [] /Count 0 >>\nendobj\n");
    // object stream 3: members 6 (`5 `) and 4 (`<< /Foo 1 >>`)
    let mut body = format!("{:<23}\n", "6 0 4 2").into_bytes();
    assert_eq!(body.len(), 24);
    body.extend_from_slice(b"5 << /Foo 1 >>");
    pos[3] = out.len();
    out.extend_from_slice(format!("3 0 obj\n<< /Type /ObjStm /N 2 /First 24 /Length {} >>\nstream\n", body.len()).as_bytes());
    out.extend_from_slice(&body);
    out.extend_from_slice(b"\nendstream\nendobj\n");
    pos[7] = out.len();
    out.extend_from_slice(b"7 0 obj\n5\nendobj\n");
    pos[8] = out.len();
    out.extend_from_slice(format!("8 0 obj\n<< /Length {} >>\nstream\nHELLO\nendstream\nendobj\n", length_entry).as_bytes());
    pos[5] = out.len();
    let mut x: Vec<u8> = Vec::new();
    x.extend_from_slice(&[0, 0, 0, 0]);
    for id in 1..=3 { x.extend_from_slice(&[1, (pos[id] >> 8) as u8, pos[id] as u8, 0]); }
    x.extend_from_slice(&[2, 0, 3, 1]);                                   // 4: member 1 of object stream 3
    x.extend_from_slice(&[1, (pos[5] >> 8) as u8, pos[5] as u8, 0]);      // 5: this stream
    x.extend_from_slice(&[2, 0, 3, 0]);                                   // 6: member 0 of object stream 3
    for id in 7..=8 { x.extend_from_slice(&[1, (pos[id] >> 8) as u8, pos[id] as u8, 0]); }
    out.extend_from_slice(format!("5 0 obj\n<< /Type /XRef /Size 9 /W [1 2 1] /Root 1 0 R /Length {} >>\nstream\n", x.len()).as_bytes());
    out.extend_from_slice(&x);
    out.extend_from_slice(b"\nendstream\nendobj\n");
    out.extend_from_slice(format!("startxref\n{}\n%%EOF\n", pos[5]).as_bytes());
    out
}

fn stream_data(length_entry: &str) -> Result<Vec<u8>, String> {
    let file = FileOptions::uncached().load(build(length_entry)).map_err(|e| format!("load: {:?}", e))?;
    let r = file.resolver();
    match r.resolve(PlainRef { id: 8, gen: 0 }).map_err(|e| format!("resolve 8 0 R: {:?}", e))? {
        Primitive::Stream(s) => s.raw_data(&r).map(|d| d.to_vec()).map_err(|e| format!("raw_data: {:?}", e)),
        p => Err(format!("not a stream: {:?}", p)),
    }
}

#[test]
fn control_direct_length() { assert_eq!(stream_data("5").unwrap(), b"HELLO"); }

#[test]
fn control_length_is_an_ordinary_indirect_integer() { assert_eq!(stream_data("7 0 R").unwrap(), b"HELLO"); }

#[test]
fn control_the_compressed_integer_itself_resolves() {
    let file = FileOptions::uncached().load(build("5")).expect("load");
    assert_eq!(file.resolver().resolve(PlainRef { id: 6, gen: 0 }).expect("6 0 R"), Primitive::Integer(5));
}

#[test]
fn length_is_an_integer_inside_an_object_stream() { assert_eq!(stream_data("6 0 R").unwrap(), b"HELLO"); }
