// Repro for finding integer_at_end_of_data (unit parser_obj, obligation parser_obj/_parse_with_lexer_ctx/value_int_ref;
// properties C11, C03, C04).
// Drop into a scratch copy of /repo as pdf/tests/integer_at_end_of_data.rs and run
//   cargo test --offline -p pdf --test integer_at_end_of_data
//
// `_parse_with_lexer_ctx` looks ahead for `n g R` after every integer with `t!(lexer.next())`: when the integer is the last
// token of the data the look-ahead itself fails with EOF and the integer is lost. An object-stream member is parsed
// from its own slice (`parse(slice, ..)` in Storage::resolve_ref), so an integer object stored as the LAST member of an
// object stream (no trailing white-space) cannot be resolved, while the same object stored as an ordinary indirect
// object (followed by `endobj`) can: the value depends on how it is stored (C11).
use pdf::file::FileOptions;
use pdf::object::{NoResolve, PlainRef, Resolve};
use pdf::parser::{parse, ParseFlags};
use pdf::primitive::Primitive;

/// objects 4 and 6 live in object stream 3; `tail` is what follows the integer 17 of object 6 inside the stream data
fn build(tail: &str) -> Vec<u8> {
    let mut out: Vec<u8> = Vec::new();
    let mut pos = [0usize; 8];
    out.extend_from_slice(b"%PDF-1.5\n");
    pos[1] = out.len();
    out.extend_from_slice(b"1 0 obj\n<< /Type /Catalog /Pages 2 0 R >>\nendobj\n");
    pos[2] = out.len();
    out.extend_from_slice(b"2 0 obj\n<< /Type /Pages /Kids [] /Count 0 >>\nendobj\n");
    // object stream 3: header "4 0 6 13" padded to /First = 24, members `<< /Foo 1 >> ` (13 bytes) and `17` + tail
    let mut body = format!("{:<23}\n", "4 0 6 13").into_bytes();
    assert_eq!(body.len(), 24);
    body.extend_from_slice(b"<< /Foo 1 >> ");
    body.extend_from_slice(b"17");
    body.extend_from_slice(tail.as_bytes());
    pos[3] = out.len();
    out.extend_from_slice(format!("3 0 obj\n<< /Type /ObjStm /N 2 /First 24 /Length {} >>\nstream\n", body.len()).as_bytes());
    out.extend_from_slice(&body);
    out.extend_from_slice(b"\nendstream\nendobj\n");
    // object 7: the same integer as an ordinary indirect object
    pos[7] = out.len();
    out.extend_from_slice(b"7 0 obj\n17\nendobj\n");
    // xref stream 5, /W [1 2 1]
    pos[5] = out.len();
    let mut x: Vec<u8> = Vec::new();
    x.extend_from_slice(&[0, 0, 0, 0]);                                   // 0: free
    for id in 1..=3 { x.extend_from_slice(&[1, (pos[id] >> 8) as u8, pos[id] as u8, 0]); }
    x.extend_from_slice(&[2, 0, 3, 0]);                                   // 4: member 0 of object stream 3
    x.extend_from_slice(&[1, (pos[5] >> 8) as u8, pos[5] as u8, 0]);      // 5: this stream
    x.extend_from_slice(&[2, 0, 3, 1]);                                   // 6: member 1 (the last) of object stream 3
    x.extend_from_slice(&[1, (pos[7] >> 8) as u8, pos[7] as u8, 0]);      // 7
    out.extend_from_slice(format!("5 0 obj\n<< /Type /XRef /Size 8 /W [1 2 1] /Root 1 0 R /Length {} >>\nstream\n", x.len()).as_bytes());
    out.extend_from_slice(&x);
    out.extend_from_slice(b"\nendstream\nendobj\n");
    out.extend_from_slice(format!("startxref\n{}\n%%EOF\n", pos[5]).as_bytes());
    out
}

#[test]
fn control_direct_twin_and_first_member() {
    let file = FileOptions::uncached().load(build("")).expect("load");
    assert_eq!(file.resolver().resolve(PlainRef { id: 7, gen: 0 }).expect("direct integer"), Primitive::Integer(17));
    assert!(file.resolver().resolve(PlainRef { id: 4, gen: 0 }).expect("member 0").into_dictionary().is_ok());
}

#[test]
fn control_last_member_followed_by_white_space() {
    // one trailing space is not enough either (the look-ahead still runs into the end); a following token is
    let file = FileOptions::uncached().load(build(" 0 0")).expect("load");
    assert_eq!(file.resolver().resolve(PlainRef { id: 6, gen: 0 }).expect("member 1"), Primitive::Integer(17));
}

#[test]
fn last_member_integer_resolves_like_its_direct_twin() {
    let file = FileOptions::uncached().load(build("")).expect("load");
    let direct = file.resolver().resolve(PlainRef { id: 7, gen: 0 }).expect("direct integer");
    let compressed = file.resolver().resolve(PlainRef { id: 6, gen: 0 });
    assert_eq!(compressed.expect("integer stored as the last member of an object stream"), direct);
}

#[test]
fn last_member_integer_with_trailing_white_space() {
    let file = FileOptions::uncached().load(build("\n")).expect("load");
    assert_eq!(file.resolver().resolve(PlainRef { id: 6, gen: 0 }).expect("member 1"), Primitive::Integer(17));
}

#[test]
fn top_level_parse_of_a_bare_integer() {
    // the slice handed to `parse` by Storage::resolve_ref for such a member
    assert_eq!(parse(b"17", &NoResolve, ParseFlags::ANY).expect("17"), Primitive::Integer(17));
    assert_eq!(parse(b"17 ", &NoResolve, ParseFlags::ANY).expect("17 "), Primitive::Integer(17));
    assert_eq!(parse(b"17 0", &NoResolve, ParseFlags::ANY).expect("17 0"), Primitive::Integer(17));
    assert_eq!(parse(b"-3", &NoResolve, ParseFlags::INTEGER).expect("-3"), Primitive::Integer(-3));
}

#[test]
fn control_references_and_numbers_in_arrays_still_parse() {
    let p = parse(b"[1 2 3 0 R 4]", &NoResolve, ParseFlags::ANY).expect("array");
    assert_eq!(p, Primitive::Array(vec![Primitive::Integer(1), Primitive::Integer(2),
        Primitive::Reference(PlainRef { id: 3, gen: 0 }), Primitive::Integer(4)]));
}
