P = 'pdf/src/parser/mod.rs'
PO = 'pdf/src/parser/parse_object.rs'
L = 'pdf/src/parser/lexer/mod.rs'
LS = 'pdf/src/parser/lexer/str.rs'
PR = 'pdf/src/primitive.rs'
O = 'pdf/src/object/mod.rs'
LX = r"^impl<'a> Lexer<'a>$"

def pub(*fields):
    return [{'rule': 'R2', 'find': f, 'replace': 'pub ' + f} for f in fields]

# R7: byte-string literals are read through `blit("..")` (Verus knows the length of b".." but not its bytes)
BLIT = {'rule': 'R7', 'count': '*', 'regex': r'b"([^"]*)"', 'replace': r'blit("\1")'}
LITS = {'rule': 'R1', 'regex': r'\A\{', 'replace': '{\n    broadcast use {b_tok, b_ws_end, b_real_first, b_stream_kind};\n    proof { lemma_lits(); }'}
# ghost state at the top of a parser body: the literals, the environment (data, file offset, context), start position
def top(extra=''):
    return {'rule': 'R1', 'regex': r'\A\{', 'replace': '{\n    broadcast use {b_tok, b_ws_end, b_real_first, b_stream_kind};\n    proof { lemma_lits(); }\n    let ghost e0 = env_of(lexer, ctx); let ghost p0 = lexer.pos as int;' + extra}

FRAME = 'final(lexer).wf() && final(lexer).same(old(lexer))'
PROGRESS = 'res is Ok ==> final(lexer).pos > old(lexer).pos'

# "parsing returns exactly the denoted value ... each parse consumes exactly its own text" (C03), kind admitted by `flags`
X0 = 'obj_at(r, env_of(old(lexer), ctx), old(lexer).pos as int, max_depth as nat)'
VALUE = 'parse_post(' + X0 + ', flags, res, final(lexer).pos as int)'
CLS = 'obj_class(old(lexer).buf@, old(lexer).pos as int)'
ARMS = [(0, 'value_no_token'), (1, 'value_dict_stream'), (2, 'value_int_ref'), (3, 'value_real'), (4, 'value_name'), (5, 'value_array'),
        (6, 'value_lit_string'), (7, 'value_hex_string'), (8, 'value_bool_null')]

FITS = '(dec_signed(lexeme.slice@) matches Some(v) && i32::MIN <= v <= i32::MAX)'
IND = 'indirect_at(r, old(lexer).buf@, old(lexer).file_offset as int, opt_deref(decoder), old(lexer).pos as int)'
D1 = '(max_depth - 1) as nat'
ARR_TOTAL = 'arr_at(r, e0, pa, %s)' % D1

# ---- _parse_with_lexer_ctx: ghost text (R1) ------------------------------------------------------------------------
NAME_LOOP_STEP = '''proof {
    lemma_name_dec_escape(rest@, idx as int);
    if hexval(hi) is Some && hexval(lo) is Some { lemma_nibbles(hexval(hi).unwrap(), hexval(lo).unwrap()); }
    assert(rest@.subrange(0, idx as int) =~= rest@.subrange(0, idx as int));
}
let ghost rest_before = rest@; let ghost s_before = s@;
s.extend_from_slice(&rest[..idx]);'''
NAME_LOOP_END = '''rest = &rest[idx+3..];
proof {
    assert(s@ =~= s_before + rest_before.subrange(0, idx as int).push(byte));
    assert(rest@ =~= rest_before.subrange(idx + 3, rest_before.len() as int));
    match name_dec(rest@) { Some(t) => { assert(s_before + (rest_before.subrange(0, idx as int).push(byte) + t) =~= s@ + t); }, None => {} }
}'''
STR_LOOP = '''loop { proof { lemma_lit_unfold(rem, string_lexer.pos as int, string_lexer.nested as int); lemma_lit_progress(string_lexer.buf@, string_lexer.pos as int, string_lexer.nested as int); }
    let ghost st = lit_step(rem, string_lexer.pos as int, string_lexer.nested as int);
    match string_lexer.iter_next() { None => { proof { lemma_str_ends(string@, st.pos, None); } break; } Some(character) => {
        proof { if character is Ok { lemma_str_step(string@, character->Ok_0, lit_str(rem, st.pos, st.nested)); } }
        string.push(t!(character)); } } }'''
HEX_LOOP = '''loop { proof { lemma_hex_unfold(rem, hex_string_lexer.pos as int); lemma_hex_progress(hex_string_lexer.buf@, hex_string_lexer.pos as int); }
    let ghost st = hex_step(rem, hex_string_lexer.pos as int);
    match hex_string_lexer.iter_next() { None => { proof { lemma_str_ends(string@, st.pos, None); } break; } Some(byte) => {
        proof { if byte is Ok { lemma_str_step(string@, byte->Ok_0, hex_str(rem, st.pos)); } }
        string.push(t!(byte)); } } }'''

UNIT = {
 'name': 'parser_obj',
 'doc': 'object grammar (parser/mod.rs, parse_object.rs) against an ISO 32000-1 7.3 object function over the token function of unit lexer',
 'rlimit': 200, 'timeout': 2400,
 'deviations': {},
 'tolerances': {
   # NOT a tolerance of this unit's property but a mirror of the known finding of unit lexer (known_findings.txt: lexer/Lexer::next_stream/
   # stream_lf_or_crlf_only): the restated contract of Lexer::next_stream (stub) and the spec `stream_kw_pos` consult it together, so switching it
   # off cannot fail here. Always on = the contract unit lexer proves on the current /repo. When that finding is repaired, delete this line.
   'DEV_STREAM_KEYWORD_COMMENT_NOT_SKIPPED': 'mirror of the known finding of unit lexer: Lexer::next_stream does not skip a comment before the keyword `stream`',
   'DEV_LONE_DOT_IS_REAL': 'tolerance of unit lexer, restated with the contract of Substr::real_number',
   'DEV_REAL_PREFIX_ACCEPTED': 'tolerance of unit lexer, restated with the contract of Substr::real_number',
 },
 'allowed_assumes': [],
 # BOUNDED native stand-in (vlib/native.py) for C03 on the public API (pdf::parser::parse / parse_with_lexer / parse_indirect_object): decides
 # restructurings of the parser / lexers that the Verus units (parser_obj, lexer, strlex) cannot read. Never counted as proved.
 'native': {'tests': [
    {'name': 'conformant_spellings_up_to_3_tokens', 'code': 'native_spellings_bounded.rs', 'place': 'pdf/tests/verif_c03_spellings.rs',
     'fn': 'parse_with_lexer', 'props': ['C03'], 'tier': 'quick', 'timeout': 900,
     'bound': '117 hand-written conformant token spellings with hand-written values (integers with sign / leading zeros / i32 limits; reals `1.` `.5` '
              '`-.002` `+17.0`; names with #xx incl. #23, the empty name; literal strings: every escape, \\ddd with 1-3 digits, \\377, \\400, nested '
              'parentheses, line continuation with CR / LF / CRLF, raw EOL normalisation; hex strings with every white-space character and odd digit '
              'counts; true false null; references with every separator inside; small arrays / dictionaries incl. [1 2 3 0 R 4]) x 16 separators '
              '(none where no separator is needed, NUL HT LF FF CR SP, CRLF, comments ended by LF / CR / CRLF, empty comment, comment holding delimiters) x '
              'contexts {top-level sequence with ONE lexer, array, dictionary value}: all singles x S x S, all ordered pairs x S (+ S x S alternating in '
              'arrays), all triples over 26 core tokens x S; 864 indirect streams (white-space before `stream`, LF / CRLF after it); 4.9 million texts. '
              'EXCLUDED (known finding DEV_STREAM_KEYWORD_COMMENT_NOT_SKIPPED): a comment between the dictionary and the keyword `stream`; names that are not UTF-8',
     'contract': 'parse returns exactly the denoted value; in a sequence each parse returns its value and leaves the lexer between the end of its '
                 'token and the start of the next; nothing but white-space / comments remains at the end; a stream\'s data range is exactly its bytes'},
 ]},
 'items': {
  'type ObjNr': {'kind': 'decl', 'file': O, 'header': r'^pub type ObjNr = u64;$'},
  'type GenNr': {'kind': 'decl', 'file': O, 'header': r'^pub type GenNr = u64;$'},
  'struct PlainRef': {'kind': 'decl', 'file': O, 'header': r'^pub struct PlainRef$', 'attrs': ['#[derive(Clone, Copy)]']},
  'struct ParseOptions': {'kind': 'decl', 'file': O, 'header': r'^pub struct ParseOptions$'},
  'struct Lexer': {'kind': 'decl', 'file': L, 'header': r"^pub struct Lexer<'a>$", 'attrs': ['#[derive(Clone, Copy)]'],
     'rewrites': pub('pos:', 'buf:', 'file_offset:')},
  'struct Substr': {'kind': 'decl', 'file': L, 'header': r"^pub struct Substr<'a>$", 'attrs': ['#[derive(Clone, Copy)]'],
     'rewrites': pub('slice:', 'file_offset:')},
  'struct StringLexer': {'kind': 'decl', 'file': LS, 'header': r"^pub struct StringLexer<'a>$", 'rewrites': pub('pos:', 'nested:', 'buf:')},
  'struct HexStringLexer': {'kind': 'decl', 'file': LS, 'header': r"^pub struct HexStringLexer<'a>$", 'rewrites': pub('pos:', 'buf:')},
  'const MAX_DEPTH': {'kind': 'decl', 'file': P, 'header': r'^const MAX_DEPTH: usize = 20;$'},
  'struct PdfString': {'kind': 'decl', 'file': PR, 'header': r'^pub struct PdfString$'},
  'enum StreamInner': {'kind': 'decl', 'file': PR, 'header': r'^pub enum StreamInner$'},
  'struct PdfStream': {'kind': 'decl', 'file': PR, 'header': r'^pub struct PdfStream$',
     'rewrites': [{'rule': 'R2', 'find': 'pub (crate) inner:', 'replace': 'pub inner:'}]},
  'enum Primitive': {'kind': 'decl', 'file': PR, 'header': r'^pub enum Primitive$'},
  'struct Context': {'kind': 'decl', 'file': P, 'header': r"^pub struct Context<'a>$"},

  # ---- re-proved lexer leaves (same text and contract as unit lexer; read_n with two more postconditions) -----------
  'Lexer::new_substr': {'kind': 'fn', 'file': L, 'container': LX, 'name': 'new_substr', 'props': ['C01'],
     'requires': ['self.wf()', 'if range.start <= range.end { range.end <= self.buf@.len() } else { range.start < self.buf@.len() }'],
     'ensures': [('substr_is_range', 'range.start <= range.end ==> r.cut_from(self.buf@, self.file_offset as int, range.start as int, range.end as int)'),
                 ('substr_offset_fits', 'r.swf()')]},
  'Lexer::read_n': {'kind': 'fn', 'file': L, 'container': LX, 'name': 'read_n', 'props': ['C01', 'C11', 'C03'],
     'requires': ['old(self).wf()', 'n <= isize::MAX'],
     'ensures': [('read_n_wf', 'final(self).wf() && final(self).same(old(self))'),
                 ('read_n_at_most_n', 'r.slice@.len() <= n && r.swf()'),
                 ('read_n_from_old_pos', 'if old(self).pos < old(self).buf@.len() { r.cut_from(old(self).buf@, old(self).file_offset as int, old(self).pos as int, final(self).pos as int) } else { r.slice@.len() == 0 }'),
                 ('read_n_full_when_available', 'old(self).pos + n < old(self).buf@.len() ==> final(self).pos == old(self).pos + n'),
                 ('read_n_short_otherwise', 'old(self).pos + n >= old(self).buf@.len() && old(self).pos < old(self).buf@.len() ==> r.slice@.len() < n'),
                 ('read_n_back_at_most_one', 'final(self).pos + 1 >= old(self).pos')]},

  'PdfString::new': {'kind': 'fn', 'file': PR, 'container': r'^impl PdfString$', 'name': 'new', 'props': ['C03'],
     'ensures': [('new_holds_data', 'r.data == data')]},
  # C06 placement: decrypt only when a decoder is present, with the id of the enclosing indirect object
  'Primitive::into_name': {'kind': 'fn', 'file': PR, 'container': r'^impl Primitive$', 'name': 'into_name', 'props': ['C03'],
     'ensures': [('name_only', 'match self { Primitive::Name(s) => r == Ok::<Name, PdfError>(Name(s)), _ => r is Err }')]},
  'Context::decrypt': {'kind': 'fn', 'file': P, 'container': r"^impl<'a> Context<'a>$", 'name': 'decrypt', 'props': ['C06'],
     'ensures': [('decrypt_only_with_decoder', 'match r { Ok(s) => ctx_decrypt(ctxv(Some(self)), old(data)@) == Some(s@), Err(_) => ctx_decrypt(ctxv(Some(self)), old(data)@) is None }')]},

  'check': {'kind': 'fn', 'file': P, 'container': None, 'name': 'check', 'props': ['C03', 'C01'],
     'ensures': [('check_intersects', 'r is Ok <==> flags.bits & allowed.bits != 0'),
                 ('check_err_kind', 'r matches Err(e) ==> e is PrimitiveNotAllowed')],
     'rewrites': [{'rule': 'R3', 'find': 'PdfError::PrimitiveNotAllowed { allowed, found: flags }', 'replace': 'PdfError::PrimitiveNotAllowed'}]},

  # added to /repo by the repair of serops/findings/big_real_as_integer (C08): an all-digit token beyond the i32 range is a real, not an
  # error. `optional`: on a tree without the repair the item renders as nothing and `_parse_with_lexer_ctx/value_int_ref` fails (the defect).
  'integer_or_real': {'kind': 'fn', 'file': P, 'container': None, 'name': 'integer_or_real', 'ret': 'res', 'optional': True,
     'props': ['C03', 'C08', 'C01'],
     'ensures': [('fits_i32_is_integer', FITS + ' ==> (res matches Ok(Primitive::Integer(x)) && x == dec_signed(lexeme.slice@).unwrap())'),
                 # beyond the implementation's integer range (or not `[+-]?d+` at all): the token read as a real; Err only if it is no f32 literal
                 ('beyond_i32_is_real', '!' + FITS + ' ==> match f32_of(lexeme.slice@) { Some(f) => res matches Ok(Primitive::Number(x)) && x == f, None => res is Err }')]},

  'parse_with_lexer_ctx': {'kind': 'fn', 'file': P, 'container': None, 'name': 'parse_with_lexer_ctx', 'ret': 'res',
     'props': ['C03', 'C04', 'C11', 'C01', 'C06'],
     'requires': ['old(lexer).wf()'],
     'ensures': [('ctx_frame', FRAME),
                 ('err_restores_position', 'res is Err ==> final(lexer).pos == old(lexer).pos'),
                 ('ok_consumes', PROGRESS),
                 ('value', VALUE)],
     'decreases': 'max_depth, 2nat',
     'rewrites': [{'rule': 'R2', 'find': 'Ok(r) => Ok(r),', 'replace': 'Ok(v) => Ok(v),'}]},

  '_parse_with_lexer_ctx': {'kind': 'fn', 'file': P, 'container': None, 'name': '_parse_with_lexer_ctx', 'ret': 'res',
     'props': ['C03', 'C04', 'C11', 'C01', 'C06'],
     'requires': ['old(lexer).wf()'],
     'ensures': [('ctx_frame', FRAME),
                 ('ok_consumes', PROGRESS)]
                + [(lbl, '%s == %d ==> %s' % (CLS, k, VALUE)) for k, lbl in ARMS],
     'decreases': 'max_depth, 1nat',
     'attrs': ['#[verifier::loop_isolation(false)]', '#[verifier::allow_complex_invariants]'],
     'loops': {
        1: {'invariant': ['rest@.len() <= isize::MAX', 'lexer.wf()', 'lexer.same(old(lexer))', 'lexer.pos > old(lexer).pos',
                          ('name_decoded_so_far', 'name_dec(rest0) is Some ==> name_dec(rest0) == opt_prepend(s@, name_dec(rest@))')],
            'ensures': [('name_rest_plain', 'forall|i: int| 0 <= i < rest@.len() ==> rest@[i] != 35u8')],
            'decreases': 'rest@.len()'},
        2: {'invariant': ['lexer.wf()', 'lexer.same(old(lexer))', 'lexer.pos > old(lexer).pos', 'max_depth > 0', 'e0 == env_of(lexer, ctx)',
                          'pa <= lexer.pos',
                          ('array_elements_so_far', '%s is Some ==> (%s == arr_prepend(vals, arr_at(r, e0, lexer.pos as int, %s)) && rep_seq(array@, vals))' % (ARR_TOTAL, ARR_TOTAL, D1))],
            'ensures': [('array_closed', '%s is Some ==> (tok(lexer.buf@, lexer.pos as int) matches Some(t) && %s == Some((vals, t.1)))' % (ARR_TOTAL, ARR_TOTAL)),
                        'tok(lexer.buf@, lexer.pos as int) is Some'],
            'decreases': 'lexer.buf@.len() - lexer.pos'},
        3: {'invariant': ['string_lexer.wf()', 'string_lexer.buf@ == rem',
                          ('lit_string_so_far', 'lit_str(rem, 0, 0) is Some ==> lit_str(rem, 0, 0) == str_prepend(string@, lit_str(rem, string_lexer.pos as int, string_lexer.nested as int))')],
            'invariant_except_break': ['0 <= string_lexer.nested'],
            'ensures': [('lit_string_closed', 'lit_str(rem, 0, 0) is Some ==> lit_str(rem, 0, 0) == Some((string@, string_lexer.pos as int))')],
            'decreases': 'string_lexer.buf@.len() - string_lexer.pos'},
        4: {'invariant': ['hex_string_lexer.wf()', 'hex_string_lexer.buf@ == rem',
                          ('hex_string_so_far', 'hex_str(rem, 0) is Some ==> hex_str(rem, 0) == str_prepend(string@, hex_str(rem, hex_string_lexer.pos as int))')],
            'ensures': [('hex_string_closed', 'hex_str(rem, 0) is Some ==> hex_str(rem, 0) == Some((string@, hex_string_lexer.pos as int))')],
            'decreases': 'hex_string_lexer.buf@.len() - hex_string_lexer.pos'},
     },
     'rewrites': [
        top(' proof { lemma_flag_bits(flags.bits); lemma_obj_unfold(r, e0, p0, max_depth as nat); }'), BLIT,
        {'rule': 'R1', 'find': 'let obj = if first_lexeme.equals(blit("<<")) {',
         'replace': 'let ghost w = first_lexeme.slice@; let ghost t1 = lexer.pos as int;'
                    ' proof { lemma_kw_first(); lemma_real_iso_is_lit(w); lemma_int_is_real_iso(w); axiom_f32_accepts_iso_reals(w); lemma_starts_slash(w); }'
                    ' let obj = if first_lexeme.equals(blit("<<")) {'},
        {'rule': 'R7', 'find': 'ParseFlags::INTEGER | ParseFlags::REF', 'replace': 'flags_or(ParseFlags::INTEGER, ParseFlags::REF)'},
        {'rule': 'R3', 'find': 'PdfError::PrimitiveNotAllowed { allowed: ParseFlags::STREAM, found: flags }', 'replace': 'PdfError::PrimitiveNotAllowed'},
        # name arm
        {'rule': 'R2', 'find': 'let mut rest: &[u8] = &first_lexeme.reslice(1..);',
         'replace': 'let mut rest: &[u8] = first_lexeme.reslice(1..).as_slice(); let ghost rest0 = rest@;'},
        {'rule': 'R7', 'find': "rest.contains(&b'#')", 'replace': 'hoist_contains_hash(rest)'},
        {'rule': 'R7', 'find': "rest.iter().position(|&b| b == b'#')", 'replace': 'hoist_position_hash(rest)'},
        {'rule': 'R2', 'find': 'use crate::enc::decode_nibble;', 'replace': ''},
        {'rule': 'R2', 'find': 'use std::convert::TryInto;', 'replace': ''},
        {'rule': 'R10', 'find': 'let [hi, lo]: [u8; 2] = rest.get(idx+1 .. idx+3).ok_or(PdfError::EOF)?.try_into().unwrap();',
         'replace': 'proof { lemma_name_dec_escape(rest@, idx as int); } let hl_: [u8; 2] = hoist_get2(rest, idx+1, idx+3).ok_or(PdfError::EOF)?; let hi = hl_[0]; let lo = hl_[1];'},
        {'rule': 'R1', 'find': 's.extend_from_slice(&rest[..idx]);', 'replace': NAME_LOOP_STEP},
        {'rule': 'R1', 'find': 'rest = &rest[idx+3..];', 'replace': NAME_LOOP_END},
        {'rule': 'R1', 'find': 's.extend_from_slice(rest);',
         'replace': 'proof { lemma_name_dec_plain(rest@); } s.extend_from_slice(rest);'},
        {'rule': 'R1', 'find': 'else { SmallBytes::from(rest) }', 'replace': 'else { proof { lemma_name_dec_plain(rest@); } SmallBytes::from(rest) }'},
        # array arm
        {'rule': 'R1', 'find': 'let mut array = Vec::new();',
         'replace': 'let mut array = Vec::new(); let ghost mut vals: Seq<Val> = Seq::empty(); let ghost pa = lexer.pos as int;'
                    ' proof { lemma_arr_ends(vals, 0, arr_at(r, e0, pa, %s)); }' % D1},
        {'rule': 'R1', 'find': 'if lexer.peek()?.equals(blit("]")) { break; }',
         'replace': 'proof { lemma_arr_unfold(r, e0, lexer.pos as int, %s); } if lexer.peek()?.equals(blit("]")) { proof { let tk = tok(lexer.buf@, lexer.pos as int); if tk is Some { lemma_arr_ends(vals, tk.unwrap().1, None); } } break; }' % D1},
        {'rule': 'R1', 'regex': r'let element = t!\(parse_with_lexer_ctx\(lexer, r, ([^,()]+), ([^,()]+), ([^,()]+)\)\);',
         'replace': 'let ghost pk = lexer.pos as int; let ghost xk = obj_at(r, e0, pk, %s);'
                    ' proof { if xk is Some { lemma_any_allows(xk.unwrap().0); } }'
                    r' let element = t!(parse_with_lexer_ctx(lexer, r, \1, \2, \3));'
                    ' proof { if xk is Some { let v = xk.unwrap().0; lemma_arr_step(vals, v, arr_at(r, e0, lexer.pos as int, %s)); lemma_rep_seq_push(array@, vals, element, v); vals = vals.push(v); } }' % (D1, D1)},
        # strings: `for x in it { body }` spelled as its definition `loop { match it.next() { None => break, Some(x) => body } }` (R6)
        {'rule': 'R1', 'count': 2, 'find': 'let mut string = IBytes::new();',
         'replace': 'let mut string = IBytes::new(); let ghost rem = lexer.buf@.subrange(lexer.pos as int, lexer.buf@.len() as int);'
                    ' proof { lemma_str_ends(string@, 0, lit_str(rem, 0, 0)); lemma_str_ends(string@, 0, hex_str(rem, 0)); }'},
        {'rule': 'R6', 'find': 'for character in string_lexer.iter() { string.push(t!(character)); }', 'replace': STR_LOOP},
        {'rule': 'R6', 'find': 'for byte in hex_string_lexer.iter() { string.push(t!(byte)); }', 'replace': HEX_LOOP},
        {'rule': 'R7', 'count': '*', 'find': 'string = t!(ctx.decrypt(&mut string)).into();', 'replace': 'string = t!(hoist_decrypt_into(ctx, &mut string));'},
        {'rule': 'R3', 'find': 'PdfError::UnknownType {pos: lexer.get_pos(), first_lexeme: first_lexeme.to_string(), rest: lexer.read_n(50).to_string()}',
         'replace': '{ let pos_ = lexer.get_pos(); let _rest = lexer.read_n(50); PdfError::UnknownType { pos: pos_ } }'},
     ]},

  'parse_dictionary_object': {'kind': 'fn', 'file': P, 'container': None, 'name': 'parse_dictionary_object', 'ret': 'res',
     'props': ['C03', 'C04', 'C11', 'C01', 'C06'],
     'requires': ['old(lexer).wf()'],
     'ensures': [('dict_frame', FRAME), ('ok_consumes', PROGRESS),
                 ('value_dictionary', 'dict_at(r, env_of(old(lexer), ctx), old(lexer).pos as int, max_depth as nat, Map::<Seq<u8>, Val>::empty()) matches Some(x)'
                                      ' ==> (res matches Ok(d) && rep_dict(d, x.0) && final(lexer).pos == x.1)')],
     'decreases': 'max_depth, 3nat',
     'attrs': ['#[verifier::loop_isolation(false)]', '#[verifier::allow_complex_invariants]'],
     'loops': {1: {'invariant': ['lexer.wf()', 'lexer.same(old(lexer))', 'lexer.pos >= old(lexer).pos', 'e0 == env_of(lexer, ctx)',
                                 ('dict_entries_so_far', 'total is Some ==> (total == dict_at(r, e0, lexer.pos as int, max_depth as nat, m) && rep_dict(dict, m))')],
                   'ensures': ['lexer.wf()', 'lexer.same(old(lexer))', 'lexer.pos > old(lexer).pos',
                               ('dict_closed', 'total is Some ==> (total == Some((m, lexer.pos as int)) && rep_dict(dict, m))')],
                   'decreases': 'lexer.buf@.len() - lexer.pos'}},
     'rewrites': [top(' let ghost mut m: Map<Seq<u8>, Val> = Map::empty(); let ghost total = dict_at(r, e0, p0, max_depth as nat, m);'), BLIT,
        {'rule': 'R3', 'find': 'lexeme: token.to_string(),', 'replace': ''},
        {'rule': 'R1', 'find': 'let token = t!(lexer.next());', 'replace': 'proof { lemma_dict_unfold(r, e0, lexer.pos as int, max_depth as nat, m); } let token = t!(lexer.next());'},
        {'rule': 'R1', 'find': 'if token.starts_with(blit("/")) {', 'replace': 'proof { lemma_starts_slash(token.slice@); } if token.starts_with(blit("/")) {'},
        # the key is read through the name arm (since f033b21): the object at a `/` token is the name, whatever the context
        {'rule': 'R1', 'regex': r'let key = t!\(parse_with_lexer_ctx\(lexer, r, ([^,()]+), ([^,()]+), ([^,()]+)\)\)\.into_name\(\)\?;',
         'replace': 'let ghost ek = env_of(lexer, None::<&Context>); let ghost xn = obj_at(r, ek, lexer.pos as int, max_depth as nat);'
                    ' proof { lemma_obj_name(r, ek, lexer.pos as int, max_depth as nat); lemma_obj_name(r, e0, lexer.pos as int, max_depth as nat);'
                    ' if xn is Some && xn.unwrap().0 is Name { lemma_name_allowed(xn.unwrap().0->Name_0); } }'
                    r' let key = t!(parse_with_lexer_ctx(lexer, r, \1, \2, \3)).into_name()?;'},
        {'rule': 'R1', 'regex': r'let obj = t!\(parse_with_lexer_ctx\(lexer, r, ([^,()]+), ([^,()]+), ([^,()]+)\)\);',
         'replace': 'let ghost xk = obj_at(r, e0, lexer.pos as int, max_depth as nat);'
                    ' proof { if xk is Some { lemma_any_allows(xk.unwrap().0); } }'
                    r' let obj = t!(parse_with_lexer_ctx(lexer, r, \1, \2, \3));'},
        {'rule': 'R1', 'find': 'dict.insert(key, obj);',
         'replace': 'proof { if xk is Some { lemma_rep_map_insert(dict@, m, key@, obj, xk.unwrap().0); m = m.insert(key@, xk.unwrap().0); } } dict.insert(key, obj);'}]},

  'parse_stream_object': {'kind': 'fn', 'file': P, 'container': None, 'name': 'parse_stream_object', 'ret': 'res',
     'props': ['C11', 'C03', 'C01'],
     'requires': ['old(lexer).wf()'],
     'ensures': [('stream_frame', FRAME), ('ok_consumes', PROGRESS),
                 # body = exactly /Length bytes after `stream` + LF|CRLF, then `endstream`; /Length direct or through a reference (C11)
                 ('value_stream', 'forall|m: Map<Seq<u8>, Val>| #[trigger] rep_dict(dict, m) ==>'
                                  ' (stream_at(r, env_of(old(lexer), Some(ctx)), m, old(lexer).pos as int) matches Some(x)'
                                  ' ==> (res matches Ok(s) && rep(Primitive::Stream(s), x.0) && final(lexer).pos == x.1))'),
                 # converse for the framing (7.3.8.1): a stream is only returned when the keyword `endstream` follows its data, and it is consumed
                 ('endstream_required', 'res matches Ok(s) ==> (s.inner matches StreamInner::InFile { id: i, file_range: fr } && fr.start <= fr.end'
                                        ' && (tok(old(lexer).buf@, fr.end - old(lexer).file_offset) matches Some(t) && old(lexer).buf@.subrange(t.0, t.1) == K_ENDSTREAM() && final(lexer).pos == t.1))')],
     'rewrites': [{'rule': 'R1', 'regex': r'\A\{', 'replace': '{\n    broadcast use {b_tok, b_ws_end};\n    proof { lemma_lits(); reveal(stream_at); }'},
        # R5 ref patterns (`Some(&Primitive::X(v))`, unsupported): the match runs on a clone of the looked-up value and the `&` is dropped from
        # the patterns; guards and arm bodies stay verbatim
        {'rule': 'R5', 'regex': r'match (dict\.get\("[A-Za-z]+"\)) \{', 'replace': r'match opt_cloned(\1) {'},
        {'rule': 'R5', 'count': '*', 'regex': r'Some\(&Primitive::', 'replace': 'Some(Primitive::'},
        # R4: `PAT => err!(..)` uses the twin `err_arm!` (same control flow; works around a Verus false alarm, see unit.rs)
        {'rule': 'R4', 'count': '*', 'regex': r'=> err!\(', 'replace': '=> err_arm!('},
        {'rule': 'R3', 'find': 'field: "Length".into()', 'replace': ''}]},

  'parse_with_lexer': {'kind': 'fn', 'file': P, 'container': None, 'name': 'parse_with_lexer', 'ret': 'res',
     'props': ['C03', 'C04', 'C11', 'C01'],
     'requires': ['old(lexer).wf()'],
     'ensures': [('ctx_frame', FRAME),
                 ('err_restores_position', 'res is Err ==> final(lexer).pos == old(lexer).pos'),
                 ('ok_consumes', PROGRESS),
                 ('value', 'parse_post(obj_at(r, env_of(old(lexer), None), old(lexer).pos as int, 20), flags, res, final(lexer).pos as int)')]},
  'parse': {'kind': 'fn', 'file': P, 'container': None, 'name': 'parse', 'ret': 'res',
     'props': ['C03', 'C04', 'C11', 'C01'],
     'requires': ['data@.len() <= isize::MAX'],
     # C11: the member slice of an object stream is parsed from its first byte; the value is the object at 0, whatever follows
     'ensures': [('value', 'obj_at(r, Env { buf: data@, base: 0, ctx: None }, 0, 20) matches Some(x) ==>'
                           ' (if allowed(flags, x.0) { res matches Ok(p) && rep(p, x.0) } else { res matches Err(PdfError::PrimitiveNotAllowed) })')]},
  'parse_stream_with_lexer': {'kind': 'fn', 'file': P, 'container': None, 'name': 'parse_stream_with_lexer', 'ret': 'res',
     'props': ['C03', 'C11', 'C01'],
     'requires': ['old(lexer).wf()'],
     'ensures': [('stream_frame', FRAME), ('ok_consumes', PROGRESS),
                 ('value_stream_object', 'stream_obj_at(r, old(lexer).buf@, old(lexer).file_offset as int, ctx.id, old(lexer).pos as int) matches Some(x)'
                                         ' ==> (res matches Ok(s) && rep(Primitive::Stream(s), x.0) && final(lexer).pos == x.1)')],
     'rewrites': [LITS, BLIT]},
  'parse_stream': {'kind': 'fn', 'file': P, 'container': None, 'name': 'parse_stream', 'ret': 'res',
     'props': ['C03', 'C11', 'C01'],
     'requires': ['data@.len() <= isize::MAX'],
     'ensures': [('value_stream_object', 'stream_obj_at(resolve, data@, 0, ctx.id, 0) matches Some(x) ==> (res matches Ok(s) && rep(Primitive::Stream(s), x.0))')]},
  'parse_indirect_object': {'kind': 'fn', 'file': PO, 'container': None, 'name': 'parse_indirect_object', 'ret': 'res',
     'props': ['C03', 'C04', 'C06', 'C01'],
     'requires': ['old(lexer).wf()'],
     'ensures': [('ind_frame', FRAME), ('ok_consumes', PROGRESS),
                 # `n g obj <value> endobj`: id from the first two tokens, value parsed with the context {decoder, id}
                 ('value_indirect', 'match ' + IND + ' { None => true, Some(x) => is_endobj(old(lexer).buf@, x.3)'
                                    ' ==> (if allowed(flags, x.1) { res matches Ok(o) && o.0 == x.0 && rep(o.1, x.1) && final(lexer).pos == x.3.unwrap().1 } else { res is Err }) }'),
                 # what the two parse modes do when `endobj` does not follow the value (not conformant: C03 demands nothing)
                 ('endobj_missing_strict', 'match ' + IND + ' { None => true, Some(x) => !is_endobj(old(lexer).buf@, x.3)'
                                           ' && !r.options_spec().allow_missing_endobj ==> res is Err }'),
                 ('endobj_missing_tolerant', 'match ' + IND + ' { None => true, Some(x) => !is_endobj(old(lexer).buf@, x.3)'
                                             ' && r.options_spec().allow_missing_endobj && allowed(flags, x.1) ==> (res matches Ok(o) && o.0 == x.0 && rep(o.1, x.1) && final(lexer).pos == x.2) }')],
     'rewrites': [LITS, BLIT]},
 },
}
