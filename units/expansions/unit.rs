// Unit `expansions` (C15, C18): the compiler's expansion of pdf_derive's `Object` / `ObjectWrite` derives
// (FromDict::from_dict, ToDict::to_dict, name-/integer-enum from_primitive/to_primitive) for real models of
// the crate, against an abstract Dictionary (ghost Map<Name, Primitive>) and abstract field codecs.
//
// Layering
//   * every extracted function is proved equal to a *declarative model* of its struct: the attribute table
//     `#[pdf(key=.., default=.., other, Type=..)]` read as "which entry holds which field" (spec fns *_dict / *_read);
//   * the lemmas at the end prove, about those models only, the C15 statements (write-read-write is the identity
//     on the dictionary form; every input entry survives a model with a catch-all) and the C18 statements
//     (absent key == read from Null; a failing required entry is FromPrimitive{field} / MissingEntry).
use vstd::prelude::*;
verus! {
global size_of usize == 8;

pub mod pdf {
    use vstd::prelude::*;
    pub mod error {
        use vstd::prelude::*;
//@@ PDFERROR
    }
    pub mod primitive {
        use vstd::prelude::*;
        use super::error::*;
        use super::object::PlainRef;
        use super::object::RcRef;

        // ---- env types (not under proof): value model of the crate's primitives -------------------------------
        pub struct SmallString { pub chars: Ghost<Seq<char>> }
        impl SmallString {
            pub open spec fn view(&self) -> Seq<char> { self.chars@ }
            #[verifier::external_body]
            pub fn as_str(&self) -> (r: &str) ensures r@ == self@ { unimplemented!() }
        }
        impl From<&str> for SmallString {
            #[verifier::external_body]
            fn from(s: &str) -> (r: SmallString) ensures r == (SmallString { chars: Ghost(s@) }) { unimplemented!() }
        }
        pub struct Name(pub SmallString);
        pub struct PdfString { pub data: Ghost<Seq<u8>> }
        pub struct PdfStream { pub info: Dictionary, pub data: Ghost<Seq<u8>> }
        pub enum Primitive {
            Null,
            Integer(i32),
            Number(f32),
            Boolean(bool),
            String(PdfString),
            Stream(PdfStream),
            Dictionary(Dictionary),
            Array(Vec<Primitive>),
            Reference(PlainRef),
            Name(SmallString),
        }
        impl Primitive {
            pub open spec fn debug_name(self) -> &'static str {
                match self {
                    Primitive::Null => "Null", Primitive::Integer(..) => "Integer", Primitive::Number(..) => "Number",
                    Primitive::Boolean(..) => "Boolean", Primitive::String(..) => "String", Primitive::Stream(..) => "Stream",
                    Primitive::Dictionary(..) => "Dictionary", Primitive::Array(..) => "Array",
                    Primitive::Reference(..) => "Reference", Primitive::Name(..) => "Name",
                }
            }
            #[verifier::external_body]
            pub fn get_debug_name(&self) -> (r: &'static str) ensures r == self.debug_name() { unimplemented!() }
        }
        impl<T> From<RcRef<T>> for Primitive {
            #[verifier::external_body]
            fn from(value: RcRef<T>) -> (r: Primitive) ensures r == Primitive::Reference(value.inner) { unimplemented!() }
        }

        // ---- abstract Dictionary: ghost Map<Name, Primitive>; the six operations the expansions use are env stubs
        //      with IndexMap semantics (trusted; order of entries is not modelled) ------------------------------
        pub type DMap = Map<Seq<char>, Primitive>;
        pub struct Dictionary { pub m: Ghost<DMap> }
        pub uninterp spec fn as_name_err(p: Primitive) -> PdfError;
        pub open spec fn expect_spec(m: DMap, typ: &'static str, key: Seq<char>, value: Seq<char>, required: bool) -> Result<()> {
            if m.dom().contains(key) {
                match m[key] {
                    Primitive::Name(s) => if s@ == value { Ok(()) } else { Err(PdfError::KeyValueMismatch) },
                    p => Err(as_name_err(p)),
                }
            } else if required { Err(PdfError::MissingEntry { typ: typ }) } else { Ok(()) }
        }
        impl Dictionary {
            pub open spec fn view(&self) -> DMap { self.m@ }
            #[verifier::external_body]
            pub fn new() -> (r: Dictionary) ensures r@ == Map::<Seq<char>, Primitive>::empty() { unimplemented!() }
            #[verifier::external_body]
            pub fn insert(&mut self, key: &str, val: Primitive) -> (r: Option<Primitive>)
                ensures final(self)@ == old(self)@.insert(key@, val),
                    r == (if old(self)@.dom().contains(key@) { Some(old(self)@[key@]) } else { None::<Primitive> })
            { unimplemented!() }
            #[verifier::external_body]
            pub fn remove(&mut self, key: &str) -> (r: Option<Primitive>)
                ensures final(self)@ == old(self)@.remove(key@),
                    r == (if old(self)@.dom().contains(key@) { Some(old(self)@[key@]) } else { None::<Primitive> })
            { unimplemented!() }
            #[verifier::external_body]
            pub fn get(&self, key: &str) -> (r: Option<&Primitive>)
                ensures r == (if self@.dom().contains(key@) { Some(&self@[key@]) } else { None::<&Primitive> })
            { unimplemented!() }
            #[verifier::external_body]
            pub fn expect(&self, typ: &'static str, key: &str, value: &str, required: bool) -> (r: Result<()>)
                ensures r == expect_spec(self@, typ, key@, value@, required)
            { unimplemented!() }
        }
        impl Clone for Dictionary {
            #[verifier::external_body]
            fn clone(&self) -> (r: Dictionary) ensures r@ == self@ { unimplemented!() }
        }
    }
    pub mod object {
        use vstd::prelude::*;
        use super::error::*;
        use super::primitive::*;

        #[derive(Clone, Copy)]
        pub struct PlainRef { pub id: u64, pub gen: u64 }
        pub struct RcRef<T> { pub inner: PlainRef, pub data: Ghost<T> }
        // what a `Resolve` can see: the stored object behind every reference (or the error of looking it up)
        pub struct Store { pub objs: Map<PlainRef, Result<Primitive>> }
        pub trait Resolve {
            spec fn store(&self) -> Store;
        }
        pub open spec fn submap(a: Map<PlainRef, Primitive>, b: Map<PlainRef, Primitive>) -> bool {
            forall|r: PlainRef| #![trigger a.dom().contains(r)] a.dom().contains(r) ==> b.dom().contains(r) && b[r] == a[r]
        }
        pub trait Updater: Sized {
            spec fn created(&self) -> Map<PlainRef, Primitive>;
            // the crate's `create<T: ObjectWrite>(&mut self, obj: T)`; the expansions instantiate it at T = Primitive only
            // (a generic T here would make the trait declarations cyclic for Verus)
            fn create(&mut self, obj: Primitive) -> (r: Result<RcRef<Primitive>>)
                ensures
                    r is Err ==> final(self).created() == old(self).created(),
                    r matches Ok(rc) ==> !old(self).created().dom().contains(rc.inner)
                        && final(self).created() == old(self).created().insert(rc.inner, obj)
                        && final(self).created().dom().contains(rc.inner) && final(self).created()[rc.inner] == obj;
        }
        // abstract field codecs: a reader is a function of the primitive and the store, a writer a function of the value
        pub trait Object: Sized {
            spec fn reads(p: Primitive, st: Store) -> Result<Self>;
            fn from_primitive<R: Resolve>(p: Primitive, resolve: &R) -> (r: Result<Self>)
                ensures r == Self::reads(p, resolve.store());
        }
        pub trait ObjectWrite: Sized {
            spec fn writes(&self) -> Primitive;
            spec fn wfail(&self) -> bool;
            fn to_primitive<U: Updater>(&self, update: &mut U) -> (r: Result<Primitive>)
                ensures
                    r matches Ok(p) ==> p == self.writes(),
                    r is Err ==> self.wfail(),
                    submap(old(update).created(), final(update).created());
        }
    }
}
use pdf::error::*;
use pdf::primitive::*;
use pdf::object::*;

// ---- abstract codecs of the field types used by the models (env stubs, trusted: L0 "is a function") ----------
pub uninterp spec fn i32_reads(p: Primitive, st: Store) -> Result<i32>;
impl Object for i32 {
    open spec fn reads(p: Primitive, st: Store) -> Result<i32> { i32_reads(p, st) }
    #[verifier::external_body]
    fn from_primitive<R: Resolve>(p: Primitive, resolve: &R) -> Result<Self> { unimplemented!() }
}
impl ObjectWrite for i32 {
    open spec fn writes(&self) -> Primitive { Primitive::Integer(*self) }
    open spec fn wfail(&self) -> bool { false }
    #[verifier::external_body]
    fn to_primitive<U: Updater>(&self, update: &mut U) -> Result<Primitive> { unimplemented!() }
}
pub uninterp spec fn u32_reads(p: Primitive, st: Store) -> Result<u32>;
pub uninterp spec fn u32_writes(x: u32) -> Primitive;
impl Object for u32 {
    open spec fn reads(p: Primitive, st: Store) -> Result<u32> { u32_reads(p, st) }
    #[verifier::external_body]
    fn from_primitive<R: Resolve>(p: Primitive, resolve: &R) -> Result<Self> { unimplemented!() }
}
impl ObjectWrite for u32 {
    open spec fn writes(&self) -> Primitive { u32_writes(*self) }
    open spec fn wfail(&self) -> bool { false }
    #[verifier::external_body]
    fn to_primitive<U: Updater>(&self, update: &mut U) -> Result<Primitive> { unimplemented!() }
}
pub uninterp spec fn usize_reads(p: Primitive, st: Store) -> Result<usize>;
pub uninterp spec fn usize_writes(x: usize) -> Primitive;
impl Object for usize {
    open spec fn reads(p: Primitive, st: Store) -> Result<usize> { usize_reads(p, st) }
    #[verifier::external_body]
    fn from_primitive<R: Resolve>(p: Primitive, resolve: &R) -> Result<Self> { unimplemented!() }
}
impl ObjectWrite for usize {
    open spec fn writes(&self) -> Primitive { usize_writes(*self) }
    open spec fn wfail(&self) -> bool { false }
    #[verifier::external_body]
    fn to_primitive<U: Updater>(&self, update: &mut U) -> Result<Primitive> { unimplemented!() }
}
pub uninterp spec fn vec_reads<T>(p: Primitive, st: Store) -> Result<Vec<T>>;
pub uninterp spec fn vec_writes<T>(x: Vec<T>) -> Primitive;
pub uninterp spec fn vec_wfail<T>(x: Vec<T>) -> bool;
impl<T: Object> Object for Vec<T> {
    open spec fn reads(p: Primitive, st: Store) -> Result<Vec<T>> { vec_reads::<T>(p, st) }
    #[verifier::external_body]
    fn from_primitive<R: Resolve>(p: Primitive, resolve: &R) -> Result<Self> { unimplemented!() }
}
impl<T: ObjectWrite> ObjectWrite for Vec<T> {
    open spec fn writes(&self) -> Primitive { vec_writes::<T>(*self) }
    open spec fn wfail(&self) -> bool { vec_wfail::<T>(*self) }
    #[verifier::external_body]
    fn to_primitive<U: Updater>(&self, update: &mut U) -> Result<Primitive> { unimplemented!() }
}
// Option<T>: `Null` reads as `None` (object/mod.rs:740) and `None` writes `Null` (object/mod.rs:758); what the reader
// does with a non-null primitive (tolerant mode, dangling references) belongs to the option-reader unit.
pub uninterp spec fn opt_reads_nonnull<T>(p: Primitive, st: Store) -> Result<Option<T>>;
impl<T: Object> Object for Option<T> {
    open spec fn reads(p: Primitive, st: Store) -> Result<Option<T>> {
        if p is Null { Ok(None) } else { opt_reads_nonnull::<T>(p, st) }
    }
    #[verifier::external_body]
    fn from_primitive<R: Resolve>(p: Primitive, resolve: &R) -> Result<Self> { unimplemented!() }
}
impl<T: ObjectWrite> ObjectWrite for Option<T> {
    open spec fn writes(&self) -> Primitive { match *self { None => Primitive::Null, Some(t) => t.writes() } }
    open spec fn wfail(&self) -> bool { match *self { None => false, Some(t) => t.wfail() } }
    #[verifier::external_body]
    fn to_primitive<U: Updater>(&self, update: &mut U) -> Result<Primitive> { unimplemented!() }
}
pub uninterp spec fn name_reads(p: Primitive, st: Store) -> Result<Name>;
impl Object for Name {
    open spec fn reads(p: Primitive, st: Store) -> Result<Name> { name_reads(p, st) }
    #[verifier::external_body]
    fn from_primitive<R: Resolve>(p: Primitive, resolve: &R) -> Result<Self> { unimplemented!() }
}
impl ObjectWrite for Name {
    open spec fn writes(&self) -> Primitive { Primitive::Name(self.0) }
    open spec fn wfail(&self) -> bool { false }
    #[verifier::external_body]
    fn to_primitive<U: Updater>(&self, update: &mut U) -> Result<Primitive> { unimplemented!() }
}
pub uninterp spec fn pdfstring_reads(p: Primitive, st: Store) -> Result<PdfString>;
impl Object for PdfString {
    open spec fn reads(p: Primitive, st: Store) -> Result<PdfString> { pdfstring_reads(p, st) }
    #[verifier::external_body]
    fn from_primitive<R: Resolve>(p: Primitive, resolve: &R) -> Result<Self> { unimplemented!() }
}
impl ObjectWrite for PdfString {
    open spec fn writes(&self) -> Primitive { Primitive::String(*self) }
    open spec fn wfail(&self) -> bool { false }
    #[verifier::external_body]
    fn to_primitive<U: Updater>(&self, update: &mut U) -> Result<Primitive> { unimplemented!() }
}
pub uninterp spec fn dict_reads(p: Primitive, st: Store) -> Result<Dictionary>;
impl Object for Dictionary {
    open spec fn reads(p: Primitive, st: Store) -> Result<Dictionary> { dict_reads(p, st) }
    #[verifier::external_body]
    fn from_primitive<R: Resolve>(p: Primitive, resolve: &R) -> Result<Self> { unimplemented!() }
}
impl ObjectWrite for Dictionary {
    open spec fn writes(&self) -> Primitive { Primitive::Dictionary(*self) }
    open spec fn wfail(&self) -> bool { false }
    #[verifier::external_body]
    fn to_primitive<U: Updater>(&self, update: &mut U) -> Result<Primitive> { unimplemented!() }
}
impl Object for Primitive {
    open spec fn reads(p: Primitive, st: Store) -> Result<Primitive> { Ok(p) }
    #[verifier::external_body]
    fn from_primitive<R: Resolve>(p: Primitive, resolve: &R) -> Result<Self> { unimplemented!() }
}
impl ObjectWrite for Primitive {
    open spec fn writes(&self) -> Primitive { *self }
    open spec fn wfail(&self) -> bool { false }
    #[verifier::external_body]
    fn to_primitive<U: Updater>(&self, update: &mut U) -> Result<Primitive> { unimplemented!() }
}
pub uninterp spec fn rcref_reads<T>(p: Primitive, st: Store) -> Result<RcRef<T>>;
impl<T: Object> Object for RcRef<T> {
    open spec fn reads(p: Primitive, st: Store) -> Result<RcRef<T>> { rcref_reads::<T>(p, st) }
    #[verifier::external_body]
    fn from_primitive<R: Resolve>(p: Primitive, resolve: &R) -> Result<Self> { unimplemented!() }
}
impl<T> ObjectWrite for RcRef<T> {
    open spec fn writes(&self) -> Primitive { Primitive::Reference(self.inner) }
    open spec fn wfail(&self) -> bool { false }
    #[verifier::external_body]
    fn to_primitive<U: Updater>(&self, update: &mut U) -> Result<Primitive> { unimplemented!() }
}
// opaque models referenced by Trailer's field types (abstract codecs, env)
pub struct Catalog { pub g: Ghost<int> }
pub struct CryptDict { pub g: Ghost<int> }
pub struct InfoDict { pub g: Ghost<int> }
pub uninterp spec fn catalog_reads(p: Primitive, st: Store) -> Result<Catalog>;
impl Object for Catalog {
    open spec fn reads(p: Primitive, st: Store) -> Result<Catalog> { catalog_reads(p, st) }
    #[verifier::external_body]
    fn from_primitive<R: Resolve>(p: Primitive, resolve: &R) -> Result<Self> { unimplemented!() }
}
pub uninterp spec fn cryptdict_reads(p: Primitive, st: Store) -> Result<CryptDict>;
impl Object for CryptDict {
    open spec fn reads(p: Primitive, st: Store) -> Result<CryptDict> { cryptdict_reads(p, st) }
    #[verifier::external_body]
    fn from_primitive<R: Resolve>(p: Primitive, resolve: &R) -> Result<Self> { unimplemented!() }
}
pub uninterp spec fn infodict_reads(p: Primitive, st: Store) -> Result<InfoDict>;
pub uninterp spec fn infodict_writes(x: InfoDict) -> Primitive;
pub uninterp spec fn infodict_wfail(x: InfoDict) -> bool;
impl Object for InfoDict {
    open spec fn reads(p: Primitive, st: Store) -> Result<InfoDict> { infodict_reads(p, st) }
    #[verifier::external_body]
    fn from_primitive<R: Resolve>(p: Primitive, resolve: &R) -> Result<Self> { unimplemented!() }
}
impl ObjectWrite for InfoDict {
    open spec fn writes(&self) -> Primitive { infodict_writes(*self) }
    open spec fn wfail(&self) -> bool { infodict_wfail(*self) }
    #[verifier::external_body]
    fn to_primitive<U: Updater>(&self, update: &mut U) -> Result<Primitive> { unimplemented!() }
}
// R7 helper: `vec![0, size]` (the compiler expands the macro into allocator intrinsics Verus cannot read)
#[verifier::external_body]
fn hoist_vec2(a: u32, b: u32) -> (r: Vec<u32>) ensures r@ == seq![a, b] { vec![a, b] }
// R9 helper: string equality (L0)
#[verifier::external_body]
fn str_eq(a: &str, b: &str) -> (r: bool) ensures r == (a@ == b@) { a == b }

// ---- the derive's documented meaning of the field attributes, as spec combinators --------------------------------
// writer: an entry is written under its key unless the field's primitive form is Null
pub open spec fn put(m: DMap, k: Seq<char>, v: Primitive) -> DMap { if v is Null { m } else { m.insert(k, v) } }
pub open spec fn nm(s: Seq<char>) -> Primitive { Primitive::Name(SmallString { chars: Ghost(s) }) }
// reader, plain `#[pdf(key=K)]` field: the entry, or Null when the key is absent; a failing present entry is
// FromPrimitive{field}; an absent entry whose type cannot be read from Null is MissingEntry
pub open spec fn rd_plain<T: Object>(m: DMap, k: Seq<char>, tyname: &'static str, field: &'static str, typ: &'static str, st: Store) -> Result<T> {
    if m.dom().contains(k) {
        match T::reads(m[k], st) {
            Ok(v) => Ok(v),
            Err(e) => Err(PdfError::FromPrimitive { typ: tyname, field: field, source: Box::new(e) }),
        }
    } else {
        match T::reads(Primitive::Null, st) {
            Ok(v) => Ok(v),
            Err(_) => Err(PdfError::MissingEntry { typ: typ }),
        }
    }
}
// reader, `#[pdf(key=K, default=D)]` field: Some(entry) or None (= take the default)
pub open spec fn rd_default<T: Object>(m: DMap, k: Seq<char>, typ: &'static str, field: &'static str, st: Store) -> Result<Option<T>> {
    if m.dom().contains(k) {
        match T::reads(m[k], st) {
            Ok(v) => Ok(Some(v)),
            Err(e) => Err(PdfError::FromPrimitive { typ: typ, field: field, source: Box::new(e) }),
        }
    } else { Ok(None) }
}
pub open spec fn or_default<T>(o: Option<T>, d: T) -> T { match o { Some(v) => v, None => d } }
// codec hypotheses used by the lemmas
pub open spec fn rt_weak<T: Object + ObjectWrite>(t: T, st: Store) -> bool {
    T::reads(t.writes(), st) matches Ok(t2) && t2.writes() == t.writes()
}
pub open spec fn rt_strong<T: Object + ObjectWrite>(t: T, st: Store) -> bool { T::reads(t.writes(), st) == Ok::<T, PdfError>(t) }


// =====================================================================================================================
// LZWFlateParams (pdf/src/enc.rs): five `#[pdf(key=.., default=..)]` i32 fields
//@@ struct LZWFlateParams
pub open spec fn lzw_dict(x: LZWFlateParams) -> DMap {
    put(put(put(put(put(Map::empty(),
        "Predictor"@, x.predictor.writes()),
        "Colors"@, x.n_components.writes()),
        "BitsPerComponent"@, x.bits_per_component.writes()),
        "Columns"@, x.columns.writes()),
        "EarlyChange"@, x.early_change.writes())
}
pub open spec fn lzw_read(m: DMap, st: Store) -> Result<LZWFlateParams> {
    match rd_default::<i32>(m, "Predictor"@, "LZWFlateParams", "predictor", st) { Err(e) => Err(e), Ok(predictor) =>
    match rd_default::<i32>(m, "Colors"@, "LZWFlateParams", "n_components", st) { Err(e) => Err(e), Ok(n_components) =>
    match rd_default::<i32>(m, "BitsPerComponent"@, "LZWFlateParams", "bits_per_component", st) { Err(e) => Err(e), Ok(bits_per_component) =>
    match rd_default::<i32>(m, "Columns"@, "LZWFlateParams", "columns", st) { Err(e) => Err(e), Ok(columns) =>
    match rd_default::<i32>(m, "EarlyChange"@, "LZWFlateParams", "early_change", st) { Err(e) => Err(e), Ok(early_change) =>
        Ok(LZWFlateParams {
            predictor: or_default(predictor, 1), n_components: or_default(n_components, 1),
            bits_per_component: or_default(bits_per_component, 8), columns: or_default(columns, 1),
            early_change: or_default(early_change, 1) })
    }}}}}
}
impl LZWFlateParams {
//@@ LZWFlateParams::from_dict
//@@ LZWFlateParams::to_dict
}

pub proof fn lemma_lzw_roundtrip(x: LZWFlateParams, st: Store)
    requires rt_strong(x.predictor, st), rt_strong(x.n_components, st), rt_strong(x.bits_per_component, st),
        rt_strong(x.columns, st), rt_strong(x.early_change, st),
    ensures lzw_read(lzw_dict(x), st) == Ok::<LZWFlateParams, PdfError>(x)
{
    reveal_strlit("Predictor"); reveal_strlit("Colors"); reveal_strlit("BitsPerComponent"); reveal_strlit("Columns"); reveal_strlit("EarlyChange"); assert("BitsPerComponent"@.len() == 16); assert("Colors"@.len() == 6); assert("Columns"@.len() == 7); assert("EarlyChange"@.len() == 11); assert("Predictor"@.len() == 9);
}
pub proof fn lemma_lzw_roundtrip_weak(x: LZWFlateParams, st: Store)
    requires rt_weak(x.predictor, st), rt_weak(x.n_components, st), rt_weak(x.bits_per_component, st),
        rt_weak(x.columns, st), rt_weak(x.early_change, st),
    ensures lzw_read(lzw_dict(x), st) matches Ok(x2) && lzw_dict(x2) =~= lzw_dict(x)
{
    reveal_strlit("Predictor"); reveal_strlit("Colors"); reveal_strlit("BitsPerComponent"); reveal_strlit("Columns"); reveal_strlit("EarlyChange"); assert("BitsPerComponent"@.len() == 16); assert("Colors"@.len() == 6); assert("Columns"@.len() == 7); assert("EarlyChange"@.len() == 11); assert("Predictor"@.len() == 9);
}
// C18 / "defaults read as written": every absent key takes the declared default
pub proof fn lemma_lzw_defaults(st: Store)
    ensures lzw_read(Map::empty(), st) == Ok::<LZWFlateParams, PdfError>(LZWFlateParams {
        predictor: 1, n_components: 1, bits_per_component: 8, columns: 1, early_change: 1 })
{}

// =====================================================================================================================
// XRefInfo (pdf/src/xref.rs): `#[pdf(Type = "XRef")]`, required entries, `default = "vec![0, size]"` (an expression over
// an earlier field), an optional entry.  The default is a Vec, so the model is a relation on the result.
//@@ struct XRefInfo
pub open spec fn xref_dict(x: XRefInfo) -> DMap {
    put(put(put(put(Map::empty().insert("Type"@, nm("XRef"@)),
        "Size"@, x.size.writes()),
        "Index"@, x.index.writes()),
        "Prev"@, x.prev.writes()),
        "W"@, x.w.writes())
}
pub open spec fn xref_read(m: DMap, st: Store, r: Result<XRefInfo>) -> bool {
    match expect_spec(m, "XRefInfo", "Type"@, "XRef"@, true) { Err(e) => r == Err::<XRefInfo, PdfError>(e), Ok(_) =>
    match rd_plain::<u32>(m, "Size"@, "u32", "size", "XRefInfo", st) { Err(e) => r == Err::<XRefInfo, PdfError>(e), Ok(size) =>
    match rd_default::<Vec<u32>>(m, "Index"@, "XRefInfo", "index", st) { Err(e) => r == Err::<XRefInfo, PdfError>(e), Ok(index) =>
    match rd_plain::<Option<i32>>(m, "Prev"@, "Option < i32 >", "prev", "XRefInfo", st) { Err(e) => r == Err::<XRefInfo, PdfError>(e), Ok(prev) =>
    match rd_plain::<Vec<usize>>(m, "W"@, "Vec < usize >", "w", "XRefInfo", st) { Err(e) => r == Err::<XRefInfo, PdfError>(e), Ok(w) =>
        r matches Ok(x) && x.size == size && x.prev == prev && x.w == w
            && (match index { Some(v) => x.index == v, None => x.index@ == seq![0u32, size] })
    }}}}}
}
impl XRefInfo {
//@@ XRefInfo::from_dict
//@@ XRefInfo::to_dict
}
pub proof fn lemma_xref_roundtrip(x: XRefInfo, st: Store, r: Result<XRefInfo>)
    requires rt_strong(x.size, st), rt_strong(x.index, st), rt_strong(x.prev, st), rt_strong(x.w, st),
        !(x.index.writes() is Null),   // a Vec writes an Array
        xref_read(xref_dict(x), st, r),
    ensures r matches Ok(x2) && x2.size == x.size && x2.index == x.index && x2.prev == x.prev && x2.w == x.w
{
    reveal_strlit("Type"); reveal_strlit("Size"); reveal_strlit("Index"); reveal_strlit("Prev"); reveal_strlit("W"); assert("Index"@.len() == 5); assert("Prev"@.len() == 4); assert("Prev"@[0] == 'P'); assert("Size"@.len() == 4); assert("Size"@[0] == 'S'); assert("Type"@.len() == 4); assert("Type"@[0] == 'T'); assert("W"@.len() == 1);
}
pub proof fn lemma_xref_roundtrip_weak(x: XRefInfo, st: Store, r: Result<XRefInfo>)
    requires rt_weak(x.size, st), rt_weak(x.index, st), rt_weak(x.prev, st), rt_weak(x.w, st),
        !(x.index.writes() is Null),
        xref_read(xref_dict(x), st, r),
    ensures r matches Ok(x2) && xref_dict(x2) =~= xref_dict(x)
{
    reveal_strlit("Type"); reveal_strlit("Size"); reveal_strlit("Index"); reveal_strlit("Prev"); reveal_strlit("W"); assert("Index"@.len() == 5); assert("Prev"@.len() == 4); assert("Prev"@[0] == 'P'); assert("Size"@.len() == 4); assert("Size"@[0] == 'S'); assert("Type"@.len() == 4); assert("Type"@[0] == 'T'); assert("W"@.len() == 1);
}
// type tag checked: a dictionary without /Type, or with another name, is not an XRefInfo
pub proof fn lemma_xref_type_checked(m: DMap, st: Store, r: Result<XRefInfo>)
    requires xref_read(m, st, r), r is Ok,
    ensures m.dom().contains("Type"@), m["Type"@] == nm("XRef"@)
{}

// =====================================================================================================================
// PageLabel (pdf/src/object/types.rs): three optional entries
//@@ struct PageLabel
pub open spec fn pagelabel_dict(x: PageLabel) -> DMap {
    put(put(put(Map::empty(), "S"@, x.style.writes()), "P"@, x.prefix.writes()), "St"@, x.start.writes())
}
pub open spec fn pagelabel_read(m: DMap, st: Store) -> Result<PageLabel> {
    match rd_plain::<Option<Counter>>(m, "S"@, "Option < Counter >", "style", "PageLabel", st) { Err(e) => Err(e), Ok(style) =>
    match rd_plain::<Option<PdfString>>(m, "P"@, "Option < PdfString >", "prefix", "PageLabel", st) { Err(e) => Err(e), Ok(prefix) =>
    match rd_plain::<Option<usize>>(m, "St"@, "Option < usize >", "start", "PageLabel", st) { Err(e) => Err(e), Ok(start) =>
        Ok(PageLabel { style: style, prefix: prefix, start: start })
    }}}
}
impl PageLabel {
//@@ PageLabel::from_dict
//@@ PageLabel::to_dict
}
pub proof fn lemma_pagelabel_roundtrip(x: PageLabel, st: Store)
    requires rt_strong(x.style, st), rt_strong(x.prefix, st), rt_strong(x.start, st),
    ensures pagelabel_read(pagelabel_dict(x), st) == Ok::<PageLabel, PdfError>(x)
{
    reveal_strlit("S"); reveal_strlit("P"); reveal_strlit("St"); assert("P"@.len() == 1); assert("P"@[0] == 'P'); assert("S"@.len() == 1); assert("S"@[0] == 'S'); assert("St"@.len() == 2);
}
pub proof fn lemma_pagelabel_roundtrip_weak(x: PageLabel, st: Store)
    requires rt_weak(x.style, st), rt_weak(x.prefix, st), rt_weak(x.start, st),
    ensures pagelabel_read(pagelabel_dict(x), st) matches Ok(x2) && pagelabel_dict(x2) =~= pagelabel_dict(x)
{
    reveal_strlit("S"); reveal_strlit("P"); reveal_strlit("St"); assert("P"@.len() == 1); assert("P"@[0] == 'P'); assert("S"@.len() == 1); assert("S"@[0] == 'S'); assert("St"@.len() == 2);
}
// C18: an absent optional key is read from Null, i.e. as None -- in every mode, whatever the store holds
pub proof fn lemma_pagelabel_absent(m: DMap, st: Store)
    ensures
        !m.dom().contains("S"@) && !m.dom().contains("P"@) && !m.dom().contains("St"@)
            ==> pagelabel_read(m, st) == Ok::<PageLabel, PdfError>(PageLabel { style: None, prefix: None, start: None }),
        pagelabel_read(m, st) matches Ok(x) ==> (!m.dom().contains("S"@) ==> x.style is None)
            && (!m.dom().contains("P"@) ==> x.prefix is None) && (!m.dom().contains("St"@) ==> x.start is None),
{}

// =====================================================================================================================
// SignatureReferenceDictionary (types.rs): optional type tag `Type="SigRef?"`, a required entry, optional entries and
// the `#[pdf(other)]` catch-all
//@@ struct SignatureReferenceDictionary
pub open spec fn sigref_known(k: Seq<char>) -> bool {
    k == "TransformMethod"@ || k == "TransformParams"@ || k == "Data"@ || k == "DigestMethod"@
}
pub open spec fn sigref_dict(x: SignatureReferenceDictionary) -> DMap {
    put(put(put(put(x.other@.insert("Type"@, nm("SigRef"@)),
        "TransformMethod"@, x.transform_method.writes()),
        "TransformParams"@, x.transform_params.writes()),
        "Data"@, x.data.writes()),
        "DigestMethod"@, x.digest_method.writes())
}
pub open spec fn sigref_read(m: DMap, st: Store, r: Result<SignatureReferenceDictionary>) -> bool {
    match expect_spec(m, "SignatureReferenceDictionary", "Type"@, "SigRef"@, false) { Err(e) => r == Err::<SignatureReferenceDictionary, PdfError>(e), Ok(_) =>
    match rd_plain::<Name>(m, "TransformMethod"@, "Name", "transform_method", "SignatureReferenceDictionary", st) { Err(e) => r == Err::<SignatureReferenceDictionary, PdfError>(e), Ok(transform_method) =>
    match rd_plain::<Option<Dictionary>>(m, "TransformParams"@, "Option < Dictionary >", "transform_params", "SignatureReferenceDictionary", st) { Err(e) => r == Err::<SignatureReferenceDictionary, PdfError>(e), Ok(transform_params) =>
    match rd_plain::<Option<Primitive>>(m, "Data"@, "Option < Primitive >", "data", "SignatureReferenceDictionary", st) { Err(e) => r == Err::<SignatureReferenceDictionary, PdfError>(e), Ok(data) =>
    match rd_plain::<Option<Name>>(m, "DigestMethod"@, "Option < Name >", "digest_method", "SignatureReferenceDictionary", st) { Err(e) => r == Err::<SignatureReferenceDictionary, PdfError>(e), Ok(digest_method) =>
        r matches Ok(x) && x.transform_method == transform_method && x.transform_params == transform_params
            && x.data == data && x.digest_method == digest_method
            // the catch-all holds exactly the entries that are not recognised keys
            && (forall|k: Seq<char>| #![trigger x.other@.dom().contains(k)] #![trigger m.dom().contains(k)]
                    x.other@.dom().contains(k) <==> (m.dom().contains(k) && !sigref_known(k)))
            && (forall|k: Seq<char>| #![trigger x.other@.dom().contains(k)] #![trigger x.other@[k]]
                    x.other@.dom().contains(k) ==> x.other@[k] == m[k])
    }}}}}
}
impl SignatureReferenceDictionary {
//@@ SignatureReferenceDictionary::from_dict
//@@ SignatureReferenceDictionary::to_dict
}
// C15, second sentence: every entry of an accepted input survives read + write: unrecognised entries (and the type tag)
// verbatim, a recognised entry as `writes(reads(entry))`, dropped only if that is Null
pub proof fn lemma_sigref_preserves(m: DMap, st: Store, r: Result<SignatureReferenceDictionary>)
    requires sigref_read(m, st, r), r is Ok,
    ensures ({
        let x = r->Ok_0; let out = sigref_dict(x);
        &&& forall|k: Seq<char>| #![trigger m.dom().contains(k)] m.dom().contains(k) && !sigref_known(k) ==> out.dom().contains(k) && out[k] == m[k]
        &&& m.dom().contains("TransformMethod"@) ==> Name::reads(m["TransformMethod"@], st) == Ok::<Name, PdfError>(x.transform_method)
                && out.dom().contains("TransformMethod"@) && out["TransformMethod"@] == x.transform_method.writes()
        &&& m.dom().contains("TransformParams"@) ==> <Option<Dictionary>>::reads(m["TransformParams"@], st) == Ok::<Option<Dictionary>, PdfError>(x.transform_params)
                && (x.transform_params is Some ==> out.dom().contains("TransformParams"@) && out["TransformParams"@] == x.transform_params.writes())
        &&& m.dom().contains("Data"@) ==> <Option<Primitive>>::reads(m["Data"@], st) == Ok::<Option<Primitive>, PdfError>(x.data)
                && (!(x.data.writes() is Null) ==> out.dom().contains("Data"@) && out["Data"@] == x.data.writes())
        &&& m.dom().contains("DigestMethod"@) ==> <Option<Name>>::reads(m["DigestMethod"@], st) == Ok::<Option<Name>, PdfError>(x.digest_method)
                && (x.digest_method is Some ==> out.dom().contains("DigestMethod"@) && out["DigestMethod"@] == x.digest_method.writes())
        // nothing is invented: every output entry is the type tag or stems from an input entry (or is the required
        // entry, should its type be readable from Null)
        &&& forall|k: Seq<char>| #![trigger out.dom().contains(k)] out.dom().contains(k) ==> k == "Type"@ || m.dom().contains(k) || k == "TransformMethod"@
    })
{
    reveal_strlit("Type"); reveal_strlit("TransformMethod"); reveal_strlit("TransformParams"); reveal_strlit("Data"); reveal_strlit("DigestMethod"); reveal_strlit("SigRef"); assert("Data"@.len() == 4); assert("Data"@[0] == 'D'); assert("DigestMethod"@.len() == 12); assert("SigRef"@.len() == 6); assert("TransformMethod"@.len() == 15); assert("TransformMethod"@[9] == 'M'); assert("TransformParams"@.len() == 15); assert("TransformParams"@[9] == 'P'); assert("Type"@.len() == 4); assert("Type"@[0] == 'T');
}
pub proof fn lemma_sigref_roundtrip_weak(x: SignatureReferenceDictionary, st: Store, r: Result<SignatureReferenceDictionary>)
    requires rt_weak(x.transform_method, st), rt_weak(x.transform_params, st), rt_weak(x.data, st), rt_weak(x.digest_method, st),
        // the catch-all of a value holds no recognised key (true of every value from_dict returns, see sigref_read)
        !x.other@.dom().contains("TransformMethod"@), !x.other@.dom().contains("TransformParams"@),
        !x.other@.dom().contains("Data"@), !x.other@.dom().contains("DigestMethod"@),
        sigref_read(sigref_dict(x), st, r),
    ensures r matches Ok(x2) && sigref_dict(x2) =~= sigref_dict(x)
{
    reveal_strlit("Type"); reveal_strlit("TransformMethod"); reveal_strlit("TransformParams"); reveal_strlit("Data"); reveal_strlit("DigestMethod"); reveal_strlit("SigRef"); assert("Data"@.len() == 4); assert("Data"@[0] == 'D'); assert("DigestMethod"@.len() == 12); assert("SigRef"@.len() == 6); assert("TransformMethod"@.len() == 15); assert("TransformMethod"@[9] == 'M'); assert("TransformParams"@.len() == 15); assert("TransformParams"@[9] == 'P'); assert("Type"@.len() == 4); assert("Type"@[0] == 'T');
}
// a failing required entry is reported under its name (C18); nothing panics (panic_free of from_dict)
pub proof fn lemma_sigref_required(m: DMap, st: Store, r: Result<SignatureReferenceDictionary>)
    requires sigref_read(m, st, r), expect_spec(m, "SignatureReferenceDictionary", "Type"@, "SigRef"@, false) is Ok,
    ensures
        m.dom().contains("TransformMethod"@) && Name::reads(m["TransformMethod"@], st) is Err ==>
            r == Err::<SignatureReferenceDictionary, PdfError>(PdfError::FromPrimitive { typ: "Name", field: "transform_method",
                    source: Box::new(Name::reads(m["TransformMethod"@], st)->Err_0) }),
        !m.dom().contains("TransformMethod"@) && Name::reads(Primitive::Null, st) is Err ==>
            r == Err::<SignatureReferenceDictionary, PdfError>(PdfError::MissingEntry { typ: "SignatureReferenceDictionary" }),
{}

// =====================================================================================================================
// PostScriptDict (types.rs): `Type="XObject", Subtype="PS"` checks and nothing but the catch-all
//@@ struct PostScriptDict
pub open spec fn psdict_dict(x: PostScriptDict) -> DMap {
    x.other@.insert("Type"@, nm("XObject"@)).insert("Subtype"@, nm("PS"@))
}
pub open spec fn psdict_read(m: DMap) -> Result<PostScriptDict> {
    match expect_spec(m, "PostScriptDict", "Type"@, "XObject"@, true) { Err(e) => Err(e), Ok(_) =>
    match expect_spec(m, "PostScriptDict", "Subtype"@, "PS"@, true) { Err(e) => Err(e), Ok(_) =>
        Ok(PostScriptDict { other: Dictionary { m: Ghost(m) } })
    }}
}
impl PostScriptDict {
//@@ PostScriptDict::from_dict
//@@ PostScriptDict::to_dict
}
pub proof fn lemma_psdict(x: PostScriptDict, m: DMap)
    ensures
        // written tags are accepted back, and the second write equals the first
        psdict_read(psdict_dict(x)) matches Ok(x2) && psdict_dict(x2) =~= psdict_dict(x),
        // an accepted input is reproduced entry for entry
        psdict_read(m) matches Ok(y) ==> psdict_dict(y) =~= m,
{
    reveal_strlit("Type"); reveal_strlit("Subtype"); reveal_strlit("XObject"); reveal_strlit("PS"); assert("PS"@.len() == 2); assert("Subtype"@.len() == 7); assert("Subtype"@[0] == 'S'); assert("Type"@.len() == 4); assert("XObject"@.len() == 7); assert("XObject"@[0] == 'X');
    if psdict_read(m) is Ok {
        let y = psdict_read(m)->Ok_0;
        assert(m["Type"@] == nm("XObject"@));
        assert(m["Subtype"@] == nm("PS"@));
        assert(psdict_dict(y) =~= m);
    }
}

// =====================================================================================================================
// name enum Counter, integer enum LineCap (types.rs)
//@@ enum Counter
pub open spec fn counter_name(c: Counter) -> Seq<char> {
    match c { Counter::Arabic => "D"@, Counter::RomanUpper => "r"@, Counter::RomanLower => "R"@,
              Counter::AlphaUpper => "a"@, Counter::AlphaLower => "A"@ }
}
pub open spec fn counter_reads(p: Primitive) -> Result<Counter> {
    match p {
        Primitive::Name(s) =>
            if s@ == "D"@ { Ok(Counter::Arabic) } else if s@ == "r"@ { Ok(Counter::RomanUpper) }
            else if s@ == "R"@ { Ok(Counter::RomanLower) } else if s@ == "a"@ { Ok(Counter::AlphaUpper) }
            else if s@ == "A"@ { Ok(Counter::AlphaLower) } else { Err(PdfError::UnknownVariant { id: "Counter" }) },
        _ => Err(PdfError::UnexpectedPrimitive { expected: "Name", found: p.debug_name() }),
    }
}
impl Counter {
//@@ Counter::from_primitive
//@@ Counter::to_primitive
}
impl Object for Counter {
    open spec fn reads(p: Primitive, st: Store) -> Result<Counter> { counter_reads(p) }
    fn from_primitive<R: Resolve>(p: Primitive, resolve: &R) -> Result<Self> { Counter::from_primitive(p, resolve) }
}
impl ObjectWrite for Counter {
    open spec fn writes(&self) -> Primitive { nm(counter_name(*self)) }
    open spec fn wfail(&self) -> bool { false }
    fn to_primitive<U: Updater>(&self, update: &mut U) -> Result<Primitive> { Counter::to_primitive(self, update) }
}
pub proof fn lemma_counter_roundtrip(c: Counter, st: Store)
    ensures rt_strong(c, st)
{
    reveal_strlit("D"); reveal_strlit("r"); reveal_strlit("R"); reveal_strlit("a"); reveal_strlit("A"); assert("A"@.len() == 1); assert("A"@[0] == 'A'); assert("D"@.len() == 1); assert("D"@[0] == 'D'); assert("R"@.len() == 1); assert("R"@[0] == 'R'); assert("a"@.len() == 1); assert("a"@[0] == 'a'); assert("r"@.len() == 1); assert("r"@[0] == 'r');
}
//@@ enum LineCap
pub open spec fn linecap_int(c: LineCap) -> i32 { match c { LineCap::Butt => 0, LineCap::Round => 1, LineCap::Square => 2 } }
pub open spec fn linecap_reads(p: Primitive) -> Result<LineCap> {
    match p {
        Primitive::Integer(i) => if i == 0 { Ok(LineCap::Butt) } else if i == 1 { Ok(LineCap::Round) }
            else if i == 2 { Ok(LineCap::Square) } else { Err(PdfError::UnknownVariant { id: "LineCap" }) },
        _ => Err(PdfError::UnexpectedPrimitive { expected: "Integer", found: p.debug_name() }),
    }
}
impl LineCap {
//@@ LineCap::from_primitive
//@@ LineCap::to_primitive
}
pub proof fn lemma_linecap_roundtrip(c: LineCap)
    ensures linecap_reads(Primitive::Integer(linecap_int(c))) == Ok::<LineCap, PdfError>(c)
{}

// =====================================================================================================================
// Trailer (pdf/src/file.rs): an `indirect` entry -- the field's primitive form is stored as a new object through the
// Updater and the entry holds the reference to it (unless the form already is a reference)
//@@ struct Trailer
pub open spec fn trailer_rest(x: Trailer) -> DMap {   // every entry but /Info
    put(put(put(put(put(Map::empty(),
        "Size"@, x.size.writes()),
        "Prev"@, x.prev_trailer_pos.writes()),
        "Root"@, x.root.writes()),
        "Encrypt"@, x.encrypt_dict.writes()),
        "ID"@, x.id.writes())
}
pub open spec fn trailer_written(x: Trailer, d: DMap, c0: Map<PlainRef, Primitive>, c1: Map<PlainRef, Primitive>) -> bool {
    &&& d.remove("Info"@) =~= trailer_rest(x)
    &&& match x.info_dict.writes() {
            Primitive::Null => !d.dom().contains("Info"@),
            Primitive::Reference(rf) => d.dom().contains("Info"@) && d["Info"@] == Primitive::Reference(rf),
            p => d.dom().contains("Info"@) && (d["Info"@] matches Primitive::Reference(rf)
                    && !c0.dom().contains(rf) && c1.dom().contains(rf) && c1[rf] == p),
        }
    &&& submap(c0, c1)
}
pub open spec fn trailer_read(m: DMap, st: Store) -> Result<Trailer> {
    match rd_plain::<i32>(m, "Size"@, "i32", "size", "Trailer", st) { Err(e) => Err(e), Ok(size) =>
    match rd_plain::<Option<i32>>(m, "Prev"@, "Option < i32 >", "prev_trailer_pos", "Trailer", st) { Err(e) => Err(e), Ok(prev_trailer_pos) =>
    match rd_plain::<RcRef<Catalog>>(m, "Root"@, "RcRef < Catalog >", "root", "Trailer", st) { Err(e) => Err(e), Ok(root) =>
    match rd_plain::<Option<RcRef<CryptDict>>>(m, "Encrypt"@, "Option < RcRef < CryptDict > >", "encrypt_dict", "Trailer", st) { Err(e) => Err(e), Ok(encrypt_dict) =>
    match rd_plain::<Option<InfoDict>>(m, "Info"@, "Option < InfoDict >", "info_dict", "Trailer", st) { Err(e) => Err(e), Ok(info_dict) =>
    match rd_plain::<Vec<PdfString>>(m, "ID"@, "Vec < PdfString >", "id", "Trailer", st) { Err(e) => Err(e), Ok(id) =>
        Ok(Trailer { size: size, prev_trailer_pos: prev_trailer_pos, root: root, encrypt_dict: encrypt_dict, info_dict: info_dict, id: id })
    }}}}}}
}
impl Trailer {
//@@ Trailer::from_dict
//@@ Trailer::to_dict
}
// round trip through the indirect entry: the store a later reader resolves against holds what the updater created, and
// the field's reader looks through a reference (hypotheses on the environment / the abstract codec)
pub proof fn lemma_trailer_roundtrip(x: Trailer, d: DMap, c0: Map<PlainRef, Primitive>, c1: Map<PlainRef, Primitive>, st: Store)
    requires
        trailer_written(x, d, c0, c1),
        rt_strong(x.size, st), rt_strong(x.prev_trailer_pos, st), rt_strong(x.root, st), rt_strong(x.encrypt_dict, st),
        rt_strong(x.info_dict, st), rt_strong(x.id, st),
        !(x.info_dict.writes() is Reference),
        forall|rf: PlainRef| #![trigger c1[rf]] c1.dom().contains(rf) && !c0.dom().contains(rf) ==>
            <Option<InfoDict>>::reads(Primitive::Reference(rf), st) == <Option<InfoDict>>::reads(c1[rf], st),
    ensures trailer_read(d, st) == Ok::<Trailer, PdfError>(x)
{
    reveal_strlit("Size"); reveal_strlit("Prev"); reveal_strlit("Root"); reveal_strlit("Encrypt"); reveal_strlit("Info"); reveal_strlit("ID"); assert("Encrypt"@.len() == 7); assert("ID"@.len() == 2); assert("Info"@.len() == 4); assert("Info"@[0] == 'I'); assert("Prev"@.len() == 4); assert("Prev"@[0] == 'P'); assert("Root"@.len() == 4); assert("Root"@[0] == 'R'); assert("Size"@.len() == 4); assert("Size"@[0] == 'S');
    assert(forall|k: Seq<char>| k != "Info"@ ==> (d.dom().contains(k) <==> d.remove("Info"@).dom().contains(k)));
    assert(forall|k: Seq<char>| k != "Info"@ && d.dom().contains(k) ==> d[k] == d.remove("Info"@)[k]);
}
}
fn main(){}
