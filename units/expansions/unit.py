X = 'expanded:pdf'
RT = ['C15']
RD = ['C18', 'C15']

def lits(*keys):
    """R1 ghost block: facts that make the key literals pairwise distinct (length, or first differing character).
    `reveal_strlit` is local to the proof block, the asserted facts are not."""
    out = []
    facts = set()
    for k in keys:
        out.append('reveal_strlit("%s");' % k)
        facts.add('"%s"@.len() == %d' % (k, len(k)))
    for a in keys:
        for b in keys:
            if a < b and len(a) == len(b):
                i = [j for j in range(len(a)) if a[j] != b[j]][0]
                facts.add('"%s"@[%d] == \'%s\'' % (a, i, a[i]))
                facts.add('"%s"@[%d] == \'%s\'' % (b, i, b[i]))
    for f in sorted(facts):
        out.append('assert(%s);' % f)
    return 'proof { ' + ' '.join(out) + ' }'


def body_start(text):
    # R1: ghost block at the very start of the body
    return {'rule': 'R1', 'regex': r'\A\s*\{', 'replace': '{ ' + text}

# R1: the closure handed to `map_err` gets its own text as `ensures` (a closure without a contract is opaque to Verus);
# the back-reference keeps the closure body verbatim, Verus checks it against the generated ensures.
MAP_ERR = {'rule': 'R1', 'count': '*',
           'regex': r'map_err\(\|e\|\s*(pdf::error::PdfError::FromPrimitive\s*\{[^{}]*\})\)',
           'replace': r'map_err(|e: pdf::error::PdfError| -> (r__: pdf::error::PdfError) ensures r__ == (\1) { \1 })'}
# R3: `MissingEntry.field` is a String payload, dropped in the PdfError twin
MISSING = {'rule': 'R3', 'count': '*', 'regex': r'field:\s*String::from\("\w+"\),', 'replace': ''}
# R2: trait dispatch dropped (the method is emitted as an inherent fn)
PUBFN = {'where': 'sig', 'rule': 'R2', 'regex': r'\Afn ', 'replace': 'pub fn '}


def from_dict(ty, mod, keys, ensures, extra=()):
    return {'kind': 'fn', 'file': X, 'container': mod + [r'^impl pdf::object::FromDict for %s$' % ty], 'name': 'from_dict',
            'props': RD, 'ensures': ensures,
            'rewrites': [PUBFN, body_start(lits(*keys)), MAP_ERR, MISSING] + list(extra)}


def to_dict(ty, mod, keys, ensures, extra=()):
    return {'kind': 'fn', 'file': X, 'container': mod + [r'^impl pdf::object::ToDict for %s$' % ty], 'name': 'to_dict',
            'props': RT, 'ensures': ensures,
            'rewrites': [PUBFN, body_start(lits(*keys))] + list(extra)}


def pubfields(*names):
    return [{'rule': 'R2', 'regex': r'(?<!pub )\b%s:' % n, 'replace': 'pub %s:' % n} for n in names]


ENC = [r'^pub mod enc$']
XREF = [r'^pub mod xref$']
TYPES = [r'^pub mod object$', r'^mod types$']
LZW_KEYS = ['Predictor', 'Colors', 'BitsPerComponent', 'Columns', 'EarlyChange']
XREF_KEYS = ['Type', 'Size', 'Index', 'Prev', 'W']
PL_KEYS = ['S', 'P', 'St']
SIGREF_KEYS = ['Type', 'TransformMethod', 'TransformParams', 'Data', 'DigestMethod']
PS_KEYS = ['Type', 'Subtype']
TR_KEYS = ['Size', 'Prev', 'Root', 'Encrypt', 'Info', 'ID']
FILE = [r'^pub mod file$']

# R7: `vec![a, b]` as expanded by the compiler (allocator intrinsics) -> helper whose body is `vec![a, b]`;
# the two element expressions stay verbatim
VEC2 = {'rule': 'R7', 'count': '*',   # 0 occurrences (default lost) must reach the verifier, not stop at the anchor
       
        'regex': r'::alloc::boxed::box_assume_init_into_vec_unsafe\(::alloc::intrinsics::write_box_via_move\(::alloc::boxed::Box::new_uninit\(\),\s*\[([^,\[\]]+),\s*([^,\[\]]+)\]\)\)',
        'replace': r'hoist_vec2(\1, \2)'}


def enum_fn(ty, trait, name, props, ensures, extra=()):
    return {'kind': 'fn', 'file': X, 'container': TYPES + [r'^impl pdf::object::%s for %s$' % (trait, ty)], 'name': name,
            'props': props, 'ensures': ensures, 'rewrites': [PUBFN] + list(extra)}


# R9: `match name.as_str() { "lit" => Ok(V), ..., s => Err(..) }` -> if-chain over str_eq (string-literal patterns have no
# meaning in Verus); R3: the String payload `name:` of UnknownVariant is dropped
def r9_name_enum(names):
    return [
        {'rule': 'R9', 'find': 'match name.as_str() {', 'replace': '{ let s__ = name.as_str(); ' + lits(*names)},
        {'rule': 'R9', 'count': len(names), 'regex': r'"([^"]+)"\s*=>\s*(Ok\([A-Za-z0-9_:]+\)),', 'replace': r'if str_eq(s__, "\1") { \2 } else'},
        {'rule': 'R9', 'regex': r'\bs\s*=>\s*(Err\(pdf::error::PdfError::UnknownVariant\s*\{[^{}]*\}\)),', 'replace': r'{ let s = s__; \1 }'},
        {'rule': 'R3', 'find': 'name: s.to_string(),', 'replace': ''},
    ]


UNIT = {
 'name': 'expansions',
 'doc': 'pdf_derive expansions (FromDict/ToDict, enum codecs) of real models against their attribute tables',
 'timeout': 900,
 'items': {
  # ---- defaults
  'struct LZWFlateParams': {'kind': 'decl', 'file': X, 'container': ENC, 'header': r'^pub struct LZWFlateParams$'},
  'LZWFlateParams::from_dict': from_dict('LZWFlateParams', ENC, LZW_KEYS, [
      ('rd_model', 'r == lzw_read(dict@, resolve.store())')]),
  'LZWFlateParams::to_dict': to_dict('LZWFlateParams', ENC, LZW_KEYS, [
      ('wr_ok', 'r is Ok'),
      ('wr_model', 'r matches Ok(d) ==> d@ =~= lzw_dict(*self)')]),
  # ---- Type tag, default expression over an earlier field, required + optional entries
  'struct XRefInfo': {'kind': 'decl', 'file': X, 'container': XREF, 'header': r'^pub struct XRefInfo$',
                      
                      # the framework's attribute stripper stops at the `]` inside `default = "vec![0, size]"`: drop the rest
                      'rewrites': pubfields('prev')},
  'XRefInfo::from_dict': from_dict('XRefInfo', XREF, XREF_KEYS, [
      ('rd_model', 'xref_read(dict@, resolve.store(), r)')], extra=[VEC2]),
  'XRefInfo::to_dict': to_dict('XRefInfo', XREF, XREF_KEYS, [
      ('wr_ok', 'r is Err ==> self.index.wfail() || self.w.wfail() || self.prev.wfail()'),
      ('wr_model', 'r matches Ok(d) ==> d@ =~= xref_dict(*self)')]),
  # ---- options
  'struct PageLabel': {'kind': 'decl', 'file': X, 'container': TYPES, 'header': r'^pub struct PageLabel$'},
  'PageLabel::from_dict': from_dict('PageLabel', TYPES, PL_KEYS, [
      ('rd_model', 'r == pagelabel_read(dict@, resolve.store())')]),
  'PageLabel::to_dict': to_dict('PageLabel', TYPES, PL_KEYS, [
      ('wr_ok', 'r is Ok'),
      ('wr_model', 'r matches Ok(d) ==> d@ =~= pagelabel_dict(*self)')]),
  # ---- optional Type tag, required entry, catch-all
  'struct SignatureReferenceDictionary': {'kind': 'decl', 'file': X, 'container': TYPES,
                                          'header': r'^pub struct SignatureReferenceDictionary$'},
  'SignatureReferenceDictionary::from_dict': from_dict('SignatureReferenceDictionary', TYPES, SIGREF_KEYS, [
      ('rd_model', 'sigref_read(dict@, resolve.store(), r)')]),
  'SignatureReferenceDictionary::to_dict': to_dict('SignatureReferenceDictionary', TYPES, SIGREF_KEYS, [
      ('wr_ok', 'r is Ok'),
      ('wr_model', 'r matches Ok(d) ==> d@ =~= sigref_dict(*self)')]),
  # ---- Type + Subtype checks, catch-all only
  'struct PostScriptDict': {'kind': 'decl', 'file': X, 'container': TYPES, 'header': r'^pub struct PostScriptDict$'},
  'PostScriptDict::from_dict': from_dict('PostScriptDict', TYPES, PS_KEYS, [
      ('rd_model', 'r == psdict_read(dict@)')]),
  'PostScriptDict::to_dict': to_dict('PostScriptDict', TYPES, PS_KEYS, [
      ('wr_ok', 'r is Ok'),
      ('wr_model', 'r matches Ok(d) ==> d@ =~= psdict_dict(*self)')]),
  # ---- indirect entry
  'struct Trailer': {'kind': 'decl', 'file': X, 'container': FILE, 'header': r'^pub struct Trailer$'},
  'Trailer::from_dict': from_dict('Trailer', FILE, TR_KEYS, [
      ('rd_model', 'r == trailer_read(dict@, resolve.store())')]),
  'Trailer::to_dict': to_dict('Trailer', FILE, TR_KEYS, [
      ('wr_model', 'r matches Ok(d) ==> trailer_written(*self, d@, old(updater).created(), final(updater).created())'),
      ('wr_frame', 'submap(old(updater).created(), final(updater).created())')],
      extra=[{'rule': 'R1', 'count': '*', 'find': 'dict.insert("Info", val2);',   # '*': a writer that lost the entry must reach the verifier
             
              'replace': 'proof { assert(submap(old(updater).created(), updater.created())); } dict.insert("Info", val2);'}]),
  # ---- name enum
  'enum Counter': {'kind': 'decl', 'file': X, 'container': TYPES, 'header': r'^pub enum Counter$'},
  'Counter::from_primitive': enum_fn('Counter', 'Object', 'from_primitive', RD, [
      ('rd_model', 'r == counter_reads(p)')],
      extra=[{'where': 'sig', 'rule': 'R2', 'find': '_resolve', 'replace': 'resolve_'}] + r9_name_enum(['D', 'r', 'R', 'a', 'A'])),
  'Counter::to_primitive': enum_fn('Counter', 'ObjectWrite', 'to_primitive', RT, [
      ('wr_model', 'r == Ok::<Primitive, PdfError>(nm(counter_name(*self)))'),
      ('wr_frame', 'final(update).created() == old(update).created()')]),
  # ---- integer enum
  'enum LineCap': {'kind': 'decl', 'file': X, 'container': TYPES, 'header': r'^pub enum LineCap$',
                   'rewrites': [{'rule': 'R2', 'regex': r'\s*=\s*\d+', 'replace': '', 'count': 3}]},
  'LineCap::from_primitive': enum_fn('LineCap', 'Object', 'from_primitive', RD, [
      ('rd_model', 'r == linecap_reads(p)')],
      extra=[{'where': 'sig', 'rule': 'R2', 'find': '_resolve', 'replace': 'resolve_'},
             {'rule': 'R3', 'find': 'name: i.to_string(),', 'replace': ''}]),
  'LineCap::to_primitive': enum_fn('LineCap', 'ObjectWrite', 'to_primitive', RT, [
      ('wr_model', 'r == Ok::<Primitive, PdfError>(Primitive::Integer(linecap_int(*self)))')]),
 },
}
