// Repro for OBSERVATION (not claimed) `named_dest_name_object` (unit dest; ISO 32000-1 12.3.2.3 "Named destinations").
// Copy to pdf/tests/ of a scratch copy of /repo and run
//   CARGO_TARGET_DIR=/tmp/dest_target cargo test --offline -p pdf --test named_dest_name_object_repro
// Pinned tree: `a_name_object_is_a_named_destination` FAILS with
//   Try { .. source: UnexpectedPrimitive { expected: "Array", found: "Name" } };  the string control passes.
// With findings/named_dest_name_object_feature.diff both pass.
use pdf::object::*;
use pdf::primitive::{PdfString, Primitive};

#[test]
fn control_a_string_is_a_named_destination() {
    let p = Primitive::String(PdfString::from("chapter1"));
    let d = MaybeNamedDest::from_primitive(p.clone(), &NoResolve).unwrap();
    assert_eq!(d.to_primitive(&mut NoUpdate).unwrap(), p);
}

#[test]
fn a_name_object_is_a_named_destination() {
    // 12.3.2.3: "a destination may be referred to indirectly by means of a name object (PDF 1.1) or a byte string (PDF 1.2)";
    // a go-to action `<< /S /GoTo /D /chapter1 >>` and an outline item `/Dest /chapter1` are conformant
    let p = Primitive::Name("chapter1".into());
    let d = MaybeNamedDest::from_primitive(p.clone(), &NoResolve).expect("a name object is a (PDF 1.1) named destination");
    assert_eq!(d.to_primitive(&mut NoUpdate).unwrap(), p, "kept as a NAME: it is looked up in the catalog's /Dests dictionary, not in the name tree");
    let mut a = pdf::primitive::Dictionary::new();
    a.insert("S", Primitive::Name("GoTo".into()));
    a.insert("D", p);
    assert!(matches!(Action::from_primitive(Primitive::Dictionary(a), &NoResolve), Ok(Action::Goto(_))));
}
