// Repro for OBSERVATION (not claimed) `dest_table151` (unit dest; C15 reader side / ISO 32000-1 12.3.2.2 Table 151).
// Copy to pdf/tests/ of a scratch copy of /repo and run
//   CARGO_TARGET_DIR=/tmp/dest_target cargo test --offline -p pdf --test dest_table151_repro
// On the pinned tree: `fitbv_is_a_destination`, `null_coordinate_means_unchanged` FAIL (the reader returns
// Err(UnknownVariant { id: "Dest", name: "FitBV" }) / Err(UnexpectedPrimitive { expected: "Number", found: "Null" }));
// the control passes. With findings/dest_table151_feature.diff all pass (and `fixed_roundtrip`, which needs the fix to compile,
// can be enabled by removing the cfg).
use pdf::object::*;
use pdf::primitive::Primitive;

fn page() -> Primitive { Primitive::Reference(PlainRef { id: 3, gen: 0 }) }
fn dest(kind: &str, rest: Vec<Primitive>) -> Primitive {
    let mut v = vec![page(), Primitive::Name(kind.into())];
    v.extend(rest);
    Primitive::Array(v)
}

#[test]
fn control_the_forms_the_model_has() {
    for (k, n) in [("XYZ", 3), ("Fit", 0), ("FitH", 1), ("FitV", 1), ("FitR", 4), ("FitB", 0), ("FitBH", 1)] {
        let p = dest(k, (0..n).map(|i| Primitive::Integer(i)).collect());
        let d = Dest::from_primitive(p.clone(), &NoResolve).unwrap_or_else(|e| panic!("{}: {:?}", k, e));
        let w = d.to_primitive(&mut NoUpdate).unwrap();
        let d2 = Dest::from_primitive(w.clone(), &NoResolve).unwrap();
        assert_eq!(d2.to_primitive(&mut NoUpdate).unwrap(), w, "{k}: write-read-write");
    }
}

#[test]
fn fitbv_is_a_destination() {
    // Table 151, last row: [page /FitBV left]
    let p = dest("FitBV", vec![Primitive::Number(72.0)]);
    let d = Dest::from_primitive(p, &NoResolve).expect("ISO 32000-1 Table 151: [page /FitBV left] is a destination");
    let w = d.to_primitive(&mut NoUpdate).unwrap();
    assert_eq!(w, dest("FitBV", vec![Primitive::Number(72.0)]));
}

#[test]
fn null_coordinate_means_unchanged() {
    // Table 151: "A null value for top specifies that the current value of that parameter shall be retained unchanged."
    for k in ["FitH", "FitV", "FitBH"] {
        let p = dest(k, vec![Primitive::Null]);
        let d = Dest::from_primitive(p.clone(), &NoResolve).unwrap_or_else(|e| panic!("[page /{} null]: {:?}", k, e));
        assert_eq!(d.to_primitive(&mut NoUpdate).unwrap(), p, "[page /{k} null] must be written back as it was read");
    }
}

#[test]
fn short_arrays_are_errors_not_panics() {
    for k in ["XYZ", "FitH", "FitV", "FitR", "FitBH", "FitBV"] {
        assert!(Dest::from_primitive(dest(k, vec![]), &NoResolve).is_err(), "{k}");
    }
    assert!(Dest::from_primitive(Primitive::Array(vec![]), &NoResolve).is_err());
    assert!(Dest::from_primitive(Primitive::Array(vec![page()]), &NoResolve).is_err());
}
