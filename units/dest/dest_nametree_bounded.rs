// BOUNDED native stand-in for the destination layer (C15): `Dest`, `MaybeNamedDest`, `Action::Goto` and `NameTree<Option<Dest>>`
// on the crate's public API. Placed at pdf/tests/verif_dest_bounded.rs.
//
// Universe
//   * Dest: page in {none, 4 0 R, 17 3 R} x every DestView variant with pairwise DISTINCT coordinate values:
//     XYZ left/top in {null, number} (4 combinations) x zoom in {0, 1.5, 33}; Fit; FitH; FitV; FitB; FitBH;
//     FitR with (left, bottom, right, top) = every permutation of {1, 2, 3, 4} (24) + a degenerate rectangle (all sides equal)
//   * MaybeNamedDest: Named(string) for 4 strings (empty, ASCII, bytes >= 0x80, parentheses/backslash), Direct(every Dest above),
//     read directly, behind a reference-free `<< /D .. >>` dictionary, and as /D of a GoTo action
//   * NameTree<Option<Dest>>: leaves with 0..=3 entries drawn from a pool that includes a NULL-valued binding, with and without
//     /Limits; intermediate nodes with 0..=3 kids; and a two-level tree stored in a real Storage, saved, reloaded and walked.
// Expected values are written here from ISO 32000-1 Table 151 / Table 36 (NOT by calling the writer):
//   [page /XYZ left top zoom] [page /Fit] [page /FitH top] [page /FitV left] [page /FitR left bottom right top] [page /FitB] [page /FitBH top]
// Checks: write(d) == the ISO array; read(write(d)) == d field by field; write(read(write(d))) == write(d); integer-typed
// coordinates read as the same numbers.
use pdf::file::{FileOptions, NoCache, NoLog, Storage, Trailer};
use pdf::object::*;
use pdf::primitive::{Dictionary, PdfString, Primitive};

type St = Storage<Vec<u8>, NoCache, NoCache, NoLog>;

fn num(f: f32) -> Primitive { Primitive::Number(f) }
fn name(s: &str) -> Primitive { Primitive::Name(s.into()) }
fn opt_num(o: Option<f32>) -> Primitive { match o { Some(f) => num(f), None => Primitive::Null } }

/// ISO 32000-1 Table 151, written from the standard
fn iso_array(d: &Dest) -> Primitive {
    let mut v = vec![match d.page { Some(r) => Primitive::Reference(r.get_inner()), None => Primitive::Null }];
    match d.view {
        DestView::XYZ { left, top, zoom } => { v.push(name("XYZ")); v.push(opt_num(left)); v.push(opt_num(top)); v.push(num(zoom)); }
        DestView::Fit => v.push(name("Fit")),
        DestView::FitH { top } => { v.push(name("FitH")); v.push(num(top)); }
        DestView::FitV { left } => { v.push(name("FitV")); v.push(num(left)); }
        DestView::FitR(r) => { v.push(name("FitR")); v.push(num(r.left)); v.push(num(r.bottom)); v.push(num(r.right)); v.push(num(r.top)); }
        DestView::FitB => v.push(name("FitB")),
        DestView::FitBH { top } => { v.push(name("FitBH")); v.push(num(top)); }
    }
    Primitive::Array(v)
}

/// the value as a comparable tuple (Dest has no PartialEq)
fn key(d: &Dest) -> (Option<PlainRef>, &'static str, Vec<Option<f32>>) {
    let page = d.page.map(|r| r.get_inner());
    match d.view {
        DestView::XYZ { left, top, zoom } => (page, "XYZ", vec![left, top, Some(zoom)]),
        DestView::Fit => (page, "Fit", vec![]),
        DestView::FitH { top } => (page, "FitH", vec![Some(top)]),
        DestView::FitV { left } => (page, "FitV", vec![Some(left)]),
        DestView::FitR(r) => (page, "FitR", vec![Some(r.left), Some(r.bottom), Some(r.right), Some(r.top)]),
        DestView::FitB => (page, "FitB", vec![]),
        DestView::FitBH { top } => (page, "FitBH", vec![Some(top)]),
    }
}

fn permutations(items: &[f32]) -> Vec<Vec<f32>> {
    if items.len() <= 1 { return vec![items.to_vec()]; }
    let mut out = Vec::new();
    for i in 0..items.len() {
        let mut rest = items.to_vec();
        let x = rest.remove(i);
        for mut p in permutations(&rest) { p.insert(0, x); out.push(p); }
    }
    out
}

fn views() -> Vec<DestView> {
    let mut v = Vec::new();
    for left in [None, Some(11.0)] {
        for top in [None, Some(22.0)] {
            for zoom in [0.0, 1.5, 33.0] { v.push(DestView::XYZ { left, top, zoom }); }
        }
    }
    v.push(DestView::Fit);
    v.push(DestView::FitH { top: 44.0 });
    v.push(DestView::FitV { left: 55.0 });
    for p in permutations(&[1.0, 2.0, 3.0, 4.0]) {
        v.push(DestView::FitR(Rectangle { left: p[0], bottom: p[1], right: p[2], top: p[3] }));
    }
    v.push(DestView::FitR(Rectangle { left: 7.0, bottom: 7.0, right: 7.0, top: 7.0 }));
    v.push(DestView::FitB);
    v.push(DestView::FitBH { top: 66.0 });
    v
}
fn pages() -> Vec<Option<Ref<Page>>> {
    vec![None, Some(Ref::new(PlainRef { id: 4, gen: 0 })), Some(Ref::new(PlainRef { id: 17, gen: 3 }))]
}
fn dests() -> Vec<Dest> {
    let mut out = Vec::new();
    for page in pages() { for view in views() { out.push(Dest { page, view }); } }
    out
}

#[test]
fn dest_every_variant_write_read_write() {
    let all = dests();
    assert_eq!(all.len(), 3 * (12 + 3 + 25 + 2));
    for d in &all {
        let w1 = d.to_primitive(&mut NoUpdate).expect("writes");
        assert_eq!(w1, iso_array(d), "write({:?}) is not the Table 151 array", d);
        let back = Dest::from_primitive(w1.clone(), &NoResolve).unwrap_or_else(|e| panic!("read(write({:?})) = {:?}", d, e));
        assert_eq!(key(&back), key(d), "read(write(d)) != d for {:?}", d);
        let w2 = back.to_primitive(&mut NoUpdate).expect("writes again");
        assert_eq!(w2, w1, "write -> read -> write not stable for {:?}", d);
    }
}

#[test]
fn dest_integer_coordinates_read_as_numbers() {
    // [4 0 R /FitR 1 2 3 4] and [4 0 R /XYZ 11 null 2] with integer objects
    let page = Primitive::Reference(PlainRef { id: 4, gen: 0 });
    for p in permutations(&[1.0, 2.0, 3.0, 4.0]) {
        let arr = Primitive::Array(vec![page.clone(), name("FitR"), Primitive::Integer(p[0] as i32), Primitive::Integer(p[1] as i32),
                                        Primitive::Integer(p[2] as i32), Primitive::Integer(p[3] as i32)]);
        let d = Dest::from_primitive(arr.clone(), &NoResolve).expect("reads");
        assert_eq!(key(&d), (Some(PlainRef { id: 4, gen: 0 }), "FitR", vec![Some(p[0]), Some(p[1]), Some(p[2]), Some(p[3])]), "read {:?}", arr);
        let w = d.to_primitive(&mut NoUpdate).unwrap();
        assert_eq!(w, Primitive::Array(vec![page.clone(), name("FitR"), num(p[0]), num(p[1]), num(p[2]), num(p[3])]), "write(read({:?}))", arr);
    }
    let arr = Primitive::Array(vec![page.clone(), name("XYZ"), Primitive::Integer(11), Primitive::Null, Primitive::Integer(2)]);
    let d = Dest::from_primitive(arr, &NoResolve).expect("reads");
    assert_eq!(key(&d), (Some(PlainRef { id: 4, gen: 0 }), "XYZ", vec![Some(11.0), None, Some(2.0)]));
}

fn strings() -> Vec<PdfString> {
    vec![PdfString::new((&b""[..]).into()), PdfString::new((&b"chapter.1"[..]).into()),
         PdfString::new((&[0xfeu8, 0xff, 0x00, 0xe9, 0x80][..]).into()), PdfString::new((&b"a(b)\\c"[..]).into())]
}

#[test]
fn maybe_named_dest_write_read_write() {
    for s in strings() {
        let m = MaybeNamedDest::Named(s.clone());
        let w1 = m.to_primitive(&mut NoUpdate).unwrap();
        assert_eq!(w1, Primitive::String(s.clone()), "a named destination is written as its string");
        match MaybeNamedDest::from_primitive(w1.clone(), &NoResolve).expect("reads") {
            MaybeNamedDest::Named(t) => assert_eq!(t, s),
            other => panic!("named destination {:?} read back as {:?}", s, other),
        }
        // /D of a GoTo action
        let a = Action::Goto(MaybeNamedDest::Named(s.clone()));
        let wa = a.to_primitive(&mut NoUpdate).unwrap();
        let mut expect = Dictionary::new();
        expect.insert("S", name("GoTo"));
        expect.insert("D", Primitive::String(s.clone()));
        assert_eq!(wa, Primitive::Dictionary(expect));
    }
    for d in dests() {
        let m = MaybeNamedDest::Direct(d.clone());
        let w1 = m.to_primitive(&mut NoUpdate).unwrap();
        assert_eq!(w1, iso_array(&d), "Direct({:?})", d);
        // direct array, and the `<< /D [..] >>` dictionary form of a named-destination value
        let mut dd = Dictionary::new();
        dd.insert("D", w1.clone());
        for input in [w1.clone(), Primitive::Dictionary(dd)] {
            match MaybeNamedDest::from_primitive(input.clone(), &NoResolve).expect("reads") {
                MaybeNamedDest::Direct(back) => {
                    assert_eq!(key(&back), key(&d), "read {:?}", input);
                    assert_eq!(MaybeNamedDest::Direct(back).to_primitive(&mut NoUpdate).unwrap(), w1);
                }
                other => panic!("direct destination read back as {:?}", other),
            }
        }
        // GoTo action: write, read, write
        let a = Action::Goto(MaybeNamedDest::Direct(d.clone()));
        let wa = a.to_primitive(&mut NoUpdate).unwrap();
        let mut expect = Dictionary::new();
        expect.insert("S", name("GoTo"));
        expect.insert("D", iso_array(&d));
        assert_eq!(wa, Primitive::Dictionary(expect), "GoTo action with {:?}", d);
        match Action::from_primitive(wa.clone(), &NoResolve).expect("action reads") {
            Action::Goto(MaybeNamedDest::Direct(back)) => assert_eq!(key(&back), key(&d)),
            other => panic!("GoTo action read back as {:?}", other),
        }
        assert_eq!(Action::from_primitive(wa.clone(), &NoResolve).unwrap().to_primitive(&mut NoUpdate).unwrap(), wa);
    }
}

// ---- name trees ------------------------------------------------------------------------------------------------------
fn pool() -> Vec<(PdfString, Option<Dest>)> {
    let s = strings();
    let v = views();
    vec![
        (s[1].clone(), Some(Dest { page: Some(Ref::new(PlainRef { id: 4, gen: 0 })), view: v[15].clone() })),   // a FitR permutation
        (s[0].clone(), None),                                                                            // null-valued binding
        (s[2].clone(), Some(Dest { page: None, view: DestView::XYZ { left: None, top: Some(22.0), zoom: 0.0 } })),
        (s[3].clone(), Some(Dest { page: Some(Ref::new(PlainRef { id: 17, gen: 3 })), view: DestView::FitR(Rectangle { left: 9., bottom: 8., right: 6., top: 5. }) })),
    ]
}
fn iso_leaf(limits: &Option<(PdfString, PdfString)>, items: &[(PdfString, Option<Dest>)]) -> Primitive {
    // Table 36: /Limits [least greatest] (not in the root), /Names [key1 value1 key2 value2 ...]
    let mut d = Dictionary::new();
    if let Some((a, b)) = limits { d.insert("Limits", Primitive::Array(vec![Primitive::String(a.clone()), Primitive::String(b.clone())])); }
    let mut names = Vec::new();
    for (k, v) in items {
        names.push(Primitive::String(k.clone()));
        names.push(match v { Some(d) => iso_array(d), None => Primitive::Null });
    }
    d.insert("Names", Primitive::Array(names));
    Primitive::Dictionary(d)
}
fn leaf_key(t: &NameTree<Option<Dest>>) -> Vec<(PdfString, Option<(Option<PlainRef>, &'static str, Vec<Option<f32>>)>)> {
    match t.node {
        NameTreeNode::Leaf(ref items) => items.iter().map(|(k, v)| (k.clone(), v.as_ref().map(key))).collect(),
        NameTreeNode::Intermediate(_) => panic!("a leaf was read back as an intermediate node"),
    }
}
// every sequence of length 0..=3 over the pool indices (keys need not be sorted: neither reader nor writer checks)
fn sequences(n: usize, max_len: usize) -> Vec<Vec<usize>> {
    let mut out = vec![vec![]];
    let mut last: Vec<Vec<usize>> = vec![vec![]];
    for _ in 0..max_len {
        let mut next = Vec::new();
        for s in &last { for i in 0..n { let mut t = s.clone(); t.push(i); next.push(t); } }
        out.extend(next.iter().cloned());
        last = next;
    }
    out
}

#[test]
fn name_tree_leaves_write_read_write() {
    let pool = pool();
    let s = strings();
    let mut n = 0;
    for seq in sequences(pool.len(), 3) {
        for limits in [None, Some((s[0].clone(), s[1].clone()))] {
            let items: Vec<(PdfString, Option<Dest>)> = seq.iter().map(|&i| pool[i].clone()).collect();
            let tree = NameTree { limits: limits.clone(), node: NameTreeNode::Leaf(items.clone()) };
            let w1 = tree.to_primitive(&mut NoUpdate).expect("leaf writes");
            assert_eq!(w1, iso_leaf(&limits, &items), "leaf {:?} limits {:?}", seq, limits);
            let back = NameTree::<Option<Dest>>::from_primitive(w1.clone(), &NoResolve).expect("leaf reads");
            assert_eq!(back.limits, limits);
            assert_eq!(leaf_key(&back), leaf_key(&tree), "leaf {:?}", seq);
            assert_eq!(back.to_primitive(&mut NoUpdate).unwrap(), w1, "leaf {:?}: write -> read -> write", seq);
            n += 1;
        }
    }
    assert_eq!(n, 2 * (1 + 4 + 16 + 64));
}

#[test]
fn name_tree_intermediate_write_read_write() {
    let s = strings();
    let refs = [PlainRef { id: 5, gen: 0 }, PlainRef { id: 9, gen: 1 }, PlainRef { id: 6, gen: 0 }];
    for k in 0..=3 {
        for limits in [None, Some((s[1].clone(), s[3].clone()))] {
            let kids: Vec<Ref<NameTree<Option<Dest>>>> = refs[..k].iter().map(|&r| Ref::new(r)).collect();
            let tree = NameTree { limits: limits.clone(), node: NameTreeNode::Intermediate(kids) };
            let w1 = tree.to_primitive(&mut NoUpdate).expect("node writes");
            let mut d = Dictionary::new();
            if let Some((a, b)) = &limits { d.insert("Limits", Primitive::Array(vec![Primitive::String(a.clone()), Primitive::String(b.clone())])); }
            d.insert("Kids", Primitive::Array(refs[..k].iter().map(|&r| Primitive::Reference(r)).collect()));
            assert_eq!(w1, Primitive::Dictionary(d), "{} kids", k);
            let back = NameTree::<Option<Dest>>::from_primitive(w1.clone(), &NoResolve).expect("node reads");
            assert_eq!(back.limits, limits);
            match back.node {
                NameTreeNode::Intermediate(ref kids) => assert_eq!(kids.iter().map(|r| r.get_inner()).collect::<Vec<_>>(), refs[..k].to_vec()),
                NameTreeNode::Leaf(_) => panic!("an intermediate node was read back as a leaf"),
            }
            assert_eq!(back.to_primitive(&mut NoUpdate).unwrap(), w1);
        }
    }
}

#[test]
fn name_tree_two_levels_through_a_saved_file() {
    // root (intermediate, no /Limits) -> [leaf A (2 entries, one null-valued), leaf B (0 entries), leaf C (3 entries)], stored with the
    // public Updater API, saved to bytes, reloaded; walk() yields every binding in document order with the values that were written
    let pool = pool();
    let s = strings();
    let groups: Vec<Vec<usize>> = vec![vec![1, 0], vec![], vec![2, 3, 0]];
    let mut st: St = FileOptions::uncached().storage();
    let mut kids = Vec::new();
    for g in &groups {
        let items: Vec<(PdfString, Option<Dest>)> = g.iter().map(|&i| pool[i].clone()).collect();
        let limits = if items.is_empty() { None } else { Some((items[0].0.clone(), items[items.len() - 1].0.clone())) };
        let rc = st.create(NameTree { limits, node: NameTreeNode::Leaf(items) }).expect("leaf stored");
        kids.push(rc.get_ref());
    }
    let root = st.create(NameTree { limits: None, node: NameTreeNode::Intermediate(kids) }).expect("root stored");
    let root_ref = root.get_ref().get_inner();
    let pages = PagesRc::create(PageTree { parent: None, kids: vec![], count: 0, resources: None, media_box: None, crop_box: None }, &mut st).unwrap();
    let catalog = Catalog {
        version: Some("1.7".into()), pages, names: None, dests: None, metadata: None, outlines: None,
        struct_tree_root: None, forms: None, page_labels: None,
    };
    let mut trailer = Trailer {
        root: st.create(catalog).unwrap(), encrypt_dict: None, size: 0,
        id: vec![PdfString::from("foo"), PdfString::from("bar")], info_dict: None, prev_trailer_pos: None,
    };
    st.save(&mut trailer).expect("saves");
    let bytes = st.into_inner();
    let file = FileOptions::uncached().load(bytes).expect("reloads");
    let resolver = file.resolver();
    let tree: RcRef<NameTree<Option<Dest>>> = resolver.get(Ref::new(root_ref)).expect("root reads");
    let mut seen = Vec::new();
    tree.walk(&resolver, &mut |k, v| seen.push((k.clone(), v.as_ref().map(|d| (key(d), iso_array(d)))))).expect("walk");
    let expect: Vec<_> = groups.iter().flatten().map(|&i| (pool[i].0.clone(), pool[i].1.as_ref().map(|d| (key(d), iso_array(d))))).collect();
    assert_eq!(seen, expect);
    let _ = s;
}
