// Unit `dest` (C15; C01/C14 for the readers on hostile arrays): explicit and named destinations
//   Dest::from_primitive / Dest::from_array / Dest::to_primitive, MaybeNamedDest::from_primitive / to_primitive
//   (pdf/src/object/types.rs), against ISO 32000-1 12.3.2.2 Table 151 and 12.3.2.3.
// Contract shape (as in units/hwpairs2): every reader is proved against a whole-value model `*_reads` (None = "must be an
// error"), every writer against the array Table 151 prescribes; the lemmas prove, from the models alone,
// read(write(d)) == d (hence write-read-write identity).
use vstd::prelude::*;
//@@ INCLUDE _common/error_macros.rs
verus! {
global size_of usize == 8;

//@@ PDFERROR
//@@ DEVIATIONS

// ---- env types (not under proof; same as units/hwpairs2) ----------------------------------------------------------------
pub struct SmallString { pub chars: Ghost<Seq<char>> }
impl SmallString {
    pub open spec fn view(&self) -> Seq<char> { self.chars@ }
}
impl Clone for SmallString {
    #[verifier::external_body]
    fn clone(&self) -> (r: SmallString) ensures r == *self { unimplemented!() }
}
impl From<&str> for SmallString {
    #[verifier::external_body]
    fn from(s: &str) -> (r: SmallString) ensures r == (SmallString { chars: Ghost(s@) }) { unimplemented!() }
}
pub open spec fn sstr(s: Seq<char>) -> SmallString { SmallString { chars: Ghost(s) } }
// the crate's `IBytes` payload is modelled as a byte vector
pub struct PdfString { pub data: Vec<u8> }
impl Clone for PdfString {
    #[verifier::external_body]
    fn clone(&self) -> (r: PdfString) ensures r == *self { unimplemented!() }
}
pub struct PdfStream { pub info: Dictionary, pub data: Ghost<Seq<u8>> }
pub type ObjNr = u64;
pub type GenNr = u64;
#[derive(Clone, Copy)]
pub struct PlainRef { pub id: ObjNr, pub gen: GenNr }
//@@ struct Name
pub enum Primitive {
    Null,
    Integer(i32),
    Number(f32),
    Boolean(bool),
    String(PdfString),
    Stream(PdfStream),
    Dictionary(Dictionary),
    Array(Vec<Primitive>),
    Reference(PlainRef),
    Name(SmallString),
}
impl Clone for Primitive {
    #[verifier::external_body]
    fn clone(&self) -> (r: Primitive) ensures r == *self { unimplemented!() }
}
pub struct Store { pub objs: Map<PlainRef, Result<Primitive>> }
impl Store {
    pub open spec fn get(self, r: PlainRef) -> Result<Primitive> { self.objs[r] }
}
pub trait Resolve {
    spec fn store(&self) -> Store;
    // `self.options().allow_error_in_option`
    spec fn tolerant(&self) -> bool;
    // proved in units/guard, StorageResolver::resolve_flags/never_a_reference
    fn resolve(&self, r: PlainRef) -> (res: Result<Primitive>)
        ensures res == self.store().get(r), res matches Ok(p) ==> !(p is Reference);
}
pub trait Updater: Sized {
    spec fn created(&self) -> Map<PlainRef, Primitive>;
}
pub type DMap = Map<Seq<char>, Primitive>;
pub struct Dictionary { pub m: Ghost<DMap> }
pub open spec fn dget(m: DMap, key: Seq<char>) -> Option<Primitive> {
    if m.dom().contains(key) { Some(m[key]) } else { None::<Primitive> }
}
impl Dictionary {
    pub open spec fn view(&self) -> DMap { self.m@ }
    // primitive.rs:235  `self.remove(key).ok_or(MissingEntry{typ, field})`
    #[verifier::external_body]
    pub fn require(&mut self, typ: &'static str, key: &str) -> (r: Result<Primitive>)
        ensures final(self)@ == old(self)@.remove(key@),
            r == (match dget(old(self)@, key@) { Some(p) => Ok::<Primitive, PdfError>(p), None => Err::<Primitive, PdfError>(PdfError::MissingEntry { typ: typ }) })
    { unimplemented!() }
}
pub open spec fn debug_name(p: Primitive) -> &'static str {
    match p {
        Primitive::Null => "Null", Primitive::Integer(..) => "Integer", Primitive::Number(..) => "Number",
        Primitive::Boolean(..) => "Boolean", Primitive::String(..) => "String", Primitive::Stream(..) => "Stream",
        Primitive::Dictionary(..) => "Dictionary", Primitive::Array(..) => "Array",
        Primitive::Reference(..) => "Reference", Primitive::Name(..) => "Name",
    }
}
pub open spec fn unexpected<T>(expected: &'static str, p: Primitive) -> Result<T> {
    Err(PdfError::UnexpectedPrimitive { expected: expected, found: debug_name(p) })
}
pub uninterp spec fn f32_of_i32(n: i32) -> f32;
pub open spec fn number_of(p: Primitive) -> Result<f32> {
    match p { Primitive::Integer(n) => Ok(f32_of_i32(n)), Primitive::Number(f) => Ok(f), _ => unexpected("Number", p) }
}
impl Primitive {
    // proved in units/expansions_hw: Primitive::get_debug_name/spec
    #[verifier::external_body]
    pub fn get_debug_name(&self) -> (r: &'static str) ensures r == debug_name(*self) { unimplemented!() }
    // proved in units/expansions_hw: Primitive::as_number/spec
    #[verifier::external_body]
    pub fn as_number(&self) -> (r: Result<f32>) ensures r == number_of(*self) { unimplemented!() }
    // primitive.rs:556 (borrowed result; trusted, same shape as as_number)
    #[verifier::external_body]
    pub fn as_name(&self) -> (r: Result<&str>)
        ensures (self matches Primitive::Name(s) ==> (r matches Ok(t) && t@ == s@)),
            !(self is Name) ==> r == unexpected::<&str>("Name", *self)
    { unimplemented!() }
    // primitive.rs:568 (borrowed result)
    #[verifier::external_body]
    pub fn as_array(&self) -> (r: Result<&[Primitive]>)
        ensures (self matches Primitive::Array(v) ==> (r matches Ok(t) && t@ == v@)),
            !(self is Array) ==> r == unexpected::<&[Primitive]>("Array", *self)
    { unimplemented!() }
}
// object/mod.rs:170  `struct Ref<T> { inner: PlainRef, _marker: PhantomData<T> }` (opaque; `id()` = inner)
#[verifier::external_body]
#[verifier::accept_recursive_types(T)]
pub struct Ref<T> { inner: PlainRef, _marker: core::marker::PhantomData<T> }
impl<T> Ref<T> {
    pub uninterp spec fn id(&self) -> PlainRef;
}
#[verifier::external_body]
pub struct Page { p: core::marker::PhantomData<()> }
pub open spec fn opt_id<T>(o: Option<Ref<T>>) -> Option<PlainRef> { match o { Some(r) => Some(r.id()), None => None } }

// ---- R7 helpers (trusted L0 contracts) -------------------------------------------------------------------------------------
// `a == b` on str, as text (R9)
#[verifier::external_body]
fn name_eq(a: &str, b: &str) -> (r: bool) ensures r == (a@ == b@) { a == b }
// `slice.get(i)`
#[verifier::external_body]
fn hoist_get<'a>(s: &'a [Primitive], i: usize) -> (r: Option<&'a Primitive>)
    ensures r == (if i < s@.len() { Some(&s@[i as int]) } else { None::<&Primitive> })
{ s.get(i) }
// `n as f32`
#[verifier::external_body]
fn hoist_i32_as_f32(n: i32) -> (r: f32) ensures r == f32_of_i32(n) { n as f32 }
// `Object::from_primitive(P, resolve)?` at Self = Option<Ref<Page>>:  <Option<T> as Object>::from_primitive (proved in
// units/option: opt_null_is_none / opt_value_is_some / opt_other_error_tolerant_is_none / opt_other_error_strict_is_err) over
// <Ref<T> as Object>::from_primitive = `Ok(Ref::new(p.into_reference()?))` (object/mod.rs:201; never a missing-object error)
pub open spec fn page_reads(p: Primitive, tolerant: bool) -> Option<Option<PlainRef>> {
    match p {
        Primitive::Null => Some(None::<PlainRef>),
        Primitive::Reference(id) => Some(Some(id)),
        _ => if tolerant { Some(None::<PlainRef>) } else { None::<Option<PlainRef>> },
    }
}
#[verifier::external_body]
fn hoist_read_opt_page_ref<R: Resolve>(p: Primitive, resolve: &R) -> (r: Result<Option<Ref<Page>>>)
    ensures match page_reads(p, resolve.tolerant()) { Some(m) => r matches Ok(o) && opt_id(o) == m, None => r is Err }
{ unimplemented!() }
// `self.page.to_primitive(update)?`:  Option<T>::to_primitive (object/mod.rs:765) over Ref<T>::to_primitive =
// PlainRef::to_primitive = `Ok(Primitive::Reference(*self))` (object/mod.rs:156,206)
pub open spec fn page_prim(o: Option<PlainRef>) -> Primitive { match o { Some(id) => Primitive::Reference(id), None => Primitive::Null } }
#[verifier::external_body]
fn hoist_write_opt_page_ref<U: Updater>(page: &Option<Ref<Page>>, update: &mut U) -> (r: Result<Primitive>)
    ensures r == Ok::<Primitive, PdfError>(page_prim(opt_id(*page)))
{ unimplemented!() }
// `x.to_primitive(update)?` at Option<f32>: Option<T>::to_primitive over f32::to_primitive = `Ok(Primitive::Number(*self))` (object/mod.rs:568)
pub open spec fn coord_prim(o: Option<f32>) -> Primitive { match o { Some(f) => Primitive::Number(f), None => Primitive::Null } }
#[verifier::external_body]
fn hoist_write_opt_f32<U: Updater>(x: &Option<f32>, update: &mut U) -> (r: Result<Primitive>)
    ensures r == Ok::<Primitive, PdfError>(coord_prim(*x))
{ unimplemented!() }
// `v.extend([e1, .., en].map(Primitive::Number))` (constructor used as a function value: Verus cannot read it); the element
// expressions stay verbatim in the array literal, the helper body is that very call
pub open spec fn numbers_of(xs: Seq<f32>) -> Seq<Primitive> { Seq::new(xs.len(), |i: int| Primitive::Number(xs[i])) }
#[verifier::external_body]
fn hoist_extend_numbers<const N: usize>(v: &mut Vec<Primitive>, xs: [f32; N])
    ensures final(v)@ =~= old(v)@ + numbers_of(xs@)
{ v.extend(xs.map(Primitive::Number)) }
// `v.extend([p1, .., pn])` / `v.extend(vec![p1, .., pn])`: n pushes in order
#[verifier::external_body]
fn hoist_extend_prims<const N: usize>(v: &mut Vec<Primitive>, xs: [Primitive; N])
    ensures final(v)@ =~= old(v)@ + xs@
{ v.extend(xs) }

// =====================================================================================================================
// ISO 32000-1 12.3.2.2, Table 151 "Destination syntax" (transcribed from the standard):
//   [page /XYZ left top zoom]   a null value for any of left, top, zoom: "retain the current value"; zoom 0 == null
//   [page /Fit]
//   [page /FitH top]            null top: unchanged
//   [page /FitV left]           null left: unchanged
//   [page /FitR left bottom right top]
//   [page /FitB]                (PDF 1.1)
//   [page /FitBH top]           (PDF 1.1) null top: unchanged
//   [page /FitBV left]          (PDF 1.1) null left: unchanged
// page: an indirect reference to a page object (null / an integer page number in remote go-to actions: not a page here)
// =====================================================================================================================
pub enum DvModel {
    XYZ { left: Option<f32>, top: Option<f32>, zoom: f32 },
    Fit,
    FitH { top: Option<f32> },
    FitV { left: Option<f32> },
    FitR { left: f32, bottom: f32, right: f32, top: f32 },
    FitB,
    FitBH { top: Option<f32> },
    FitBV { left: Option<f32> },
}
pub struct DestModel { pub page: Option<PlainRef>, pub view: DvModel }
// a coordinate that may be null
pub open spec fn coord(p: Primitive) -> Option<Option<f32>> {
    match p {
        Primitive::Null => Some(None::<f32>),
        Primitive::Integer(n) => Some(Some(f32_of_i32(n))),
        Primitive::Number(f) => Some(Some(f)),
        _ => None::<Option<f32>>,
    }
}
// a coordinate of FitH / FitV / FitBH / FitBV: Table 151 allows null; the model of /repo holds a bare f32 there, the reader
// rejects null (TOL_NULL_COORDINATE_REJECTED: an Err, never a panic)
pub open spec fn coord1(p: Primitive) -> Option<Option<f32>> {
    if TOL_NULL_COORDINATE_REJECTED() && p is Null { None::<Option<f32>> } else { coord(p) }
}
// a coordinate that must be a number
pub open spec fn num(p: Primitive) -> Option<f32> {
    match p { Primitive::Integer(n) => Some(f32_of_i32(n)), Primitive::Number(f) => Some(f), _ => None::<f32> }
}
pub open spec fn zoom_of(c: Option<f32>) -> f32 { match c { Some(z) => z, None => 0f32 } }
// the view named `name` with its parameters at v[2..]; None: not a destination of Table 151 (wrong type, or TOO SHORT)
pub open spec fn view_reads(name: Seq<char>, v: Seq<Primitive>) -> Option<DvModel> {
    if name == "XYZ"@ {
        if v.len() >= 5 && coord(v[2]) is Some && coord(v[3]) is Some && coord(v[4]) is Some {
            Some(DvModel::XYZ { left: coord(v[2])->0, top: coord(v[3])->0, zoom: zoom_of(coord(v[4])->0) })
        } else if TOL_XYZ_ZOOM_OMITTED() && v.len() == 4 && coord(v[2]) is Some && coord(v[3]) is Some {
            Some(DvModel::XYZ { left: coord(v[2])->0, top: coord(v[3])->0, zoom: 0f32 })
        } else { None::<DvModel> }
    } else if name == "Fit"@ { Some(DvModel::Fit) }
    else if name == "FitH"@ { if v.len() >= 3 && coord1(v[2]) is Some { Some(DvModel::FitH { top: coord1(v[2])->0 }) } else { None::<DvModel> } }
    else if name == "FitV"@ { if v.len() >= 3 && coord1(v[2]) is Some { Some(DvModel::FitV { left: coord1(v[2])->0 }) } else { None::<DvModel> } }
    else if name == "FitR"@ {
        if v.len() >= 6 && num(v[2]) is Some && num(v[3]) is Some && num(v[4]) is Some && num(v[5]) is Some {
            Some(DvModel::FitR { left: num(v[2])->0, bottom: num(v[3])->0, right: num(v[4])->0, top: num(v[5])->0 })
        } else { None::<DvModel> }
    } else if name == "FitB"@ { Some(DvModel::FitB) }
    else if name == "FitBH"@ { if v.len() >= 3 && coord1(v[2]) is Some { Some(DvModel::FitBH { top: coord1(v[2])->0 }) } else { None::<DvModel> } }
    // [page /FitBV left]: no such variant in /repo's DestView; rejected (TOL_FITBV_NOT_MODELLED: an Err, never a panic)
    else if name == "FitBV"@ { if !TOL_FITBV_NOT_MODELLED() && v.len() >= 3 && coord1(v[2]) is Some { Some(DvModel::FitBV { left: coord1(v[2])->0 }) } else { None::<DvModel> } }
    else { None::<DvModel> }
}
pub open spec fn dest_of_array(v: Seq<Primitive>, tolerant: bool) -> Option<DestModel> {
    if v.len() < 2 { None::<DestModel> } else {
        match (page_reads(v[0], tolerant), v[1]) {
            (Some(page), Primitive::Name(n)) => match view_reads(n@, v) { Some(view) => Some(DestModel { page: page, view: view }), None => None::<DestModel> },
            _ => None::<DestModel>,
        }
    }
}
// one level of indirection; 12.3.2.3: the value of a named destination may be "a dictionary with a D entry whose value is such an array"
pub open spec fn target(p: Primitive, st: Store) -> Option<Primitive> {
    match p { Primitive::Reference(id) => match st.get(id) { Ok(q) => Some(q), Err(_) => None::<Primitive> }, _ => Some(p) }
}
pub open spec fn unwrap_d(q: Primitive) -> Option<Primitive> { match q { Primitive::Dictionary(d) => dget(d@, "D"@), _ => Some(q) } }
pub open spec fn dest_reads(p: Primitive, st: Store, tolerant: bool) -> Option<DestModel> {
    match target(p, st) { None => None::<DestModel>, Some(q) => match unwrap_d(q) {
        Some(Primitive::Array(v)) => dest_of_array(v@, tolerant),
        _ => None::<DestModel>,
    } }
}
// 12.3.2.3 Named destinations: "a name object (PDF 1.1) or a byte string (PDF 1.2)" instead of the array -- kept as such
pub enum MndModel { NamedString(Seq<u8>), NamedName(Seq<char>), Direct(DestModel) }
pub open spec fn mnd_reads(p: Primitive, st: Store, tolerant: bool) -> Option<MndModel> {
    match target(p, st) { None => None::<MndModel>, Some(q) => match q {
        Primitive::String(s) => Some(MndModel::NamedString(s.data@)),
        // a name object (PDF 1.1 form): /repo's MaybeNamedDest cannot hold it; rejected (TOL_NAME_OBJECT_DEST_REJECTED)
        Primitive::Name(n) => if TOL_NAME_OBJECT_DEST_REJECTED() { None::<MndModel> } else { Some(MndModel::NamedName(n@)) },
        _ => match unwrap_d(q) {
            Some(Primitive::Array(v)) => match dest_of_array(v@, tolerant) { Some(d) => Some(MndModel::Direct(d)), None => None::<MndModel> },
            _ => None::<MndModel>,
        }
    } }
}
// ---- writer model: the array of Table 151 ------------------------------------------------------------------------------
pub open spec fn view_name(v: DvModel) -> Seq<char> {
    match v {
        DvModel::XYZ { .. } => "XYZ"@, DvModel::Fit => "Fit"@, DvModel::FitH { .. } => "FitH"@, DvModel::FitV { .. } => "FitV"@,
        DvModel::FitR { .. } => "FitR"@, DvModel::FitB => "FitB"@, DvModel::FitBH { .. } => "FitBH"@, DvModel::FitBV { .. } => "FitBV"@,
    }
}
pub open spec fn view_params(v: DvModel) -> Seq<Primitive> {
    match v {
        DvModel::XYZ { left, top, zoom } => seq![coord_prim(left), coord_prim(top), Primitive::Number(zoom)],
        DvModel::Fit => Seq::<Primitive>::empty(),
        DvModel::FitH { top } => seq![coord_prim(top)],
        DvModel::FitV { left } => seq![coord_prim(left)],
        DvModel::FitR { left, bottom, right, top } => seq![Primitive::Number(left), Primitive::Number(bottom), Primitive::Number(right), Primitive::Number(top)],
        DvModel::FitB => Seq::<Primitive>::empty(),
        DvModel::FitBH { top } => seq![coord_prim(top)],
        DvModel::FitBV { left } => seq![coord_prim(left)],
    }
}
pub open spec fn dest_array(m: DestModel) -> Seq<Primitive> {
    seq![page_prim(m.page), Primitive::Name(sstr(view_name(m.view)))] + view_params(m.view)
}
pub open spec fn mnd_writes(m: MndModel, p: Primitive) -> bool {
    match m {
        MndModel::NamedString(b) => p matches Primitive::String(s) && s.data@ == b,
        MndModel::NamedName(n) => p matches Primitive::Name(s) && s@ == n,
        MndModel::Direct(d) => p matches Primitive::Array(a) && a@ == dest_array(d),
    }
}

// ---- the extracted types and their views ------------------------------------------------------------------------------
//@@ struct Rectangle
//@@ enum DestView
//@@ struct Dest
//@@ enum MaybeNamedDest
pub open spec fn dest_view(d: Dest) -> DestModel { DestModel { page: opt_id(d.page), view: dv_view(d.view) } }

// the model values the types of /repo can hold (every value of the extracted types has such a view: lemma_views_representable)
pub open spec fn dv_representable(v: DvModel) -> bool {
    match v {
        DvModel::FitH { top } => !TOL_NULL_COORDINATE_REJECTED() || top is Some,
        DvModel::FitV { left } => !TOL_NULL_COORDINATE_REJECTED() || left is Some,
        DvModel::FitBH { top } => !TOL_NULL_COORDINATE_REJECTED() || top is Some,
        DvModel::FitBV { left } => !TOL_FITBV_NOT_MODELLED() && (!TOL_NULL_COORDINATE_REJECTED() || left is Some),
        _ => true,
    }
}
pub open spec fn mnd_representable(m: MndModel) -> bool {
    match m { MndModel::NamedString(_) => true, MndModel::NamedName(_) => !TOL_NAME_OBJECT_DEST_REJECTED(), MndModel::Direct(d) => dv_representable(d.view) }
}
pub proof fn lemma_views_representable(d: Dest, x: MaybeNamedDest)
    ensures dv_representable(dest_view(d).view), mnd_representable(mnd_view(x))
{}

// ---- proof hints used inside the extracted bodies (no `requires`) -------------------------------------------------------
pub proof fn lemma_view_names()
    ensures
        "XYZ"@ != "Fit"@, "XYZ"@ != "FitH"@, "XYZ"@ != "FitV"@, "XYZ"@ != "FitR"@, "XYZ"@ != "FitB"@, "XYZ"@ != "FitBH"@, "XYZ"@ != "FitBV"@,
        "Fit"@ != "FitH"@, "Fit"@ != "FitV"@, "Fit"@ != "FitR"@, "Fit"@ != "FitB"@, "Fit"@ != "FitBH"@, "Fit"@ != "FitBV"@,
        "FitH"@ != "FitV"@, "FitH"@ != "FitR"@, "FitH"@ != "FitB"@, "FitH"@ != "FitBH"@, "FitH"@ != "FitBV"@,
        "FitV"@ != "FitR"@, "FitV"@ != "FitB"@, "FitV"@ != "FitBH"@, "FitV"@ != "FitBV"@,
        "FitR"@ != "FitB"@, "FitR"@ != "FitBH"@, "FitR"@ != "FitBV"@,
        "FitB"@ != "FitBH"@, "FitB"@ != "FitBV"@, "FitBH"@ != "FitBV"@,
{
    reveal_strlit("XYZ"); reveal_strlit("Fit"); reveal_strlit("FitH"); reveal_strlit("FitV"); reveal_strlit("FitR");
    reveal_strlit("FitB"); reveal_strlit("FitBH"); reveal_strlit("FitBV");
    assert("XYZ"@[0] != "Fit"@[0]); assert("XYZ"@[0] != "FitH"@[0]); assert("XYZ"@[0] != "FitV"@[0]); assert("XYZ"@[0] != "FitR"@[0]);
    assert("XYZ"@[0] != "FitB"@[0]); assert("XYZ"@[0] != "FitBH"@[0]); assert("XYZ"@[0] != "FitBV"@[0]);
    assert("Fit"@.len() != "FitH"@.len()); assert("Fit"@.len() != "FitV"@.len()); assert("Fit"@.len() != "FitR"@.len());
    assert("Fit"@.len() != "FitB"@.len()); assert("Fit"@.len() != "FitBH"@.len()); assert("Fit"@.len() != "FitBV"@.len());
    assert("FitH"@[3] != "FitV"@[3]); assert("FitH"@[3] != "FitR"@[3]); assert("FitH"@[3] != "FitB"@[3]);
    assert("FitH"@.len() != "FitBH"@.len()); assert("FitH"@.len() != "FitBV"@.len());
    assert("FitV"@[3] != "FitR"@[3]); assert("FitV"@[3] != "FitB"@[3]); assert("FitV"@.len() != "FitBH"@.len()); assert("FitV"@.len() != "FitBV"@.len());
    assert("FitR"@[3] != "FitB"@[3]); assert("FitR"@.len() != "FitBH"@.len()); assert("FitR"@.len() != "FitBV"@.len());
    assert("FitB"@.len() != "FitBH"@.len()); assert("FitB"@.len() != "FitBV"@.len());
    assert("FitBH"@[4] != "FitBV"@[4]);
}

impl Dest {
//@@ Dest::from_array
}
//@@ dest_from_primitive
//@@ mnd_from_primitive
//@@ dest_to_primitive
//@@ mnd_to_primitive

// =====================================================================================================================
// round trips, from the models alone
// =====================================================================================================================
// what the coordinate writer emits reads back as the same coordinate (bit-identical f32: no arithmetic on the way)
pub proof fn lemma_coord_roundtrip(c: Option<f32>)
    ensures coord(coord_prim(c)) == Some(c)
{}
// read(write(d)) == d for EVERY representable value (= every value of the extracted type), strict or tolerant
pub proof fn lemma_dest_roundtrip(m: DestModel, tolerant: bool)
    requires dv_representable(m.view)
    ensures dest_of_array(dest_array(m), tolerant) == Some(m)
{
    lemma_view_names();
    let a = dest_array(m);
    let ps = view_params(m.view);
    assert(a.len() == 2 + ps.len());
    assert(a[0] == page_prim(m.page));
    assert(a[1] == Primitive::Name(sstr(view_name(m.view))));
    assert(page_reads(a[0], tolerant) == Some(m.page));
    assert forall|i: int| 0 <= i < ps.len() implies a[2 + i] == ps[i] by {}
    match m.view {
        DvModel::XYZ { left, top, zoom } => {
            assert(a[2] == ps[0] && a[3] == ps[1] && a[4] == ps[2]);
            lemma_coord_roundtrip(left); lemma_coord_roundtrip(top);
            assert(coord(a[4]) == Some(Some(zoom)));
        }
        DvModel::Fit => {}
        DvModel::FitH { top } => { assert(a[2] == ps[0]); lemma_coord_roundtrip(top); }
        DvModel::FitV { left } => { assert(a[2] == ps[0]); lemma_coord_roundtrip(left); }
        DvModel::FitR { left, bottom, right, top } => { assert(a[2] == ps[0] && a[3] == ps[1] && a[4] == ps[2] && a[5] == ps[3]); }
        DvModel::FitB => {}
        DvModel::FitBH { top } => { assert(a[2] == ps[0]); lemma_coord_roundtrip(top); }
        DvModel::FitBV { left } => { assert(a[2] == ps[0]); lemma_coord_roundtrip(left); }
    }
}
// whole values: the primitive the writer emits for d (wr_value) reads back (rd_ok) as a value with the same view, which
// therefore writes the identical array: write-read-write identity
pub proof fn lemma_dest_write_read_write(d: Dest, a: Vec<Primitive>, st: Store, tolerant: bool)
    requires a@ == dest_array(dest_view(d))
    ensures
        dest_reads(Primitive::Array(a), st, tolerant) == Some(dest_view(d)),
        forall|d2: Dest| dest_reads(Primitive::Array(a), st, tolerant) == Some(dest_view(d2)) ==> dest_array(dest_view(d2)) == a@,
{
    lemma_views_representable(d, MaybeNamedDest::Direct(d));
    lemma_dest_roundtrip(dest_view(d), tolerant);
}
pub proof fn lemma_mnd_roundtrip(m: MndModel, p: Primitive, st: Store, tolerant: bool)
    requires mnd_writes(m, p), mnd_representable(m)
    ensures mnd_reads(p, st, tolerant) == Some(m)
{
    match m {
        MndModel::Direct(d) => { lemma_dest_roundtrip(d, tolerant); }
        _ => {}
    }
}
// Table 151, row by row, for numbers a b c d (integers or reals) and a page reference: what each conformant array means
pub proof fn lemma_table151(pg: PlainRef, a: Primitive, b: Primitive, c: Primitive, d: Primitive, tolerant: bool)
    requires num(a) is Some, num(b) is Some, num(c) is Some, num(d) is Some
    ensures
        ({
            let pr = Primitive::Reference(pg);
            let nm = |s: Seq<char>| Primitive::Name(sstr(s));
            let at = |v: DvModel| Some(DestModel { page: Some(pg), view: v });
            &&& dest_of_array(seq![pr, nm("XYZ"@), a, b, c], tolerant) == at(DvModel::XYZ { left: num(a), top: num(b), zoom: num(c)->0 })
            &&& dest_of_array(seq![pr, nm("XYZ"@), Primitive::Null, b, Primitive::Null], tolerant) == at(DvModel::XYZ { left: None, top: num(b), zoom: 0f32 })
            &&& dest_of_array(seq![pr, nm("Fit"@)], tolerant) == at(DvModel::Fit)
            &&& dest_of_array(seq![pr, nm("FitH"@), a], tolerant) == at(DvModel::FitH { top: num(a) })
            &&& dest_of_array(seq![pr, nm("FitV"@), a], tolerant) == at(DvModel::FitV { left: num(a) })
            &&& dest_of_array(seq![pr, nm("FitR"@), a, b, c, d], tolerant) == at(DvModel::FitR { left: num(a)->0, bottom: num(b)->0, right: num(c)->0, top: num(d)->0 })
            &&& dest_of_array(seq![pr, nm("FitB"@)], tolerant) == at(DvModel::FitB)
            &&& dest_of_array(seq![pr, nm("FitBH"@), a], tolerant) == at(DvModel::FitBH { top: num(a) })
            // the tolerated gaps: conformant by Table 151, rejected (Err) by the reader
            &&& dest_of_array(seq![pr, nm("FitBV"@), a], tolerant) is None
            &&& dest_of_array(seq![pr, nm("FitH"@), Primitive::Null], tolerant) is None
            &&& dest_of_array(seq![pr, nm("FitV"@), Primitive::Null], tolerant) is None
            &&& dest_of_array(seq![pr, nm("FitBH"@), Primitive::Null], tolerant) is None
            // too short
            &&& dest_of_array(seq![pr], tolerant) is None
            &&& dest_of_array(seq![pr, nm("FitH"@)], tolerant) is None
            &&& dest_of_array(seq![pr, nm("FitR"@), a, b, c], tolerant) is None
            &&& dest_of_array(seq![pr, nm("XYZ"@), a], tolerant) is None
        })
{
    lemma_view_names();
}

}
fn main(){}
