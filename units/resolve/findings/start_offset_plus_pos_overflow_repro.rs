// Repro for finding resolve/Storage::resolve_ref/panic_free (unchecked `self.start_offset + pos`, pdf/src/file.rs).
// Drop this file into pdf/tests/ of a scratch copy of /repo and run
//   CARGO_TARGET_DIR=/tmp/resolve_target cargo test --offline -p pdf --test start_offset_plus_pos_overflow_repro   (use a PRIVATE target dir, e.g. CARGO_TARGET_DIR=/tmp/resolve_target)
// One junk byte before `%PDF-` (start_offset = 1) and a cross-reference entry whose offset is u64::MAX.
use pdf::file::FileOptions;

fn crafted() -> Vec<u8> {
    let mut f: Vec<u8> = Vec::new();
    f.extend_from_slice(b"X");                       // junk before the header  => start_offset == 1
    f.extend_from_slice(b"%PDF-1.4\n");
    let xref_at = f.len() - 1;                       // offsets are relative to the header
    f.extend_from_slice(b"xref\n0 2\n0000000000 65535 f \n18446744073709551615 00000 n \n");
    f.extend_from_slice(b"trailer\n<< /Size 2 /Root 1 0 R >>\n");
    f.extend_from_slice(format!("startxref\n{}\n%%EOF", xref_at).as_bytes());
    f
}

#[test]
fn hostile_offset_is_an_error_not_a_panic() {
    let data = crafted();
    // C01: "completes each call with either a value or an error value. No call panics"
    let r = std::panic::catch_unwind(|| FileOptions::uncached().load(data).map(|_| ()));
    match r {
        Ok(res) => assert!(res.is_err(), "object 1 points outside the file: must be an error"),
        Err(_) => panic!("PANIC inside the library (attempt to add with overflow in Storage::resolve_ref)"),
    }
}
