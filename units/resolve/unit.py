FILE = 'pdf/src/file.rs'
X = 'pdf/src/xref.rs'
O = 'pdf/src/object/mod.rs'
IMPL = r'^impl<B, OC, SC, L> Storage<B, OC, SC, L> where'

NOT_PENDING = 'self.pending(r.id) is None ==> '

UNIT = {
 'name': 'resolve',
 'doc': 'Storage::resolve_ref: pending change, else the cross-reference entry decides (offsets relative to the header)',
 'items': {
  'struct PlainRef': {'kind': 'decl', 'file': O, 'header': r'^pub struct PlainRef$', 'attrs': ['#[derive(Clone, Copy)]']},
  'enum XRef': {'kind': 'decl', 'file': X, 'header': r'^pub enum XRef$', 'attrs': ['#[derive(Clone, Copy)]']},
  'struct XRefTable': {'kind': 'decl', 'file': X, 'header': r'^pub struct XRefTable$',
     'rewrites': [{'rule': 'R2', 'find': 'entries:', 'replace': 'pub entries:'}]},
  # same text, rewrite and contract as in unit xreftable
  'XRefTable::get': {'kind': 'fn', 'file': X, 'container': r'^impl XRefTable$', 'name': 'get', 'props': ['C02', 'C18', 'C01'],
     'ensures': [('get_in_table', '(id as int) < self.entries@.len() ==> r == Ok::<XRef, PdfError>(self.entries@[id as int])'),
                 ('get_beyond_table', '(id as int) >= self.entries@.len() ==> r == Err::<XRef, PdfError>(PdfError::UnspecifiedXRefEntry { id })')],
     # R5 by shape (any binding name, block or expression arm); count '*': a body without such a pattern (explicit bounds
     # test + indexing) is read verbatim
     'rewrites': [{'rule': 'R5', 'regex': r'Some\(&(\w+)\)\s*=>\s*\{', 'replace': r'Some(\1_) => { let \1 = *\1_;', 'count': '*'},
                  {'rule': 'R5', 'regex': r'Some\(&(\w+)\)\s*=>\s*([^,{}]*),', 'replace': r'Some(\1_) => { let \1 = *\1_; \2 },', 'count': '*'}]},

  # same text and contract as in unit xreftable (proved again here, nothing assumed): present so that a NEW call site inside this
  # unit's functions is a call-site obligation (the `_ => panic!()` arm) instead of "no method named get_gen_nr" (UNDECIDED)
  'XRef::get_gen_nr': {'kind': 'fn', 'file': X, 'container': r'^impl XRef$', 'name': 'get_gen_nr', 'props': ['C02', 'C18', 'C01'],
     # only call site in /repo: XRefTable::add_entries_from, on an entry of a section (Free | Raw | Stream), see units/xreftable/NOTES.md
     'requires': ['!(*self is Promised)', '!(*self is Invalid)'],
     'ensures': [('gen_exact', 'r == gen_of(*self)')]},

  # R2: all fields kept (the type parameters OC, SC, L stay abstract), widened to pub
  'struct Storage': {'kind': 'decl', 'file': FILE, 'header': r'^pub struct Storage<B, OC, SC, L>$',
     'rewrites': [{'rule': 'R2', 'find': f, 'replace': 'pub ' + f} for f in
                  ('cache:', 'stream_cache:', 'changes:', 'refs:', 'decoder:', 'options:', 'backend:', 'start_offset:', 'log:')]},

  'Storage::resolve_ref': {'kind': 'fn', 'file': FILE, 'container': IMPL, 'name': 'resolve_ref',
     'props': ['C02', 'C09', 'C17', 'C18', 'C01', 'C11'], 'ret': 'res',
     # the content of a backend is addressable: Backend::len() returns its length as a usize (every Backend)
     'requires': ['self.backend.bytes().len() <= usize::MAX'],
     'ensures': [
        # C09 "before any save every read through the same open document already reflects each write"
        ('pending_change_wins', 'self.pending(r.id) matches Some(p) ==> res == Ok::<Primitive, PdfError>(p)'),
        # C02 "or that no section defines, is reported as ... missing"; C18 origin of the missing-object error
        ('beyond_table_is_missing', NOT_PENDING + '(self.entry(r.id) is None ==> (res matches Err(e) && root(e) == PdfError::UnspecifiedXRefEntry { id: r.id }))'),
        # C02 the value the newest entry points to; C17 "all offsets in the file being taken relative to the header"
        # ISO 32000-1 7.5.4: the entry of object n gives the offset of object n: what stands there must say `n g obj`, else an error
        ('raw_parsed_relative_to_header', NOT_PENDING + '''(self.entry(r.id) matches Some(XRef::Raw { pos, .. }) ==>
              if self.start_offset + pos > self.backend.bytes().len() { res is Err }
              else { match object_at(self.backend.bytes(), self.start_offset + pos, self.decoder, flags) {
                         Ok(p) => if header_id_at(self.backend.bytes(), self.start_offset + pos) == r.id { res == Ok::<Primitive, PdfError>(p) } else { res is Err },
                         Err(_) => res is Err } })'''),
        ('compressed_is_stream_member', NOT_PENDING + '''(self.entry(r.id) matches Some(XRef::Stream { stream_id, index }) ==>
              match member_of(stream_id, index as int, flags) { Ok(p) => res == Ok::<Primitive, PdfError>(p), Err(_) => res is Err })'''),
        # C02 "A number whose most recent mention frees it ... is reported as free ..., never as an older value"
        ('free_is_free_object_error', NOT_PENDING + '(self.entry(r.id) matches Some(XRef::Free { .. }) ==> res == Err::<Primitive, PdfError>(PdfError::FreeObject { obj_nr: r.id }))'),
        ('undefined_is_null_ref_error', NOT_PENDING + '(self.entry(r.id) matches Some(XRef::Invalid) ==> res == Err::<Primitive, PdfError>(PdfError::NullRef { obj_nr: r.id }))'),
        ('promised_is_error', NOT_PENDING + '(self.entry(r.id) matches Some(XRef::Promised) ==> res is Err)'),
     ],
     'rewrites': [
        {'rule': 'R1', 'regex': r'\A\{', 'replace': '{\n        proof { reveal_with_fuel(root, 3); }'},   # at the top of the body
        {'rule': 'R3', 'regex': r'PdfError::PrimitiveNotAllowed \{ found: ParseFlags::STREAM, allowed: flags \}', 'replace': 'PdfError::PrimitiveNotAllowed', 'count': '*'},
        # R7: the four statements of the object-stream arm; the flags expression handed to `parse` stays verbatim
        {'rule': 'R7', 'regex': r'let obj_stream = resolve\.get::<ObjectStream>\(Ref::from_id\(stream_id\)\)\?;\s*'
                                r'let \(data, range\) = t!\(obj_stream\.get_object_slice\(index, resolve\)\);\s*'
                                r'let slice = data\.get\(range\.clone\(\)\)\.ok_or_else\(\|\| other!\("invalid range \{:\?\}, but only have \{\} bytes", range, data\.len\(\)\)\)\?;\s*'
                                r'parse\(slice, resolve, ([^;{}]*?)\)(?=\s*\})',
         'replace': r'hoist_objstm_member(resolve, stream_id, index, \1)'},
        {'rule': 'R4', 'find': 'unimplemented!()', 'replace': 'bail!("Unimplemented")'},
     ]},
 },
 # BOUNDED native stand-in (vlib/native.py): the real crate, public API only. Needed because Verus is modular: a change that routes
 # resolve_ref through a NEW helper method (no contract) leaves the Verus part UNDECIDED (NOTES.md "C18-r2-1"); this decides it on a
 # small exhaustive universe. Reported under bounded_checks with its bound, never counted as proved.
 'native': {'tests': [
    {'name': 'refs_to_free_gap_beyond_read_as_null', 'code': 'native_refs_bounded.rs', 'place': 'pdf/tests/verif_resolve_bounded.rs',
     'fn': 'Storage::resolve_ref', 'props': ['C18', 'C02'], 'tier': 'quick',
     'bound': 'classic xref tables over object numbers 0..=8: {0 free, 1, 2, 5 in use} [+ 3 free, generation 1] x /Size in {6, 9} '
              '(3, 4 gaps = XRef::Invalid; 6..8 beyond the table or gaps) x {strict, tolerant} x {uncached, cached}; '
              'every reference n g R with n in 0..=8, g in {0, 1}: 16 documents x 18 references x 2 readers',
     'contract': 'no panic; in-use numbers: resolve is Ok and Option::<Dictionary> reads Some; free / gap / beyond-the-table numbers: '
                 'resolve is Err(e) with e.is_missing_object() (FreeObject | NullRef | UnspecifiedXRefEntry: resolve_ref/free_is_free_object_error, '
                 'undefined_is_null_ref_error, beyond_table_is_missing) and the Option reader gives Ok(None) (null, ISO 32000-1 7.3.10)'},
 ]},
}
