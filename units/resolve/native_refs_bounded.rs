// BOUNDED native stand-in of unit `resolve` (C18, C02): runs the REAL crate through its public API.
//
// Why it exists: Verus verifies `Storage::resolve_ref` modularly. A change that moves part of it into a NEW helper method
// (no contract yet) leaves the unit UNDECIDED by design (units/resolve/NOTES.md). This harness decides such changes on a
// small, exhaustively enumerated universe; it is reported under bounded_checks, never as a proof.
//
// Universe (the bound): classic cross-reference tables over object numbers 0..=8
//   * table lists 0 (free list head), 1 (catalog), 2 (page tree), 5 (a dictionary)   -> 3 and 4 are GAPS (XRef::Invalid)
//   * variant `free3`: additionally `3 1` with a free entry of generation 1            -> 3 is FREE, 4 stays a gap
//   * /Size 6 (6, 7, 8 lie BEYOND the table) or /Size 9 (6, 7, 8 are gaps inside it)
//   x parse options {strict, tolerant} x {uncached, cached} x every reference `n g R`, n in 0..=8, g in {0, 1}
// Statement checked for every reference (the contract proved for resolve_ref, seen through the public API):
//   * nothing panics;
//   * n in {1, 2, 5} (in use): `resolve` is Ok, and the Option reader gives Some;
//   * every other n (free, gap, beyond): `resolve` is Err(e) with e.is_missing_object()   [resolve_ref/free_is_free_object_error,
//     undefined_is_null_ref_error, beyond_table_is_missing], and the Option reader gives Ok(None) = null (C18, ISO 7.3.10).
use pdf::file::FileOptions;
use pdf::object::{Object, ParseOptions, PlainRef, Resolve};
use pdf::primitive::{Dictionary, Primitive};
use std::panic::{catch_unwind, AssertUnwindSafe};

fn build(free3: bool, size: u64) -> Vec<u8> {
    let mut out = Vec::new();
    out.extend_from_slice(b"%PDF-1.7\n");
    let mut offs = Vec::new();
    for &(id, body) in &[(1u64, "<< /Type /Catalog /Pages 2 0 R >>"), (2, "<< /Type /Pages /Kids [] /Count 0 >>"), (5, "<< /Producer (bounded) >>")] {
        offs.push((id, out.len()));
        out.extend_from_slice(format!("{} 0 obj\n{}\nendobj\n", id, body).as_bytes());
    }
    let xref_pos = out.len();
    out.extend_from_slice(b"xref\n");
    out.extend_from_slice(format!("0 {}\n", if free3 { 4 } else { 3 }).as_bytes());
    out.extend_from_slice(format!("{:010} 65535 f \n", if free3 { 3 } else { 0 }).as_bytes());
    out.extend_from_slice(format!("{:010} 00000 n \n", offs[0].1).as_bytes());
    out.extend_from_slice(format!("{:010} 00000 n \n", offs[1].1).as_bytes());
    if free3 {
        out.extend_from_slice(b"0000000000 00001 f \n");
    }
    out.extend_from_slice(b"5 1\n");
    out.extend_from_slice(format!("{:010} 00000 n \n", offs[2].1).as_bytes());
    out.extend_from_slice(format!("trailer\n<< /Size {} /Root 1 0 R >>\nstartxref\n{}\n%%EOF\n", size, xref_pos).as_bytes());
    out
}

fn panic_text(e: Box<dyn std::any::Any + Send>) -> String {
    if let Some(s) = e.downcast_ref::<&str>() { s.to_string() } else if let Some(s) = e.downcast_ref::<String>() { s.clone() } else { "(no message)".into() }
}

fn check_refs(resolver: &impl Resolve, what: &str, fails: &mut Vec<String>) {
    for id in 0u64..=8 {
        for gen in 0u64..=1 {
            let r = PlainRef { id, gen };
            let in_use = id == 1 || id == 2 || id == 5;
            match catch_unwind(AssertUnwindSafe(|| resolver.resolve(r))) {
                Err(p) => fails.push(format!("{}: resolve({} {} R) PANICKED: {}", what, id, gen, panic_text(p))),
                Ok(Ok(v)) => if !in_use { fails.push(format!("{}: resolve({} {} R) = Ok({:?}), expected a missing-object error", what, id, gen, v)) },
                Ok(Err(e)) => {
                    if in_use { fails.push(format!("{}: resolve({} {} R) = Err({}), expected the object", what, id, gen, e)) }
                    else if !e.is_missing_object() { fails.push(format!("{}: resolve({} {} R) = Err({}), not a missing-object error", what, id, gen, e)) }
                }
            }
            match catch_unwind(AssertUnwindSafe(|| Option::<Dictionary>::from_primitive(Primitive::Reference(r), resolver))) {
                Err(p) => fails.push(format!("{}: Option reader on {} {} R PANICKED: {}", what, id, gen, panic_text(p))),
                Ok(Ok(Some(_))) => if !in_use { fails.push(format!("{}: Option reader on {} {} R = Some, expected None (null)", what, id, gen)) },
                Ok(Ok(None)) => if in_use { fails.push(format!("{}: Option reader on {} {} R = None, expected the dictionary", what, id, gen)) },
                Ok(Err(e)) => fails.push(format!("{}: Option reader on {} {} R = Err({})", what, id, gen, e)),
            }
        }
    }
}

#[test]
fn refs_to_free_gap_beyond_read_as_null_bounded() {
    // keep the default hook from printing one backtrace per caught panic
    std::panic::set_hook(Box::new(|_| {}));
    let mut fails = Vec::new();
    let mut n = 0;
    for &free3 in &[false, true] {
        for &size in &[6u64, 9] {
            for mode in ["strict", "tolerant"] {
                let opts = || if mode == "strict" { ParseOptions::strict() } else { ParseOptions::tolerant() };
                let what = format!("table{{0 f,1,2{},5}} /Size {} {}", if free3 { ",3 f" } else { "" }, size, mode);
                match FileOptions::uncached().parse_options(opts()).load(build(free3, size)) {
                    Ok(file) => { check_refs(&file.resolver(), &format!("{} uncached", what), &mut fails); n += 1; }
                    Err(e) => fails.push(format!("{} uncached: the document does not load: {}", what, e)),
                }
                match FileOptions::cached().parse_options(opts()).load(build(free3, size)) {
                    Ok(file) => { check_refs(&file.resolver(), &format!("{} cached", what), &mut fails); n += 1; }
                    Err(e) => fails.push(format!("{} cached: the document does not load: {}", what, e)),
                }
            }
        }
    }
    let _ = std::panic::take_hook();
    assert!(n == 16 || !fails.is_empty(), "only {} documents were checked", n);
    if !fails.is_empty() {
        panic!("{} failing inputs (first 12):\n{}", fails.len(), fails.iter().take(12).cloned().collect::<Vec<_>>().join("\n"));
    }
}
