// Unit `resolve` (C02, C09, C17, C18, C01): Storage::resolve_ref of pdf/src/file.rs -- the single place where an object
// number is turned into a value: pending change, else the cross-reference entry decides.
// Real text: Storage::resolve_ref, XRefTable::get, struct Storage / XRefTable / PlainRef, enum XRef.
// Abstract (env) callees: Backend::read, Lexer::with_offset, parse_indirect_object, the object-stream access (hoisted),
// ParseFlags::contains, Primitive::clone.
use vstd::prelude::*;
use core::ops::RangeFrom;
use std::collections::HashMap;
//@@ INCLUDE _common/error_macros.rs
verus! {
global size_of usize == 8;

//@@ PDFERROR
pub type ObjNr = u64;
pub type GenNr = u64;

//@@ struct PlainRef
//@@ enum XRef
//@@ struct XRefTable

impl XRefTable {
//@@ XRefTable::get
}
/// generation number of an entry; compressed objects have generation 0 (ISO 32000-1 7.5.8.3, type 2) -- as in unit xreftable
pub open spec fn gen_of(e: XRef) -> u64 {
    match e { XRef::Free { gen_nr, .. } => gen_nr, XRef::Raw { gen_nr, .. } => gen_nr, _ => 0 }
}
impl XRef {
//@@ XRef::get_gen_nr
}

// ---- environment ------------------------------------------------------------------------------------------------
#[verifier::external_body]
pub struct Primitive { _p: () }
impl Clone for Primitive {
    #[verifier::external_body]
    fn clone(&self) -> (r: Self) ensures r == *self { unimplemented!() }
}
#[verifier::external_body]
pub struct Decoder { _p: () }
#[verifier::external_body]
pub struct ParseOptions { _p: () }
// parser/mod.rs:22 (bitflags! struct over u16)
#[derive(Clone, Copy)]
pub struct ParseFlags { pub bits: u16 }
pub open spec fn has_stream_flag(f: ParseFlags) -> bool { f.bits & 2 == 2 }   // STREAM = 1 << 1
// bitflags operators a change to the flag plumbing is likely to use (bitflags 2 semantics: set union / difference)
impl core::ops::BitOr for ParseFlags {
    type Output = ParseFlags;
    #[verifier::external_body]
    fn bitor(self, o: ParseFlags) -> (r: ParseFlags) ensures r.bits == self.bits | o.bits { ParseFlags { bits: self.bits | o.bits } }
}
impl core::ops::Sub for ParseFlags {
    type Output = ParseFlags;
    #[verifier::external_body]
    fn sub(self, o: ParseFlags) -> (r: ParseFlags) ensures r.bits == self.bits & !o.bits { ParseFlags { bits: self.bits & !o.bits } }
}
impl ParseFlags {
    pub const STREAM: ParseFlags = ParseFlags { bits: 2 };
    pub const REF: ParseFlags = ParseFlags { bits: 512 };
    pub const INTEGER: ParseFlags = ParseFlags { bits: 1 };
    // bitflags: `contains(other)` == all bits of other are set
    #[verifier::external_body]
    pub fn contains(&self, other: ParseFlags) -> (r: bool) ensures r == (self.bits & other.bits == other.bits) { unimplemented!() }
}
pub struct Lexer<'a> { pub buf: &'a [u8], pub off: usize }
impl<'a> Lexer<'a> {
    // lexer/mod.rs:58 (abstract callee)
    #[verifier::external_body]
    pub fn with_offset(buf: &'a [u8], file_offset: usize) -> (r: Lexer<'a>) ensures r.off == file_offset, r.buf == buf { unimplemented!() }
}
pub trait Resolve {}

// IndexRange / Backend::read: contract as in unit xrefchain (to_range and the range impls are under proof there)
pub trait IndexRange {
    spec fn lo(&self) -> Option<usize>;
    spec fn hi(&self) -> Option<usize>;
}
impl IndexRange for RangeFrom<usize> {
    open spec fn lo(&self) -> Option<usize> { Some(self.start) }
    open spec fn hi(&self) -> Option<usize> { None }
}
pub open spec fn range_of(lo: Option<usize>, hi: Option<usize>, len: int) -> Option<(int, int)> {
    let a: int = match lo { Some(s) => s as int, None => 0 };
    let b: int = match hi { Some(e) => e as int, None => len };
    if a <= b && b <= len { Some((a, b)) } else { None }
}
pub trait Backend: Sized {
    spec fn bytes(&self) -> Seq<u8>;
    fn read<T: IndexRange>(&self, range: T) -> (r: Result<&[u8]>)
        ensures match range_of(range.lo(), range.hi(), self.bytes().len() as int) {
            Some((a, b)) => r matches Ok(s) && s@ == self.bytes().subrange(a, b),
            None => r is Err };
    // backend.rs: `fn len(&self) -> usize` (trait method; the length of the data)
    fn len(&self) -> (r: usize) ensures r == self.bytes().len();
}

pub open spec fn deref_opt(d: Option<&Decoder>) -> Option<Decoder> { match d { Some(x) => Some(*x), None => None } }

// "the object stored at a byte position": what parse_indirect_object reads from a lexer over the file suffix starting
// there, created with that file offset (stream data ranges are absolute, see Lexer::new_substr in unit lexer)
pub uninterp spec fn object_of(suffix: Seq<u8>, off: int, decoder: Option<Decoder>, flags: ParseFlags) -> Result<Primitive>;
pub open spec fn object_at(file: Seq<u8>, abs: int, decoder: Option<Decoder>, flags: ParseFlags) -> Result<Primitive> {
    object_of(file.subrange(abs, file.len() as int), abs, decoder, flags)
}
// "member `index` of object stream `stream_id`" (ObjectStream::get_object_slice is under contract in unit objstm)
pub uninterp spec fn member_of(stream_id: ObjNr, index: int, flags: ParseFlags) -> Result<Primitive>;
pub open spec fn header_id_at(file: Seq<u8>, abs: int) -> ObjNr { header_id_of(file.subrange(abs, file.len() as int), abs) }

// the object number N of the `N G obj` header standing at `off`
pub uninterp spec fn header_id_of(buf: Seq<u8>, off: int) -> ObjNr;
// parser/parse_object.rs:15 (abstract callee)
#[verifier::external_body]
pub fn parse_indirect_object(lexer: &mut Lexer, r: &impl Resolve, decoder: Option<&Decoder>, flags: ParseFlags) -> (res: Result<(PlainRef, Primitive)>)
    ensures match object_of(old(lexer).buf@, old(lexer).off as int, deref_opt(decoder), flags) {
        // the PlainRef returned is the `N G` of the header read (units/parser_obj: parse_indirect_object/value_indirect)
        Ok(p) => res matches Ok((h, q)) && q == p && h.id == header_id_of(old(lexer).buf@, old(lexer).off as int),
        Err(_) => res is Err }
{ unimplemented!() }

// R7: the object-stream arm (four statements through Resolve::get::<ObjectStream>, RcRef's Deref, slice::get(range)
// and the closure-built error) -- abstract: yields member `index` of stream `stream_id`, or an error
#[verifier::external_body]
fn hoist_objstm_member(resolve: &impl Resolve, stream_id: ObjNr, index: usize, flags: ParseFlags) -> (r: Result<Primitive>)
    ensures match member_of(stream_id, index as int, flags) { Ok(p) => r == Ok::<Primitive, PdfError>(p), Err(_) => r is Err }
{
    /* hoisted source text (file.rs, arm XRef::Stream of resolve_ref):
    let obj_stream = resolve.get::<ObjectStream>(Ref::from_id(stream_id))?;
    let (data, range) = t!(obj_stream.get_object_slice(index, resolve));
    let slice = data.get(range.clone()).ok_or_else(|| other!("invalid range {:?}, but only have {} bytes", range, data.len()))?;
    parse(slice, resolve, flags)
    */
    unimplemented!()
}

// the error at the bottom of a chain of `t!` wrappers
pub open spec fn root(e: PdfError) -> PdfError decreases e {
    match e { PdfError::Try { source } => root(*source), _ => e }
}

//@@ struct Storage

impl<B: Backend, OC, SC, L> Storage<B, OC, SC, L> {
    // the pending (unsaved) value of an object number, if any
    pub open spec fn pending(&self, id: ObjNr) -> Option<Primitive> {
        if self.changes@.contains_key(id) { Some(self.changes@[id].0) } else { None }
    }
    // the cross-reference entry of an object number, None beyond the table
    pub open spec fn entry(&self, id: ObjNr) -> Option<XRef> {
        if (id as int) < self.refs.entries@.len() { Some(self.refs.entries@[id as int]) } else { None }
    }

//@@ Storage::resolve_ref
}

}
fn main(){}
