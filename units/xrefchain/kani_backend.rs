// Kani harnesses on the real functions of pdf/src/backend.rs (appended as a #[cfg(kani)] module).
// Results are `mem::forget`-ed: dropping a PdfError makes CBMC explode (see DESIGN section 3).

// `%PDF-` (ISO 32000-1 7.5.2)
fn is_header_at(s: &[u8], i: usize) -> bool {
    i + 5 <= s.len() && s[i] == 0x25 && s[i + 1] == 0x50 && s[i + 2] == 0x44 && s[i + 3] == 0x46 && s[i + 4] == 0x2d
}

// L0 contract of hoist_find_header / top-level contract of locate_start_offset, on buffers of <= 12 bytes
// (the 1024-byte window itself is out of reach of this bound; it is covered by the Verus contract).
#[kani::proof]
#[kani::unwind(14)]
fn locate_start_offset_first_header() {
    let data: [u8; 12] = kani::any();
    let n: usize = kani::any();
    kani::assume(n <= 12);
    let s: &[u8] = &data[..n];
    let r = s.locate_start_offset();
    kani::cover!(r.is_ok() && n == 12);
    kani::cover!(r.is_err() && n == 12);
    match &r {
        Ok(i) => {
            assert!(is_header_at(s, *i));
            let mut j = 0;
            while j < *i { assert!(!is_header_at(s, j)); j += 1; }
        }
        Err(_) => {
            let mut j = 0;
            while j < n { assert!(!is_header_at(s, j)); j += 1; }
        }
    }
    std::mem::forget(r);
}

// spec of to_range from the doc comments of IndexRange: start inclusive (default 0), end exclusive (default len)
fn range_of(lo: Option<usize>, hi: Option<usize>, len: usize) -> Option<(usize, usize)> {
    let a = match lo { Some(s) => s, None => 0 };
    let b = match hi { Some(e) => e, None => len };
    if a <= b && b <= len { Some((a, b)) } else { None }
}
fn check_to_range<T: IndexRange>(t: T, lo: Option<usize>, hi: Option<usize>, len: usize) {
    assert!(t.start() == lo && t.end() == hi);
    let r = t.to_range(len);
    match (&r, range_of(lo, hi, len)) {
        (Ok(g), Some((a, b))) => assert!(g.start == a && g.end == b && g.start <= g.end && g.end <= len),
        (Err(PdfError::ContentReadPastBoundary), None) => {}
        _ => assert!(false),
    }
    std::mem::forget(r);
}
#[kani::proof]
fn to_range_complete() {
    let a: usize = kani::any();
    let b: usize = kani::any();
    let len: usize = kani::any();
    kani::cover!(a <= b && b <= len);
    kani::cover!(a > b);
    check_to_range(.., None, None, len);
    check_to_range(a.., Some(a), None, len);
    check_to_range(..b, None, Some(b), len);
    check_to_range(a..b, Some(a), Some(b), len);
}
