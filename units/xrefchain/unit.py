F = 'pdf/src/backend.rs'
TRAIT = r'^pub trait Backend: Sized$'
IR = r'^pub trait IndexRange$'

OK = 'r matches Ok((refs, tr)) ==> '


def range_impl(ty, which, header):
    return {'kind': 'fn', 'file': F, 'container': header, 'name': which, 'props': ['C01'], 'canary': False,
            'verus_name': '%s::%s' % (ty, which)}


# ghost text (R1) -------------------------------------------------------------------------------------
G_AFTER_NEW = '''let mut refs = XRefTable::new(highest_id as ObjNr);
        let ghost file = this.bytes();
        let ghost first = pos as int;
        let ghost secs0 = xref_sections@;
        proof { assert(gs(xref_sections@).take(0) =~= Seq::<int>::empty()); }'''

G_FOR = '''for __k in 0..xref_sections.len() { let section = xref_sections[__k];
            proof { lemma_gs_take_push(xref_sections@, __k as int); }'''

G_BEFORE_PREV = '''let ghost mut visited: Seq<int> = seq![pos as int];
        proof {
            assert(gs(secs0).take(secs0.len() as int) =~= gs(secs0));
            assert(Seq::<int>::empty() + gs(secs0) =~= gs(secs0));
            assert(gs(secs0) == sections_at(file, pos as int));
            lemma_concat_one(file, pos as int);
            lemma_chain_one(file, start_offset as int, pos as int);
        }
        let mut prev_trailer = {'''

G_SEEN = '''let ghost tr0 = trailer;
        let mut seen: Vec<usize> = vec![];'''

G_PUSH = '''let ghost seen_old = seen@;
            seen.push(prev_xref_offset);'''

G_LOOP_END = '''proof {
                assert(seen@ =~= seen_old.push(prev_xref_offset));
                assert(pos <= file.len());
                assert(seen@.no_duplicates());
                lemma_nodup_bound(seen@, file.len() as int);
                assert(gs(xref_sections@).take(xref_sections@.len() as int) =~= gs(xref_sections@));
                lemma_concat_push(file, visited, pos as int);
                lemma_chain_push(file, start_offset as int, first, visited, pos as int);
                visited = visited.push(pos as int);
            }
            prev_trailer = {'''

G_END = '''proof {
            assert(prev_offsets_distinct(visited)) by {
                assert forall|i: int, j: int| 1 <= i < j < visited.len() implies visited[i] != visited[j] by {
                    assert(seen@[i - 1] != seen@[j - 1]);
                }
            }
            lemma_chain_done(file, start_offset as int, first, visited);
            assert(walk_result(file, start_offset as int, first, refs.merged@));
        }
        Ok((refs, trailer))'''

G_HEADER = '''proof {
            let w = if 1024 <= this.bytes().len() { 1024int } else { this.bytes().len() as int };
            if buf@ == this.bytes().subrange(0, w) {
            assert forall|j: int| #![trigger is_header_at(buf@, j)] #![trigger is_header_at(this.bytes(), j)] is_header_at(buf@, j) <==> (is_header_at(this.bytes(), j) && j + 5 <= w) by {
                if 0 <= j && j + 5 <= w {
                    assert(buf@[j] == this.bytes()[j]); assert(buf@[j + 1] == this.bytes()[j + 1]); assert(buf@[j + 2] == this.bytes()[j + 2]);
                    assert(buf@[j + 3] == this.bytes()[j + 3]); assert(buf@[j + 4] == this.bytes()[j + 4]);
                }
            }
            }
        }
        '''

WHILE_INV = [
    ('inv_frame', 'file == this.bytes() && trailer == tr0 && first == start_offset + this.startxref().unwrap() && this.startxref() is Some && first < file.len()'),
    ('inv_chain', 'is_chain_prefix(file, start_offset as int, first, visited)'),
    ('inv_newest', 'tr0 == trailer_at(file, first) && size_entry(tr0) == Some(highest_id) && refs.size@ == highest_id'),
    ('inv_merged_in_order', 'refs.merged@ == concat_sections(file, visited)'),
    ('inv_next_is_prev', '!(prev_link(trailer_at(file, visited.last())) is Malformed) && prev_trailer == link_opt(prev_link(trailer_at(file, visited.last())))'),
    ('inv_seen', 'seen@.no_duplicates() && seen@.len() <= file.len() + 1 && seen@.len() == visited.len() - 1'),
    ('inv_seen_is_visited', 'forall|i: int| 0 <= i < seen@.len() ==> seen@[i] <= file.len() && visited[i + 1] == start_offset + #[trigger] seen@[i]'),
    ('inv_inside', 'forall|i: int| 0 <= i < visited.len() ==> 0 <= #[trigger] visited[i] <= file.len()'),
]

UNIT = {
 'name': 'xrefchain',
 'doc': 'The /Prev walk of Backend::read_xref_table_and_trailer, the header search and IndexRange::to_range',
 'timeout': 900, 'rlimit': 100,   # the proof needs ~1 s; the head-room is for *failing* variants (a mutant must end as rejected, not as rlimit)
 'items': {
  'const MAX_ID': {'kind': 'decl', 'file': F, 'header': r'^pub const MAX_ID: u32 ='},

  'RangeFull::start': range_impl('RangeFull', 'start', r'^impl IndexRange for RangeFull$'),
  'RangeFull::end': range_impl('RangeFull', 'end', r'^impl IndexRange for RangeFull$'),
  'RangeFrom::start': range_impl('RangeFrom', 'start', r'^impl IndexRange for RangeFrom<usize>$'),
  'RangeFrom::end': range_impl('RangeFrom', 'end', r'^impl IndexRange for RangeFrom<usize>$'),
  'RangeTo::start': range_impl('RangeTo', 'start', r'^impl IndexRange for RangeTo<usize>$'),
  'RangeTo::end': range_impl('RangeTo', 'end', r'^impl IndexRange for RangeTo<usize>$'),
  'Range::start': range_impl('Range', 'start', r'^impl IndexRange for Range<usize>$'),
  'Range::end': range_impl('Range', 'end', r'^impl IndexRange for Range<usize>$'),

  'to_range': {'kind': 'fn', 'file': F, 'container': IR, 'name': 'to_range', 'props': ['C01'],
     'ensures': [
        ('range_fits', 'match range_of(this.lo(), this.hi(), len as int) { Some((a, b)) => r matches Ok(g) && g.start == a && g.end == b, None => r is Err }'),
        ('range_in_bounds', 'r matches Ok(g) ==> g.start <= g.end <= len'),
        ('range_error_kind', 'r matches Err(e) ==> e is ContentReadPastBoundary'),
     ],
     'rewrites': [
        {'where': 'sig', 'rule': 'R2', 'find': 'fn to_range(&self,', 'replace': 'fn to_range<T: IndexRange>(this: &T,'},
        {'rule': 'R2', 'find': 'self.', 'replace': 'this.', 'count': 2},
     ]},

  'read_xref_table_and_trailer': {'kind': 'fn', 'file': F, 'container': TRAIT, 'name': 'read_xref_table_and_trailer',
     'props': ['C02', 'C17', 'C01', 'C14'],
     'ensures': [
        # C02 "the document trailer is that of the newest section"; C17 "all offsets ... relative to the header"
        ('newest_trailer', OK + 'this.startxref() matches Some(x) && tr == trailer_at(this.bytes(), start_offset + x)'),
        # the table is sized by the newest /Size, capped (C01/C14: object count cap)
        ('newest_size', OK + 'size_entry(tr) == Some(refs.size@ as u32) && 0 <= refs.size@ <= 1_000_000'),
        ('first_inside_file', OK + 'this.startxref() matches Some(x) && start_offset + x < this.bytes().len()'),
        # C02 merge order; C17 /Prev relative to the header; C14 a /Prev loop is an error
        ('chain_merged_newest_first', OK + 'this.startxref() matches Some(x) && walk_result(this.bytes(), start_offset as int, start_offset + x, refs.merged@)'),
     ],
     'loops': {
        1: {'invariant': [('inv_first_sections', 'refs.merged@ == gs(xref_sections@).take(__k as int) && refs.size@ == highest_id')]},
        2: {'invariant': WHILE_INV,
            'ensures': [('walk_ends_without_prev', 'prev_trailer is None')],
            'decreases': 'file.len() + 1 - seen@.len()'},
        3: {'invariant': [('inv_older_sections', 'refs.merged@ == concat_sections(file, visited) + gs(xref_sections@).take(__k as int) && refs.size@ == highest_id')]},
     },
     'rewrites': [
        {'where': 'sig', 'rule': 'R2', 'find': 'fn read_xref_table_and_trailer(&self,', 'replace': 'fn read_xref_table_and_trailer<B: Backend>(this: &B,'},
        {'rule': 'R3', 'find': '.ok_or_else(|| PdfError::MissingEntry {field: "Size".into(), typ: "XRefTable"})?',
         'replace': '.ok_or(PdfError::MissingEntry {typ: "XRefTable"})?'},
        {'rule': 'R1', 'find': 'let mut refs = XRefTable::new(highest_id as ObjNr);', 'replace': G_AFTER_NEW},
        {'rule': 'R6', 'find': 'for section in xref_sections {', 'replace': G_FOR, 'count': 2},
        {'rule': 'R1', 'find': 'let mut prev_trailer = {', 'replace': G_BEFORE_PREV},
        {'rule': 'R1+R2', 'find': 'let mut seen = vec![];', 'replace': G_SEEN},   # R2: element type ascribed (inference across the injected invariant)
        {'rule': 'R7', 'regex': r'seen\.contains\(&(.*?)\)', 'replace': r'hoist_contains(&seen, \1)'},
        {'rule': 'R1', 'find': 'seen.push(prev_xref_offset);', 'replace': G_PUSH},
        {'rule': 'R1', 'regex': r'(?<!mut )prev_trailer = \{', 'replace': G_LOOP_END},
        {'rule': 'R1', 'find': 'Ok((refs, trailer))', 'replace': G_END},
        {'rule': 'R2', 'find': 'self.', 'replace': 'this.', 'count': 4},
     ]},

  'locate_start_offset': {'kind': 'fn', 'file': F, 'container': TRAIT, 'name': 'locate_start_offset', 'props': ['C17', 'C01'],
     'ensures': [
        # C17 "keeps the header within the first kilobyte": first occurrence of %PDF- lying inside the first min(1024, len) bytes
        ('header_first_in_window', 'r matches Ok(i) ==> is_header_at(this.bytes(), i as int) && i + 5 <= 1024 && i + 5 <= this.bytes().len() && forall|j: int| 0 <= j < i ==> !is_header_at(this.bytes(), j)'),
        ('header_missing_is_error', 'r is Err ==> forall|j: int| j + 5 <= 1024 ==> !is_header_at(this.bytes(), j)'),
        ('header_found_is_ok', '(exists|j: int| j + 5 <= 1024 && is_header_at(this.bytes(), j)) ==> r is Ok'),
     ],
     'rewrites': [
        {'where': 'sig', 'rule': 'R2', 'find': 'fn locate_start_offset(&self)', 'replace': 'fn locate_start_offset<B: Backend>(this: &B)'},
        {'rule': 'R7', 'find': 'const HEADER: &[u8] = b"%PDF-";', 'replace': ''},
        {'rule': 'R7', 'find': 'std::cmp::min(', 'replace': 'hoist_min('},
        {'rule': 'R7+R1', 'find': 'buf .windows(HEADER.len()) .position(|window| window == HEADER)', 'replace': G_HEADER + 'hoist_find_header(buf)'},
        {'rule': 'R3', 'find': '.ok_or_else(|| PdfError::Other{ msg: "file header is missing".to_string() })', 'replace': '.ok_or(PdfError::Other)'},
        {'rule': 'R2', 'find': 'self.', 'replace': 'this.', 'count': 2},
     ]},
  'locate_xref_offset': {'kind': 'fn', 'file': F, 'container': TRAIT, 'name': 'locate_xref_offset', 'props': ['C17', 'C01'],
     'ensures': [
        ('startxref_is_token_after_last_keyword', 'r matches Ok(x) ==> exists|p: int| last_startxref(this.bytes(), p) && usize_of(token_after(this.bytes(), p + 9)) == Some(x)'),
        ('no_keyword_is_error', 'no_startxref(this.bytes()) ==> r is Err'),
        ('well_formed_tail_is_ok', 'forall|p: int| last_startxref(this.bytes(), p) && has_token(this.bytes(), p + 9) && usize_of(token_after(this.bytes(), p + 9)) is Some ==> r is Ok'),
     ],
     'rewrites': [
        {'where': 'sig', 'rule': 'R2', 'find': 'fn locate_xref_offset(&self)', 'replace': 'fn locate_xref_offset<B: Backend>(this: &B)'},
        {'rule': 'R7', 'find': 'b"startxref"', 'replace': 'hoist_kw_startxref()'},
        {'rule': 'R1', 'find': 'let mut lexer = Lexer::new(t!(self.read(..)));', 'replace': 'let mut lexer = Lexer::new(t!(self.read(..)));\n        proof { assert(lexer.buf@ =~= this.bytes()); }'},
        {'rule': 'R1', 'find': 't!(lexer.seek_substr_back(hoist_kw_startxref()));',
         'replace': '''t!(lexer.seek_substr_back(hoist_kw_startxref()));
        proof { assert(lexer.buf@ == this.bytes().subrange(0, this.bytes().len() as int)); assert(lexer.buf@ =~= this.bytes()); assert(last_startxref(this.bytes(), lexer.pos - 9)); assert(!no_startxref(this.bytes())); }'''},
        {'rule': 'R2', 'find': 'self.', 'replace': 'this.', 'count': 1},
     ]},
 },
 'kani': {
   'modules': [{'file': F, 'code': 'kani_backend.rs'}],
   'harnesses': [
     {'name': 'to_range_complete', 'fn': 'to_range', 'file': F, 'props': ['C01'], 'kind': 'complete', 'covers': True,
      'contract': 'forall a, b, len: usize and each of `..`, `a..`, `..b`, `a..b`: start()/end() are the bounds of the syntax; to_range(len) == Ok(lo..hi) with defaults 0/len iff lo <= hi <= len, else Err(ContentReadPastBoundary)'},
     {'name': 'locate_start_offset_first_header', 'fn': 'locate_start_offset', 'file': F, 'props': ['C17', 'C01'], 'kind': 'bounded',
      'bound': 'buffers <= 12 bytes, unwind 14', 'covers': True,
      'contract': 'L0 contract of hoist_find_header on the real function: Ok(i) iff i is the first index of %PDF- in the buffer, Err iff none'},
   ],
   'jobs': 4, 'timeout': 1500,
 },
}
