F = 'pdf/src/backend.rs'
TRAIT = r'^pub trait Backend: Sized$'
IR = r'^pub trait IndexRange$'

OK = 'r matches Ok((refs, tr)) ==> '


def range_impl(ty, which, header):
    return {'kind': 'fn', 'file': F, 'container': header, 'name': which, 'props': ['C01'], 'canary': False,
            'verus_name': '%s::%s' % (ty, which)}


# ghost text (R1) -------------------------------------------------------------------------------------
# The ghost code is keyed on SHAPES, not on the names of locals: the names of the lexer, of the pair bound by
# `let (secs, trailer) = t!(read_xref_and_trailer_at(..))`, of the loop variable of `while let Some(v) = prev_trailer`,
# of the expression pushed to `seen`, and of the variable iterated by `for s in secs` are captured and re-used verbatim.
# Fixed names (a rename makes the unit UNDECIDED = anchor lost, never an alarm): prev_trailer, seen, refs, highest_id.

# after `let mut <lexer> = Lexer::with_offset(<args>);` : the position the section is read at IS the lexer's file offset
RX_LEXER = r'(let\s+mut\s+(\w+)\s*=\s*Lexer::with_offset\([^;]*\);)'
G_LEXER = r'''\1
        let ghost gpos: int = \2.off as int;'''

# after `let (<secs>, <trailer>) = t!(read_xref_and_trailer_at(<args>));`
RX_READ = r'let\s*\(\s*(mut\s+)?(\w+)\s*,\s*(mut\s+)?(\w+)\s*\)\s*=\s*(t!\(read_xref_and_trailer_at\([^;]*\)\));'
G_READ = r'''let (\1\2, \3\4) = \5;
        let ghost g_tr = \4;'''

# R10: destructuring assignment `(a, b) = E;` (not accepted by Verus) -> `let (__da_a, __da_b) = E; a = __da_a; b = __da_b;`
RX_DASSIGN = r'(?<=[;{}])(\s*)\(\s*(\w+)\s*,\s*(\w+)\s*\)\s*=(?!=)\s*([^;]*);'
G_DASSIGN = r'\1let (__da_\2, __da_\3) = \4; \2 = __da_\2; \3 = __da_\3;'

# R6: `for <s> in <secs> {` -> index loop over the moved vector
RX_FOR = r'for\s+(\w+)\s+in\s+(\w+)\s*\{'
G_FOR = r'''let __secs = \2;
        proof { assert(gs(__secs@).take(0) =~= Seq::<int>::empty()); }
        for __k in 0..__secs.len() { let \1 = __secs[__k];
            proof { lemma_gs_take_push(__secs@, __k as int); }'''

# before `while let Some(<v>) = prev_trailer`: the state after the newest section has been merged.
# `rel`: which representation the loop variable carries -- true: the raw /Prev value (relative to the header, as in the
# pinned source), false: the absolute position (header position already added). Decided ONCE, from the value computed
# for the newest trailer; the invariant then demands the same representation after every later hop.
RX_WHILE = r'while\s+let\s+Some\((\w+)\)\s*=\s*prev_trailer(?!\w)'
G_WHILE = r'''let ghost file = this.bytes();
        let ghost first = gpos;
        let ghost tr0 = g_tr;
        let ghost rel: bool = prev_trailer == link_opt(prev_link(tr0));
        let ghost seen_delta: int = if rel { start_offset as int } else { 0 };
        let ghost mut visited: Seq<int> = seq![first];
        proof {
            let secs0 = __secs@;
            assert(gs(secs0).take(secs0.len() as int) =~= gs(secs0));
            assert(Seq::<int>::empty() + gs(secs0) =~= gs(secs0));
            assert(gs(secs0) == sections_at(file, first));
            lemma_concat_one(file, first);
            lemma_chain_one(file, start_offset as int, first);
        }
        while let Some(\1) = prev_trailer'''

G_SEEN = '''let mut seen: Vec<usize> = vec![];'''

RX_PUSH = r'seen\.push\(([^;]*)\);'
G_PUSH = r'''let ghost seen_old = seen@;
            let ghost pushed: usize = \1;
            seen.push(\1);'''

# before the assignment `prev_trailer = ...` at the end of the loop body (gpos / g_tr / __secs: those of this iteration)
RX_NEXT = r'(?<![\w.])(?<!mut )prev_trailer\s*=(?!=)'
G_LOOP_END = '''proof {
                assert(seen@ =~= seen_old.push(pushed));
                assert(gpos <= file.len());
                assert(seen@.no_duplicates());
                lemma_nodup_bound(seen@, file.len() as int);
                assert(gs(__secs@).take(__secs@.len() as int) =~= gs(__secs@));
                lemma_concat_push(file, visited, gpos);
                lemma_chain_push(file, start_offset as int, first, visited, gpos);
                visited = visited.push(gpos);
            }
            prev_trailer ='''

RX_END = r'Ok\(\(refs,\s*(\w+)\)\)'
G_END = r'''proof {
            assert(prev_offsets_distinct(visited)) by {
                assert forall|i: int, j: int| 1 <= i < j < visited.len() implies visited[i] != visited[j] by {
                    assert(seen@[i - 1] != seen@[j - 1]);
                }
            }
            lemma_chain_done(file, start_offset as int, first, visited);
            assert(walk_result(file, start_offset as int, first, refs.merged@));
        }
        Ok((refs, \1))'''

G_HEADER = '''proof {
            let w = if 1024 <= this.bytes().len() { 1024int } else { this.bytes().len() as int };
            if buf@ == this.bytes().subrange(0, w) {
            assert forall|j: int| #![trigger is_header_at(buf@, j)] #![trigger is_header_at(this.bytes(), j)] is_header_at(buf@, j) <==> (is_header_at(this.bytes(), j) && j + 5 <= w) by {
                if 0 <= j && j + 5 <= w {
                    assert(buf@[j] == this.bytes()[j]); assert(buf@[j + 1] == this.bytes()[j + 1]); assert(buf@[j + 2] == this.bytes()[j + 2]);
                    assert(buf@[j + 3] == this.bytes()[j + 3]); assert(buf@[j + 4] == this.bytes()[j + 4]);
                }
            }
            }
        }
        '''

WHILE_INV = [
    ('inv_frame', 'file == this.bytes() && first == start_offset + this.startxref().unwrap() && this.startxref() is Some && first < file.len()'),
    ('inv_chain', 'is_chain_prefix(file, start_offset as int, first, visited)'),
    ('inv_newest', 'tr0 == trailer_at(file, first) && size_entry(tr0) == Some(highest_id) && refs.size@ == highest_id'),
    ('inv_merged_in_order', 'refs.merged@ == concat_sections(file, visited)'),
    # the loop variable is the /Prev of the trailer of the section merged last, in the representation fixed before the loop
    ('inv_next_is_prev', 'next_is_prev(rel, start_offset, prev_link(trailer_at(file, visited.last())), prev_trailer)'),
    # (the representation flag is only meaningful when the newest trailer has a /Prev at all)
    ('inv_walk_started', 'visited.len() >= 1 && visited[0] == first && (visited.len() > 1 ==> prev_link(tr0) is At)'),
    ('inv_seen', 'seen@.no_duplicates() && seen@.len() <= file.len() + 1 && seen@.len() == visited.len() - 1'),
    # `seen` holds what identifies the visited positions: position minus a constant (whatever the code pushes, as long as it is
    # the same function of the position in every iteration: either representation of the loop variable)
    ('inv_seen_is_visited', 'forall|i: int| 0 <= i < seen@.len() ==> seen@[i] <= file.len() && visited[i + 1] == seen_delta + #[trigger] seen@[i]'),
    ('inv_inside', 'forall|i: int| 0 <= i < visited.len() ==> 0 <= #[trigger] visited[i] <= file.len()'),
]

UNIT = {
 'name': 'xrefchain',
 'doc': 'The /Prev walk of Backend::read_xref_table_and_trailer, the header search and IndexRange::to_range',
 'timeout': 900, 'rlimit': 100,   # the proof needs ~1 s; the head-room is for *failing* variants (a mutant must end as rejected, not as rlimit)
 'items': {
  'const MAX_ID': {'kind': 'decl', 'file': F, 'header': r'^pub const MAX_ID: u32 ='},

  'RangeFull::start': range_impl('RangeFull', 'start', r'^impl IndexRange for RangeFull$'),
  'RangeFull::end': range_impl('RangeFull', 'end', r'^impl IndexRange for RangeFull$'),
  'RangeFrom::start': range_impl('RangeFrom', 'start', r'^impl IndexRange for RangeFrom<usize>$'),
  'RangeFrom::end': range_impl('RangeFrom', 'end', r'^impl IndexRange for RangeFrom<usize>$'),
  'RangeTo::start': range_impl('RangeTo', 'start', r'^impl IndexRange for RangeTo<usize>$'),
  'RangeTo::end': range_impl('RangeTo', 'end', r'^impl IndexRange for RangeTo<usize>$'),
  'Range::start': range_impl('Range', 'start', r'^impl IndexRange for Range<usize>$'),
  'Range::end': range_impl('Range', 'end', r'^impl IndexRange for Range<usize>$'),

  'to_range': {'kind': 'fn', 'file': F, 'container': IR, 'name': 'to_range', 'props': ['C01'],
     'ensures': [
        ('range_fits', 'match range_of(this.lo(), this.hi(), len as int) { Some((a, b)) => r matches Ok(g) && g.start == a && g.end == b, None => r is Err }'),
        ('range_in_bounds', 'r matches Ok(g) ==> g.start <= g.end <= len'),
        ('range_error_kind', 'r matches Err(e) ==> e is ContentReadPastBoundary'),
     ],
     'rewrites': [
        {'where': 'sig', 'rule': 'R2', 'find': 'fn to_range(&self,', 'replace': 'fn to_range<T: IndexRange>(this: &T,'},
        {'rule': 'R2', 'find': 'self.', 'replace': 'this.', 'count': 2},
     ]},

  'read_xref_table_and_trailer': {'kind': 'fn', 'file': F, 'container': TRAIT, 'name': 'read_xref_table_and_trailer',
     'props': ['C02', 'C17', 'C01', 'C14'],
     # the representation flag `rel` is a ghost constant fixed before the loop from the code that precedes it; the loop body
     # must see that definition (and nothing else is gained: every modified variable is still described by the invariant only)
     'attrs': ['#[verifier::loop_isolation(false)]', '#[verifier::allow_complex_invariants]'],
     'ensures': [
        # C02 "the document trailer is that of the newest section"; C17 "all offsets ... relative to the header"
        ('newest_trailer', OK + 'this.startxref() matches Some(x) && tr == trailer_at(this.bytes(), start_offset + x)'),
        # the table is sized by the newest /Size, capped (C01/C14: object count cap)
        ('newest_size', OK + 'size_entry(tr) == Some(refs.size@ as u32) && 0 <= refs.size@ <= 1_000_000'),
        ('first_inside_file', OK + 'this.startxref() matches Some(x) && start_offset + x < this.bytes().len()'),
        # C02 merge order; C17 /Prev relative to the header; C14 a /Prev loop is an error
        ('chain_merged_newest_first', OK + 'this.startxref() matches Some(x) && walk_result(this.bytes(), start_offset as int, start_offset + x, refs.merged@)'),
     ],
     'loops': {
        1: {'invariant': [('inv_first_sections', 'refs.merged@ == gs(__secs@).take(__k as int) && refs.size@ == highest_id')]},
        2: {'invariant': WHILE_INV,
            'ensures': [('walk_ends_without_prev', 'prev_trailer is None')],
            'decreases': 'file.len() + 1 - seen@.len()'},
        3: {'invariant': [('inv_older_sections', 'refs.merged@ == concat_sections(file, visited) + gs(__secs@).take(__k as int) && refs.size@ == highest_id')]},
     },
     'rewrites': [
        {'where': 'sig', 'rule': 'R2', 'find': 'fn read_xref_table_and_trailer(&self,', 'replace': 'fn read_xref_table_and_trailer<B: Backend>(this: &B,'},
        {'rule': 'R3', 'find': '.ok_or_else(|| PdfError::MissingEntry {field: "Size".into(), typ: "XRefTable"})?',
         'replace': '.ok_or(PdfError::MissingEntry {typ: "XRefTable"})?'},
        {'rule': 'R10', 'regex': RX_DASSIGN, 'replace': G_DASSIGN, 'count': '*'},
        {'rule': 'R1', 'regex': RX_LEXER, 'replace': G_LEXER, 'count': 2},
        {'rule': 'R1', 'regex': RX_READ, 'replace': G_READ, 'count': 2},
        {'rule': 'R6', 'regex': RX_FOR, 'replace': G_FOR, 'count': 2},
        {'rule': 'R1', 'regex': RX_WHILE, 'replace': G_WHILE},
        {'rule': 'R2', 'find': 'let mut seen = vec![];', 'replace': G_SEEN},   # R2: element type ascribed (inference across the injected invariant)
        {'rule': 'R7', 'regex': r'seen\.contains\(&(.*?)\)', 'replace': r'hoist_contains(&seen, \1)'},
        {'rule': 'R1', 'regex': RX_PUSH, 'replace': G_PUSH},
        {'rule': 'R1', 'regex': RX_NEXT, 'replace': G_LOOP_END},
        {'rule': 'R1', 'regex': RX_END, 'replace': G_END},
        {'rule': 'R2', 'find': 'self.', 'replace': 'this.', 'count': 4},
     ]},

  'locate_start_offset': {'kind': 'fn', 'file': F, 'container': TRAIT, 'name': 'locate_start_offset', 'props': ['C17', 'C01'],
     'ensures': [
        # C17 "keeps the header within the first kilobyte": first occurrence of %PDF- lying inside the first min(1024, len) bytes
        ('header_first_in_window', 'r matches Ok(i) ==> is_header_at(this.bytes(), i as int) && i + 5 <= 1024 && i + 5 <= this.bytes().len() && forall|j: int| 0 <= j < i ==> !is_header_at(this.bytes(), j)'),
        ('header_missing_is_error', 'r is Err ==> forall|j: int| j + 5 <= 1024 ==> !is_header_at(this.bytes(), j)'),
        ('header_found_is_ok', '(exists|j: int| j + 5 <= 1024 && is_header_at(this.bytes(), j)) ==> r is Ok'),
     ],
     'rewrites': [
        {'where': 'sig', 'rule': 'R2', 'find': 'fn locate_start_offset(&self)', 'replace': 'fn locate_start_offset<B: Backend>(this: &B)'},
        {'rule': 'R7', 'find': 'const HEADER: &[u8] = b"%PDF-";', 'replace': ''},
        {'rule': 'R7', 'find': 'std::cmp::min(', 'replace': 'hoist_min('},
        {'rule': 'R7+R1', 'find': 'buf .windows(HEADER.len()) .position(|window| window == HEADER)', 'replace': G_HEADER + 'hoist_find_header(buf)'},
        {'rule': 'R3', 'find': '.ok_or_else(|| PdfError::Other{ msg: "file header is missing".to_string() })', 'replace': '.ok_or(PdfError::Other)'},
        {'rule': 'R2', 'find': 'self.', 'replace': 'this.', 'count': 2},
     ]},
  'locate_xref_offset': {'kind': 'fn', 'file': F, 'container': TRAIT, 'name': 'locate_xref_offset',
     # C02: "newest section" = the one the LAST startxref names; read_xref_table_and_trailer's `newest_trailer` (C02) starts from
     # `this.locate_xref_offset()`, whose trait contract is the one proved here
     'props': ['C02', 'C17', 'C01'],
     'ensures': [
        ('startxref_is_token_after_last_keyword', 'r matches Ok(x) ==> exists|p: int| last_startxref(this.bytes(), p) && usize_of(token_after(this.bytes(), p + 9)) == Some(x)'),
        ('no_keyword_is_error', 'no_startxref(this.bytes()) ==> r is Err'),
        ('well_formed_tail_is_ok', 'forall|p: int| last_startxref(this.bytes(), p) && has_token(this.bytes(), p + 9) && usize_of(token_after(this.bytes(), p + 9)) is Some ==> r is Ok'),
     ],
     'rewrites': [
        {'where': 'sig', 'rule': 'R2', 'find': 'fn locate_xref_offset(&self)', 'replace': 'fn locate_xref_offset<B: Backend>(this: &B)'},
        {'rule': 'R7', 'regex': r'b"startxref"', 'replace': 'hoist_kw_startxref()', 'count': '*'},
        {'rule': 'R3', 'regex': r'PdfError::NotFound\s*\{\s*word:[^{}]*\}', 'replace': 'PdfError::NotFound', 'count': '*'},
        {'rule': 'R2', 'regex': r'\bself\.', 'replace': 'this.', 'count': '*'},
        # ghost hints by SHAPE (names captured); every hint is an `if` over the fact it introduces, never an `assert` of it:
        # a body that searches differently (other start, other direction) fails the POSTCONDITION, not a proof step
        {'rule': 'R1', 'regex': r'let\s+mut\s+(\w+)\s*=\s*Lexer::new\(([^;]*)\);',
         'replace': r'let mut \1 = Lexer::new(\2);' '\n        ' r'proof { if \1.buf@ =~= this.bytes() {} lemma_kw_head_unique(); }'},
        {'rule': 'R1', 'regex': r'(\b(\w+)\.seek_substr(?:_back)?\([^;]*;)',
         'replace': r'\1' '\n        ' r'proof { if \2.buf@ =~= this.bytes() {}'
                    r' if last_startxref(this.bytes(), \2.pos - 9) { assert(!no_startxref(this.bytes())); } }'},
     ]},
 },
 'kani': {
   'modules': [{'file': F, 'code': 'kani_backend.rs'}],
   'harnesses': [
     {'name': 'to_range_complete', 'fn': 'to_range', 'file': F, 'props': ['C01'], 'kind': 'complete', 'covers': True,
      'contract': 'forall a, b, len: usize and each of `..`, `a..`, `..b`, `a..b`: start()/end() are the bounds of the syntax; to_range(len) == Ok(lo..hi) with defaults 0/len iff lo <= hi <= len, else Err(ContentReadPastBoundary)'},
     {'name': 'locate_start_offset_first_header', 'fn': 'locate_start_offset', 'file': F, 'props': ['C17', 'C01'], 'kind': 'bounded',
      'bound': 'buffers <= 12 bytes, unwind 14', 'covers': True,
      'contract': 'L0 contract of hoist_find_header on the real function: Ok(i) iff i is the first index of %PDF- in the buffer, Err iff none'},
   ],
   'jobs': 4, 'timeout': 1500,
 },
 # BOUNDED native stand-in (vlib/native.py) for the END-TO-END sentence of C02, which the proofs reach only per function (table merge,
 # chain walk, section readers, resolve_ref): generated multi-revision files through FileOptions::load + resolve / get / Option readers.
 # Reported under bounded_checks with its bound, never counted as proved. The same file serves units scan (c17_) and updater (c09_).
 'native': {'tests': [
    {'name': 'newest_mention_wins_end_to_end', 'code': 'e2e_docs_bounded.rs', 'place': 'pdf/tests/verif_e2e_c02.rs', 'filter': 'c02_',
     'fn': 'read_xref_table_and_trailer', 'props': ['C02', 'C18'], 'tier': 'quick', 'timeout': 900,
     'bound': 'generated files (hand-written bytes, no crate writer): base body of 6 objects (catalog, page tree, page, content stream, integer, string) + 0..=2 incremental updates of kind {Redef 3 4 5 6 | Free5 (free entry gen 1) + 6 | Reuse5 (gen 1, after Free5) | AddGap (new 9, 11; 7, 8, 10 undefined) | Pack (5, 6 inside a new object stream, xref-stream sections only)}: all 18 well-formed kind sequences; every section in one of 7 formats {classic maximal subsections | classic one subsection per entry | xref stream /W [1 2 1] maximal /Index runs | /W [1 3 2] one run per entry | /W [1 2 1] split | /W [1 3 2] maximal | /W [0 2 1] without type field (update sections with in-use uncompressed entries only)}; xref-stream base also with 5, 6 in an object stream and with /Index omitted; /Prev chained, own /ID per section: 5904 files, every number 0 ..= /Size + 2 of each. Hybrid-reference files (/XRefStm) are NOT in the universe (observation outside the statement of C02, units/xrefchain/findings/hybrid_xrefstm_ignored.md), encrypted files neither.',
     'contract': 'the file loads (FileOptions::uncached().load); for every object number n in 0 ..= /Size + 2: if the newest section that mentions n has it in use '
                 '(directly or in an object stream) resolve, the typed get and the Option reader of the fitting type give exactly the value written there '
                 '(streams: dictionary, raw and decoded data); if it frees n, or no section mentions n, or n >= /Size: resolve is a missing-object error and the '
                 'Option readers (dictionary, integer, string) give None for generation 0 and 1; trailer /Size and /ID are those of the newest section; one page, '
                 'its /Rotate that of the newest page object; nothing panics. The expectation is computed by the test (newest mention wins), not by the crate.'},
 ]},
}
