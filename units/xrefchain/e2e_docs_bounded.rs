// BOUNDED native stand-ins for the END-TO-END sentences of C02, C17 and C09 (a test on the real public API, never a proof).
// One file, registered three times (vlib/native.py places it in a scratch copy of the tree under check and runs `cargo test`):
//   units/xrefchain  filter `c02_`  -> pdf/tests/verif_e2e_c02.rs      units/scan  filter `c17_`  -> pdf/tests/verif_e2e_c17.rs
//   units/updater    filter `c09_`  -> pdf/tests/verif_e2e_c09.rs
// Test functions named `candidate_*` are NOT registered (they do not start with one of the three filters):
//   candidate_hybrid_xrefstm_objects_are_found   hybrid-reference files, an OBSERVATION outside the statement of C02
//                                                (units/xrefchain/findings/hybrid_xrefstm_ignored.md); fails on /repo
// Registered: c02_newest_mention_wins_end_to_end, c02_generator_selfcheck | c17_prefixed_file_reads_identically |
//   c09_generated_files_write_save_reload, c09_corpus_files_write_save_reload, c09_failed_save_is_retried,
//   c09_save_of_a_file_with_undefined_numbers   (repaired defect units/updater/findings/save_fails_on_undefined_entries.md)
//   c09_failed_create_leaves_the_document_savable (repaired defect units/updater/findings/failed_create_blocks_save.md)
//
// GENERATOR (hand-written bytes, no crate writer; `build`): a base body of 6 objects
//     1 catalog, 2 page tree, 3 page (/Rotate r), 4 content stream, 5 integer, 6 string
// followed by 0..=2 incremental updates, each of one KIND
//     Redef  : 3 (new /Rotate), 4 (new stream data), 5 (new integer), 6 (new string with CR, parentheses, backslash) redefined
//     Free5  : 5 freed (free entry, generation 1), 6 redefined
//     Reuse5 : (after Free5) number 5 in use again with generation 1 and a new value
//     AddGap : new numbers 9 and 11 (7, 8, 10 stay undefined gaps), 6 redefined
//     Pack   : (cross-reference stream sections only) 5 and 6 redefined INSIDE a new object stream (type 2 entries)
// every section (base and updates) written in one of the FORMATS
//     classic table + trailer, maximal subsections | classic, every entry its own subsection |
//     cross-reference stream /W [1 2 1] one /Index run per maximal block | /W [1 3 2] every entry its own /Index run |
//     /W [1 2 1] split | /W [1 3 2] maximal blocks | /W [0 2 1] (no type field; update sections with in-use, uncompressed entries only)
//     (the base section in xref-stream form optionally with 5, 6 in an object stream, or with /Index omitted)
// chained with /Prev; /Size = highest number mentioned so far + 1; every section has its own /ID so the trailer can be told apart.
// The EXPECTED value of every object number is computed by the test itself (`Built::expect`): sections oldest to newest, the newest
// section that mentions a number wins; a free entry -> missing; never mentioned or >= /Size -> missing.
use pdf::file::{FileOptions, NoCache, NoLog, ScanItem, Storage, Trailer};
use pdf::object::*;
use pdf::primitive::{Dictionary, PdfString, Primitive};
use std::collections::BTreeMap;
use std::panic::{catch_unwind, AssertUnwindSafe};
use std::sync::Mutex;

/// the tests of this file silence the panic hook while they catch panics: one at a time
static ONE_AT_A_TIME: Mutex<()> = Mutex::new(());

// ------------------------------------------------------------------------------------------------ value model + own writer
#[derive(Clone, Debug, PartialEq)]
enum V {
    Int(i32),
    Str(Vec<u8>),
    Name(String),
    Arr(Vec<V>),
    Dict(Vec<(String, V)>),
    Ref(u64, u64),
    /// dictionary entries (without /Length), raw bytes as stored, decoded bytes
    Stream(Vec<(String, V)>, Vec<u8>, Vec<u8>),
}
fn hex(b: &[u8]) -> String { b.iter().map(|c| format!("{:02x}", c)).collect() }
fn d(entries: &[(&str, V)]) -> V { V::Dict(entries.iter().map(|(k, v)| (k.to_string(), v.clone())).collect()) }
fn nm(s: &str) -> V { V::Name(s.to_string()) }

impl V {
    fn put(&self, out: &mut Vec<u8>) {
        match self {
            V::Int(i) => out.extend_from_slice(i.to_string().as_bytes()),
            V::Str(s) => {
                if s.iter().any(|&c| c >= 0x80 || c == 0) {
                    out.push(b'<'); out.extend_from_slice(hex(s).to_uppercase().as_bytes()); out.push(b'>');
                } else {
                    out.push(b'(');
                    for &c in s {
                        match c { b'(' => out.extend_from_slice(b"\\("), b')' => out.extend_from_slice(b"\\)"), b'\\' => out.extend_from_slice(b"\\\\"),
                                  b'\r' => out.extend_from_slice(b"\\r"), b'\n' => out.extend_from_slice(b"\\n"), c => out.push(c) }
                    }
                    out.push(b')');
                }
            }
            V::Name(n) => {
                out.push(b'/');
                for &c in n.as_bytes() {
                    if c <= 0x20 || c >= 0x7f || b"#()<>[]{}/%".contains(&c) { out.extend_from_slice(format!("#{:02X}", c).as_bytes()); } else { out.push(c); }
                }
            }
            V::Arr(a) => { out.push(b'['); for (i, x) in a.iter().enumerate() { if i > 0 { out.push(b' '); } x.put(out); } out.push(b']'); }
            V::Dict(e) => { out.extend_from_slice(b"<<"); for (k, v) in e { out.push(b' '); nm(k).put(out); out.push(b' '); v.put(out); } out.extend_from_slice(b" >>"); }
            V::Ref(n, g) => out.extend_from_slice(format!("{} {} R", n, g).as_bytes()),
            V::Stream(e, raw, _) => {
                let mut e = e.clone();
                e.push(("Length".to_string(), V::Int(raw.len() as i32)));
                V::Dict(e).put(out);
                out.extend_from_slice(b"\nstream\n"); out.extend_from_slice(raw); out.extend_from_slice(b"\nendstream");
            }
        }
    }
    /// canonical text; `show` below produces the same text from what the crate returns
    fn text(&self) -> String {
        match self {
            V::Int(i) => format!("i:{}", i),
            V::Str(s) => format!("s:{}", hex(s)),
            V::Name(n) => format!("n:{}", n),
            V::Arr(a) => format!("[{}]", a.iter().map(|x| x.text()).collect::<Vec<_>>().join(",")),
            V::Dict(e) => { let mut v: Vec<String> = e.iter().map(|(k, v)| format!("{}={}", k, v.text())).collect(); v.sort(); format!("{{{}}}", v.join(";")) }
            V::Ref(n, g) => format!("r:{}.{}", n, g),
            V::Stream(e, raw, dec) => format!("stream{} len={} raw={} dec={}", V::Dict(e.clone()).text(), raw.len(), hex(raw), hex(dec)),
        }
    }
}

/// canonical text of a primitive read through the public API (stream: dictionary without /Length, /Length, raw bytes, decoded bytes)
fn show(p: &Primitive, r: &impl Resolve) -> String {
    match p {
        Primitive::Null => "null".into(),
        Primitive::Integer(i) => format!("i:{}", i),
        Primitive::Number(f) => format!("f:{}", f),
        Primitive::Boolean(b) => format!("b:{}", b),
        Primitive::String(s) => format!("s:{}", hex(s.as_bytes())),
        Primitive::Name(n) => format!("n:{}", n.as_str()),
        Primitive::Array(a) => format!("[{}]", a.iter().map(|x| show(x, r)).collect::<Vec<_>>().join(",")),
        Primitive::Dictionary(e) => show_dict(e, r, false),
        Primitive::Reference(x) => format!("r:{}.{}", x.id, x.gen),
        Primitive::Stream(s) => {
            let len = match s.info.get("Length") { Some(Primitive::Integer(n)) => n.to_string(), Some(Primitive::Reference(x)) => match r.resolve(*x) { Ok(Primitive::Integer(n)) => n.to_string(), o => format!("?{:?}", o.is_ok()) }, o => format!("?{:?}", o.is_some()) };
            let raw = match s.raw_data(r) { Ok(b) => hex(&b), Err(_) => "ERR".into() };
            let dec = match Stream::<()>::from_stream(s.clone(), r).and_then(|st| st.data(r)) { Ok(b) => hex(&b), Err(_) => "ERR".into() };
            format!("stream{} len={} raw={} dec={}", show_dict(&s.info, r, true), len, raw, dec)
        }
    }
}
fn show_dict(e: &Dictionary, r: &impl Resolve, skip_length: bool) -> String {
    let mut v: Vec<String> = e.iter().filter(|(k, _)| !(skip_length && k.as_str() == "Length")).map(|(k, v)| format!("{}={}", k.as_str(), show(v, r))).collect();
    v.sort();
    format!("{{{}}}", v.join(";"))
}

// ------------------------------------------------------------------------------------------------ sections and the file builder
#[derive(Clone, Debug)]
enum E { Use { gen: u64, v: V, packed: bool }, Free { gen: u64 } }
#[derive(Clone, Copy, Debug, PartialEq)]
enum Fmt { Classic, XStm(usize, usize, usize) }
#[derive(Clone, Debug)]
struct Section { fmt: Fmt, split: bool, entries: Vec<(u64, E)>, hybrid: bool, omit_index: bool }

#[derive(Clone, Debug, PartialEq)]
enum X { Val(u64, V), Opaque, Missing }

struct Built { bytes: Vec<u8>, expect: BTreeMap<u64, X>, size: u64, id0: Vec<u8>, what: String, rotate: i32 }
impl Built {
    /// some number below /Size is mentioned by no section (an undefined entry of the table)
    fn has_gap(&self) -> bool { (0..self.size).any(|n| !self.expect.contains_key(&n)) }
}

fn be(n: u64, w: usize) -> Vec<u8> { n.to_be_bytes()[8 - w..].to_vec() }
fn runs(nums: &[u64], split: bool) -> Vec<(u64, u64)> {
    let mut out: Vec<(u64, u64)> = Vec::new();
    for &n in nums {
        match out.last_mut() { Some((f, c)) if !split && *f + *c == n => *c += 1, _ => out.push((n, 1)) }
    }
    out
}
fn obj(out: &mut Vec<u8>, n: u64, g: u64, v: &V) -> usize {
    let at = out.len();
    out.extend_from_slice(format!("{} {} obj\n", n, g).as_bytes());
    v.put(out);
    out.extend_from_slice(b"\nendobj\n");
    at
}
/// an object stream holding `members`
fn objstm(members: &[(u64, V)]) -> V {
    let mut head = String::new();
    let mut body = Vec::new();
    for (n, v) in members { head.push_str(&format!("{} {} ", n, body.len())); v.put(&mut body); body.push(b'\n'); }
    let mut raw = head.clone().into_bytes();
    raw.extend_from_slice(&body);
    V::Stream(vec![("Type".into(), nm("ObjStm")), ("N".into(), V::Int(members.len() as i32)), ("First".into(), V::Int(head.len() as i32))], raw.clone(), raw)
}

/// rows: (number, type, field 2, field 3)
fn xref_stream_obj(num: u64, rows: &[(u64, u64, u64, u64)], w: (usize, usize, usize), split: bool, omit_index: bool, extra: &[(String, V)]) -> V {
    let mut data = Vec::new();
    for &(_, t, a, b) in rows {
        data.extend(be(t, w.0)); data.extend(be(a, w.1)); data.extend(be(if w.2 == 1 { b.min(255) } else { b }, w.2));
    }
    let nums: Vec<u64> = rows.iter().map(|r| r.0).collect();
    let mut e: Vec<(String, V)> = vec![("Type".into(), nm("XRef")), ("W".into(), V::Arr(vec![V::Int(w.0 as i32), V::Int(w.1 as i32), V::Int(w.2 as i32)]))];
    let rr = runs(&nums, split);
    if !(omit_index && rr.len() == 1 && rr[0].0 == 0) {
        e.push(("Index".into(), V::Arr(rr.iter().flat_map(|&(f, c)| vec![V::Int(f as i32), V::Int(c as i32)]).collect())));
    }
    e.extend(extra.iter().cloned());
    let _ = num;
    V::Stream(e, data.clone(), data)
}

fn build(sections: &[Section]) -> Built {
    let mut out: Vec<u8> = b"%PDF-1.7\n%\xe2\xe3\xcf\xd3\n".to_vec();
    let mut expect: BTreeMap<u64, X> = BTreeMap::new();
    let mut next_aux = sections.iter().flat_map(|s| s.entries.iter().map(|e| e.0)).max().unwrap_or(0) + 1;
    let mut top = 0u64;      // highest number mentioned so far
    let mut prev: Option<usize> = None;
    let mut id0 = Vec::new();
    let mut size = 0;
    let mut rotate = 0;
    let mut what = Vec::new();
    for (k, s) in sections.iter().enumerate() {
        // rows of this section's cross-reference data: (number, type, a, b)
        let mut rows: Vec<(u64, u64, u64, u64)> = Vec::new();
        let mut hidden: Vec<(u64, u64, u64, u64)> = Vec::new();   // hybrid: rows that only the /XRefStm stream carries
        if k == 0 { rows.push((0, 0, 0, 65535)); expect.insert(0, X::Missing); }
        let packed: Vec<(u64, V)> = s.entries.iter().filter_map(|(n, e)| match e { E::Use { v, packed: true, .. } => Some((*n, v.clone())), _ => None }).collect();
        let xstm = matches!(s.fmt, Fmt::XStm(..));
        assert!(packed.is_empty() || xstm || s.hybrid, "packed objects need a cross-reference stream");
        let stm_num = if packed.is_empty() { None } else { next_aux += 1; Some(next_aux - 1) };
        for (n, e) in &s.entries {
            top = top.max(*n);
            match e {
                E::Use { gen, v, packed: false } => {
                    let at = obj(&mut out, *n, *gen, v);
                    rows.push((*n, 1, at as u64, *gen));
                    expect.insert(*n, X::Val(*gen, v.clone()));
                    if *n == 3 { if let V::Dict(es) = v { for (key, val) in es { if key == "Rotate" { if let V::Int(r) = val { rotate = *r; } } } } }
                }
                E::Use { v, .. } => {
                    let idx = packed.iter().position(|(m, _)| m == n).unwrap() as u64;
                    let row = (*n, 2, stm_num.unwrap(), idx);
                    if s.hybrid { hidden.push(row); rows.push((*n, 0, 0, 0)); } else { rows.push(row); }
                    expect.insert(*n, X::Val(0, v.clone()));
                }
                E::Free { gen } => { rows.push((*n, 0, 0, *gen)); expect.insert(*n, X::Missing); }
            }
        }
        if let Some(sn) = stm_num {
            let at = obj(&mut out, sn, 0, &objstm(&packed));
            top = top.max(sn);
            if s.hybrid { hidden.push((sn, 1, at as u64, 0)); rows.push((sn, 0, 0, 0)); } else { rows.push((sn, 1, at as u64, 0)); }
            expect.insert(sn, X::Opaque);
        }
        id0 = format!("rev{}", k).into_bytes();
        let id = V::Arr(vec![V::Str(id0.clone()), V::Str(b"same".to_vec())]);
        match s.fmt {
            Fmt::XStm(a, b, c) => {
                let xn = next_aux; next_aux += 1; top = top.max(xn);
                size = top + 1;
                let at = out.len();
                rows.push((xn, 1, at as u64, 0));
                rows.sort();
                let mut extra: Vec<(String, V)> = vec![("Size".into(), V::Int(size as i32)), ("Root".into(), V::Ref(1, 0)), ("ID".into(), id)];
                if let Some(p) = prev { extra.push(("Prev".into(), V::Int(p as i32))); }
                obj(&mut out, xn, 0, &xref_stream_obj(xn, &rows, (a, b, c), s.split, s.omit_index, &extra));
                expect.insert(xn, X::Opaque);
                out.extend_from_slice(format!("startxref\n{}\n%%EOF\n", at).as_bytes());
                prev = Some(at);
            }
            Fmt::Classic => {
                let mut stm_at = None;
                if s.hybrid {
                    let xn = next_aux; next_aux += 1; top = top.max(xn);
                    let at = out.len();
                    hidden.push((xn, 1, at as u64, 0));
                    hidden.sort();
                    rows.push((xn, 0, 0, 0));
                    let extra: Vec<(String, V)> = vec![("Size".into(), V::Int(top as i32 + 1))];
                    obj(&mut out, xn, 0, &xref_stream_obj(xn, &hidden, (1, 2, 1), false, false, &extra));
                    expect.insert(xn, X::Opaque);
                    stm_at = Some(at);
                }
                size = top + 1;
                rows.sort();
                let at = out.len();
                out.extend_from_slice(b"xref\n");
                let nums: Vec<u64> = rows.iter().map(|r| r.0).collect();
                let mut i = 0;
                for (f, c) in runs(&nums, s.split) {
                    out.extend_from_slice(format!("{} {}\n", f, c).as_bytes());
                    for _ in 0..c {
                        let (_, t, a, b) = rows[i]; i += 1;
                        out.extend_from_slice(format!("{:010} {:05} {} \n", a, b, if t == 0 { 'f' } else { 'n' }).as_bytes());
                    }
                }
                let mut tr: Vec<(String, V)> = vec![("Size".into(), V::Int(size as i32)), ("Root".into(), V::Ref(1, 0)), ("ID".into(), id)];
                if let Some(p) = prev { tr.push(("Prev".into(), V::Int(p as i32))); }
                if let Some(p) = stm_at { tr.push(("XRefStm".into(), V::Int(p as i32))); }
                out.extend_from_slice(b"trailer\n");
                V::Dict(tr).put(&mut out);
                out.extend_from_slice(format!("\nstartxref\n{}\n%%EOF\n", at).as_bytes());
                prev = Some(at);
            }
        }
        what.push(format!("{:?}{}{}{}[{}]", s.fmt, if s.split { "/split" } else { "" }, if s.hybrid { "/hybrid" } else { "" }, if s.omit_index { "/noindex" } else { "" },
            s.entries.iter().map(|(n, e)| match e { E::Use { gen, packed, .. } => format!("{}.{}{}", n, gen, if *packed { "p" } else { "" }), E::Free { gen } => format!("{}f{}", n, gen) }).collect::<Vec<_>>().join(" ")));
    }
    Built { bytes: out, expect, size, id0, what: what.join(" + "), rotate }
}

// ------------------------------------------------------------------------------------------------ the universe
#[derive(Clone, Copy, Debug, PartialEq)]
enum Kind { Redef, Free5, Reuse5, AddGap, Pack }

/// the last one (/W [0 2 1]: no type field, every entry is of type 1, ISO 32000-1 table 18) only for update sections whose entries are all
/// in use and not compressed (Redef, Reuse5, AddGap)
const FORMATS: [(Fmt, bool); 7] = [(Fmt::Classic, false), (Fmt::Classic, true), (Fmt::XStm(1, 2, 1), false), (Fmt::XStm(1, 3, 2), true), (Fmt::XStm(1, 2, 1), true), (Fmt::XStm(1, 3, 2), false),
    (Fmt::XStm(0, 2, 1), false)];

fn content(k: usize) -> V { let s = format!("q {} 0 0 1 0 0 cm Q\n", k + 1).into_bytes(); V::Stream(vec![], s.clone(), s) }
fn page(rot: i32) -> V {
    d(&[("Type", nm("Page")), ("Parent", V::Ref(2, 0)), ("MediaBox", V::Arr(vec![V::Int(0), V::Int(0), V::Int(200), V::Int(100 + rot)])), ("Contents", V::Ref(4, 0)), ("Rotate", V::Int(rot))])
}
fn string_of(k: usize) -> V { V::Str(format!("rev {} (a\rb) \\ )(", k).into_bytes()) }
fn base_entries(packed: bool) -> Vec<(u64, E)> {
    let u = |v: V, p: bool| E::Use { gen: 0, v, packed: p };
    vec![
        (1, u(d(&[("Type", nm("Catalog")), ("Pages", V::Ref(2, 0))]), false)),
        (2, u(d(&[("Type", nm("Pages")), ("Kids", V::Arr(vec![V::Ref(3, 0)])), ("Count", V::Int(1))]), false)),
        (3, u(page(0), false)),
        (4, u(content(0), false)),
        (5, u(V::Int(5), packed)),
        (6, u(string_of(0), packed)),
    ]
}
fn update_entries(kind: Kind, k: usize) -> Vec<(u64, E)> {
    let u = |gen: u64, v: V, p: bool| E::Use { gen, v, packed: p };
    match kind {
        Kind::Redef => vec![(3, u(0, page(90 * k as i32), false)), (4, u(0, content(k), false)), (5, u(0, V::Int(100 * k as i32 + 5), false)), (6, u(0, string_of(k), false))],
        Kind::Free5 => vec![(5, E::Free { gen: 1 }), (6, u(0, string_of(k), false))],
        Kind::Reuse5 => vec![(5, u(1, d(&[("Reused", V::Int(k as i32)), ("N", nm("A#B c"))]), false))],
        Kind::AddGap => vec![(6, u(0, string_of(k), false)), (9, u(0, V::Arr(vec![V::Int(9), V::Ref(5, 0)]), false)), (11, u(0, V::Str(vec![0xfe, 0xff, 0, 0x41]), false))],
        Kind::Pack => vec![(5, u(0, V::Int(1000 + k as i32), true)), (6, u(0, string_of(10 + k), true))],
    }
}
/// every sequence of 0..=2 update kinds that keeps the file well-formed
fn kind_sequences() -> Vec<Vec<Kind>> {
    let firsts = [Kind::Redef, Kind::Free5, Kind::AddGap, Kind::Pack];
    let mut v: Vec<Vec<Kind>> = vec![vec![]];
    for &a in &firsts {
        v.push(vec![a]);
        for &b in &[Kind::Redef, Kind::Free5, Kind::Reuse5, Kind::AddGap, Kind::Pack] {
            let ok = match b {
                Kind::Reuse5 => a == Kind::Free5,
                Kind::Free5 => a != Kind::Free5,
                Kind::Pack | Kind::Redef => a != Kind::Free5,   // 5 must still be generation 0 to be redefined at generation 0
                Kind::AddGap => a != Kind::AddGap,
            };
            if ok { v.push(vec![a, b]); }
        }
    }
    v
}
/// all files of the universe; `formats` restricts the formats tried for each section
fn universe(formats: &[(Fmt, bool)], f: &mut dyn FnMut(&Built)) -> usize {
    let mut n = 0;
    for seq in kind_sequences() {
        let mut choice = vec![0usize; seq.len() + 1];
        'outer: loop {
            let fm: Vec<(Fmt, bool)> = choice.iter().map(|&i| formats[i]).collect();
            let valid = seq.iter().enumerate().all(|(i, k)| *k != Kind::Pack || matches!(fm[i + 1].0, Fmt::XStm(..)));
            let valid = valid && !matches!(fm[0].0, Fmt::XStm(0, ..)) && seq.iter().enumerate().all(|(i, k)| !matches!(fm[i + 1].0, Fmt::XStm(0, ..)) || matches!(k, Kind::Redef | Kind::Reuse5 | Kind::AddGap));
            if valid {
                let base_variants: &[(bool, bool)] = if matches!(fm[0].0, Fmt::XStm(..)) { &[(false, false), (true, false), (false, true)] } else { &[(false, false)] };
                for &(base_packed, omit_index) in base_variants {
                    if omit_index && fm[0].1 { continue; }
                    let mut secs = vec![Section { fmt: fm[0].0, split: fm[0].1, entries: base_entries(base_packed), hybrid: false, omit_index }];
                    for (i, k) in seq.iter().enumerate() {
                        secs.push(Section { fmt: fm[i + 1].0, split: fm[i + 1].1, entries: update_entries(*k, i + 1), hybrid: false, omit_index: false });
                    }
                    let b = build(&secs);
                    f(&b);
                    n += 1;
                }
            }
            let mut i = 0;
            loop {
                if i == choice.len() { break 'outer; }
                choice[i] += 1;
                if choice[i] < formats.len() { break; }
                choice[i] = 0; i += 1;
            }
        }
    }
    n
}

// ------------------------------------------------------------------------------------------------ reading through the public API
struct Fails { n: usize, shown: Vec<String> }
impl Fails {
    fn new() -> Fails { Fails { n: 0, shown: Vec::new() } }
    fn push(&mut self, s: String) {
        self.n += 1;
        if self.shown.len() < 6 { let mut t = s.replace('\n', " "); if t.len() > 700 { let mut c = 700; while !t.is_char_boundary(c) { c -= 1; } t.truncate(c); t.push_str(" ..."); } self.shown.push(t); }
    }
    fn finish(self, what: &str, checked: usize) {
        if self.n > 0 { panic!("{}: {} failing checks over {} inputs; first ones:\n  {}", what, self.n, checked, self.shown.join("\n  ")); }
        println!("{}: {} inputs checked", what, checked);
    }
}
fn esc(b: &[u8]) -> String { b.iter().map(|&c| std::ascii::escape_default(c).to_string()).collect() }
fn quiet<T>(f: impl FnOnce() -> T) -> Result<T, String> {
    catch_unwind(AssertUnwindSafe(f)).map_err(|e| if let Some(s) = e.downcast_ref::<&str>() { s.to_string() } else if let Some(s) = e.downcast_ref::<String>() { s.clone() } else { "(panic)".into() })
}

/// what the public API says about object number `id` (generation `gen`): the canonical text, or MISSING, or ERR(..)
fn read_one(r: &impl Resolve, id: u64, gen: u64) -> String {
    match quiet(|| r.resolve(PlainRef { id, gen })) {
        Err(p) => format!("PANIC({})", p),
        Ok(Ok(p)) => show(&p, r),
        Ok(Err(e)) => if e.is_missing_object() { "MISSING".into() } else { format!("ERR({})", e) },
    }
}
fn snapshot(r: &impl Resolve, upto: u64, gens: &BTreeMap<u64, u64>) -> Vec<String> {
    (0..upto).map(|id| read_one(r, id, *gens.get(&id).unwrap_or(&0))).collect()
}
fn gens_of(b: &Built) -> BTreeMap<u64, u64> { b.expect.iter().filter_map(|(n, x)| if let X::Val(g, _) = x { Some((*n, *g)) } else { None }).collect() }

/// the Option reader of the type that fits the expected value (None expected: the dictionary, integer and string readers)
fn option_read(v: Option<&V>, r: &impl Resolve, at: PlainRef) -> String {
    fn one<T: Object>(r: &impl Resolve, at: PlainRef, f: impl Fn(&T) -> String) -> String {
        match quiet(|| Option::<T>::from_primitive(Primitive::Reference(at), r)) {
            Ok(Ok(Some(x))) => format!("Some({})", f(&x)), Ok(Ok(None)) => "None".into(), Ok(Err(e)) => format!("Err({})", e), Err(p) => format!("PANIC({})", p),
        }
    }
    match v {
        Some(V::Int(_)) => one::<i32>(r, at, |x| format!("i:{}", x)),
        Some(V::Str(_)) => one::<PdfString>(r, at, |x| format!("s:{}", hex(x.as_bytes()))),
        Some(V::Dict(_)) => one::<Dictionary>(r, at, |x| show_dict(x, r, false)),
        Some(V::Arr(_)) => one::<Vec<Primitive>>(r, at, |x| show(&Primitive::Array(x.clone()), r)),
        Some(V::Stream(..)) => one::<pdf::primitive::PdfStream>(r, at, |x| show(&Primitive::Stream(x.clone()), r)),
        Some(_) => one::<Primitive>(r, at, |x| show(x, r)),
        None => format!("{} {} {}", one::<Dictionary>(r, at, |_| "dict".into()), one::<i32>(r, at, |x| format!("i:{}", x)), one::<PdfString>(r, at, |_| "string".into())),
    }
}

/// C02: every object number 0 .. /Size + 2 against the expectation computed by the test
fn check_c02(b: &Built, fails: &mut Fails) {
    let file = match quiet(|| FileOptions::uncached().load(b.bytes.clone())) {
        Ok(Ok(f)) => f,
        Ok(Err(e)) => { fails.push(format!("{}: does not load: {}   FILE \"{}\"", b.what, e, esc(&b.bytes))); return; }
        Err(p) => { fails.push(format!("{}: load PANICKED: {}   FILE \"{}\"", b.what, p, esc(&b.bytes))); return; }
    };
    let r = file.resolver();
    let mut bad = Vec::new();
    for id in 0..b.size + 3 {
        let x = b.expect.get(&id).cloned().unwrap_or(X::Missing);
        let gen = if let X::Val(g, _) = &x { *g } else { 0 };
        let got = read_one(&r, id, gen);
        match &x {
            X::Val(_, v) => {
                if got != v.text() { bad.push(format!("object {} {}: resolve gives {} expected {}", id, gen, got, v.text())); }
                // typed `get` and the Option reader see the same value
                match quiet(|| r.get(Ref::<Primitive>::new(PlainRef { id, gen }))) {
                    Ok(Ok(rc)) => { let t = show(&rc, &r); if t != v.text() { bad.push(format!("object {} {}: get gives {} expected {}", id, gen, t, v.text())); } }
                    Ok(Err(e)) => bad.push(format!("object {} {}: get is Err({})", id, gen, e)),
                    Err(p) => bad.push(format!("object {} {}: get PANICKED {}", id, gen, p)),
                }
                let t = option_read(Some(v), &r, PlainRef { id, gen });
                if t != format!("Some({})", v.text()) { bad.push(format!("object {} {}: Option reader gives {} expected Some({})", id, gen, t, v.text())); }
            }
            X::Opaque => if got == "MISSING" || got.starts_with("ERR") || got.starts_with("PANIC") { bad.push(format!("object {} (cross-reference / object stream): {}", id, got)); },
            X::Missing => {
                if got != "MISSING" { bad.push(format!("object {} is free / undefined / beyond /Size {}: resolve gives {} expected a missing-object error", id, b.size, got)); }
                for g in [0u64, 1] {
                    let t = option_read(None, &r, PlainRef { id, gen: g });
                    if t != "None None None" { bad.push(format!("object {} {} is free / undefined / beyond /Size {}: Option readers give {} expected None", id, g, b.size, t)); }
                }
            }
        }
    }
    // the document trailer is that of the newest section
    if file.trailer.size as u64 != b.size { bad.push(format!("trailer /Size {} expected {}", file.trailer.size, b.size)); }
    if file.trailer.id.get(0).map(|s| s.as_bytes().to_vec()) != Some(b.id0.clone()) { bad.push(format!("trailer /ID[0] {:?} expected {}", file.trailer.id.get(0), esc(&b.id0))); }
    // the page sees the newest page object and content stream
    if file.num_pages() != 1 { bad.push(format!("num_pages {}", file.num_pages())); }
    match quiet(|| file.get_page(0)) {
        Ok(Ok(p)) => if p.rotate != b.rotate { bad.push(format!("page 0 /Rotate {} expected {}", p.rotate, b.rotate)); },
        Ok(Err(e)) => bad.push(format!("get_page(0) is Err({})", e)),
        Err(p) => bad.push(format!("get_page(0) PANICKED {}", p)),
    }
    if !bad.is_empty() { fails.push(format!("{}: {}   FILE \"{}\"", b.what, bad.join(" | "), esc(&b.bytes))); }
}

#[test]
fn c02_newest_mention_wins_end_to_end() {
    let _guard = ONE_AT_A_TIME.lock().unwrap_or_else(|e| e.into_inner());
    std::panic::set_hook(Box::new(|_| {}));
    let mut fails = Fails::new();
    let n = universe(&FORMATS, &mut |b| check_c02(b, &mut fails));
    let _ = std::panic::take_hook();
    assert!(n > 3000 || fails.n > 0, "only {} files", n);
    fails.finish("C02 bounded end to end: newest mention wins", n);
}

/// the generator is only worth something if the files are what they claim: sanity of the expectation itself on one fixed file
#[test]
fn c02_generator_selfcheck() {
    let secs = vec![
        Section { fmt: Fmt::Classic, split: false, entries: base_entries(false), hybrid: false, omit_index: false },
        Section { fmt: Fmt::XStm(1, 2, 1), split: true, entries: update_entries(Kind::Free5, 1), hybrid: false, omit_index: false },
        Section { fmt: Fmt::Classic, split: true, entries: update_entries(Kind::Reuse5, 2), hybrid: false, omit_index: false },
    ];
    let b = build(&secs);
    assert_eq!(b.expect.get(&5), Some(&X::Val(1, d(&[("Reused", V::Int(2)), ("N", nm("A#B c"))]))));
    assert_eq!(b.expect.get(&6), Some(&X::Val(0, string_of(1))));
    assert_eq!(b.size, 8);
    let text = String::from_utf8_lossy(&b.bytes).into_owned();
    assert!(text.contains("5 1 obj\n<< /Reused 2 /N /A#23B#20c >>\nendobj"), "{}", text);
    assert!(text.contains("/Prev "), "{}", text);
    assert_eq!(text.matches("startxref").count(), 3);
    assert!(kind_sequences().len() == 18, "{}", kind_sequences().len());
}

// ------------------------------------------------------------------------------------------------ C17
fn prefixes() -> Vec<(&'static str, Vec<u8>)> {
    let mut comments = Vec::new();
    while comments.len() < 1000 { comments.extend_from_slice(b"%%%%%%%% a comment line before the header %%%%%%\n"); }
    comments.truncate(999); comments.push(b'\n');
    let mut full = Vec::new();
    while full.len() < 1019 { full.extend_from_slice(b"\x00\xff%PDF 1.4 no dash, %PD F-, obj endobj xref startxref 7\r\n"); }
    full.truncate(1019);
    vec![
        ("empty", vec![]),
        ("LF", b"\n".to_vec()),
        ("garbage CR LF", b"garbage\r\n".to_vec()),
        ("one byte", b"x".to_vec()),
        ("1000 bytes of comments", comments),
        ("%PDF without dash", b"%PDF 1.7 %PDF\n1 0 obj %PD\nF-".to_vec()),
        // the header marker still ends inside the first kilobyte (units/xrefchain: i + 5 <= 1024)
        ("1019 bytes", full),
    ]
}

struct Loaded { objects: Vec<String>, pages: u32, page0: String, content: String, trailer: String, scan: Vec<String> }
fn load_all(bytes: &[u8], upto: u64, gens: &BTreeMap<u64, u64>) -> Result<Loaded, String> { load_some(bytes, upto, gens, true) }
fn load_some(bytes: &[u8], upto: u64, gens: &BTreeMap<u64, u64>, with_scan: bool) -> Result<Loaded, String> {
    let file = match quiet(|| FileOptions::uncached().load(bytes.to_vec())) { Ok(Ok(f)) => f, Ok(Err(e)) => return Err(format!("does not load: {}", e)), Err(p) => return Err(format!("load PANICKED: {}", p)) };
    let r = file.resolver();
    let objects = snapshot(&r, upto, gens);
    let (page0, content) = match quiet(|| file.get_page(0)) {
        Ok(Ok(p)) => (format!("rotate {} media {:?} ref {:?}", p.rotate, p.media_box, p.get_ref().get_inner()),
                      match &p.contents { Some(c) => match quiet(|| c.operations(&r)) { Ok(Ok(ops)) => format!("{:?}", ops), Ok(Err(e)) => format!("ERR({})", e), Err(p) => format!("PANIC({})", p) }, None => "none".into() }),
        Ok(Err(e)) => (format!("ERR({})", e), String::new()),
        Err(p) => (format!("PANIC({})", p), String::new()),
    };
    let t = &file.trailer;
    let trailer = format!("size {} prev {:?} root {:?} id {:?} info {:?} encrypt {}", t.size, t.prev_trailer_pos, t.root.get_ref().get_inner(), t.id.iter().map(|s| hex(s.as_bytes())).collect::<Vec<_>>(), t.info_dict.is_some(), t.encrypt_dict.is_some());
    let scan = if !with_scan { Vec::new() } else { match quiet(|| file.scan().map(|it| match it {
        Ok(ScanItem::Object(rf, p)) => format!("{} {} obj {}", rf.id, rf.gen, show(&p, &r)),
        Ok(ScanItem::Trailer(dd)) => format!("trailer {}", show_dict(&dd, &r, false)),
        Err(_) => "ERR".to_string(),
    }).take(200).collect::<Vec<_>>()) { Ok(v) => v, Err(p) => vec![format!("PANIC({})", p)] } };
    Ok(Loaded { objects, pages: file.num_pages(), page0, content, trailer, scan })
}
fn diff_loaded(a: &Loaded, b: &Loaded) -> Vec<String> {
    let mut v = Vec::new();
    for (i, (x, y)) in a.objects.iter().zip(&b.objects).enumerate() { if x != y { v.push(format!("object {}: {} | with prefix {}", i, x, y)); } }
    if a.pages != b.pages { v.push(format!("page count {} | {}", a.pages, b.pages)); }
    if a.page0 != b.page0 { v.push(format!("page 0: {} | {}", a.page0, b.page0)); }
    if a.content != b.content { v.push(format!("page 0 operations: {} | {}", a.content, b.content)); }
    if a.trailer != b.trailer { v.push(format!("trailer: {} | {}", a.trailer, b.trailer)); }
    if a.scan != b.scan { v.push(format!("scan: {} items {:?} | {} items {:?}", a.scan.len(), a.scan.iter().find(|x| !b.scan.contains(x)), b.scan.len(), b.scan.iter().find(|x| !a.scan.contains(x)))); }
    v
}

type St = Storage<Vec<u8>, NoCache, NoCache, NoLog>;
fn open_storage(bytes: Vec<u8>) -> Result<(St, Trailer), String> {
    let mut st: St = Storage::with_cache(bytes, ParseOptions::strict(), NoCache, NoCache, NoLog).map_err(|e| format!("with_cache: {}", e))?;
    let dict = st.load_storage_and_trailer().map_err(|e| format!("load_storage_and_trailer: {}", e))?;
    let trailer = Trailer::from_primitive(Primitive::Dictionary(dict), &st.resolver()).map_err(|e| format!("Trailer::from_primitive: {}", e))?;
    Ok((st, trailer))
}

/// update + create + save on a (prefixed) file, reload: the written ids hold the written values, everything else reads as before
fn save_after_update(bytes: &[u8], upto: u64, gens: &BTreeMap<u64, u64>, target: PlainRef) -> Result<(), String> {
    let before = load_all(bytes, upto, gens)?;
    let (mut st, mut trailer) = open_storage(bytes.to_vec())?;
    let back = quiet(|| st.update(target, Primitive::Integer(424242))).map_err(|p| format!("update PANICKED {}", p))?.map_err(|e| format!("update: {}", e))?;
    if back.get_ref().get_inner() != target { return Err(format!("update({:?}) handed back {:?}", target, back.get_ref().get_inner())); }
    let created = quiet(|| st.create(Primitive::String(PdfString::new(b"new\rstring".to_vec().into())))).map_err(|p| format!("create PANICKED {}", p))?.map_err(|e| format!("create: {}", e))?.get_ref().get_inner();
    match quiet(|| st.save(&mut trailer).map(|_| ())) { Ok(Ok(())) => {}, Ok(Err(e)) => return Err(format!("save: {}", e)), Err(p) => return Err(format!("save PANICKED {}", p)) }
    let saved = st.into_inner();
    if !saved.starts_with(bytes) { return Err("the previous revision is not a prefix of the saved bytes".into()); }
    let mut gens2 = gens.clone();
    gens2.insert(target.id, target.gen);
    let after = load_all(&saved, upto.max(created.id + 1), &gens2).map_err(|e| format!("saved file {}   SAVED \"{}\"", e, esc(&saved[bytes.len()..])))?;
    let mut bad = Vec::new();
    for id in 0..upto {
        if id == target.id { if after.objects[id as usize] != "i:424242" { bad.push(format!("updated object {} reads {}", id, after.objects[id as usize])); } }
        else if id == created.id { }
        else if after.objects[id as usize] != before.objects[id as usize] && before.objects[id as usize] != "MISSING" { bad.push(format!("untouched object {}: {} | after save {}", id, before.objects[id as usize], after.objects[id as usize])); }
    }
    if after.objects.get(created.id as usize).map(|s| s.as_str()) != Some(&format!("s:{}", hex(b"new\rstring"))[..]) { bad.push(format!("created object {} reads {:?}", created.id, after.objects.get(created.id as usize))); }
    if after.pages != before.pages { bad.push(format!("page count {} | {}", before.pages, after.pages)); }
    if target.id != 3 && target.id != 4 && (after.page0 != before.page0 || after.content != before.content) { bad.push(format!("page 0 {} {} | {} {}", before.page0, before.content, after.page0, after.content)); }
    if bad.is_empty() { Ok(()) } else { Err(format!("{}   SAVED \"{}\"", bad.join(" | "), esc(&saved[bytes.len()..]))) }
}

const FORMATS_3: [(Fmt, bool); 3] = [(Fmt::Classic, false), (Fmt::XStm(1, 2, 1), true), (Fmt::XStm(1, 3, 2), false)];

#[test]
fn c17_prefixed_file_reads_identically() {
    let _guard = ONE_AT_A_TIME.lock().unwrap_or_else(|e| e.into_inner());
    std::panic::set_hook(Box::new(|_| {}));
    let mut fails = Fails::new();
    let pre = prefixes();
    for (_, p) in &pre { assert!(!p.windows(5).any(|w| w == b"%PDF-") && p.len() + 5 <= 1024); }
    let mut loads = 0usize;
    let mut saves = 0usize;
    let n = universe(&FORMATS_3, &mut |b| {
        let gens = gens_of(b);
        let upto = b.size + 3;
        let plain = match load_all(&b.bytes, upto, &gens) { Ok(l) => l, Err(e) => { fails.push(format!("{}: unprefixed file {}", b.what, e)); return; } };
        // a scalar object that is in use in the newest revision: the target of the update-and-save check
        let target = [6u64, 5].iter().find_map(|n| match b.expect.get(n) { Some(X::Val(g, _)) => Some(PlainRef { id: *n, gen: *g }), _ => None }).unwrap();
        for (name, p) in &pre {
            let mut bytes = p.clone();
            bytes.extend_from_slice(&b.bytes);
            match load_all(&bytes, upto, &gens) {
                Ok(l) => { let dv = diff_loaded(&plain, &l); if !dv.is_empty() { fails.push(format!("{} with prefix `{}` ({} bytes): {}   FILE \"{}\"", b.what, name, p.len(), dv.join(" | "), esc(&b.bytes))); } }
                Err(e) => fails.push(format!("{} with prefix `{}` ({} bytes): {}   FILE \"{}\"", b.what, name, p.len(), e, esc(&b.bytes))),
            }
            loads += 1;
            if loads % 3 == 0 || p.is_empty() {
                if let Err(e) = save_after_update(&bytes, upto, &gens, target) { fails.push(format!("{} with prefix `{}` ({} bytes), update {} + create + save + reload: {}   FILE \"{}\"", b.what, name, p.len(), target.id, e, esc(&b.bytes))); }
                saves += 1;
            }
        }
    });
    let _ = std::panic::take_hook();
    assert!((n > 300 && loads == 7 * n && saves > n) || fails.n > 0, "{} files {} loads {} saves", n, loads, saves);
    println!("{} files, {} prefixed loads, {} update+save+reload runs", n, loads, saves);
    fails.finish("C17 bounded end to end: prefix ++ file reads as file", loads);
}

// ------------------------------------------------------------------------------------------------ C09
#[derive(Clone, Copy, Debug, PartialEq)]
enum Op { Create(usize), Update(usize, usize), UpdatePacked(usize), Promise(usize) }

/// the small set of values: (what is handed to the Updater, the canonical text it must read back as)
fn c09_value(i: usize) -> (Primitive, String) {
    match i {
        0 => (Primitive::Integer(-77), "i:-77".into()),
        1 => (Primitive::String(PdfString::new(b"a\rb\r\n(c".to_vec().into())), format!("s:{}", hex(b"a\rb\r\n(c"))),
        2 => (Primitive::Name("A#B c/d".into()), "n:A#B c/d".into()),
        3 => { let mut dd = Dictionary::new(); dd.insert("K", Primitive::Integer(1)); dd.insert("Na#me", Primitive::Array(vec![Primitive::Null, Primitive::Reference(PlainRef { id: 1, gen: 0 })]));
               (Primitive::Dictionary(dd), "{K=i:1;Na#me=[null,r:1.0]}".into()) }
        _ => {
            // a stream with one filter: data hand-encoded in ASCII hexadecimal (EOD `>`), declared as already compressed
            let data = b"stream \x00\xff data\r\nendstream";
            let mut enc = hex(data).to_uppercase().into_bytes(); enc.push(b'>');
            let s = Stream::from_compressed((), enc.clone(), vec![pdf::enc::StreamFilter::ASCIIHexDecode]);
            let p = s.to_pdf_stream(&mut NoUpdate).map(Primitive::Stream).expect("to_pdf_stream");
            (p, format!("stream{{Filter=n:ASCIIHexDecode}} len={} raw={} dec={}", enc.len(), hex(&enc), hex(data)))
        }
    }
}
const N_VALUES: usize = 5;

/// runs `ops` on `bytes`, saves (`saves` times in a row, a further write between the saves), reloads and compares
fn c09_run(bytes: &[u8], before: &Loaded, upto: u64, gens: &BTreeMap<u64, u64>, existing: &[PlainRef], packed: &[PlainRef], ops: &[Op], two_saves: bool) -> Result<(), String> {
    let (mut st, mut trailer) = open_storage(bytes.to_vec())?;
    let mut written: BTreeMap<u64, (u64, String)> = BTreeMap::new();
    let mut pending: Vec<(PromisedRef<Primitive>, usize)> = Vec::new();
    for op in ops {
        match *op {
            Op::Create(v) => {
                let (p, t) = c09_value(v);
                let r = quiet(|| st.create(p)).map_err(|p| format!("create PANICKED {}", p))?.map_err(|e| format!("create: {}", e))?.get_ref().get_inner();
                if written.contains_key(&r.id) || (r.id as usize) < before.objects.len() && before.objects[r.id as usize] != "MISSING" { return Err(format!("create handed out the id {} that is in use", r.id)); }
                written.insert(r.id, (r.gen, t));
            }
            Op::Update(_, v) | Op::UpdatePacked(v) => {
                let target = match *op { Op::Update(w, _) => existing[w % existing.len()], _ => packed[0] };
                let (p, t) = c09_value(v);
                let r = quiet(|| st.update(target, p)).map_err(|p| format!("update({:?}) PANICKED {}", target, p))?.map_err(|e| format!("update({:?}): {}", target, e))?.get_ref().get_inner();
                if r != target { return Err(format!("update({:?}) handed back {:?}", target, r)); }
                written.insert(r.id, (r.gen, t));
            }
            Op::Promise(v) => { let pr = st.promise::<Primitive>(); pending.push((pr, v)); }
        }
        // before any save every read through the same open document already reflects each write
        for (id, (gen, t)) in &written {
            let got = read_one(&st.resolver(), *id, *gen);
            if &got != t { return Err(format!("before save, after {:?}: object {} reads {} expected {}", op, id, got, t)); }
        }
    }
    for (pr, v) in pending {
        let (p, t) = c09_value(v);
        let want = pr.get_inner();
        let r = quiet(|| st.fulfill(pr, p)).map_err(|p| format!("fulfill PANICKED {}", p))?.map_err(|e| format!("fulfill: {}", e))?.get_ref().get_inner();
        if r != want { return Err(format!("fulfill of the promise {:?} handed back {:?}", want, r)); }
        written.insert(r.id, (r.gen, t));
    }
    let mut revisions: Vec<Vec<u8>> = vec![bytes.to_vec()];
    let rounds = if two_saves { 2 } else { 1 };
    for round in 0..rounds {
        if round == 1 {
            // second save in a row: one more create in between, everything written before must survive
            let (p, t) = c09_value(1);
            let r = st.create(p).map_err(|e| format!("create before the second save: {}", e))?.get_ref().get_inner();
            written.insert(r.id, (r.gen, t));
        }
        match quiet(|| st.save(&mut trailer).map(|b| b.to_vec())) {
            Ok(Ok(saved)) => {
                if !saved.starts_with(revisions.last().unwrap()) { return Err(format!("save {}: the previous revision is not a prefix of the output", round + 1)); }
                revisions.push(saved);
            }
            Ok(Err(e)) => return Err(format!("save {}: {}", round + 1, e)),
            Err(p) => return Err(format!("save {} PANICKED {}", round + 1, p)),
        }
        // reads through the open document after the save
        for (id, (gen, t)) in &written {
            let got = read_one(&st.resolver(), *id, *gen);
            if &got != t { return Err(format!("after save {} (same open document): object {} reads {} expected {}", round + 1, id, got, t)); }
        }
    }
    for (k, saved) in revisions.iter().enumerate().skip(1) {
        let mut gens2 = gens.clone();
        for (id, (gen, _)) in &written { gens2.insert(*id, *gen); }
        let top = written.keys().max().map(|m| m + 1).unwrap_or(0).max(upto);
        let tail = esc(&saved[bytes.len()..]);
        let after = load_some(saved, top, &gens2, false).map_err(|e| format!("bytes of save {}: {}   SAVED \"{}\"", k, e, tail))?;
        let mut bad = Vec::new();
        for (id, (_, t)) in &written {
            // an object created between the saves is not in the first saved revision
            if k == 1 && two_saves && *id == *written.keys().max().unwrap() { continue; }
            if &after.objects[*id as usize] != t { bad.push(format!("written object {} reloads as {} expected {}", id, after.objects[*id as usize], t)); }
        }
        for id in 0..upto {
            if written.contains_key(&id) || before.objects[id as usize] == "MISSING" { continue; }
            if after.objects[id as usize] != before.objects[id as usize] { bad.push(format!("untouched object {}: {} | reloaded {}", id, before.objects[id as usize], after.objects[id as usize])); }
        }
        if after.pages != before.pages { bad.push(format!("page count {} | {}", before.pages, after.pages)); }
        if !bad.is_empty() { return Err(format!("reload of save {}: {}   SAVED \"{}\"", k, bad.join(" | "), tail)); }
    }
    Ok(())
}

/// sequences of 1..=3 operations; `update` of one id twice in a sequence is left out unless the values are not both dictionaries
/// (known finding DEV_UPDATE_MERGES_DICT: a second update of one id merges dictionaries)
fn op_sequences(n_existing: usize, has_packed: bool, dense: bool) -> Vec<Vec<Op>> {
    let mut atoms: Vec<Op> = Vec::new();
    for v in 0..N_VALUES {
        atoms.push(Op::Create(v));
        for w in 0..n_existing { atoms.push(Op::Update(w, v)); }
        if has_packed { atoms.push(Op::UpdatePacked(v)); }
        atoms.push(Op::Promise(v));
    }
    let mut out: Vec<Vec<Op>> = atoms.iter().map(|a| vec![*a]).collect();
    let ok = |s: &[Op]| {
        // DEV_UPDATE_MERGES_DICT: never two dictionary-valued (value 3) writes to one target
        for i in 0..s.len() { for j in i + 1..s.len() {
            let same_target = match (s[i], s[j]) { (Op::Update(a, _), Op::Update(b, _)) => a == b, (Op::UpdatePacked(_), Op::UpdatePacked(_)) => true, _ => false };
            let val = |o: Op| match o { Op::Create(v) | Op::Update(_, v) | Op::UpdatePacked(v) | Op::Promise(v) => v };
            if same_target && val(s[i]) == 3 && val(s[j]) == 3 { return false; }
        } }
        true
    };
    for (i, a) in atoms.iter().enumerate() { for (j, b) in atoms.iter().enumerate() {
        if !dense && (i + 2 * j) % 5 != 0 { continue; }
        if ok(&[*a, *b]) { out.push(vec![*a, *b]); }
    } }
    let mut c = 0usize;
    for a in &atoms { for b in &atoms { for x in &atoms {
        c += 1;
        if c % (if dense { 41 } else { 97 }) != 0 { continue; }
        if ok(&[*a, *b, *x]) { out.push(vec![*a, *b, *x]); }
    } } }
    out
}

#[test]
fn c09_generated_files_write_save_reload() {
    let _guard = ONE_AT_A_TIME.lock().unwrap_or_else(|e| e.into_inner());
    std::panic::set_hook(Box::new(|_| {}));
    let mut fails = Fails::new();
    let mut runs_done = 0usize;
    let mut file_no = 0usize;
    let mut packed_files = 0usize;
    let n = universe(&FORMATS_3, &mut |b| {
        file_no += 1;
        let gens = gens_of(b);
        let upto = b.size + 3;
        // existing ids to update: the newest integer / string / content stream / page (whichever is in use), compressed ones separately
        let mut existing = Vec::new();
        let mut packed = Vec::new();
        for n in [5u64, 6, 4, 9] {
            if let Some(X::Val(g, _)) = b.expect.get(&n) {
                let is_packed = b.what.rsplit(" + ").find(|s| s.contains(&format!("[{}.", n)) || s.contains(&format!(" {}.", n))).map(|s| s.contains(&format!("{}.0p", n))).unwrap_or(false);
                if is_packed { packed.push(PlainRef { id: n, gen: *g }); } else { existing.push(PlainRef { id: n, gen: *g }); }
            }
        }
        if existing.is_empty() { existing.push(PlainRef { id: 4, gen: 0 }); }
        let seqs = op_sequences(2.min(existing.len()), !packed.is_empty(), false);
        let before = match load_some(&b.bytes, upto, &gens, false) { Ok(l) => l, Err(e) => { fails.push(format!("{}: {}", b.what, e)); return; } };
        if !packed.is_empty() { packed_files += 1; }
        // every file gets a slice of the sequences (all files together cover every sequence many times)
        for (i, ops) in seqs.iter().enumerate() {
            if (i + file_no) % 16 != 0 { continue; }
            let two = (i / 16) % 2 == 0;
            if let Err(e) = c09_run(&b.bytes, &before, upto, &gens, &existing, &packed, ops, two) {
                fails.push(format!("{}: ops {:?} on ids {:?} / compressed {:?}{}: {}   FILE \"{}\"", b.what, ops, existing, packed, if two { ", two saves" } else { "" }, e, esc(&b.bytes)));
            }
            runs_done += 1;
        }
    });
    let _ = std::panic::take_hook();
    assert!((n > 300 && runs_done > 2000 && packed_files > 50) || fails.n > 0, "{} files {} runs {} files with compressed targets", n, runs_done, packed_files);
    println!("{} files ({} with a compressed target), {} runs", file_no, packed_files, runs_done);
    fails.finish("C09 bounded end to end on generated files: write, save, reload", runs_done);
}

fn corpus(name: &str) -> Vec<u8> {
    let p = std::path::Path::new(env!("CARGO_MANIFEST_DIR")).parent().unwrap().join("files").join(name);
    std::fs::read(&p).unwrap_or_else(|e| panic!("{}: {}", p.display(), e))
}

#[test]
fn c09_corpus_files_write_save_reload() {
    let _guard = ONE_AT_A_TIME.lock().unwrap_or_else(|e| e.into_inner());
    std::panic::set_hook(Box::new(|_| {}));
    let mut fails = Fails::new();
    let mut runs_done = 0usize;
    // example.pdf: classic table; xelatex.pdf: cross-reference stream + object streams (compressed objects)
    for name in ["example.pdf", "xelatex.pdf"] {
        let bytes = corpus(name);
        let (st, trailer) = open_storage(bytes.clone()).unwrap_or_else(|e| panic!("{}: {}", name, e));
        let upto = trailer.size as u64;
        drop(st);
        let gens = BTreeMap::new();
        let before = load_some(&bytes, upto, &gens, false).unwrap_or_else(|e| panic!("{}: {}", name, e));
        // existing targets: the first two in-use non-compressed objects; compressed: the first object held by an object stream.
        // told apart through the file itself: an object is compressed iff no `N 0 obj` header of it occurs in the bytes
        let has_header = |id: u64| { let h = format!("{} 0 obj", id).into_bytes(); bytes.windows(h.len() + 1).any(|w| &w[1..] == &h[..] && matches!(w[0], b'\n' | b'\r' | b' ')) };
        let in_use: Vec<u64> = (1..upto).filter(|&id| { let t = &before.objects[id as usize]; t != "MISSING" && !t.starts_with("ERR") && !t.starts_with("PANIC") }).collect();
        // targets: dictionaries / streams other than the catalog / page tree / pages (an integer may be the /Length of a stream: not "untouched")
        let plain_dict = |id: u64| { let t = &before.objects[id as usize]; t.starts_with('{') && !t.contains("Type=n:Catalog") && !t.contains("Type=n:Page") };
        let plain_stream = |id: u64| { let t = &before.objects[id as usize]; t.starts_with("stream") && !t.contains("Type=n:ObjStm") && !t.contains("Type=n:XRef") };
        let existing: Vec<PlainRef> = in_use.iter().filter(|&&id| has_header(id) && (plain_dict(id) || plain_stream(id))).take(2).map(|&id| PlainRef { id, gen: 0 }).collect();
        let packed: Vec<PlainRef> = in_use.iter().filter(|&&id| !has_header(id) && plain_dict(id)).take(1).map(|&id| PlainRef { id, gen: 0 }).collect();
        if existing.len() != 2 || existing[0] == existing[1] || (name == "xelatex.pdf" && packed.len() != 1) {
            fails.push(format!("files/{}: test premise: two plain dictionaries {:?} (and one compressed {:?}) to update; objects {:?}", name, existing, packed, before.objects.iter().map(|t| t.chars().take(60).collect::<String>()).collect::<Vec<_>>()));
            continue;
        }
        let seqs = op_sequences(existing.len(), !packed.is_empty(), true);
        for (i, ops) in seqs.iter().enumerate() {
            // the larger file gets every third sequence of two or three operations
            if name == "xelatex.pdf" && ops.len() > 1 && i % 3 != 0 { continue; }
            let two = i % 2 == 0;
            if let Err(e) = c09_run(&bytes, &before, upto, &gens, &existing, &packed, ops, two) {
                fails.push(format!("files/{}: ops {:?} on ids {:?} / compressed {:?}{}: {}", name, ops, existing, packed, if two { ", two saves" } else { "" }, e));
            }
            runs_done += 1;
        }
    }
    let _ = std::panic::take_hook();
    println!("{} runs", runs_done);
    assert!(runs_done > 500 || fails.n > 0, "{} runs", runs_done);
    fails.finish("C09 bounded end to end on files/example.pdf and files/xelatex.pdf: write, save, reload", runs_done);
}

/// C09 "a save that fails and is retried after the offending object is replaced": a promise is left unfulfilled, so the first save
/// fails; the promise is fulfilled, the second save must succeed and reload (written ids: last value; the rest untouched).
fn failed_save_then_retry(bytes: &[u8], upto: u64, gens: &BTreeMap<u64, u64>, target: PlainRef, v1: usize, v2: usize) -> Result<(), String> {
    let before = load_some(bytes, upto, gens, false)?;
    let (mut st, mut trailer) = open_storage(bytes.to_vec())?;
    let (p1, t1) = c09_value(v1);
    let r = quiet(|| st.update(target, p1)).map_err(|p| format!("update PANICKED {}", p))?.map_err(|e| format!("update: {}", e))?.get_ref().get_inner();
    if r != target { return Err(format!("update({:?}) handed back {:?}", target, r)); }
    let promise = st.promise::<Primitive>();
    let pid = promise.get_inner();
    match quiet(|| st.save(&mut trailer).map(|_| ())) {
        Ok(Err(_)) => {}
        Ok(Ok(())) => return Err("test premise: a save with an unfulfilled promise was expected to fail".into()),
        Err(p) => return Err(format!("first save PANICKED {}", p)),
    }
    // reads through the open document after the failed save
    let got = read_one(&st.resolver(), target.id, target.gen);
    if got != t1 { return Err(format!("after the failed save object {} reads {} expected {}", target.id, got, t1)); }
    let (p2, t2) = c09_value(v2);
    let r2 = quiet(|| st.fulfill(promise, p2)).map_err(|p| format!("fulfill PANICKED {}", p))?.map_err(|e| format!("fulfill: {}", e))?.get_ref().get_inner();
    if r2 != pid { return Err(format!("fulfill of {:?} handed back {:?}", pid, r2)); }
    match quiet(|| st.save(&mut trailer).map(|b| b.to_vec())) {
        Ok(Ok(saved)) => {
            if !saved.starts_with(bytes) { return Err("the previous revision is not a prefix of the output".into()); }
            let mut gens2 = gens.clone();
            gens2.insert(target.id, target.gen);
            let tail = esc(&saved[bytes.len()..]);
            let after = load_some(&saved, upto.max(pid.id + 1), &gens2, false).map_err(|e| format!("bytes of the retried save: {}   SAVED \"{}\"", e, tail))?;
            let mut bad = Vec::new();
            if after.objects[target.id as usize] != t1 { bad.push(format!("updated object {} reloads as {} expected {}", target.id, after.objects[target.id as usize], t1)); }
            if after.objects[pid.id as usize] != t2 { bad.push(format!("fulfilled object {} reloads as {} expected {}", pid.id, after.objects[pid.id as usize], t2)); }
            for id in 0..upto {
                if id == target.id || id == pid.id || before.objects[id as usize] == "MISSING" { continue; }
                if after.objects[id as usize] != before.objects[id as usize] { bad.push(format!("untouched object {}: {} | reloaded {}", id, before.objects[id as usize], after.objects[id as usize])); }
            }
            if after.pages != before.pages { bad.push(format!("page count {} | {}", before.pages, after.pages)); }
            if bad.is_empty() { Ok(()) } else { Err(format!("{}   SAVED \"{}\"", bad.join(" | "), tail)) }
        }
        Ok(Err(e)) => Err(format!("the retried save fails: {}", e)),
        Err(p) => Err(format!("the retried save PANICKED {}", p)),
    }
}

#[test]
fn c09_failed_save_is_retried() {
    let _guard = ONE_AT_A_TIME.lock().unwrap_or_else(|e| e.into_inner());
    std::panic::set_hook(Box::new(|_| {}));
    let mut fails = Fails::new();
    let mut runs_done = 0usize;
    let mut k = 0usize;
    universe(&FORMATS_3, &mut |b| {
        k += 1;
        let target = [6u64, 5, 4].iter().find_map(|n| match b.expect.get(n) { Some(X::Val(g, _)) => Some(PlainRef { id: *n, gen: *g }), _ => None }).unwrap();
        let (v1, v2) = (k % N_VALUES, (k / N_VALUES) % N_VALUES);
        if let Err(e) = failed_save_then_retry(&b.bytes, b.size + 3, &gens_of(b), target, v1, v2) {
            fails.push(format!("{}: update({}, value {}), promise, save (fails), fulfill(value {}), save: {}   FILE \"{}\"", b.what, target.id, v1, v2, e, esc(&b.bytes)));
        }
        runs_done += 1;
    });
    for name in ["example.pdf", "xelatex.pdf"] {
        let bytes = corpus(name);
        let upto = open_storage(bytes.clone()).map(|(_, t)| t.size as u64).unwrap_or(0);
        let target = PlainRef { id: if name == "example.pdf" { 5 } else { 2 }, gen: 0 };   // a font dictionary / the (compressed) information dictionary
        for v1 in 0..N_VALUES { for v2 in 0..N_VALUES {
            if let Err(e) = failed_save_then_retry(&bytes, upto, &BTreeMap::new(), target, v1, v2) {
                fails.push(format!("files/{}: update({}, value {}), promise, save (fails), fulfill(value {}), save: {}", name, target.id, v1, v2, e));
            }
            runs_done += 1;
        } }
    }
    let _ = std::panic::take_hook();
    assert!(runs_done > 300 || fails.n > 0, "{} runs", runs_done);
    fails.finish("C09 bounded end to end: a failed save is retried", runs_done);
}

// ------------------------------------------------------------------------------------------------ NOT registered: observation outside C02
/// hybrid-reference file (ISO 32000-1 7.5.8.4): a classic section whose trailer has /XRefStm; the objects 5, 6 live in an object
/// stream that only the /XRefStm stream mentions (the classic table lists them as free).
#[test]
fn candidate_hybrid_xrefstm_objects_are_found() {
    let _guard = ONE_AT_A_TIME.lock().unwrap_or_else(|e| e.into_inner());
    std::panic::set_hook(Box::new(|_| {}));
    let mut fails = Fails::new();
    let mut n = 0;
    for base_fmt in [(Fmt::Classic, false), (Fmt::XStm(1, 2, 1), false)] {
        let secs = vec![
            Section { fmt: base_fmt.0, split: base_fmt.1, entries: base_entries(false), hybrid: false, omit_index: false },
            Section { fmt: Fmt::Classic, split: false, entries: update_entries(Kind::Pack, 1), hybrid: true, omit_index: false },
        ];
        check_c02(&build(&secs), &mut fails); n += 1;
    }
    // base section itself hybrid
    let secs = vec![Section { fmt: Fmt::Classic, split: false, entries: base_entries(true), hybrid: true, omit_index: false }];
    check_c02(&build(&secs), &mut fails); n += 1;
    let _ = std::panic::take_hook();
    fails.finish("hybrid-reference files (/XRefStm)", n);
}

// ------------------------------------------------------------------------------------------------ C09: the two repaired defects, pinned
/// a loadable file in which a number below /Size is mentioned by no section (7, 8 and 10 here): update + create + save + reload
#[test]
fn c09_save_of_a_file_with_undefined_numbers() {
    let _guard = ONE_AT_A_TIME.lock().unwrap_or_else(|e| e.into_inner());
    std::panic::set_hook(Box::new(|_| {}));
    let mut fails = Fails::new();
    let mut n = 0;
    for fmt in FORMATS_3 {
        let secs = vec![
            Section { fmt: fmt.0, split: fmt.1, entries: base_entries(false), hybrid: false, omit_index: false },
            Section { fmt: fmt.0, split: fmt.1, entries: update_entries(Kind::AddGap, 1), hybrid: false, omit_index: false },
        ];
        let b = build(&secs);
        assert!(b.has_gap());
        check_c02(&b, &mut fails);
        if let Err(e) = save_after_update(&b.bytes, b.size + 3, &gens_of(&b), PlainRef { id: 6, gen: 0 }) { fails.push(format!("{}: update 6 + create + save + reload: {}   FILE \"{}\"", b.what, e, esc(&b.bytes))); }
        n += 1;
    }
    let _ = std::panic::take_hook();
    fails.finish("save of a file with undefined object numbers below /Size", n);
}

/// a `create` whose value cannot be written (a stream whose info is not a dictionary) fails; the document must stay savable
#[test]
fn c09_failed_create_leaves_the_document_savable() {
    let _guard = ONE_AT_A_TIME.lock().unwrap_or_else(|e| e.into_inner());
    let b = build(&[Section { fmt: Fmt::Classic, split: false, entries: base_entries(false), hybrid: false, omit_index: false }]);
    let (mut st, mut trailer) = open_storage(b.bytes.clone()).unwrap();
    let bad = st.create(Stream::new(5i32, b"x".to_vec()));
    assert!(bad.is_err(), "test premise: a stream whose info is an integer cannot be written");
    let r = st.update(PlainRef { id: 5, gen: 0 }, Primitive::Integer(42)).unwrap().get_ref().get_inner();
    assert_eq!(r, PlainRef { id: 5, gen: 0 });
    if let Err(e) = st.save(&mut trailer) { panic!("after a failed create every save fails: {}", e); }
    let saved = st.into_inner();
    let again = load_some(&saved, b.size + 3, &gens_of(&b), false).unwrap();
    assert_eq!(again.objects[5], "i:42");
}
