// Unit `xrefchain` (C02, C17, C01, C14): pdf/src/backend.rs
//   Backend::read_xref_table_and_trailer   the /Prev walk: order of merging, offsets relative to the header, loop detection
//   Backend::locate_start_offset           header search in the first kilobyte
//   IndexRange::to_range + the four range impls (start/end)
// Abstract (env) callees: Backend::{read,len,locate_xref_offset}, read_xref_and_trailer_at, XRefTable::{new,add_entries_from},
// Dictionary::get, Primitive::{as_u32,as_usize}, Lexer::with_offset.
use vstd::prelude::*;
use core::ops::{Range, RangeFrom, RangeTo, RangeFull};
//@@ INCLUDE _common/error_macros.rs
verus! {
global size_of usize == 8;

//@@ PDFERROR
pub type ObjNr = u64;
//@@ const MAX_ID

// =====================================================================================================
// IndexRange (backend.rs:131): "Start index (inclusive)", "End index (exclusive)", "`len`: the size of
// whatever container that is being indexed" -- spec written from these doc comments.
// =====================================================================================================
pub trait IndexRange {
    spec fn lo(&self) -> Option<usize>;
    spec fn hi(&self) -> Option<usize>;
    fn start(&self) -> (r: Option<usize>) ensures r == self.lo();
    fn end(&self) -> (r: Option<usize>) ensures r == self.hi();
}
// the half-open interval a range syntax denotes inside a container of `len` elements, None if it does not fit
pub open spec fn range_of(lo: Option<usize>, hi: Option<usize>, len: int) -> Option<(int, int)> {
    let a: int = match lo { Some(s) => s as int, None => 0 };
    let b: int = match hi { Some(e) => e as int, None => len };
    if a <= b && b <= len { Some((a, b)) } else { None }
}
// Rust reference: `..` has no bounds, `a..` has start a, `..b` has end b, `a..b` has both
impl IndexRange for RangeFull {
    open spec fn lo(&self) -> Option<usize> { None }
    open spec fn hi(&self) -> Option<usize> { None }
//@@ RangeFull::start
//@@ RangeFull::end
}
impl IndexRange for RangeFrom<usize> {
    open spec fn lo(&self) -> Option<usize> { Some(self.start) }
    open spec fn hi(&self) -> Option<usize> { None }
//@@ RangeFrom::start
//@@ RangeFrom::end
}
impl IndexRange for RangeTo<usize> {
    open spec fn lo(&self) -> Option<usize> { None }
    open spec fn hi(&self) -> Option<usize> { Some(self.end) }
//@@ RangeTo::start
//@@ RangeTo::end
}
impl IndexRange for Range<usize> {
    open spec fn lo(&self) -> Option<usize> { Some(self.start) }
    open spec fn hi(&self) -> Option<usize> { Some(self.end) }
//@@ Range::start
//@@ Range::end
}

//@@ to_range

// =====================================================================================================
// environment: abstract file content, dictionary, table, lexer
// =====================================================================================================
#[verifier::external_body]
pub struct Primitive { _p: () }
// Some(n) iff the primitive is the integer object n
pub uninterp spec fn prim_int(p: Primitive) -> Option<i32>;
impl Primitive {
    // primitive.rs:530 / 537 (abstract callees): non-negative integers only
    #[verifier::external_body]
    pub fn as_u32(&self) -> (r: Result<u32>)
        ensures match prim_int(*self) { Some(n) => if n >= 0 { r == Ok::<u32, PdfError>(n as u32) } else { r is Err }, None => r is Err }
    { unimplemented!() }
    #[verifier::external_body]
    pub fn as_usize(&self) -> (r: Result<usize>)
        ensures match prim_int(*self) { Some(n) => if n >= 0 { r == Ok::<usize, PdfError>(n as usize) } else { r is Err }, None => r is Err }
    { unimplemented!() }
}
#[verifier::external_body]
pub struct Dictionary { _p: () }
pub uninterp spec fn dict_get(d: Dictionary, key: Seq<char>) -> Option<Primitive>;
impl Dictionary {
    // primitive.rs:129 (abstract callee)
    #[verifier::external_body]
    pub fn get(&self, key: &str) -> (r: Option<&Primitive>)
        ensures match dict_get(*self, key@) { Some(p) => r == Some(&p), None => r is None }
    { unimplemented!() }
}
// ISO 32000-1 Table 15: Size "(Required) The total number of entries in the file's cross-reference table" (integer);
// Prev "(Present only if the file has more than one cross-reference section; shall be a direct object) The byte offset
// from the beginning of the file to the beginning of the previous cross-reference section" (integer).
pub open spec fn size_entry(d: Dictionary) -> Option<u32> {
    match dict_get(d, "Size"@) { Some(p) => match prim_int(p) { Some(n) => if n >= 0 { Some(n as u32) } else { None }, None => None }, None => None }
}
pub enum PrevLink { NoPrev, At(usize), Malformed }
pub open spec fn prev_link(d: Dictionary) -> PrevLink {
    match dict_get(d, "Prev"@) {
        None => PrevLink::NoPrev,
        Some(p) => match prim_int(p) { Some(n) => if n >= 0 { PrevLink::At(n as usize) } else { PrevLink::Malformed }, None => PrevLink::Malformed },
    }
}
pub open spec fn link_opt(l: PrevLink) -> Option<usize> { match l { PrevLink::At(q) => Some(q), _ => None } }
// what the loop variable of the /Prev walk must hold when the trailer of the section merged last has /Prev link `l`:
// nothing if there is no /Prev; else the link, either as stored in the file (`rel`: relative to the header, the header
// position `start` is added when the section is read) or already as the absolute position start + link.
pub open spec fn next_is_prev(rel: bool, start: usize, l: PrevLink, next: Option<usize>) -> bool {
    match l {
        PrevLink::Malformed => false,
        PrevLink::NoPrev => next is None,
        PrevLink::At(q) => if rel { next == Some(q) } else { start + q <= usize::MAX && next == Some((start + q) as usize) },
    }
}

// a cross-reference section as read from the file: only its identity matters here (its content is the
// business of units xreftable / xrefstm); Copy is an artefact of R6 (index loop instead of by-value iteration)
#[derive(Clone, Copy)]
pub struct XRefSection { pub g: Ghost<int> }
// the table remembers, as ghost state, which sections were merged into it and in which order
pub struct XRefTable { pub merged: Ghost<Seq<int>>, pub size: Ghost<int> }
impl XRefTable {
    // xref.rs:56 (abstract callee; under contract in unit xreftable)
    #[verifier::external_body]
    pub fn new(num_objects: ObjNr) -> (r: XRefTable) ensures r.merged@ == Seq::<int>::empty(), r.size@ == num_objects { unimplemented!() }
    // xref.rs:109 (abstract callee; under contract in unit xreftable: entries := merge1(entries, section))
    #[verifier::external_body]
    pub fn add_entries_from(&mut self, section: XRefSection) -> (r: Result<()>)
        ensures r is Ok ==> final(self).merged@ == old(self).merged@.push(section.g@) && final(self).size@ == old(self).size@,
    { unimplemented!() }
}
pub struct Lexer<'a> { pub buf: &'a [u8], pub off: usize, pub pos: usize }
pub struct Substr<'a> { pub slice: &'a [u8] }
// `sub` occurs in `hay` at index j
pub open spec fn occurs_at(hay: Seq<u8>, sub: Seq<u8>, j: int) -> bool {
    0 <= j && j + sub.len() <= hay.len() && hay.subrange(j, j + sub.len()) == sub
}
// the needle's first byte does not occur again inside it (precondition of the forward search, as in units/inlineimg)
pub open spec fn head_unique(needle: Seq<u8>) -> bool {
    needle.len() > 0 && forall|j: int| 1 <= j < needle.len() ==> #[trigger] needle[j] != needle[0]
}
// the token (ISO 32000-1 7.2) that Lexer::next yields from position `pos` (under contract in unit lexer: next_is_iso_token)
pub uninterp spec fn token_after(buf: Seq<u8>, pos: int) -> Seq<u8>;
// there is a token at or after `pos` (otherwise Lexer::next is Err(EOF); unit lexer: next_eof_keeps_pos)
pub uninterp spec fn has_token(buf: Seq<u8>, pos: int) -> bool;
// the number a token denotes as decimal digits (Substr::to::<usize>, via str::parse)
pub uninterp spec fn usize_of(tok: Seq<u8>) -> Option<usize>;
pub trait FromToken: Sized { spec fn denoted(tok: Seq<u8>) -> Option<Self>; }
impl FromToken for usize { open spec fn denoted(tok: Seq<u8>) -> Option<usize> { usize_of(tok) } }
impl<'a> Substr<'a> {
    // lexer/mod.rs Substr::to (abstract callee)
    #[verifier::external_body]
    pub fn to<T: FromToken>(&self) -> (r: Result<T>) ensures r matches Ok(v) ==> T::denoted(self.slice@) == Some(v), T::denoted(self.slice@) is Some ==> r is Ok { unimplemented!() }
}
// abstract callees; these contracts are the ones proved on the real text in unit lexer
// (with_offset/new: constructors; from_end_pos; seek_back_last_match / seek_back_not_found; next_is_iso_token)
impl<'a> Lexer<'a> {
    pub open spec fn wf(&self) -> bool { self.pos <= self.buf@.len() }
    #[verifier::external_body]
    pub fn with_offset(buf: &'a [u8], file_offset: usize) -> (r: Lexer<'a>) ensures r.off == file_offset, r.buf == buf, r.pos == 0 { unimplemented!() }
    #[verifier::external_body]
    pub fn new(buf: &'a [u8]) -> (r: Lexer<'a>) ensures r.off == 0, r.buf == buf, r.pos == 0 { unimplemented!() }
    #[verifier::external_body]
    pub fn set_pos_from_end(&mut self, new_pos: usize)
        requires old(self).wf()
        ensures final(self).wf(), final(self).buf == old(self).buf, final(self).off == old(self).off,
            final(self).pos == if old(self).buf@.len() >= new_pos + 1 { old(self).buf@.len() - new_pos - 1 } else { 0 }
    { unimplemented!() }
    #[verifier::external_body]
    pub fn seek_substr_back(&mut self, substr: &[u8]) -> (r: Result<Substr<'a>>)
        requires old(self).wf(), substr@.len() > 0
        ensures final(self).wf(), final(self).buf == old(self).buf, final(self).off == old(self).off,
            r is Ok ==> final(self).pos <= old(self).pos
                && occurs_at(old(self).buf@.subrange(0, old(self).pos as int), substr@, final(self).pos - substr@.len())
                && (forall|j: int| final(self).pos - substr@.len() < j ==> !occurs_at(old(self).buf@.subrange(0, old(self).pos as int), substr@, j)),
            r is Err ==> (forall|j: int| !occurs_at(old(self).buf@.subrange(0, old(self).pos as int), substr@, j)),
    { unimplemented!() }
    // forward search; proved on the real text in units/inlineimg: Lexer::seek_substr/{seek_wf, seek_first_occurrence,
    // seek_none_means_absent} (there with the pointwise `occ`, which is `occurs_at` by extensionality); the real parameter
    // is `impl AsRef<[u8]>`
    #[verifier::external_body]
    pub fn seek_substr(&mut self, substr: &[u8]) -> (r: Option<Substr<'a>>)
        requires old(self).wf(), head_unique(substr@)
        ensures final(self).wf(), final(self).buf == old(self).buf, final(self).off == old(self).off,
            r is Some ==> old(self).pos <= final(self).pos - substr@.len()
                && occurs_at(old(self).buf@, substr@, final(self).pos - substr@.len())
                && (forall|j: int| old(self).pos <= j < final(self).pos - substr@.len() ==> !occurs_at(old(self).buf@, substr@, j)),
            r is None ==> (forall|j: int| old(self).pos <= j ==> !occurs_at(old(self).buf@, substr@, j)),
    { unimplemented!() }
    #[verifier::external_body]
    pub fn next(&mut self) -> (r: Result<Substr<'a>>)
        requires old(self).wf()
        ensures final(self).wf(), final(self).buf == old(self).buf, final(self).off == old(self).off,
            r matches Ok(sub) ==> sub.slice@ == token_after(old(self).buf@, old(self).pos as int),
            has_token(old(self).buf@, old(self).pos as int) ==> r is Ok,
    { unimplemented!() }
}
pub trait Resolve {}

// what is stored in the file at a position: the sections read by read_xref_and_trailer_at from a lexer over the
// suffix starting there (with that file offset), and the trailer dictionary that goes with them
pub uninterp spec fn sections_of(suffix: Seq<u8>, off: int) -> Seq<int>;
pub uninterp spec fn trailer_of(suffix: Seq<u8>, off: int) -> Dictionary;
pub open spec fn sections_at(file: Seq<u8>, p: int) -> Seq<int> { sections_of(file.subrange(p, file.len() as int), p) }
pub open spec fn trailer_at(file: Seq<u8>, p: int) -> Dictionary { trailer_of(file.subrange(p, file.len() as int), p) }
pub open spec fn gs(secs: Seq<XRefSection>) -> Seq<int> { Seq::new(secs.len(), |k: int| secs[k].g@) }

// parser/parse_xref.rs:134 (abstract callee): deterministic in the bytes and the offset of the lexer
#[verifier::external_body]
pub fn read_xref_and_trailer_at(lexer: &mut Lexer, resolve: &impl Resolve) -> (r: Result<(Vec<XRefSection>, Dictionary)>)
    ensures r matches Ok((secs, tr)) ==> tr == trailer_of(old(lexer).buf@, old(lexer).off as int)
        && gs(secs@) == sections_of(old(lexer).buf@, old(lexer).off as int)
{ unimplemented!() }

pub trait Backend: Sized {
    spec fn bytes(&self) -> Seq<u8>;
    // the value of the last `startxref` line
    spec fn startxref(&self) -> Option<usize>;
    // backend.rs:114 (the only impl: `let r = t!(range.to_range(self.len())); Ok(&self[r])`): trait contract
    fn read<T: IndexRange>(&self, range: T) -> (r: Result<&[u8]>)
        ensures match range_of(range.lo(), range.hi(), self.bytes().len() as int) {
            Some((a, b)) => r matches Ok(s) && s@ == self.bytes().subrange(a, b),
            None => r is Err };
    fn len(&self) -> (r: usize) ensures r == self.bytes().len();
    fn locate_xref_offset(&self) -> (r: Result<usize>) ensures r matches Ok(x) ==> self.startxref() == Some(x);
}

// ---- L0 helpers (R7): bodies are the hoisted source text ----
#[verifier::external_body]
fn hoist_contains(v: &Vec<usize>, x: usize) -> (r: bool) ensures r == v@.contains(x) { v.contains(&x) }
#[verifier::external_body]
fn hoist_min(a: usize, b: usize) -> (r: usize) ensures r == if a <= b { a } else { b } { std::cmp::min(a, b) }
// the keyword `startxref`: 73 74 61 72 74 78 72 65 66
pub open spec fn KW_STARTXREF() -> Seq<u8> { seq![0x73u8, 0x74, 0x61, 0x72, 0x74, 0x78, 0x72, 0x65, 0x66] }
pub proof fn lemma_kw_head_unique() ensures head_unique(KW_STARTXREF()), KW_STARTXREF().len() == 9 {}
#[verifier::external_body]
fn hoist_kw_startxref() -> (r: &'static [u8]) ensures r@ == KW_STARTXREF() { b"startxref" }
// ISO 32000-1 7.5.5: "The two preceding lines shall contain, one per line and in order, the keyword startxref and the
// byte offset ... from the beginning of the file to the beginning of the xref keyword in the last cross-reference section".
// `p` is the last occurrence of the keyword that ends before the last byte of the file (the search starts there).
// Lexer::set_pos_from_end(0): the backward search starts at the last byte
pub open spec fn search_end(n: nat) -> int { if n >= 1 { n - 1 } else { 0 } }
pub open spec fn last_startxref(file: Seq<u8>, p: int) -> bool {
    let hay = file.subrange(0, search_end(file.len()));
    occurs_at(hay, KW_STARTXREF(), p) && forall|j: int| p < j ==> !occurs_at(hay, KW_STARTXREF(), j)
}
pub open spec fn no_startxref(file: Seq<u8>) -> bool {
    let hay = file.subrange(0, search_end(file.len()));
    forall|j: int| !#[trigger] occurs_at(hay, KW_STARTXREF(), j)
}
// `%PDF-` (ISO 32000-1 7.5.2): 25 50 44 46 2D
pub open spec fn is_header_at(s: Seq<u8>, i: int) -> bool {
    0 <= i && i + 5 <= s.len() && s[i] == 0x25 && s[i + 1] == 0x50 && s[i + 2] == 0x44 && s[i + 3] == 0x46 && s[i + 4] == 0x2d
}
#[verifier::external_body]
fn hoist_find_header(buf: &[u8]) -> (r: Option<usize>)
    ensures match r {
        Some(i) => is_header_at(buf@, i as int) && forall|j: int| 0 <= j < i ==> !is_header_at(buf@, j),
        None => forall|j: int| !is_header_at(buf@, j) }
{
    let HEADER: &[u8] = b"%PDF-";   // `const` in the source; a nested const item is not accepted inside verus!
    buf.windows(HEADER.len()).position(|window| window == HEADER)
}

// =====================================================================================================
// C02 / C17 spec of the walk (written from the property statements)
// =====================================================================================================
// `visited` is the chain of cross-reference positions: it starts at `first`, every next position is the header
// position plus the /Prev of the trailer at the previous one, and the last trailer has no /Prev.
pub open spec fn is_prev_chain(file: Seq<u8>, start: int, first: int, visited: Seq<int>) -> bool {
    &&& visited.len() >= 1
    &&& visited[0] == first
    &&& forall|i: int| 0 <= i < visited.len() - 1 ==> prev_link(trailer_at(file, #[trigger] visited[i])) == PrevLink::At((visited[i + 1] - start) as usize) && visited[i + 1] >= start
    &&& prev_link(trailer_at(file, visited.last())) == PrevLink::NoPrev
}
#[verifier::opaque]
pub open spec fn is_chain_prefix(file: Seq<u8>, start: int, first: int, visited: Seq<int>) -> bool {
    &&& visited.len() >= 1
    &&& visited[0] == first
    &&& forall|i: int| 0 <= i < visited.len() - 1 ==> prev_link(trailer_at(file, #[trigger] visited[i])) == PrevLink::At((visited[i + 1] - start) as usize) && visited[i + 1] >= start
}
// the sections found along the chain, newest (startxref) first
pub open spec fn concat_sections(file: Seq<u8>, visited: Seq<int>) -> Seq<int> decreases visited.len() {
    if visited.len() == 0 { Seq::empty() } else { concat_sections(file, visited.drop_last()) + sections_at(file, visited.last()) }
}
// no /Prev offset occurs twice ("previous-section loops ... end in an error")
pub open spec fn prev_offsets_distinct(visited: Seq<int>) -> bool {
    forall|i: int, j: int| 1 <= i < j < visited.len() ==> visited[i] != visited[j]
}
pub open spec fn walk_result(file: Seq<u8>, start: int, first: int, merged: Seq<int>) -> bool {
    exists|visited: Seq<int>| #![auto] is_prev_chain(file, start, first, visited)
        && merged == concat_sections(file, visited)
        && prev_offsets_distinct(visited)
        && forall|i: int| 0 <= i < visited.len() ==> 0 <= #[trigger] visited[i] <= file.len()
}

// ---- lemmas ----
pub proof fn lemma_nodup_bound(s: Seq<usize>, n: int)
    requires s.no_duplicates(), n >= 0, forall|i: int| 0 <= i < s.len() ==> s[i] <= n
    ensures s.len() <= n + 1
{
    let m = s.map_values(|x: usize| x as int);
    assert(m.no_duplicates()) by {
        assert forall|i: int, j: int| 0 <= i < m.len() && 0 <= j < m.len() && i != j implies m[i] != m[j] by { assert(s[i] != s[j]); }
    }
    m.unique_seq_to_set();
    let r = vstd::set_lib::set_int_range(0, n + 1);
    assert(m.to_set().subset_of(r)) by {
        assert forall|x: int| m.to_set().contains(x) implies r.contains(x) by {
            let i = choose|i: int| 0 <= i < m.len() && m[i] == x;
            assert(s[i] <= n);
        }
    }
    vstd::set_lib::lemma_int_range(0, n + 1);
    vstd::set_lib::lemma_len_subset(m.to_set(), r);
}
pub proof fn lemma_gs_take_push(secs: Seq<XRefSection>, k: int)
    requires 0 <= k < secs.len()
    ensures gs(secs).take(k + 1) == gs(secs).take(k).push(secs[k].g@)
{
    assert(gs(secs).take(k + 1) =~= gs(secs).take(k).push(secs[k].g@));
}
pub proof fn lemma_concat_one(file: Seq<u8>, p: int)
    ensures concat_sections(file, seq![p]) == sections_at(file, p)
{
    let v = seq![p];
    assert(v.drop_last() =~= Seq::<int>::empty());
    assert(concat_sections(file, Seq::<int>::empty()) =~= Seq::<int>::empty());
    assert(v.last() == p);
    assert(concat_sections(file, v) =~= concat_sections(file, v.drop_last()) + sections_at(file, v.last()));
    assert(concat_sections(file, v) =~= sections_at(file, p));
}
pub proof fn lemma_concat_push(file: Seq<u8>, v: Seq<int>, p: int)
    ensures concat_sections(file, v.push(p)) == concat_sections(file, v) + sections_at(file, p)
{
    assert(v.push(p).drop_last() =~= v);
}
pub proof fn lemma_chain_push(file: Seq<u8>, start: int, first: int, v: Seq<int>, p: int)
    requires is_chain_prefix(file, start, first, v), p >= start,
        prev_link(trailer_at(file, v.last())) == PrevLink::At((p - start) as usize),
    ensures is_chain_prefix(file, start, first, v.push(p))
{
    reveal(is_chain_prefix);
    let v2 = v.push(p);
    assert forall|i: int| 0 <= i < v2.len() - 1 implies prev_link(trailer_at(file, #[trigger] v2[i])) == PrevLink::At((v2[i + 1] - start) as usize) && v2[i + 1] >= start by {
        if i < v.len() - 1 { assert(v2[i] == v[i]); assert(v2[i + 1] == v[i + 1]); } else { assert(v2[i] == v.last()); }
    }
}

pub proof fn lemma_chain_one(file: Seq<u8>, start: int, p: int)
    ensures is_chain_prefix(file, start, p, seq![p])
{
    reveal(is_chain_prefix);
}
pub proof fn lemma_chain_done(file: Seq<u8>, start: int, first: int, v: Seq<int>)
    requires is_chain_prefix(file, start, first, v), prev_link(trailer_at(file, v.last())) == PrevLink::NoPrev
    ensures is_prev_chain(file, start, first, v)
{
    reveal(is_chain_prefix);
}
pub proof fn lemma_chain_facts(file: Seq<u8>, start: int, first: int, v: Seq<int>)
    requires is_chain_prefix(file, start, first, v)
    ensures v.len() >= 1, v[0] == first
{
    reveal(is_chain_prefix);
}

//@@ read_xref_table_and_trailer

//@@ locate_start_offset

//@@ locate_xref_offset

}
fn main(){}
