// Repro for candidate finding `hybrid_xrefstm_ignored` (C02 end-to-end; found by units/xrefchain/e2e_docs_bounded.rs, test
// `candidate_hybrid_xrefstm_objects_are_found`). Drop into a scratch copy of /repo as pdf/tests/hybrid.rs and run
//   CARGO_TARGET_DIR=/tmp/n2_target cargo test --offline -p pdf --test hybrid -- --nocapture
//
// Hybrid-reference file (ISO 32000-1 7.5.8.4): classic table + trailer with /XRefStm. Objects 3 (integer 33) and 4 (string) live in
// the object stream 5; only the cross-reference stream 6 named by /XRefStm mentions 3, 4, 5, 6; the classic table lists them as free
// (that is how such files hide compressed objects from PDF 1.4 readers).
use pdf::file::FileOptions;
use pdf::object::*;

fn hybrid_file() -> Vec<u8> {
    let mut out = b"%PDF-1.5\n".to_vec();
    let o1 = out.len(); out.extend_from_slice(b"1 0 obj\n<< /Type /Catalog /Pages 2 0 R >>\nendobj\n");
    let o2 = out.len(); out.extend_from_slice(b"2 0 obj\n<< /Type /Pages /Kids [] /Count 0 >>\nendobj\n");
    // object stream 5 holding 3 and 4
    let head = b"3 0 4 3 ";
    let body = b"33\n(four)\n";
    let o5 = out.len();
    out.extend_from_slice(format!("5 0 obj\n<< /Type /ObjStm /N 2 /First {} /Length {} >>\nstream\n", head.len(), head.len() + body.len()).as_bytes());
    out.extend_from_slice(head); out.extend_from_slice(body); out.extend_from_slice(b"\nendstream\nendobj\n");
    // cross-reference stream 6: /W [1 2 1], /Index [3 4]: 3 -> (2, stream 5, index 0), 4 -> (2, 5, 1), 5 -> (1, o5, 0), 6 -> (1, o6, 0)
    let o6 = out.len();
    let mut rows = Vec::new();
    for (t, a, b) in [(2u8, 5usize, 0u8), (2, 5, 1), (1, o5, 0), (1, o6, 0)] { rows.push(t); rows.extend_from_slice(&(a as u16).to_be_bytes()); rows.push(b); }
    out.extend_from_slice(format!("6 0 obj\n<< /Type /XRef /Size 7 /W [1 2 1] /Index [3 4] /Length {} >>\nstream\n", rows.len()).as_bytes());
    out.extend_from_slice(&rows); out.extend_from_slice(b"\nendstream\nendobj\n");
    let xref = out.len();
    out.extend_from_slice(format!("xref\n0 7\n0000000003 65535 f \n{:010} 00000 n \n{:010} 00000 n \n0000000004 00000 f \n0000000005 00000 f \n0000000006 00000 f \n0000000000 00000 f \n", o1, o2).as_bytes());
    out.extend_from_slice(format!("trailer\n<< /Size 7 /Root 1 0 R /XRefStm {} >>\nstartxref\n{}\n%%EOF\n", o6, xref).as_bytes());
    out
}

#[test]
fn objects_named_only_by_the_xrefstm_stream_are_found() {
    let file = FileOptions::uncached().load(hybrid_file()).expect("the file loads");
    let r = file.resolver();
    match r.resolve(PlainRef { id: 3, gen: 0 }) {
        Ok(p) => assert_eq!(p.as_integer().unwrap(), 33),
        Err(e) => panic!("object 3 (in object stream 5, named by the /XRefStm stream): {}", e),
    }
    assert_eq!(r.resolve(PlainRef { id: 4, gen: 0 }).unwrap().as_string().unwrap().as_bytes(), b"four");
}
