// BOUNDED native stand-in for `File::pages` (pdf/src/file.rs) and, end to end, for the node layer of the page tree
// (PagesNode::from_primitive, PagesRc::create, PagesRc::from_primitive on real bytes). Placed at pdf/tests/verif_pagenodes_bounded.rs.
//
// Universe: every ordered page tree with <= 6 leaves, <= 3 intermediate (non-root) nodes -- empty intermediate nodes included --
// and depth <= 3 (root = level 1), each with 2 placements of /MediaBox over its nodes and leaves. Every tree is built with the
// crate's public API (FileOptions::storage, Updater::{promise, fulfill, create}, PagesRc::create, Page::new, Storage::save), written
// to bytes, loaded again with FileOptions::load, and then
//   * `num_pages()` is the number of leaves,
//   * `pages()` yields exactly `num_pages()` items, item i is Ok and is the SAME node as `get_page(i)`, which is the i-th leaf in
//     depth-first document order (checked by reference and by a marker stored in /Rotate),
//   * `get_page(n)`, `get_page(n+1)`, `get_page(n+2)` are PageOutOfBounds { page_nr, max: n },
//   * every kid reference loads as a node of the kind the builder wrote (Tree / Leaf),
//   * `media_box()` of every page is its own entry, else that of the nearest ancestor that has one, else MissingEntry.
// Plus concrete samples of the typing rule on `PagesNode::from_primitive` itself (validation of the unit's specification).
use pdf::error::PdfError;
use pdf::file::{FileOptions, NoCache, NoLog, Storage, Trailer};
use pdf::object::*;
use pdf::primitive::{Dictionary, PdfString, Primitive};

type St = Storage<Vec<u8>, NoCache, NoCache, NoLog>;

#[derive(Clone, Debug)]
enum Shape { Leaf, Tree(Vec<Shape>) }

// all kid lists with exactly `l` leaves and `i` intermediate nodes, intermediate nodes nested at most `levels` deep
fn exact(levels: usize, l: usize, i: usize) -> Vec<Vec<Shape>> {
    let mut out = Vec::new();
    if l == 0 && i == 0 { out.push(vec![]); }
    if l >= 1 {
        for rest in exact(levels, l - 1, i) {
            let mut v = vec![Shape::Leaf]; v.extend(rest); out.push(v);
        }
    }
    if levels >= 1 && i >= 1 {
        for a in 0..=l {
            for b in 0..i {
                let subs = exact(levels - 1, a, b);
                if subs.is_empty() { continue; }
                let rests = exact(levels, l - a, i - 1 - b);
                for sub in &subs {
                    for rest in &rests {
                        let mut v = vec![Shape::Tree(sub.clone())]; v.extend(rest.iter().cloned()); out.push(v);
                    }
                }
            }
        }
    }
    out
}
fn count_leaves(kids: &[Shape]) -> u32 {
    kids.iter().map(|k| match k { Shape::Leaf => 1, Shape::Tree(s) => count_leaves(s) }).sum()
}
fn rect(v: usize) -> Rectangle { Rectangle { left: v as f32, bottom: 0., right: 1000., top: 1000. } }

struct Ctx { leaf_refs: Vec<PlainRef>, expected_box: Vec<Option<usize>>, next_node: usize, mask: u64 }
impl Ctx {
    fn own(&mut self) -> Option<usize> {
        let n = self.next_node; self.next_node += 1;
        if (self.mask >> (n % 64)) & 1 == 1 { Some(n) } else { None }
    }
}

fn build_node(st: &mut St, kids: &[Shape], parent: Option<PagesRc>, promise: Option<PromisedRef<PagesNode>>,
              inherited: Option<usize>, ctx: &mut Ctx) -> Result<PagesRc, PdfError> {
    let own = ctx.own();
    let eff = own.or(inherited);
    let promises: Vec<PromisedRef<PagesNode>> = kids.iter().map(|_| st.promise::<PagesNode>()).collect();
    let tree = PageTree {
        parent,
        kids: promises.iter().map(|p| Ref::new(p.get_inner())).collect(),
        count: count_leaves(kids),
        resources: None,
        media_box: own.map(rect),
        crop_box: None,
    };
    let prc = match promise {
        None => PagesRc::create(tree, st)?,
        Some(p) => {
            let rc = st.fulfill(p, PagesNode::Tree(tree))?;
            // the only public way to a PagesRc for an already stored node: read it back through the resolver
            PagesRc::from_primitive(Primitive::Reference(rc.get_ref().get_inner()), &st.resolver())?
        }
    };
    for (kid, kp) in kids.iter().zip(promises) {
        match kid {
            Shape::Leaf => {
                let own_leaf = ctx.own();
                let mut page = Page::new(prc.clone());
                page.rotate = ctx.leaf_refs.len() as i32;
                page.media_box = own_leaf.map(rect);
                ctx.leaf_refs.push(kp.get_inner());
                ctx.expected_box.push(own_leaf.or(eff));
                st.fulfill(kp, PagesNode::Leaf(page))?;
            }
            Shape::Tree(sub) => { build_node(st, sub, Some(prc.clone()), Some(kp), eff, ctx)?; }
        }
    }
    Ok(prc)
}

fn build_file(kids: &[Shape], mask: u64) -> Result<(Vec<u8>, Ctx), PdfError> {
    let mut st: St = FileOptions::uncached().storage();
    let mut ctx = Ctx { leaf_refs: vec![], expected_box: vec![], next_node: 0, mask };
    let root = build_node(&mut st, kids, None, None, None, &mut ctx)?;
    let catalog = Catalog {
        version: Some("1.7".into()), pages: root, names: None, dests: None, metadata: None, outlines: None,
        struct_tree_root: None, forms: None, page_labels: None,
    };
    let mut trailer = Trailer {
        root: st.create(catalog)?, encrypt_dict: None, size: 0,
        id: vec![PdfString::from("foo"), PdfString::from("bar")], info_dict: None, prev_trailer_pos: None,
    };
    st.save(&mut trailer)?;
    Ok((st.into_inner(), ctx))
}

fn check_kinds(resolver: &impl Resolve, tree: &PageTree, kids: &[Shape], what: &str) {
    assert_eq!(tree.kids.len(), kids.len(), "{}: kid count", what);
    assert_eq!(tree.count, count_leaves(kids), "{}: /Count", what);
    for (r, k) in tree.kids.iter().zip(kids) {
        let node = resolver.get(*r).unwrap_or_else(|e| panic!("{}: kid {:?} does not load: {:?}", what, r, e));
        match (&*node, k) {
            (PagesNode::Leaf(_), Shape::Leaf) => {}
            (PagesNode::Tree(t), Shape::Tree(sub)) => check_kinds(resolver, t, sub, what),
            (n, k) => panic!("{}: kid {:?} written as {:?} read as {}", what, r, k, match n { PagesNode::Leaf(_) => "Leaf", PagesNode::Tree(_) => "Tree" }),
        }
    }
}

fn check_shape(kids: &[Shape], mask: u64) {
    let what = format!("{:?} mask {:#x}", kids, mask);
    let (data, ctx) = build_file(kids, mask).unwrap_or_else(|e| panic!("{}: build failed: {:?}", what, e));
    let file = FileOptions::uncached().load(data).unwrap_or_else(|e| panic!("{}: load failed: {:?}", what, e));
    let n = ctx.leaf_refs.len() as u32;
    assert_eq!(n, count_leaves(kids));
    assert_eq!(file.num_pages(), n, "{}: num_pages", what);
    let items: Vec<_> = file.pages().collect();
    assert_eq!(items.len() as u32, n, "{}: pages() item count", what);
    for (i, item) in items.iter().enumerate() {
        let p = item.as_ref().unwrap_or_else(|e| panic!("{}: pages() item {} is Err({:?})", what, i, e));
        let q = file.get_page(i as u32).unwrap_or_else(|e| panic!("{}: get_page({}) is Err({:?})", what, i, e));
        assert_eq!(p.get_ref().get_inner(), q.get_ref().get_inner(), "{}: pages() item {} is not get_page({})", what, i, i);
        assert_eq!(q.get_ref().get_inner(), ctx.leaf_refs[i], "{}: page {} is not the {}-th leaf in document order", what, i, i);
        assert_eq!(p.rotate, i as i32, "{}: marker of page {}", what, i);
        match (ctx.expected_box[i], p.media_box()) {
            (Some(v), Ok(b)) => assert_eq!(b.left, v as f32, "{}: media box of page {}", what, i),
            (None, Err(PdfError::MissingEntry { .. })) => {}
            (e, got) => panic!("{}: media box of page {}: expected {:?}, got {:?}", what, i, e, got),
        }
    }
    for k in 0..3 {
        match file.get_page(n + k) {
            Err(PdfError::PageOutOfBounds { page_nr, max }) => { assert_eq!((page_nr, max), (n + k, n), "{}: out of bounds payload", what); }
            other => panic!("{}: get_page({}) = {:?}", what, n + k, other.map(|p| p.get_ref().get_inner())),
        }
    }
    check_kinds(&file.resolver(), &file.get_root().pages, kids, &what);
}

#[test]
fn pagenodes_bounded_pages_iterator_all_small_trees() {
    let mut shapes = 0usize;
    let mut x: u64 = 0x9E37_79B9_7F4A_7C15;
    for i in 0..=3 {
        for l in 0..=6 {
            for kids in exact(2, l, i) {
                shapes += 1;
                x = x.wrapping_mul(6364136223846793005).wrapping_add(1442695040888963407);
                check_shape(&kids, x >> 20);          // pseudo-random placement of /MediaBox
                check_shape(&kids, if shapes % 2 == 0 { 1 } else { !0 });   // root only / everywhere
            }
        }
    }
    assert_eq!(shapes, 7879, "size of the universe changed");
}

// ---- the typing rule itself on concrete samples (ISO 32000-1 Tables 29/30: /Type required, Pages or Page) ---------------------
fn dict(entries: &[(&str, Primitive)]) -> Primitive {
    let mut d = Dictionary::new();
    for (k, v) in entries { d.insert(*k, v.clone()); }
    Primitive::Dictionary(d)
}
#[test]
fn pagenodes_bounded_typing_samples() {
    let r = NoResolve;
    // no /Type: an error naming the entry, even if the dictionary "looks like" an intermediate node
    match PagesNode::from_primitive(dict(&[("Kids", Primitive::Array(vec![])), ("Count", Primitive::Integer(0))]), &r) {
        Err(PdfError::MissingEntry { typ: "PagesNode", field }) => assert_eq!(field, "Type"),
        other => panic!("no /Type: {:?}", other),
    }
    // a different name
    match PagesNode::from_primitive(dict(&[("Type", Primitive::name("Catalog")), ("Kids", Primitive::Array(vec![])), ("Count", Primitive::Integer(0))]), &r) {
        Err(PdfError::WrongDictionaryType { found, .. }) => assert_eq!(found, "Catalog"),
        other => panic!("/Type /Catalog: {:?}", other),
    }
    // /Type not a name
    match PagesNode::from_primitive(dict(&[("Type", Primitive::Integer(1))]), &r) {
        Err(PdfError::UnexpectedPrimitive { expected: "Name", found: "Integer" }) => {}
        other => panic!("/Type 1: {:?}", other),
    }
    // not a dictionary
    match PagesNode::from_primitive(Primitive::Integer(1), &r) {
        Err(PdfError::UnexpectedPrimitive { expected: "Dictionary", found: "Integer" }) => {}
        other => panic!("integer: {:?}", other),
    }
    // /Type /Pages: an intermediate node with the attributes of the dictionary
    match PagesNode::from_primitive(dict(&[("Type", Primitive::name("Pages")), ("Kids", Primitive::Array(vec![])), ("Count", Primitive::Integer(0))]), &r) {
        Ok(PagesNode::Tree(t)) => { assert_eq!(t.count, 0); assert!(t.kids.is_empty()); assert!(t.parent.is_none()); }
        other => panic!("/Type /Pages: {:?}", other),
    }
    // /Type /Page decides, not the presence of /Kids: read as a leaf (here an error of the leaf reader: no /Parent), never as a tree
    match PagesNode::from_primitive(dict(&[("Type", Primitive::name("Page")), ("Kids", Primitive::Array(vec![])), ("Count", Primitive::Integer(0))]), &r) {
        Err(PdfError::Try { .. }) => {}
        other => panic!("/Type /Page with /Kids: {:?}", other),
    }
    // a node given by a dangling reference: the lookup error itself
    match PagesNode::from_primitive(Primitive::Reference(PlainRef { id: 7, gen: 0 }), &r) {
        Err(PdfError::Reference) => {}
        other => panic!("dangling reference: {:?}", other),
    }
}

// PageRc::create wraps the page it is given and stores a leaf node under a fresh reference
#[test]
fn pagenodes_bounded_pagerc_create() {
    let mut st: St = FileOptions::uncached().storage();
    let tree = PagesRc::create(PageTree { parent: None, kids: vec![], count: 0, resources: None, media_box: None, crop_box: None }, &mut st).unwrap();
    let mut page = Page::new(tree.clone());
    page.rotate = 90;
    let prc = PageRc::create(page, &mut st).unwrap();
    assert_eq!(prc.rotate, 90);
    let r = prc.get_ref();
    let node = st.resolver().get(r).unwrap();
    match &*node { PagesNode::Leaf(p) => assert_eq!(p.rotate, 90), PagesNode::Tree(_) => panic!("created page reads back as a tree") }
    // and the wrappers refuse the other kind
    assert!(matches!(PagesRc::from_primitive(Primitive::Reference(r.get_inner()), &st.resolver()), Err(PdfError::WrongDictionaryType { .. })));
}
