// Unit `pagenodes` (C07; C14/C01 panic freedom; C18 dangling node reference): the page-tree *node* layer that unit
// `pagetree` takes for granted.
//   pdf/src/object/types.rs : PagesNode::from_primitive (typing of a node by /Type), PagesRc::create, PageRc::create,
//                             PageRc::get_ref, PageRc::from_primitive / PagesRc::from_primitive (which error for the other kind)
//   pdf/src/primitive.rs    : Primitive::{resolve, into_dictionary, as_name}, Dictionary::require (the accessors the typing is built from)
//   pdf/src/file.rs         : File::pages (iterator over all pages)
// against ISO 32000-1 7.7.3.2 Table 29 / 7.7.3.3 Table 30: "/Type  name  (Required) shall be Pages for a page tree node" /
// "shall be Page for a page object" -- the /Type entry, and nothing else, decides the kind of a node; a node whose /Type is
// absent or a different name is not a page-tree node (an error, not a guess) -- and against the C07 statement:
// "requesting page i returns the i-th leaf in depth-first document order" for the iterator (item i of `pages()` is `get_page(i)`,
// there are `num_pages()` items).
use vstd::prelude::*;
use std::sync::Arc;
use core::marker::PhantomData;
use core::ops::Range;
use core::ops::Deref;
use std::collections::HashMap;
//@@ INCLUDE _common/error_macros.rs
// R4: `unexpected_primitive!` of pdf/src/error.rs, same control flow (it `return`s the error)
macro_rules! unexpected_primitive {
    ($expected:ident, $found:expr) => ( return Err(PdfError::UnexpectedPrimitive { expected: stringify!($expected), found: $found }) )
}
verus! {
global size_of usize == 8;

//@@ PDFERROR
//@@ DEVIATIONS

// ------------------------------------------------------------------ environment (types not under contract)
pub type ObjNr = u64;
pub type GenNr = u64;
pub type Shared<T> = Arc<T>;
// opaque payload types: nothing in this unit looks inside them
pub struct Resources { opaque: u8 }
pub struct Content { opaque: u8 }
pub struct Annot { opaque: u8 }
pub struct PdfString { opaque: u8 }
pub struct PdfStream { opaque: u8 }
pub struct Lazy<T> { opaque: u8, _marker: PhantomData<T> }
// istring::SmallString: a name is its character sequence
pub struct SmallString { pub chars: Ghost<Seq<char>> }
impl SmallString {
    pub open spec fn view(&self) -> Seq<char> { self.chars@ }
    // trusted: istring::SmallString::as_str
    #[verifier::external_body]
    pub fn as_str(&self) -> (r: &str) ensures r@ == self@ { unimplemented!() }
}
// primitive.rs `struct Dictionary { dict: IndexMap<Name, Primitive> }` as a ghost map from key text to value (order of
// entries not modelled)
pub type DMap = Map<Seq<char>, Primitive>;
pub struct Dictionary { pub m: Ghost<DMap> }

//@@ struct Rectangle
//@@ struct PlainRef
//@@ enum Primitive
//@@ struct Ref
//@@ struct RcRef
//@@ enum MaybeRef
//@@ enum PagesNode
//@@ struct PageRc
//@@ struct PagesRc
//@@ struct PageTree
//@@ struct Page

impl<T> Clone for Ref<T> { fn clone(&self) -> (r: Ref<T>) ensures r == *self { *self } }
impl<T> Copy for Ref<T> {}
impl<T> Deref for RcRef<T> {
    type Target = T;
//@@ RcRef::deref
}
impl<T> RcRef<T> {
    // proved in units/readers: RcRef::get_ref/get_ref_keeps_full_reference
    #[verifier::external_body]
    pub fn get_ref(&self) -> (r: Ref<T>) ensures r.inner == self.inner { unimplemented!() }
}

pub open spec fn debug_name(p: Primitive) -> &'static str {
    match p {
        Primitive::Null => "Null", Primitive::Integer(..) => "Integer", Primitive::Number(..) => "Number",
        Primitive::Boolean(..) => "Boolean", Primitive::String(..) => "String", Primitive::Stream(..) => "Stream",
        Primitive::Dictionary(..) => "Dictionary", Primitive::Array(..) => "Array",
        Primitive::Reference(..) => "Reference", Primitive::Name(..) => "Name",
    }
}
pub open spec fn unexpected<T>(expected: &'static str, p: Primitive) -> Result<T> {
    Err(PdfError::UnexpectedPrimitive { expected: expected, found: debug_name(p) })
}

// ------------------------------------------------------------------ the object store behind a `Resolve`
// untyped view: what `resolve(n g R)` yields (the stored object, or the error of looking it up);
// typed view: which page-tree node `get::<PagesNode>(n g R)` hands out (unit pagetree's `World`).
// How the two are linked (get = from_primitive of resolve, cached, guarded) is the business of units/guard and units/cachetransp.
#[verifier::external_body] pub struct Store { _p: () }
pub uninterp spec fn obj(st: Store, r: PlainRef) -> Result<Primitive>;
pub type World = Map<PlainRef, PagesNode>;
pub trait Resolve {
    spec fn store(&self) -> Store;
    spec fn world(&self) -> World;
    // pdf/src/object/mod.rs: Resolve::resolve (= resolve_flags(r, ANY, 16)); `never a reference`: proved for the crate's
    // resolver in units/guard: StorageResolver::resolve_flags/never_a_reference
    fn resolve(&self, r: PlainRef) -> (res: Result<Primitive>)
        ensures
            res == obj(self.store(), r),
            !(res matches Ok(Primitive::Reference(_)));
}
/// an indirect reference stands for the object it refers to (ISO 32000-1 7.3.10)
pub open spec fn deref1(p: Primitive, st: Store) -> Result<Primitive> {
    match p { Primitive::Reference(id) => obj(st, id), _ => Ok(p) }
}

impl Dictionary {
    pub open spec fn view(&self) -> DMap { self.m@ }
    // trusted: IndexMap::remove behind `Dictionary::remove` (primitive.rs:139): the entry is taken out and handed to the caller
    #[verifier::external_body]
    pub fn remove(&mut self, key: &str) -> (r: Option<Primitive>)
        ensures final(self)@ == old(self)@.remove(key@),
            r == (if old(self)@.dom().contains(key@) { Some(old(self)@[key@]) } else { None::<Primitive> })
    { unimplemented!() }
//@@ Dictionary::require
}
impl Primitive {
    // proved in units/readers: Primitive::get_debug_name/spec
    #[verifier::external_body]
    pub fn get_debug_name(&self) -> (r: &'static str) ensures r == debug_name(*self) { unimplemented!() }
//@@ Primitive::resolve
//@@ Primitive::into_dictionary
//@@ Primitive::as_name
}
// R9 helper: string equality (L0)
#[verifier::external_body]
fn str_eq(a: &str, b: &str) -> (r: bool) ensures r == (a@ == b@) { a == b }

// ------------------------------------------------------------------ derived readers of the two node dictionaries
// `#[derive(Object)] #[pdf(Type = "Page?")] struct Page` / `#[pdf(Type = "Pages?")] struct PageTree`: the reader is a function
// of the dictionary and the store. Proved (against the attribute tables, entry by entry, every Err case) in
// units/expansions_all_b: Page::from_dict/rd_model (`r == page_read(dict@, store)`), PageTree::from_dict/rd_model.
pub uninterp spec fn page_read(m: DMap, st: Store) -> Result<Page>;
pub uninterp spec fn page_tree_read(m: DMap, st: Store) -> Result<PageTree>;
impl Page {
    #[verifier::external_body]
    pub fn from_dict<R: Resolve>(dict: Dictionary, resolve: &R) -> (r: Result<Page>)
        ensures r == page_read(dict@, resolve.store())
    { unimplemented!() }
}
impl PageTree {
    #[verifier::external_body]
    pub fn from_dict<R: Resolve>(dict: Dictionary, resolve: &R) -> (r: Result<PageTree>)
        ensures r == page_tree_read(dict@, resolve.store())
    { unimplemented!() }
}

// ------------------------------------------------------------------ specification: what node a primitive denotes
// ISO 32000-1 7.7.3: a page-tree node is a dictionary (given directly or through an indirect reference) whose /Type entry is the
// name Pages (intermediate node, Table 29) or the name Page (leaf, Table 30); both tables mark /Type "Required". The remaining
// entries are the node's attributes (the /Type entry is consumed by the typing step, the attribute reader sees the others).
pub enum Kind { Leaf, Tree }
/// the kind that the /Type entry of a node dictionary declares; None = not a page-tree node
pub open spec fn declared_kind(d: DMap) -> Option<Kind> {
    if d.dom().contains("Type"@) {
        match d["Type"@] {
            Primitive::Name(s) => if s@ == "Page"@ { Some(Kind::Leaf) } else if s@ == "Pages"@ { Some(Kind::Tree) } else { None },
            _ => None,
        }
    } else { None }
}
/// the node that primitive `p` denotes in store `st`; None = it denotes no page-tree node, reading it must fail
pub open spec fn node_model(p: Primitive, st: Store) -> Option<PagesNode> {
    match deref1(p, st) {
        Ok(Primitive::Dictionary(d)) => match declared_kind(d@) {
            Some(Kind::Leaf) => match page_read(d@.remove("Type"@), st) { Ok(pg) => Some(PagesNode::Leaf(pg)), Err(_) => None },
            Some(Kind::Tree) => match page_tree_read(d@.remove("Type"@), st) { Ok(t) => Some(PagesNode::Tree(t)), Err(_) => None },
            None => None,
        },
        _ => None,
    }
}
/// the node dictionary behind `p` (when there is one)
pub open spec fn node_dict(p: Primitive, st: Store) -> Option<DMap> {
    match deref1(p, st) { Ok(Primitive::Dictionary(d)) => Some(d@), _ => None }
}
/// TOL_INDIRECT_TYPE_VALUE: the value of /Type is itself an indirect reference (`/Type 9 0 R`). ISO 7.3.10 would let the
/// reference stand for the name; C07 quantifies over tree shapes, not over such spellings, and the crate compares /Type
/// entries directly everywhere (Dictionary::expect). The contracts leave this one case open (error today; following the
/// reference would be accepted as well).
pub open spec fn type_value_is_indirect(p: Primitive, st: Store) -> bool {
    TOL_INDIRECT_TYPE_VALUE() && (node_dict(p, st) matches Some(d) && d.dom().contains("Type"@) && d["Type"@] is Reference)
}
// sanity of the specification itself: the two names are different names, so no dictionary is both kinds; a dictionary without
// /Type and one with /Type /Catalog denote no node
pub proof fn spec_example(d: DMap, s: SmallString)
    ensures
        "Page"@ != "Pages"@,
        !d.dom().contains("Type"@) ==> declared_kind(d) is None,
        d.dom().contains("Type"@) && d["Type"@] == Primitive::Name(s) && s@ == "Catalog"@ ==> declared_kind(d) is None,
        d.dom().contains("Type"@) && d["Type"@] == Primitive::Name(s) && s@ == "Pages"@ ==> declared_kind(d) == Some(Kind::Tree),
        d.dom().contains("Type"@) && d["Type"@] == Primitive::Name(s) && s@ == "Page"@ ==> declared_kind(d) == Some(Kind::Leaf),
{
    reveal_strlit("Page"); reveal_strlit("Pages"); reveal_strlit("Catalog");
    assert("Page"@.len() == 4); assert("Pages"@.len() == 5); assert("Catalog"@.len() == 7);
}

impl PagesNode {
//@@ PagesNode::from_primitive
}

// ------------------------------------------------------------------ the two wrappers (same env as units/pagetree)
// callee of PagesRc/PageRc::from_primitive. proved in units/pagetree: RcRef::from_primitive/reference_denotes_stored_node
pub open spec fn denotes(w: World, p: Primitive, r: Result<RcRef<PagesNode>>) -> bool {
    match p {
        Primitive::Reference(rf) => (r is Ok <==> w.dom().contains(rf)) && (r matches Ok(n) ==> n.inner == rf && *n.data == w[rf]),
        _ => r is Err,
    }
}
impl RcRef<PagesNode> {
    #[verifier::external_body]
    pub fn from_primitive<R: Resolve>(p: Primitive, resolve: &R) -> (r: Result<RcRef<PagesNode>>)
        ensures denotes(resolve.world(), p, r)
    { unimplemented!() }
}
// `Updater` (pdf/src/object/mod.rs:109): only `create` is used here, instantiated at T = PagesNode (the real method is generic
// in T: ObjectWrite). `created()` = the nodes created through this updater, under their references.
// For the crate's updater (Storage, file.rs:399) see `Storage::create` below: `create_holds_value`.
pub trait Updater: Sized {
    spec fn created(&self) -> World;
    fn create(&mut self, obj: PagesNode) -> (r: Result<RcRef<PagesNode>>)
        ensures
            r is Err ==> final(self).created() == old(self).created(),
            r matches Ok(rc) ==> !old(self).created().dom().contains(rc.inner)
                && final(self).created() == old(self).created().insert(rc.inner, obj)
                && *rc.data == obj;
}
impl PagesRc {
    // established by the only constructors (from_primitive, create), the tuple field is private in /repo and stays private here
    #[verifier::type_invariant]
    pub closed spec fn inv(&self) -> bool { *self.0.data is Tree }
    pub closed spec fn tree(&self) -> PageTree { (*self.0.data)->Tree_0 }
    pub closed spec fn rc(&self) -> RcRef<PagesNode> { self.0 }
//@@ PagesRc::create
//@@ PagesRc::from_primitive
}
impl PageRc {
    #[verifier::type_invariant]
    pub closed spec fn inv(&self) -> bool { *self.0.data is Leaf }
    pub closed spec fn page(&self) -> Page { (*self.0.data)->Leaf_0 }
    pub closed spec fn rc(&self) -> RcRef<PagesNode> { self.0 }
//@@ PageRc::create
//@@ PageRc::get_ref
//@@ PageRc::from_primitive
}
/// `p` is a reference to a stored node
pub open spec fn stored(w: World, p: Primitive) -> bool { p matches Primitive::Reference(rf) && w.dom().contains(rf) }
pub open spec fn stored_node(w: World, p: Primitive) -> PagesNode { w[p->Reference_0] }

// ------------------------------------------------------------------ specification: leaves in document order
// (copied from units/pagetree/unit.rs, where page_limited / get_page are proved against it)
pub open spec fn node_leaves(w: World, k: Ref<PagesNode>, d: nat) -> Seq<PlainRef>
    decreases d, 0nat
{
    match w[k.inner] {
        PagesNode::Leaf(_) => seq![k.inner],
        PagesNode::Tree(t) => if d <= 1 { Seq::empty() } else { leaves(w, t.kids@, (d - 1) as nat) },
    }
}
pub open spec fn leaves(w: World, kids: Seq<Ref<PagesNode>>, d: nat) -> Seq<PlainRef>
    decreases d, 1 + kids.len()
{
    if kids.len() == 0 { Seq::empty() } else { node_leaves(w, kids[0], d) + leaves(w, kids.skip(1), d) }
}
pub open spec fn wf_kids(w: World, kids: Seq<Ref<PagesNode>>, d: nat) -> bool
    decreases d, kids.len()
{
    kids.len() == 0 || (
        w.dom().contains(kids[0].inner)
        && (match w[kids[0].inner] {
            PagesNode::Leaf(_) => true,
            PagesNode::Tree(t) => d >= 2 && t.count == leaves(w, t.kids@, (d - 1) as nat).len() && wf_kids(w, t.kids@, (d - 1) as nat),
        })
        && wf_kids(w, kids.skip(1), d))
}
pub open spec fn wf_tree(w: World, t: PageTree, d: nat) -> bool {
    d >= 1 && wf_kids(w, t.kids@, d) && t.count == leaves(w, t.kids@, d).len()
}
pub open spec fn tree_leaves(w: World, t: PageTree, d: nat) -> Seq<PlainRef> { leaves(w, t.kids@, d) }
pub open spec fn lookup_spec(w: World, t: PageTree, d: nat, page_nr: u32, r: Result<PageRc>) -> bool {
    if page_nr < t.count {
        r matches Ok(p) && p.rc().inner == tree_leaves(w, t, d)[page_nr as int]
            && *p.rc().data == w[tree_leaves(w, t, d)[page_nr as int]]
    } else {
        r matches Err(PdfError::PageOutOfBounds { page_nr: pn, max }) && pn == page_nr && max == t.count
    }
}

// ------------------------------------------------------------------ iterator model for `File::pages`
// `(a .. b).map(f)` (core::ops::Range<u32> as Iterator, core::iter::Map): a lazy iterator with max(b - a, 0) items, item
// number i being the value of `f(a + i)`; nothing else is yielded (trusted L0 model of the two std adaptors; the real
// iterator is also exercised by the bounded native test `pages_iter_bounded.rs`).
pub struct MapRange<F> { pub range: Range<u32>, pub f: F }
pub trait ItemIter<T> {
    /// number of items the iterator yields
    spec fn count(&self) -> nat;
    /// `x` can be item number `i` (0-based)
    spec fn yields(&self, i: nat, x: T) -> bool;
}
impl<T, F: Fn(u32) -> T> ItemIter<T> for MapRange<F> {
    open spec fn count(&self) -> nat { if self.range.end >= self.range.start { (self.range.end - self.range.start) as nat } else { 0 } }
    open spec fn yields(&self, i: nat, x: T) -> bool { i < self.count() && self.f.ensures(((self.range.start + i) as u32,), x) }
}
// R7: `(RANGE).map(F)`
#[verifier::external_body]
pub fn range_map<T, F: Fn(u32) -> T>(r: Range<u32>, f: F) -> (m: MapRange<F>)
    requires forall|n: u32| r.start <= n < r.end ==> f.requires((n,))
    ensures m.range == r, m.f == f
{ /* hoisted text: `r.map(f)` */ unimplemented!() }

// ------------------------------------------------------------------ File (pdf/src/file.rs), env as in units/pagetree
// Storage reduced (R2) to what `File::get_page` (ghost: the typed store its resolver reads) and the Updater impl's `create` touch
pub struct Storage { pub w: Ghost<World>, pub refs: XRefTable, pub changes: HashMap<ObjNr, (Primitive, GenNr)> }
//@@ enum XRef
pub struct XRefTable { pub entries: Vec<XRef> }
impl XRefTable {
    // proved in units/updater: XRefTable::len/len_is_len
    #[verifier::external_body]
    pub fn len(&self) -> (r: usize) ensures r == self.entries@.len() { unimplemented!() }
    // proved in units/updater: XRefTable::push/push_appends
    #[verifier::external_body]
    pub fn push(&mut self, new_entry: XRef) ensures final(self).entries@ == old(self).entries@.push(new_entry) { unimplemented!() }
    // proved in units/updater: XRefTable::set/set_update (call site here: the error path of Storage::create, fix failed_create_blocks_save)
    #[verifier::external_body]
    pub fn set(&mut self, id: ObjNr, r: XRef) requires id < old(self).entries@.len() ensures final(self).entries@ == old(self).entries@.update(id as int, r) { unimplemented!() }
}
impl<T> RcRef<T> {
    // proved in units/updater: RcRef::new/new_fields
    #[verifier::external_body]
    pub fn new(inner: PlainRef, data: Shared<T>) -> (r: RcRef<T>) ensures r.inner == inner && r.data == data { unimplemented!() }
}
// abstract callee of `create`: any writer, free to allocate further objects through the updater (the storage is havocked
// except that the table does not shrink; what else it does to the table is the subject of units/updater)
pub trait ObjectWrite: Sized {
    // the one clause kept: ids are only appended (the `extends` clause of the TRUSTED env contract of `to_primitive` in units/updater);
    // Storage::create relies on it when it frees the reserved number on its error path
    fn to_primitive(&self, update: &mut Storage) -> (r: Result<Primitive>)
        ensures final(update).refs.entries@.len() >= old(update).refs.entries@.len();
}
// `impl Updater for Storage` (file.rs:392), the crate's only real updater: its `create` hands back the value it was given under
// the next free object number -- this is the clause `*rc.data == obj` of the env trait `Updater` above, proved for Storage.
impl Storage {
//@@ Storage::create
}
pub struct Catalog { pub pages: PagesRc }
pub struct Trailer { pub root: RcRef<Catalog> }
pub struct File { pub storage: Storage, pub trailer: Trailer }
impl File {
    pub open spec fn root_tree(&self) -> PageTree { (*self.trailer.root.data).pages.tree() }
    /// what `get_page(n)` returns (a function of the file: the resolver is transparent, units/cachetransp)
    pub uninterp spec fn get_page_post(&self, n: u32, r: Result<PageRc>) -> bool;
    // proved in units/pagetree: File::num_pages/num_pages_is_root_count (+ num_pages_is_leaf_count)
    #[verifier::external_body]
    pub fn num_pages(&self) -> (r: u32) ensures r == self.root_tree().count { unimplemented!() }
    // proved in units/pagetree: File::get_page/get_page_lookup
    #[verifier::external_body]
    pub fn get_page(&self, n: u32) -> (r: Result<PageRc>)
        ensures
            self.get_page_post(n, r),
            wf_tree(self.storage.w@, self.root_tree(), 16) ==> lookup_spec(self.storage.w@, self.root_tree(), 16, n, r),
    { unimplemented!() }
//@@ File::pages
}
}
fn main(){}
