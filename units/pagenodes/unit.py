T = 'pdf/src/object/types.rs'
M = 'pdf/src/object/mod.rs'
P = 'pdf/src/primitive.rs'
FILE = 'pdf/src/file.rs'

ST = 'resolve.store()'
W = 'resolve.world()'
SAFE = ['C07', 'C14', 'C01']


def sig(find, replace, rule='R2'):
    return {'where': 'sig', 'rule': rule, 'find': find, 'replace': replace}


# R2: `&impl Resolve` / `&mut impl Updater` arguments as named generics (Verus mistypes `impl Trait` arguments in specs)
def RESOLVE_GENERIC(fn):
    return [{'where': 'sig', 'rule': 'R2', 'regex': r'\bfn %s\(' % fn, 'replace': 'fn %s<R__: Resolve>(' % fn},
            {'where': 'sig', 'rule': 'R2', 'regex': r'&impl Resolve', 'replace': '&R__'}]


UPDATER_GENERIC = [{'where': 'sig', 'rule': 'R2', 'regex': r'\bfn create\(', 'replace': 'fn create<U__: Updater>('},
                   {'where': 'sig', 'rule': 'R2', 'regex': r'&mut impl Updater', 'replace': '&mut U__'}]

OKN = 'Ok::<PagesNode, PdfError>'
ERRN = 'Err::<PagesNode, PdfError>'

# ---- PagesNode::from_primitive ------------------------------------------------------------------------------------------------
# R9: `match <E>?.as_name()? { "Page" => A, "Pages" => B, other => C }` -> if-chain over str_eq. Shape-only regexes with count '*'
# on the arms, so that swapped / duplicated / guessing arms reach the verifier instead of stopping at an anchor.
LITS = ('proof { reveal_strlit("Page"); reveal_strlit("Pages"); reveal_strlit("Type"); '
        'assert("Page"@.len() == 4); assert("Pages"@.len() == 5); } ')
NODE_RW = RESOLVE_GENERIC('from_primitive') + [
    {'rule': 'R9', 'regex': r'match\s+(.*?)\?\s*\.as_name\(\)\?\s*\{',
     'replace': r'{ let ty__ = \1?; let s__ = ty__.as_name()?; ' + LITS},
    {'rule': 'R9', 'count': '*', 'regex': r'"(\w+)"\s*=>\s*((?:Ok|Err)\([^\n]*\)),[ \t]*\n', 'replace': r'if str_eq(s__, "\1") { \2 } else' + '\n'},
    {'rule': 'R9', 'count': '*', 'regex': r'\b([a-z_]\w*)\s*=>\s*((?:Ok|Err)\([^\n]*\)),?[ \t]*\n', 'replace': r'{ let \1 = s__; \2 }' + '\n'},
    # R3: String payloads of WrongDictionaryType
    {'rule': 'R3', 'count': '*', 'regex': r'PdfError::WrongDictionaryType\s*\{[^{}]*\}', 'replace': 'PdfError::WrongDictionaryType'},
]
NODE_ENS = [
    # the whole Ok/Err decision and the whole value
    ('node_is_typed_by_type_entry',
     'type_value_is_indirect(p, %s) || match node_model(p, %s) { Some(n) => r == %s(n), None => r is Err }' % (ST, ST, OKN)),
    # which error (C18: a required object that is missing / malformed is an error that names what is wrong, never a panic)
    ('dangling_reference_is_its_lookup_error',
     'deref1(p, %s) matches Err(e) ==> r == %s(e)' % (ST, ERRN)),
    ('not_a_dictionary_is_error',
     'deref1(p, %s) matches Ok(q) ==> (!(q is Dictionary) ==> r == unexpected::<PagesNode>("Dictionary", q))' % ST),
    ('missing_type_is_missing_entry',
     'node_dict(p, %s) matches Some(d) ==> (!d.dom().contains("Type"@) ==> r == %s(PdfError::MissingEntry { typ: "PagesNode" }))' % (ST, ERRN)),
    ('type_not_a_name_is_error',
     'node_dict(p, %s) matches Some(d) ==> (d.dom().contains("Type"@) && !(d["Type"@] is Name) && !(d["Type"@] is Reference) ==> r == unexpected::<PagesNode>("Name", d["Type"@]))' % ST),
    ('other_type_is_wrong_dictionary_type',
     'node_dict(p, %s) matches Some(d) ==> (d.dom().contains("Type"@) && d["Type"@] is Name && declared_kind(d) is None ==> r == %s(PdfError::WrongDictionaryType))' % (ST, ERRN)),
    ('attribute_error_is_wrapped',
     'node_dict(p, {st}) matches Some(d) ==> ('
     '(declared_kind(d) == Some(Kind::Leaf) ==> (page_read(d.remove("Type"@), {st}) matches Err(e) ==> r == {err}(PdfError::Try {{ source: Box::new(e) }})))'
     ' && (declared_kind(d) == Some(Kind::Tree) ==> (page_tree_read(d.remove("Type"@), {st}) matches Err(e) ==> r == {err}(PdfError::Try {{ source: Box::new(e) }}))))'.format(st=ST, err=ERRN)),
]

# ---- File::pages ------------------------------------------------------------------------------------------------------------------
# (`//@L label` line tags attribute a failing closure postcondition to the obligation it serves)
GP_POST = ('self.get_page_post({n}, x__), //@L pages_item_i_is_get_page_i\n '
           'wf_tree(self.storage.w@, self.root_tree(), 16) ==> lookup_spec(self.storage.w@, self.root_tree(), 16, {n}, x__) //@L pages_in_document_order\n')
PAGES_RW = [
    {'where': 'sig', 'rule': 'R2', 'regex': r"impl Iterator<Item\s*=\s*Result<PageRc>>\s*\+\s*'_", 'replace': "impl ItemIter<Result<PageRc>> + '_"},
    # R7: `(RANGE).map(F)` -> range_map(RANGE, F): the range expression and the closure stay verbatim under proof
    {'rule': 'R7', 'regex': r'\(((?:[^()]|\([^()]*\))*)\)\s*\.map\(', 'replace': r'range_map(\1, '},
    # R1: the closure gets its parameter type and what it computes as `ensures` (Verus gives an unannotated closure none);
    # the closure body is unchanged and verified against it
    {'rule': 'R1', 'regex': r'move\s*\|(\w+)\|\s*(.*)\)', 'replace':
        r'move |\1: u32| -> (x__: Result<PageRc>) ensures ' + GP_POST.format(n=r'\1') + r' { \2 })'},
]

CTOR_ERR = 'PdfError::Try { source: Box::new(PdfError::WrongDictionaryType) }'

UNIT = {
 'name': 'pagenodes',
 'doc': 'Page-tree node layer: typing of a node by /Type, the PagesRc / PageRc wrappers (create, from_primitive, get_ref), File::pages',
 'timeout': 600,
 'tolerances': {'TOL_INDIRECT_TYPE_VALUE': 'a node dictionary whose /Type VALUE is an indirect reference (`/Type 9 0 R`): C07 quantifies over tree '
                                           'shapes, not over this spelling; the crate compares /Type entries directly everywhere (error today), a reader that '
                                           'followed the reference would be accepted too'},
 # BOUNDED stand-in (never counted among the proof obligations): the real `File::pages` iterator (std Range + Map adaptors, which the
 # Verus item above reads through the trusted model `MapRange`) and the node layer end to end on real bytes
 'native': {'tests': [
    {'name': 'pages_iterator_all_small_trees', 'code': 'pages_iter_bounded.rs', 'place': 'pdf/tests/verif_pagenodes_bounded.rs',
     'fn': 'File::pages', 'props': ['C07'], 'tier': 'quick', 'timeout': 900,
     'bound': 'all 7879 ordered page trees with <= 6 leaves, <= 3 intermediate nodes (empty ones included), depth <= 3, x 2 placements of '
              '/MediaBox; built with the public API (Updater::promise/fulfill/create, PagesRc::create, Storage::save), saved, reloaded; '
              '+ 7 concrete samples of the /Type rule, + PageRc::create read back',
     'contract': 'pages() yields exactly num_pages() items; item i is Ok and is the same node as get_page(i) = the i-th leaf in document order; '
                 'get_page(n..n+2) are PageOutOfBounds{page_nr, max: n}; every kid loads as the kind that was written; media_box() = own entry '
                 'else nearest ancestor else MissingEntry'},
 ]},
 'items': {
  # ---------------------------------------------------------------- data types, taken from /repo
  'struct Rectangle': {'kind': 'decl', 'file': T, 'header': r'^pub struct Rectangle$', 'attrs': ['#[derive(Clone, Copy)]']},
  'struct PlainRef': {'kind': 'decl', 'file': M, 'header': r'^pub struct PlainRef$', 'attrs': ['#[derive(Clone, Copy)]']},
  'enum Primitive': {'kind': 'decl', 'file': P, 'header': r'^pub enum Primitive$'},
  'struct Ref': {'kind': 'decl', 'file': M, 'header': r'^pub struct Ref<T>$',
      'rewrites': [{'rule': 'R2', 'find': 'inner:', 'replace': 'pub inner:'},
                   {'rule': 'R2', 'find': '_marker:', 'replace': 'pub _marker:'}]},
  'struct RcRef': {'kind': 'decl', 'file': M, 'header': r'^pub struct RcRef<T>$',
      'rewrites': [{'rule': 'R2', 'find': 'inner:', 'replace': 'pub inner:'},
                   {'rule': 'R2', 'find': 'data:', 'replace': 'pub data:'}]},
  'enum MaybeRef': {'kind': 'decl', 'file': M, 'header': r'^pub enum MaybeRef<T>$'},
  'enum PagesNode': {'kind': 'decl', 'file': T, 'header': r'^pub enum PagesNode$'},
  # the tuple field of both wrappers stays private, as in /repo: that is what makes the type invariant sound
  'struct PageRc': {'kind': 'decl', 'file': T, 'header': r'^pub struct PageRc\('},
  'struct PagesRc': {'kind': 'decl', 'file': T, 'header': r'^pub struct PagesRc\('},
  'struct PageTree': {'kind': 'decl', 'file': T, 'header': r'^pub struct PageTree$'},
  'struct Page': {'kind': 'decl', 'file': T, 'header': r'^pub struct Page$'},

  # trait method: no canary twin possible (also under contract in units/pagetree)
  'RcRef::deref': {'kind': 'fn', 'file': M, 'container': r'^impl<T> Deref for RcRef<T>$', 'name': 'deref', 'props': ['C07'], 'canary': False,
      'ensures': [('deref_is_data', '*r == *self.data')]},

  # ---------------------------------------------------------------- the accessors the typing step is built from (primitive.rs)
  'Dictionary::require': {'kind': 'fn', 'file': P, 'container': r'^impl Dictionary$', 'name': 'require', 'props': ['C07', 'C18', 'C14'],
      'ensures': [('require_hands_out_entry', 'old(self)@.dom().contains(key@) ==> r == Ok::<Primitive, PdfError>(old(self)@[key@])'),
                  ('require_absent_is_missing_entry', '!old(self)@.dom().contains(key@) ==> r == Err::<Primitive, PdfError>(PdfError::MissingEntry { typ: typ })'),
                  ('require_takes_entry_out', 'final(self)@ == old(self)@.remove(key@)')],
      'rewrites': [{'rule': 'R3', 'regex': r',\s*field:\s*key\.into\(\)', 'replace': ''}]},
  'Primitive::resolve': {'kind': 'fn', 'file': P, 'container': r'^impl Primitive$', 'name': 'resolve', 'props': ['C07', 'C18', 'C14'], 'ret': 'res',
      'ensures': [('resolve_is_deref', 'res == deref1(self, r.store())'),
                  ('resolve_never_a_reference', '!(res matches Ok(Primitive::Reference(_)))')],
      'rewrites': [sig('r: &impl Resolve', 'r: &R__'), sig('fn resolve(', 'fn resolve<R__: Resolve>(')]},
  'Primitive::into_dictionary': {'kind': 'fn', 'file': P, 'container': r'^impl Primitive$', 'name': 'into_dictionary', 'props': ['C07', 'C14'],
      'ensures': [('into_dictionary_spec', 'r == (match self { Primitive::Dictionary(d) => Ok::<Dictionary, PdfError>(d), _ => unexpected("Dictionary", self) })')]},
  'Primitive::as_name': {'kind': 'fn', 'file': P, 'container': r'^impl Primitive$', 'name': 'as_name', 'props': ['C07', 'C14'],
      'ensures': [('as_name_spec', 'match *self { Primitive::Name(s) => r matches Ok(n) && n@ == s@, q => r == unexpected::<&str>("Name", q) }')]},

  # ---------------------------------------------------------------- node typing
  'PagesNode::from_primitive': {'kind': 'fn', 'file': T, 'container': r'^impl Object for PagesNode$', 'name': 'from_primitive',
      'props': SAFE + ['C18'], 'ensures': NODE_ENS, 'rewrites': NODE_RW},

  # ---------------------------------------------------------------- wrappers
  'PagesRc::create': {'kind': 'fn', 'file': T, 'container': r'^impl PagesRc$', 'name': 'create', 'props': SAFE,
      'ensures': [('create_wraps_given_tree', 'r matches Ok(x) ==> x.inv() && x.tree() == tree'),
                  ('create_stores_tree_node', 'r matches Ok(x) ==> !old(update).created().dom().contains(x.rc().inner) '
                                              '&& final(update).created() == old(update).created().insert(x.rc().inner, PagesNode::Tree(tree))'),
                  ('create_err_creates_nothing', 'r is Err ==> final(update).created() == old(update).created()')],
      'rewrites': UPDATER_GENERIC},
  'PageRc::create': {'kind': 'fn', 'file': T, 'container': r'^impl PageRc$', 'name': 'create', 'props': SAFE,
      'ensures': [('create_wraps_given_page', 'r matches Ok(x) ==> x.inv() && x.page() == page'),
                  ('create_stores_leaf_node', 'r matches Ok(x) ==> !old(update).created().dom().contains(x.rc().inner) '
                                              '&& final(update).created() == old(update).created().insert(x.rc().inner, PagesNode::Leaf(page))'),
                  ('create_err_creates_nothing', 'r is Err ==> final(update).created() == old(update).created()')],
      'rewrites': UPDATER_GENERIC},
  'PageRc::get_ref': {'kind': 'fn', 'file': T, 'container': r'^impl PageRc$', 'name': 'get_ref', 'props': ['C07'],
      'ensures': [('get_ref_is_node_reference', 'r.inner == self.rc().inner')]},
  'PagesRc::from_primitive': {'kind': 'fn', 'file': T, 'container': r'^impl Object for PagesRc$', 'name': 'from_primitive',
      'props': SAFE,
      'ensures': [('tree_wrapper_ok_iff_stored_tree', 'r is Ok <==> stored(%s, p) && stored_node(%s, p) is Tree' % (W, W)),
                  ('tree_wrapper_holds_stored_node', 'r matches Ok(x) ==> x.inv() && x.rc().inner == p->Reference_0 && *x.rc().data == stored_node(%s, p)' % W),
                  ('leaf_is_wrong_dictionary_type', 'stored(%s, p) && stored_node(%s, p) is Leaf ==> r == Err::<PagesRc, PdfError>(PdfError::WrongDictionaryType)' % (W, W))],
      'rewrites': RESOLVE_GENERIC('from_primitive') + [
          {'rule': 'R3', 'count': '*', 'regex': r'PdfError::WrongDictionaryType\s*\{[^{}]*\}', 'replace': 'PdfError::WrongDictionaryType'}]},
  'PageRc::from_primitive': {'kind': 'fn', 'file': T, 'container': r'^impl Object for PageRc$', 'name': 'from_primitive',
      'props': SAFE,
      'ensures': [('leaf_wrapper_ok_iff_stored_leaf', 'r is Ok <==> stored(%s, p) && stored_node(%s, p) is Leaf' % (W, W)),
                  ('leaf_wrapper_holds_stored_node', 'r matches Ok(x) ==> x.inv() && x.rc().inner == p->Reference_0 && *x.rc().data == stored_node(%s, p)' % W),
                  ('tree_is_wrong_dictionary_type', 'stored(%s, p) && stored_node(%s, p) is Tree ==> r == Err::<PageRc, PdfError>(PdfError::WrongDictionaryType)' % (W, W))],
      'rewrites': RESOLVE_GENERIC('from_primitive') + [
          {'rule': 'R3', 'count': '*', 'regex': r'PdfError::WrongDictionaryType\s*\{[^{}]*\}', 'replace': 'PdfError::WrongDictionaryType'}]},

  # ---------------------------------------------------------------- the crate's updater: what `create` hands back
  'enum XRef': {'kind': 'decl', 'file': 'pdf/src/xref.rs', 'header': r'^pub enum XRef$', 'attrs': ['#[derive(Clone, Copy)]']},
  'Storage::create': {'kind': 'fn', 'file': FILE, 'container': r'^impl<B, OC, SC, L> Updater for Storage<B, OC, SC, L>', 'name': 'create',
      'props': ['C07', 'C14'],
      'ensures': [('create_holds_value', 'r matches Ok(rc) ==> *rc.data == obj'),
                  ('create_reference_is_next_slot', 'r matches Ok(rc) ==> rc.inner.id == old(self).refs.entries@.len() && rc.inner.gen == 0')],
      'rewrites': [{'rule': 'R1', 'regex': r'\A\s*\{', 'replace': '{ broadcast use vstd::std_specs::hash::group_hash_axioms;'}]},

  # ---------------------------------------------------------------- File::pages
  'File::pages': {'kind': 'fn', 'file': FILE, 'container': r'^impl<B, OC, SC, L> File<B, OC, SC, L> where B: Backend', 'name': 'pages',
      'props': SAFE,
      'ensures': [('pages_yields_num_pages_items', 'r.count() == self.root_tree().count'),
                  ('pages_item_i_is_get_page_i', 'forall|i: nat, x: Result<PageRc>| #[trigger] r.yields(i, x) ==> i < self.root_tree().count && self.get_page_post(i as u32, x)'),
                  ('pages_in_document_order', 'wf_tree(self.storage.w@, self.root_tree(), 16) ==> forall|i: nat, x: Result<PageRc>| #[trigger] r.yields(i, x) ==> '
                                              'i < self.root_tree().count && lookup_spec(self.storage.w@, self.root_tree(), 16, i as u32, x)')],
      'rewrites': PAGES_RW},
 },
}
