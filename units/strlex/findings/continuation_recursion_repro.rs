// Finding strlex/continuation_recursion (C01): drop into a scratch copy as pdf/tests/strlex_continuation_recursion.rs and run
//   CARGO_TARGET_DIR=/tmp/strlex_target cargo test --offline -p pdf --test strlex_continuation_recursion
// `StringLexer::next_lexeme` calls itself once per backslash + end-of-line marker (line continuation) and once per
// backslash that is followed by a character outside Table 3.  Such sequences produce no byte of the value, so a run of N of
// them is N nested calls for ONE lexeme: the stack depth is proportional to attacker-controlled input.
// On the unchanged tree every test below kills the test process with
//   thread '<name>' has overflowed its stack / fatal runtime error: stack overflow / SIGABRT
// (a stack overflow is not a panic: it cannot be caught, the whole process dies).  With
// findings/continuation_recursion_fix.diff all four pass.
use pdf::object::NoResolve;
use pdf::parser::{parse, ParseFlags, StringLexer};
use pdf::primitive::Primitive;

fn repeated(unit: &[u8], n: usize, tail: &[u8]) -> Vec<u8> {
    let mut v = Vec::with_capacity(unit.len() * n + tail.len() + 1);
    for _ in 0..n { v.extend_from_slice(unit); }
    v.extend_from_slice(tail);
    v
}

// the reviewer's input: `(` 2,000,000 x (`\` LF) `)`  -- the lexer gets the text after the `(`
#[test]
fn two_million_backslash_lf() {
    let buf = repeated(b"\\\n", 2_000_000, b")");
    let mut lexer = StringLexer::new(&buf);
    assert!(matches!(lexer.next_lexeme(), Ok(None)));          // the empty string
    assert_eq!(lexer.get_offset(), buf.len());
}

// same through the object parser (what a file does): 4 MB of input
#[test]
fn parse_string_of_two_million_continuations() {
    let mut data = vec![b'('];
    data.extend_from_slice(&repeated(b"\\\r\n", 2_000_000, b"x)"));
    match parse(&data, &NoResolve, ParseFlags::ANY) {
        Ok(Primitive::String(s)) => assert_eq!(s.as_bytes(), b"x"),
        other => panic!("unexpected {:?}", other.map(|p| p.get_debug_name())),
    }
}

// the recursion added by the unknown-escape repair (218d2b1) is bounded (the recursive call reads the plain byte), but
// every line continuation in front of it still nests; a small stack makes the dependence on the input visible:
// 20,000 continuations on a 256 KiB thread
#[test]
fn twenty_thousand_continuations_on_a_small_stack() {
    let buf = repeated(b"\\\r", 20_000, b"\\q)");
    let t = std::thread::Builder::new().stack_size(256 * 1024).spawn(move || {
        let mut lexer = StringLexer::new(&buf);
        let first = lexer.next_lexeme();
        assert!(matches!(first, Ok(Some(b'q'))));
        assert!(matches!(lexer.next_lexeme(), Ok(None)));
    }).unwrap();
    t.join().unwrap();
}

// behaviour is unchanged on ordinary strings (also holds before the fix)
#[test]
fn behaviour_unchanged() {
    let data = b"a\\\nb\\\r\nc\\\rd\\qe\\053\\n\\\n\\\n(f))";
    let mut lexer = StringLexer::new(data);
    let v: Vec<u8> = lexer.iter().map(Result::unwrap).collect();
    assert_eq!(v, b"abcdqe+\n(f)");
    assert_eq!(lexer.get_offset(), data.len());
}
