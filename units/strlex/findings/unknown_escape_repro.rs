// Finding strlex/unknown_escape (C03): drop into a scratch copy as pdf/tests/strlex_unknown_escape.rs and run
//   CARGO_TARGET_DIR=/tmp/strlex_target cargo test --offline -p pdf --test strlex_unknown_escape
// ISO 32000-1 7.3.4.2: "If the character following the REVERSE SOLIDUS is not one of those shown in Table 3,
// the REVERSE SOLIDUS shall be ignored."  (a\qb) denotes the three bytes `aqb`.
use pdf::object::NoResolve;
use pdf::parser::{parse, ParseFlags, StringLexer};

#[test]
fn unknown_escape_lexemes() {
    let mut lexer = StringLexer::new(b"a\\qb)");
    let got: Vec<u8> = lexer.iter().map(Result::unwrap).collect();
    assert_eq!(got, b"aqb", "pinned code returns a NUL in place of the ignored backslash");
    assert_eq!(lexer.get_offset(), 5);
}

#[test]
fn unknown_escape_object() {
    let p = parse(b"(a\\qb)", &NoResolve, ParseFlags::ANY).unwrap();
    assert_eq!(p.as_string().unwrap().as_bytes(), b"aqb");
    // a digit that is not octal is not an escape either
    let p = parse(b"(\\8)", &NoResolve, ParseFlags::ANY).unwrap();
    assert_eq!(p.as_string().unwrap().as_bytes(), b"8");
}
