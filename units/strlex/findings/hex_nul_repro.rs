// Finding strlex/hex_nul (C03): drop into a scratch copy as pdf/tests/strlex_hex_nul.rs and run
//   CARGO_TARGET_DIR=/tmp/strlex_target cargo test --offline -p pdf --test strlex_hex_nul
// ISO 32000-1 7.3.4.3: white-space characters inside a hexadecimal string shall be ignored; Table 1 lists
// NUL (00h) as a white-space character.
use pdf::object::NoResolve;
use pdf::parser::{parse, HexStringLexer, ParseFlags};

#[test]
fn hex_nul_lexemes() {
    let mut lexer = HexStringLexer::new(b"4\x001 42>");
    let got: Vec<u8> = lexer.iter().map(|r| r.expect("NUL is white-space")).collect();
    assert_eq!(got, b"AB");
}

#[test]
fn hex_nul_object() {
    let p = parse(b"<41\x0042>", &NoResolve, ParseFlags::ANY).expect("NUL is white-space");
    assert_eq!(p.as_string().unwrap().as_bytes(), b"AB");
}
