// Finding strlex/backslash_lf_cr (C03): drop into a scratch copy as pdf/tests/strlex_backslash_lf_cr.rs and run
//   CARGO_TARGET_DIR=/tmp/strlex_target cargo test --offline -p pdf --test strlex_backslash_lf_cr
// ISO 32000-1 7.2.3: an end-of-line marker is CR, LF, or CR immediately followed by LF.  7.3.4.2: REVERSE SOLIDUS
// followed by an end-of-line marker continues the string on the next line.  In `\` LF CR the marker is the LF;
// the CR that follows is a byte of the next line (a bare end-of-line marker, which denotes LF - or, with the pinned
// treatment of bare CR, CR).  The pinned code drops it.
use pdf::parser::StringLexer;

#[test]
fn backslash_lf_then_cr() {
    let mut lexer = StringLexer::new(b"a\\\n\rb)");
    let got: Vec<u8> = lexer.iter().map(Result::unwrap).collect();
    assert!(got == b"a\nb" || got == b"a\rb", "the CR after the continuation must not vanish, got {:?}", got);
}
