// Finding strlex/nested_overflow (C01): drop into a scratch copy as pdf/tests/strlex_nested_overflow.rs and run
//   CARGO_TARGET_DIR=/tmp/strlex_target cargo test --offline -p pdf --test strlex_nested_overflow -- --ignored
// (needs 2 GiB of memory and about a minute; hence #[ignore]).
// The depth counter `nested: i32` is incremented without a check for every `(`.  A literal string with 2^31
// unescaped opening parentheses makes `self.nested += 1` overflow: panic "attempt to add with overflow" in a build
// with overflow checks (debug / test profile); in a release build the counter wraps to i32::MIN and the following
// `)` is taken for the end of the string although 2^31 parentheses are still open.
use pdf::parser::StringLexer;

#[test]
#[ignore]
fn two_to_the_31_open_parens() {
    let n: usize = 1 << 31;
    let buf = vec![b'('; n];
    let mut lexer = StringLexer::new(&buf);
    let mut seen: usize = 0;
    loop {
        match lexer.next_lexeme() {      // must not panic
            Ok(Some(b'(')) => seen += 1,
            Ok(other) => panic!("unexpected lexeme {:?} after {} parentheses", other, seen),
            Err(_) => break,             // an error (depth limit or end of buffer) is the acceptable outcome
        }
    }
    assert!(seen >= (i32::MAX as usize));
}
