// Finding strlex/bare_cr (C03): drop into a scratch copy as pdf/tests/strlex_bare_cr.rs and run
//   CARGO_TARGET_DIR=/tmp/strlex_target cargo test --offline -p pdf --test strlex_bare_cr
// ISO 32000-1 7.3.4.2: "An end-of-line marker appearing within a literal string without a preceding REVERSE
// SOLIDUS shall be treated as a byte value of (0Ah), irrespective of whether the end-of-line marker was a
// CARRIAGE RETURN (0Dh), a LINE FEED (0Ah), or both."
use pdf::object::NoResolve;
use pdf::parser::{parse, ParseFlags, StringLexer};

#[test]
fn bare_cr_lexemes() {
    let mut lexer = StringLexer::new(b"a\rb)");
    let got: Vec<u8> = lexer.iter().map(Result::unwrap).collect();
    assert_eq!(got, b"a\nb", "a bare CR denotes LF");
    let mut lexer = StringLexer::new(b"a\r\nb)");
    let got: Vec<u8> = lexer.iter().map(Result::unwrap).collect();
    assert_eq!(got, b"a\nb", "a bare CR LF denotes one LF");
    assert_eq!(lexer.get_offset(), 5);
}

#[test]
fn bare_cr_object() {
    let p = parse(b"(a\r\nb)", &NoResolve, ParseFlags::ANY).unwrap();
    assert_eq!(p.as_string().unwrap().as_bytes(), b"a\nb");
}
