F = 'pdf/src/parser/lexer/str.rs'
SL = r"^impl<'a> StringLexer<'a>$"
HL = r"^impl<'a> HexStringLexer<'a>$"

# ---- StringLexer -----------------------------------------------------------------------------------------------
# the statement `next_lexeme == lit_step` (ISO 32000-1 7.3.4.2), reported per syntactic class of the lexeme
LEX = ('lex_post(lit_step(old(self).buf@, old(self).pos as int, old(self).nested as int), r, '
       'final(self).pos as int, final(self).nested as int)')
CLS = 'lit_class(old(self).buf@, old(self).pos as int)'
LEX_CLASSES = [(0, 'lexeme_end_of_buffer'), (1, 'lexeme_escape_table'), (2, 'lexeme_octal'),
               (3, 'lexeme_line_continuation'), (4, 'lexeme_unknown_escape'), (5, 'lexeme_parentheses'),
               (6, 'lexeme_bare_cr'), (7, 'lexeme_plain_byte')]

CURSOR_FRAME = 'final(self).buf == old(self).buf && final(self).nested == old(self).nested && final(self).wf()'
HCURSOR_FRAME = 'final(self).buf == old(self).buf && final(self).wf()'

# the cursor primitives have the same text in both lexers; so have their contracts
def cursor(frame):
    return {
     'next': [('frame', frame),
              ('ok_reads_and_advances', 'r matches Ok(b) ==> old(self).pos < old(self).buf@.len() && final(self).pos == old(self).pos + 1 && b == old(self).buf@[old(self).pos as int]'),
              ('err_iff_at_end', 'r is Err <==> old(self).pos == old(self).buf@.len()'),
              ('err_keeps_pos', 'r is Err ==> final(self).pos == old(self).pos')],
     'back': [('frame', frame),
              ('ok_steps_back', 'r is Ok ==> old(self).pos > 0 && final(self).pos == old(self).pos - 1'),
              ('err_iff_at_start', 'r is Err <==> old(self).pos == 0'),
              ('err_keeps_pos', 'r is Err ==> final(self).pos == old(self).pos')],
     'peek': [('pure', '*final(self) == *old(self)'),
              ('ok_reads', 'r matches Ok(b) ==> old(self).pos < old(self).buf@.len() && b == old(self).buf@[old(self).pos as int]'),
              ('err_iff_at_end', 'r is Err <==> old(self).pos == old(self).buf@.len()')],
    }
SC = cursor(CURSOR_FRAME)
HC = cursor(HCURSOR_FRAME)

# proof text injected (R1) after the octal loop of next_lexeme: connects the loop's result with oct_len / oct_val
AFTER_OCT_LOOP = '''
proof {
    let k = self.pos as int - p1;
    lemma_oct_val_bound(self.buf@, p1, k);
    assert(k == oct_len(self.buf@, p1));
    let cc: u16 = char_code;
    assert((#[verifier::truncate] (cc as u8)) == (cc % 256) as u8) by (bit_vector);
}
'''

# ---- next_lexeme is read in BOTH shapes ---------------------------------------------------------------------------
#   recursive (/repo up to f565930): `self.next_lexeme()?` after a line continuation, `return self.next_lexeme()` after an
#       ignored backslash; the only loop is the octal-digit `for`
#   iterative (findings/continuation_recursion_fix.diff): `loop { .. continue; .. }` around the same text; loop 1 = the
#       outer `loop`, loop 2 = the octal-digit `for`
# The framework addresses loops by ordinal, so the ordinal of the `for` is computed from the tree under verification (the
# number of `loop` keywords in the extracted body: 0 or 1). Once the fix is committed this can be frozen to
# `'loops': {1: RESTART_LOOP, 2: OCT_LOOP}` and the function-level 'decreases' dropped.
def _outer_loops():
    import re
    from vlib import assemble
    try:
        _raw, _sig, body = assemble.locate({'kind': 'fn', 'file': F, 'container': SL, 'name': 'next_lexeme'})
        return len(re.findall(r'\bloop\b', assemble.strip_comments(body)))
    except Exception:
        return 0        # anchor lost: reported by the framework when it extracts the item itself

_N = _outer_loops()
# start of the current attempt at the lexeme: the function entry (recursive shape) / the head of the current iteration
P0 = 'p0' if _N else 'old(self).pos'
# (iterative shape only) the outer `loop`: every `continue` restarts the SAME ISO lexeme at a later position
RESTART_LOOP = {
    'invariant': [('restart_cursor', 'self.buf == old(self).buf && self.nested == old(self).nested && self.wf() && old(self).pos <= self.pos'),
                  ('restart_same_lexeme', 'lit_step(self.buf@, self.pos as int, self.nested as int) == lit_step(old(self).buf@, old(self).pos as int, old(self).nested as int)')],
    'decreases': 'self.buf@.len() - self.pos'}
# the octal-digit loop (both shapes); p0 = position where the current attempt at the lexeme starts
OCT_LOOP = {
    'for_ghost': 'it',
    'invariant': [('oct_cursor', 'self.buf == old(self).buf && self.nested == old(self).nested && self.wf() && p1 == %s + 1 &&' % P0 + '  self.pos == p1 + it.index@'),
                  ('oct_digits', 'forall|j: int| p1 <= j < self.pos ==> is_oct(self.buf@[j])'),
                  ('oct_value_is_iso', 'char_code as int == oct_val(self.buf@, p1, self.pos - p1) && char_code < 512 && (self.pos - p1 < 3 ==> char_code < 64)')],
    'ensures': [('oct_stop', 'self.pos == p1 + 3 || (self.pos < p1 + 3 && self.pos < self.buf@.len() && !is_oct(self.buf@[self.pos as int]))')]}
LEXEME_LOOPS = dict([(k + 1, RESTART_LOOP) for k in range(_N)] + [(_N + 1, OCT_LOOP)])

NWS = ('({ let p = skip_iso(old(self).buf@, old(self).pos as int); if p >= old(self).buf@.len() { r is Err } '
       'else { r == Ok::<u8, PdfError>(old(self).buf@[p]) && final(self).pos == p + 1 } })')
HEX = ('({ let st = hex_step(old(self).buf@, old(self).pos as int); if st.eof || st.bad { r is Err } '
       'else { r == Ok::<Option<u8>, PdfError>(st.out) && final(self).pos == st.pos } })')

AFTER_WS_LOOP = '''
proof {
    let q = self.pos as int - 1;
    lemma_skip_nul(self.buf@, p0);
    if !hex_ws_iso(byte) { lemma_skip(self.buf@, p0, q, !DEV_HEX_NUL_NOT_SKIPPED()); }
    else if !DEV_HEX_NUL_NOT_SKIPPED() && byte == 0x00 { lemma_nul_stop(self.buf@, p0, q); }
}
'''

UNIT = {
 'name': 'strlex',
 'doc': 'Literal- and hex-string lexemes (StringLexer, HexStringLexer) against ISO 32000-1 7.3.4.2 / 7.3.4.3 step functions',
 'deviations': {
   'DEV_UNKNOWN_ESCAPE_EMITS_NUL': r'`\q` (character not in Table 3) yields a NUL byte and then `q`; ISO: the backslash is ignored, `q` alone',
   'DEV_BARE_CR_KEPT': 'a CR (or CR LF) inside a literal string without a preceding backslash is returned as is; ISO: one LF (0Ah)',
   'DEV_BACKSLASH_LF_SWALLOWS_CR': r'`\` LF CR drops the CR as well; ISO: the EOL marker after the backslash is the LF alone (LF CR is not an EOL marker)',
   'DEV_HEX_NUL_NOT_SKIPPED': 'NUL (white-space by Table 1) inside a hex string is a HexDecode error; ISO: white-space is ignored',
 },
 'allowed_assumes': [],
 'rlimit': 60, 'timeout': 600,   # a failing run re-solves once per reported error (--multiple-errors); the proof itself takes < 2 s
 'items': {
  'struct StringLexer': {'kind': 'decl', 'file': F, 'header': r"^pub struct StringLexer<'a>$",
     'rewrites': [{'rule': 'R2', 'find': 'pos:', 'replace': 'pub pos:'},
                  {'rule': 'R2', 'find': 'nested:', 'replace': 'pub nested:'},
                  {'rule': 'R2', 'find': 'buf:', 'replace': 'pub buf:'}]},
  'struct HexStringLexer': {'kind': 'decl', 'file': F, 'header': r"^pub struct HexStringLexer<'a>$",
     'rewrites': [{'rule': 'R2', 'find': 'pos:', 'replace': 'pub pos:'},
                  {'rule': 'R2', 'find': 'buf:', 'replace': 'pub buf:'}]},

  'struct StringLexerIter': {'kind': 'decl', 'file': F, 'header': r"^pub struct StringLexerIter<'a: 'b, 'b>$",
     'rewrites': [{'rule': 'R2', 'find': 'lexer:', 'replace': 'pub lexer:'}]},
  'struct HexStringLexerIter': {'kind': 'decl', 'file': F, 'header': r"^pub struct HexStringLexerIter<'a: 'b, 'b>$",
     'rewrites': [{'rule': 'R2', 'find': 'lexer:', 'replace': 'pub lexer:'}]},

  'StringLexer::new': {'kind': 'fn', 'file': F, 'container': SL, 'name': 'new', 'props': ['C01'],
     'ensures': [('new_state', 'r.pos == 0 && r.nested == 0 && r.buf == buf && r.wf()')]},
  'StringLexer::iter': {'kind': 'fn', 'file': F, 'container': SL, 'name': 'iter', 'props': ['C01'],
     'ensures': [('iter_borrows_self', '*r.lexer == *old(self) && *final(r.lexer) == *final(self)')]},
  'StringLexer::get_offset': {'kind': 'fn', 'file': F, 'container': SL, 'name': 'get_offset', 'props': ['C01'],
     'ensures': [('is_pos', 'r == self.pos')]},
  'StringLexer::next_lexeme': {'kind': 'fn', 'file': F, 'container': SL, 'name': 'next_lexeme', 'props': ['C03', 'C01'],
     'attrs': ['#[verifier::loop_isolation(false)]'],
     'requires': ['old(self).wf()', '0 <= old(self).nested'],
     'ensures': [('lex_frame', 'final(self).buf == old(self).buf && final(self).wf()'),
                 ('lex_depth', 'r matches Ok(Some(_)) ==> final(self).nested >= 0')]
                + [(lbl, '%s == %d ==> %s' % (CLS, k, LEX)) for k, lbl in LEX_CLASSES],
     # recursive shape: measure of the recursion. Iterative shape: the constant measure `0nat`, which no call of next_lexeme
     # from its own body can decrease, so ANY self-call fails the obligation `terminates` - the expressible part of "the
     # stack depth does not grow with the input" (without a clause Verus would stop with a compile error = UNDECIDED);
     # termination itself is carried by the `decreases` of the outer loop
     'decreases': '0nat' if _N else 'old(self).buf@.len() - old(self).pos',
     'loops': LEXEME_LOOPS,
     'rewrites': [
        # (iterative shape) p0 = position at the head of the current iteration
        {'rule': 'R1', 'regex': r'let c = self\.next_byte\(\)\?;(\s*return\s+match c\s*\{)', 'count': '*',
         'replace': r'let ghost p0 = self.pos as int; let c = self.next_byte()?;\1'},
        {'rule': 'R2', 'regex': r'for _ in (\d+\s*\.\.=?\s*\d+)', 'replace': r'for _i in \1'},   # `_` loop variable named; the range stays under proof
        {'rule': 'R2', 'find': 'Some(char_code as u8)', 'replace': 'Some(#[verifier::truncate] (char_code as u8))'},
        {'rule': 'R1', 'find': 'let mut char_code: u16 = 0;', 'replace': 'let mut char_code: u16 = 0; let ghost p1 = self.pos as int;'},
        {'rule': 'R1', 'find': 'let c = self.peek_byte()?;',
         'replace': 'proof { lemma_oct_val_bound(self.buf@, p1, self.pos as int - p1); } let c = self.peek_byte()?;'},
        {'rule': 'R1', 'find': '} else { break; } }', 'replace': '} else { break; } }' + AFTER_OCT_LOOP},
     ]},
  'StringLexer::next_byte': {'kind': 'fn', 'file': F, 'container': SL, 'name': 'next_byte', 'props': ['C01'],
     'requires': ['old(self).wf()'], 'ensures': SC['next']},
  'StringLexer::back': {'kind': 'fn', 'file': F, 'container': SL, 'name': 'back', 'props': ['C01'],
     'requires': ['old(self).wf()'], 'ensures': SC['back']},
  'StringLexer::peek_byte': {'kind': 'fn', 'file': F, 'container': SL, 'name': 'peek_byte', 'props': ['C01'],
     'requires': ['old(self).wf()'], 'ensures': SC['peek']},

  'StringLexerIter::next': {'kind': 'fn', 'file': F, 'container': r"^impl<'a, 'b> Iterator for StringLexerIter<'a, 'b>$", 'name': 'next',
     'props': ['C03', 'C01'],
     'requires': ['old(self).lexer.wf()', '0 <= old(self).lexer.nested'],
     'ensures': [('iter_frame', 'final(self).lexer.buf == old(self).lexer.buf && final(self).lexer.wf()'),
                 ('iter_depth', 'r matches Some(Ok(_)) ==> final(self).lexer.nested >= 0'),
                 ('iter_is_lit_step', 'lex_post(lit_step(old(self).lexer.buf@, old(self).lexer.pos as int, old(self).lexer.nested as int), as_lexeme(r), final(self).lexer.pos as int, final(self).lexer.nested as int)')]},

  'HexStringLexer::new': {'kind': 'fn', 'file': F, 'container': HL, 'name': 'new', 'props': ['C01'],
     'ensures': [('new_state', 'r.pos == 0 && r.buf == buf && r.wf()')]},
  'HexStringLexer::iter': {'kind': 'fn', 'file': F, 'container': HL, 'name': 'iter', 'props': ['C01'],
     'ensures': [('iter_borrows_self', '*r.lexer == *old(self) && *final(r.lexer) == *final(self)')]},
  'HexStringLexer::get_offset': {'kind': 'fn', 'file': F, 'container': HL, 'name': 'get_offset', 'props': ['C01'],
     'ensures': [('is_pos', 'r == self.pos')]},
  'HexStringLexer::next_non_whitespace_char': {'kind': 'fn', 'file': F, 'container': HL, 'name': 'next_non_whitespace_char',
     'props': ['C03', 'C01'],
     'requires': ['old(self).wf()'],
     'ensures': [('frame', HCURSOR_FRAME),
                 ('advances', 'r is Ok ==> final(self).pos > old(self).pos'),
                 ('nws_listed_white_space', '!nul_matters(old(self).buf@, old(self).pos as int) ==> ' + NWS),
                 ('nws_nul_is_white_space', 'nul_matters(old(self).buf@, old(self).pos as int) ==> ' + NWS)],
     'loops': {1: {'invariant': [
                     ('ws_cursor', 'self.buf == old(self).buf && self.wf() && p0 == old(self).pos && p0 < self.pos && byte == self.buf@[self.pos - 1]'),
                     ('ws_skipped_is_iso_white_space', 'forall|i: int| p0 <= i < self.pos - 1 ==> hex_ws_iso(self.buf@[i])')],
                   'decreases': 'self.buf@.len() - self.pos'}},
     'rewrites': [
        {'rule': 'R1', 'find': 'let mut byte = self.read_byte()?;', 'replace': 'let ghost p0 = self.pos as int; let mut byte = self.read_byte()?;'},
        {'rule': 'R1', 'regex': r'(?<!mut )byte = self\.read_byte\(\)\?;',
         'replace': 'proof { if self.pos == self.buf@.len() && hex_ws_iso(byte) { lemma_skip(self.buf@, p0, self.pos as int, !DEV_HEX_NUL_NOT_SKIPPED()); lemma_skip_nul(self.buf@, p0); } } byte = self.read_byte()?;'},
        {'rule': 'R1', 'find': 'Ok(byte)', 'replace': AFTER_WS_LOOP + 'Ok(byte)'},
     ]},
  'HexStringLexer::next_hex_byte': {'kind': 'fn', 'file': F, 'container': HL, 'name': 'next_hex_byte', 'props': ['C03', 'C01'],
     'requires': ['old(self).wf()'],
     'ensures': [('frame', HCURSOR_FRAME), ('hex_step', HEX)],
     'rewrites': [
        {'rule': 'R1', 'find': 'Ok(Some((high_nibble << 4) | low_nibble))',
         'replace': 'proof { let h: u8 = high_nibble; let l: u8 = low_nibble; assert(h < 16 && l < 16 ==> ((h << 4) | l) == (h * 16 + l) as u8) by (bit_vector); } Ok(Some((high_nibble << 4) | low_nibble))'},
     ]},
  'HexStringLexerIter::next': {'kind': 'fn', 'file': F, 'container': r"^impl<'a, 'b> Iterator for HexStringLexerIter<'a, 'b>$", 'name': 'next',
     'props': ['C03', 'C01'],
     'requires': ['old(self).lexer.wf()'],
     'ensures': [('iter_frame', 'final(self).lexer.buf == old(self).lexer.buf && final(self).lexer.wf()'),
                 ('iter_is_hex_step', '({ let st = hex_step(old(self).lexer.buf@, old(self).lexer.pos as int); if st.eof || st.bad { r matches Some(Err(_)) } '
                                      'else { r == (match st.out { Some(b) => Some(Ok::<u8, PdfError>(b)), None => None }) && final(self).lexer.pos == st.pos } })')]},
  'HexStringLexer::read_byte': {'kind': 'fn', 'file': F, 'container': HL, 'name': 'read_byte', 'props': ['C01'],
     'requires': ['old(self).wf()'], 'ensures': HC['next']},
  'HexStringLexer::back': {'kind': 'fn', 'file': F, 'container': HL, 'name': 'back', 'props': ['C01'],
     'requires': ['old(self).wf()'], 'ensures': HC['back']},
  'HexStringLexer::peek_byte': {'kind': 'fn', 'file': F, 'container': HL, 'name': 'peek_byte', 'props': ['C01'],
     'requires': ['old(self).wf()'], 'ensures': HC['peek']},
 },
}
