pub open spec fn ws_listed(b: u8) -> bool { b == 0x20 || b == 0x09 || b == 0x0A || b == 0x0D || b == 0x0C }
pub open spec fn hex_ws(b: u8, nul: bool) -> bool { ws_listed(b) || (nul && b == 0x00) }
pub open spec fn hex_ws_iso(b: u8) -> bool { hex_ws(b, !DEV_HEX_NUL_NOT_SKIPPED()) }
// same function as `hexval` of units/enc_leaf/kani_enc.rs (decode_nibble's contract): ISO digits 0-9 A-F a-f
pub open spec fn hexval(c: u8) -> Option<u8> {
    if 0x30 <= c <= 0x39 { Some((c - 0x30) as u8) } else if 0x41 <= c <= 0x46 { Some((c - 0x41 + 10) as u8) }
    else if 0x61 <= c <= 0x66 { Some((c - 0x61 + 10) as u8) } else { None }
}
// first position >= p that does not hold white-space (buf.len() if there is none)
pub open spec fn skip(buf: Seq<u8>, p: int, nul: bool) -> int decreases buf.len() - p {
    if 0 <= p < buf.len() && hex_ws(buf[p], nul) { skip(buf, p + 1, nul) } else { p }
}
pub open spec fn skip_iso(buf: Seq<u8>, p: int) -> int { skip(buf, p, !DEV_HEX_NUL_NOT_SKIPPED()) }
// does the reading of NUL as white-space matter for the next character at p ?
pub open spec fn nul_matters(buf: Seq<u8>, p: int) -> bool { skip(buf, p, true) != skip(buf, p, false) }
pub struct HStep {
    pub eof: bool,        // buffer ends inside the string: must be an error
    pub bad: bool,        // a character that is neither digit, white-space nor `>`: must be an error
    pub out: Option<u8>,  // Some(next byte of the value) / None = `>` reached
    pub pos: int,
}
pub open spec fn hex_step(buf: Seq<u8>, pos: int) -> HStep {
    let p1 = skip_iso(buf, pos);
    if p1 >= buf.len() { HStep { eof: true, bad: false, out: None, pos: p1 } } else {
    let c1 = buf[p1];
    if c1 == 0x3E { HStep { eof: false, bad: false, out: None, pos: p1 + 1 } }
    else { match hexval(c1) {
        None => HStep { eof: false, bad: true, out: None, pos: p1 + 1 },
        Some(h) => {
            let p2 = skip_iso(buf, p1 + 1);
            if p2 >= buf.len() { HStep { eof: true, bad: false, out: None, pos: p2 } } else {
            let c2 = buf[p2];
            // odd number of digits: the missing digit is 0; the `>` is left for the next step
            if c2 == 0x3E { HStep { eof: false, bad: false, out: Some((h * 16) as u8), pos: p2 } }
            else { match hexval(c2) {
                None => HStep { eof: false, bad: true, out: None, pos: p2 + 1 },
                Some(l) => HStep { eof: false, bad: false, out: Some((h * 16 + l) as u8), pos: p2 + 1 } } } } } } } }
}