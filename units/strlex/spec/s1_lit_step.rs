pub struct Step {
    pub eof: bool,        // the buffer ends before the lexeme is complete (unterminated string): must be an error
    pub trunc: bool,      // lexeme complete only because the buffer ends (octal code of < 3 digits at the very end of
                          // the buffer; the string is unterminated anyway): error or value, nothing demanded by C03
    pub out: Option<u8>,  // Some(byte of the value) / None = end of string
    pub pos: int,         // position just past the lexeme
    pub nested: int,      // parenthesis depth after the lexeme
}
pub open spec fn st_eof(pos: int, nested: int) -> Step { Step { eof: true, trunc: false, out: None, pos, nested } }
pub open spec fn st_emit(b: u8, pos: int, nested: int) -> Step { Step { eof: false, trunc: false, out: Some(b), pos, nested } }

pub open spec fn is_oct(c: u8) -> bool { 0x30 <= c <= 0x37 }
// number of octal digits of an escape whose first digit is at p: at most three
pub open spec fn oct_len(buf: Seq<u8>, p: int) -> int {
    if p < buf.len() && is_oct(buf[p]) {
        if p + 1 < buf.len() && is_oct(buf[p + 1]) {
            if p + 2 < buf.len() && is_oct(buf[p + 2]) { 3 } else { 2 }
        } else { 1 }
    } else { 0 }
}
// value of the n octal digits at p, most significant first
pub open spec fn oct_val(buf: Seq<u8>, p: int, n: int) -> int decreases n {
    if n <= 0 { 0 } else { oct_val(buf, p, n - 1) * 8 + (buf[p + n - 1] - 0x30) }
}
// syntactic class of the lexeme starting at pos (a function of at most two bytes; independent of any deviation);
// used only to split the one statement `next_lexeme == lit_step` into separately reported obligations
pub open spec fn lit_class(buf: Seq<u8>, pos: int) -> int {
    if pos < 0 || pos >= buf.len() { 0 }                       // end of buffer
    else if buf[pos] == 0x5C {
        if pos + 1 >= buf.len() { 0 }                          // end of buffer
        else { let d = buf[pos + 1];
            if d == 0x6E || d == 0x72 || d == 0x74 || d == 0x62 || d == 0x66 || d == 0x28 || d == 0x29 || d == 0x5C { 1 }  // Table 3 letter
            else if is_oct(d) { 2 }                            // \ddd
            else if d == 0x0A || d == 0x0D { 3 }               // line continuation
            else { 4 } }                                       // not in Table 3
    }
    else if buf[pos] == 0x28 || buf[pos] == 0x29 { 5 }         // parentheses
    else if buf[pos] == 0x0D { 6 }                             // bare CARRIAGE RETURN
    else { 7 }                                                 // any other byte stands for itself
}
pub open spec fn lit_step(buf: Seq<u8>, pos: int, nested: int) -> Step
    decreases buf.len() - pos
{
    if pos < 0 || pos >= buf.len() { st_eof(pos, nested) } else {
    let c = buf[pos];
    if c == 0x5C {                                             // REVERSE SOLIDUS
        if pos + 1 >= buf.len() { st_eof(pos + 1, nested) } else {
        let d = buf[pos + 1];
        if d == 0x6E { st_emit(0x0A, pos + 2, nested) }        // \n  LINE FEED
        else if d == 0x72 { st_emit(0x0D, pos + 2, nested) }   // \r  CARRIAGE RETURN
        else if d == 0x74 { st_emit(0x09, pos + 2, nested) }   // \t  HORIZONTAL TAB
        else if d == 0x62 { st_emit(0x08, pos + 2, nested) }   // \b  BACKSPACE
        else if d == 0x66 { st_emit(0x0C, pos + 2, nested) }   // \f  FORM FEED
        else if d == 0x28 { st_emit(0x28, pos + 2, nested) }   // \(
        else if d == 0x29 { st_emit(0x29, pos + 2, nested) }   // \)
        else if d == 0x5C { st_emit(0x5C, pos + 2, nested) }   // \\
        else if d == 0x0A {                                    // \ LF : continuation, EOL marker = LF alone
            lit_step(buf, if DEV_BACKSLASH_LF_SWALLOWS_CR() && pos + 2 < buf.len() && buf[pos + 2] == 0x0D { pos + 3 } else { pos + 2 }, nested) }
        else if d == 0x0D {                                    // \ CR or \ CR LF : continuation
            lit_step(buf, if pos + 2 < buf.len() && buf[pos + 2] == 0x0A { pos + 3 } else { pos + 2 }, nested) }
        else if is_oct(d) {                                    // \ddd
            let n = oct_len(buf, pos + 1);
            Step { eof: false, trunc: n < 3 && pos + 1 + n >= buf.len(),
                   out: Some((oct_val(buf, pos + 1, n) % 256) as u8), pos: pos + 1 + n, nested } }
        else {                                                 // not in Table 3: the backslash is ignored, d is kept
            if DEV_UNKNOWN_ESCAPE_EMITS_NUL() { st_emit(0x00, pos + 1, nested) } else { st_emit(d, pos + 2, nested) } }
        } }
    else if c == 0x28 { st_emit(0x28, pos + 1, nested + 1) }
    else if c == 0x29 {
        if nested - 1 < 0 { Step { eof: false, trunc: false, out: None, pos: pos + 1, nested: nested - 1 } }
        else { st_emit(0x29, pos + 1, nested - 1) } }
    else if c == 0x0D {                                        // bare EOL marker CR / CR LF reads as one LF
        if DEV_BARE_CR_KEPT() { st_emit(0x0D, pos + 1, nested) }
        else { st_emit(0x0A, if pos + 1 < buf.len() && buf[pos + 1] == 0x0A { pos + 2 } else { pos + 1 }, nested) } }
    else { st_emit(c, pos + 1, nested) } }
}
// Implementation limit: ISO 32000-1 puts no bound on the nesting of balanced parentheses, the depth counter of
// StringLexer is an i32. A lexeme whose depth does not fit the counter must be reported as an error: neither a
// panic (C01) nor a wrongly terminated string (C03) is acceptable.
pub open spec fn depth_fits(n: int) -> bool { n <= i32::MAX }
// what `r`, the new position and the new depth must be for a given step
pub open spec fn lex_post(st: Step, r: Result<Option<u8>>, fpos: int, fnested: int) -> bool {
    if st.eof || !depth_fits(st.nested) { r is Err }
    else if st.trunc { r is Err || (r == Ok::<Option<u8>, PdfError>(st.out) && fpos == st.pos && fnested == st.nested) }
    else { r == Ok::<Option<u8>, PdfError>(st.out) && fpos == st.pos && fnested == st.nested }
}