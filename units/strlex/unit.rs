// Unit `strlex` (C03, C01): StringLexer / HexStringLexer of pdf/src/parser/lexer/str.rs against step functions
// written from ISO 32000-1:2008 7.3.4.2 (literal strings, Table 3) and 7.3.4.3 (hexadecimal strings, Table 1).
use vstd::prelude::*;
verus! {
//@@ INCLUDE _common/std_specs_u8.rs

global size_of usize == 8;

//@@ PDFERROR

// ---- named deviations of the pinned code from ISO 32000-1 (true = the pinned behaviour, false = ISO) ----
//@@ DEVIATIONS

// ---- L0 (std, trusted): Result::unwrap_or, used only for the payload of the HexDecode error ----
pub assume_specification<T, E> [core::result::Result::<T, E>::unwrap_or] (s: core::result::Result<T, E>, d: T) -> (r: T)
    where E: core::marker::Destruct, T: core::marker::Destruct,
    ensures r == (match s { Ok(v) => v, Err(_) => d });

//@@ struct StringLexer
//@@ struct HexStringLexer
//@@ struct StringLexerIter
//@@ struct HexStringLexerIter

// =====================================================================================================
// Literal strings, ISO 32000-1 7.3.4.2.  One *lexeme* = the next byte of the string value, or its end.
//   * Table 3: \n \r \t \b \f \( \) \\ ; \ddd (1-3 octal digits, "high-order overflow shall be ignored")
//   * "If the character following the REVERSE SOLIDUS is not one of those shown in Table 3, the REVERSE
//      SOLIDUS shall be ignored."                                        (the following character is kept)
//   * REVERSE SOLIDUS + end-of-line marker: neither is part of the string. EOL marker (7.2.3) = CR, LF or
//      CR immediately followed by LF.
//   * "An end-of-line marker appearing within a literal string without a preceding REVERSE SOLIDUS shall be
//      treated as a byte value of (0Ah), irrespective of whether the end-of-line marker was a CARRIAGE RETURN
//      (0Dh), a LINE FEED (0Ah), or both."
//   * balanced parentheses need no escape; the first unbalanced `)` ends the string.
// =====================================================================================================
//@@ INCLUDE strlex/spec/s1_lit_step.rs
proof fn lemma_oct_val_bound(buf: Seq<u8>, p: int, n: int)
    requires 0 <= n <= 3, 0 <= p, p + n <= buf.len(), forall|j: int| p <= j < p + n ==> is_oct(buf[j])
    ensures 0 <= oct_val(buf, p, n), n == 0 ==> oct_val(buf, p, n) == 0, n == 1 ==> oct_val(buf, p, n) < 8,
            n == 2 ==> oct_val(buf, p, n) < 64, n == 3 ==> oct_val(buf, p, n) < 512
    decreases n
{ if n > 0 { lemma_oct_val_bound(buf, p, n - 1); } }

impl<'a> StringLexer<'a> {
    // type invariant of the cursor (fields are private; `new` establishes it, every method preserves it)
    pub open spec fn wf(&self) -> bool { self.pos <= self.buf@.len() }

//@@ StringLexer::new
//@@ StringLexer::iter
//@@ StringLexer::get_offset
//@@ StringLexer::next_lexeme
//@@ StringLexer::next_byte
//@@ StringLexer::back
//@@ StringLexer::peek_byte
}
// the iterator protocol over lexemes: Some(Ok(b)) = byte b, None = end of string, Some(Err(_)) = error
pub open spec fn as_lexeme(r: Option<Result<u8>>) -> Result<Option<u8>> {
    match r { None => Ok(None), Some(Ok(b)) => Ok(Some(b)), Some(Err(e)) => Err(e) }
}
// R2: `impl Iterator for StringLexerIter` emitted as an inherent impl (dispatch dropped, body unchanged)
impl<'a, 'b> StringLexerIter<'a, 'b> {
//@@ StringLexerIter::next
}

// =====================================================================================================
// Hexadecimal strings, ISO 32000-1 7.3.4.3: pairs of hexadecimal digits between < and >; "White-space
// characters (such as SPACE (20h), HORIZONTAL TAB (09h), CARRIAGE RETURN (0Dh), LINE FEED (0Ah), and FORM
// FEED (0Ch)) shall be ignored. If the final digit of a hexadecimal string is missing - that is, if there
// is an odd number of digits - the final digit shall be assumed to be 0."  White-space = Table 1:
// NUL HT LF FF CR SP.
// =====================================================================================================
//@@ INCLUDE strlex/spec/s2_hex_step.rs
proof fn lemma_skip(buf: Seq<u8>, p: int, r: int, nul: bool)
    requires 0 <= p <= r <= buf.len(), forall|i: int| p <= i < r ==> hex_ws(buf[i], nul), r < buf.len() ==> !hex_ws(buf[r], nul)
    ensures skip(buf, p, nul) == r
    decreases r - p
{ if p < r { lemma_skip(buf, p + 1, r, nul); } }
// both readings of white-space agree up to the first NUL that follows listed white-space
proof fn lemma_skip_nul(buf: Seq<u8>, p: int)
    requires 0 <= p <= buf.len()
    ensures p <= skip(buf, p, false) <= skip(buf, p, true) <= buf.len(),
            forall|i: int| p <= i < skip(buf, p, false) ==> ws_listed(buf[i]),
            skip(buf, p, false) < buf.len() ==> !ws_listed(buf[skip(buf, p, false)]),
            nul_matters(buf, p) <==> (skip(buf, p, false) < buf.len() && buf[skip(buf, p, false)] == 0x00)
    decreases buf.len() - p
{ if p < buf.len() && hex_ws(buf[p], true) { lemma_skip_nul(buf, p + 1); } }
// the five-character reading stops at a NUL that the Table 1 reading skips
proof fn lemma_nul_stop(buf: Seq<u8>, p: int, q: int)
    requires 0 <= p <= q < buf.len(), forall|i: int| p <= i < q ==> hex_ws(buf[i], true), buf[q] == 0x00
    ensures skip(buf, p, false) <= q < skip(buf, p, true), nul_matters(buf, p)
    decreases q - p
{ if p < q { lemma_nul_stop(buf, p + 1, q); } else { lemma_skip_nul(buf, q + 1); } }

impl<'a> HexStringLexer<'a> {
    pub open spec fn wf(&self) -> bool { self.pos <= self.buf@.len() }

//@@ HexStringLexer::new
//@@ HexStringLexer::iter
//@@ HexStringLexer::get_offset
//@@ HexStringLexer::next_non_whitespace_char
//@@ HexStringLexer::next_hex_byte
//@@ HexStringLexer::read_byte
//@@ HexStringLexer::back
//@@ HexStringLexer::peek_byte
}
// R2: `impl Iterator for HexStringLexerIter` emitted as an inherent impl (dispatch dropped, body unchanged)
impl<'a, 'b> HexStringLexerIter<'a, 'b> {
//@@ HexStringLexerIter::next
}
}
fn main(){}
