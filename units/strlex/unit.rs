// Unit `strlex` (C03, C01): StringLexer / HexStringLexer of pdf/src/parser/lexer/str.rs against step functions
// written from ISO 32000-1:2008 7.3.4.2 (literal strings, Table 3) and 7.3.4.3 (hexadecimal strings, Table 1).
use vstd::prelude::*;
verus! {
//@@ INCLUDE _common/std_specs_u8.rs

global size_of usize == 8;

//@@ PDFERROR

// ---- named deviations of the pinned code from ISO 32000-1 (true = the pinned behaviour, false = ISO) ----
//@@ DEVIATIONS

// ---- L0 (std, trusted): Result::unwrap_or, used only for the payload of the HexDecode error ----
pub assume_specification<T, E> [core::result::Result::<T, E>::unwrap_or] (s: core::result::Result<T, E>, d: T) -> (r: T)
    where E: core::marker::Destruct, T: core::marker::Destruct,
    ensures r == (match s { Ok(v) => v, Err(_) => d });

//@@ struct StringLexer
//@@ struct HexStringLexer
//@@ struct StringLexerIter
//@@ struct HexStringLexerIter

// =====================================================================================================
// Literal strings, ISO 32000-1 7.3.4.2.  One *lexeme* = the next byte of the string value, or its end.
//   * Table 3: \n \r \t \b \f \( \) \\ ; \ddd (1-3 octal digits, "high-order overflow shall be ignored")
//   * "If the character following the REVERSE SOLIDUS is not one of those shown in Table 3, the REVERSE
//      SOLIDUS shall be ignored."                                        (the following character is kept)
//   * REVERSE SOLIDUS + end-of-line marker: neither is part of the string. EOL marker (7.2.3) = CR, LF or
//      CR immediately followed by LF.
//   * "An end-of-line marker appearing within a literal string without a preceding REVERSE SOLIDUS shall be
//      treated as a byte value of (0Ah), irrespective of whether the end-of-line marker was a CARRIAGE RETURN
//      (0Dh), a LINE FEED (0Ah), or both."
//   * balanced parentheses need no escape; the first unbalanced `)` ends the string.
// =====================================================================================================
pub struct Step {
    pub eof: bool,        // the buffer ends before the lexeme is complete (unterminated string): must be an error
    pub trunc: bool,      // lexeme complete only because the buffer ends (octal code of < 3 digits at the very end of
                          // the buffer; the string is unterminated anyway): error or value, nothing demanded by C03
    pub out: Option<u8>,  // Some(byte of the value) / None = end of string
    pub pos: int,         // position just past the lexeme
    pub nested: int,      // parenthesis depth after the lexeme
}
pub open spec fn st_eof(pos: int, nested: int) -> Step { Step { eof: true, trunc: false, out: None, pos, nested } }
pub open spec fn st_emit(b: u8, pos: int, nested: int) -> Step { Step { eof: false, trunc: false, out: Some(b), pos, nested } }

pub open spec fn is_oct(c: u8) -> bool { 0x30 <= c <= 0x37 }
// number of octal digits of an escape whose first digit is at p: at most three
pub open spec fn oct_len(buf: Seq<u8>, p: int) -> int {
    if p < buf.len() && is_oct(buf[p]) {
        if p + 1 < buf.len() && is_oct(buf[p + 1]) {
            if p + 2 < buf.len() && is_oct(buf[p + 2]) { 3 } else { 2 }
        } else { 1 }
    } else { 0 }
}
// value of the n octal digits at p, most significant first
pub open spec fn oct_val(buf: Seq<u8>, p: int, n: int) -> int decreases n {
    if n <= 0 { 0 } else { oct_val(buf, p, n - 1) * 8 + (buf[p + n - 1] - 0x30) }
}
// syntactic class of the lexeme starting at pos (a function of at most two bytes; independent of any deviation);
// used only to split the one statement `next_lexeme == lit_step` into separately reported obligations
pub open spec fn lit_class(buf: Seq<u8>, pos: int) -> int {
    if pos < 0 || pos >= buf.len() { 0 }                       // end of buffer
    else if buf[pos] == 0x5C {
        if pos + 1 >= buf.len() { 0 }                          // end of buffer
        else { let d = buf[pos + 1];
            if d == 0x6E || d == 0x72 || d == 0x74 || d == 0x62 || d == 0x66 || d == 0x28 || d == 0x29 || d == 0x5C { 1 }  // Table 3 letter
            else if is_oct(d) { 2 }                            // \ddd
            else if d == 0x0A || d == 0x0D { 3 }               // line continuation
            else { 4 } }                                       // not in Table 3
    }
    else if buf[pos] == 0x28 || buf[pos] == 0x29 { 5 }         // parentheses
    else if buf[pos] == 0x0D { 6 }                             // bare CARRIAGE RETURN
    else { 7 }                                                 // any other byte stands for itself
}
pub open spec fn lit_step(buf: Seq<u8>, pos: int, nested: int) -> Step
    decreases buf.len() - pos
{
    if pos < 0 || pos >= buf.len() { st_eof(pos, nested) } else {
    let c = buf[pos];
    if c == 0x5C {                                             // REVERSE SOLIDUS
        if pos + 1 >= buf.len() { st_eof(pos + 1, nested) } else {
        let d = buf[pos + 1];
        if d == 0x6E { st_emit(0x0A, pos + 2, nested) }        // \n  LINE FEED
        else if d == 0x72 { st_emit(0x0D, pos + 2, nested) }   // \r  CARRIAGE RETURN
        else if d == 0x74 { st_emit(0x09, pos + 2, nested) }   // \t  HORIZONTAL TAB
        else if d == 0x62 { st_emit(0x08, pos + 2, nested) }   // \b  BACKSPACE
        else if d == 0x66 { st_emit(0x0C, pos + 2, nested) }   // \f  FORM FEED
        else if d == 0x28 { st_emit(0x28, pos + 2, nested) }   // \(
        else if d == 0x29 { st_emit(0x29, pos + 2, nested) }   // \)
        else if d == 0x5C { st_emit(0x5C, pos + 2, nested) }   // \\
        else if d == 0x0A {                                    // \ LF : continuation, EOL marker = LF alone
            lit_step(buf, if DEV_BACKSLASH_LF_SWALLOWS_CR() && pos + 2 < buf.len() && buf[pos + 2] == 0x0D { pos + 3 } else { pos + 2 }, nested) }
        else if d == 0x0D {                                    // \ CR or \ CR LF : continuation
            lit_step(buf, if pos + 2 < buf.len() && buf[pos + 2] == 0x0A { pos + 3 } else { pos + 2 }, nested) }
        else if is_oct(d) {                                    // \ddd
            let n = oct_len(buf, pos + 1);
            Step { eof: false, trunc: n < 3 && pos + 1 + n >= buf.len(),
                   out: Some((oct_val(buf, pos + 1, n) % 256) as u8), pos: pos + 1 + n, nested } }
        else {                                                 // not in Table 3: the backslash is ignored, d is kept
            if DEV_UNKNOWN_ESCAPE_EMITS_NUL() { st_emit(0x00, pos + 1, nested) } else { st_emit(d, pos + 2, nested) } }
        } }
    else if c == 0x28 { st_emit(0x28, pos + 1, nested + 1) }
    else if c == 0x29 {
        if nested - 1 < 0 { Step { eof: false, trunc: false, out: None, pos: pos + 1, nested: nested - 1 } }
        else { st_emit(0x29, pos + 1, nested - 1) } }
    else if c == 0x0D {                                        // bare EOL marker CR / CR LF reads as one LF
        if DEV_BARE_CR_KEPT() { st_emit(0x0D, pos + 1, nested) }
        else { st_emit(0x0A, if pos + 1 < buf.len() && buf[pos + 1] == 0x0A { pos + 2 } else { pos + 1 }, nested) } }
    else { st_emit(c, pos + 1, nested) } }
}
// Implementation limit: ISO 32000-1 puts no bound on the nesting of balanced parentheses, the depth counter of
// StringLexer is an i32. A lexeme whose depth does not fit the counter must be reported as an error: neither a
// panic (C01) nor a wrongly terminated string (C03) is acceptable.
pub open spec fn depth_fits(n: int) -> bool { n <= i32::MAX }
// what `r`, the new position and the new depth must be for a given step
pub open spec fn lex_post(st: Step, r: Result<Option<u8>>, fpos: int, fnested: int) -> bool {
    if st.eof || !depth_fits(st.nested) { r is Err }
    else if st.trunc { r is Err || (r == Ok::<Option<u8>, PdfError>(st.out) && fpos == st.pos && fnested == st.nested) }
    else { r == Ok::<Option<u8>, PdfError>(st.out) && fpos == st.pos && fnested == st.nested }
}
proof fn lemma_oct_val_bound(buf: Seq<u8>, p: int, n: int)
    requires 0 <= n <= 3, 0 <= p, p + n <= buf.len(), forall|j: int| p <= j < p + n ==> is_oct(buf[j])
    ensures 0 <= oct_val(buf, p, n), n == 0 ==> oct_val(buf, p, n) == 0, n == 1 ==> oct_val(buf, p, n) < 8,
            n == 2 ==> oct_val(buf, p, n) < 64, n == 3 ==> oct_val(buf, p, n) < 512
    decreases n
{ if n > 0 { lemma_oct_val_bound(buf, p, n - 1); } }

impl<'a> StringLexer<'a> {
    // type invariant of the cursor (fields are private; `new` establishes it, every method preserves it)
    pub open spec fn wf(&self) -> bool { self.pos <= self.buf@.len() }

//@@ StringLexer::new
//@@ StringLexer::iter
//@@ StringLexer::get_offset
//@@ StringLexer::next_lexeme
//@@ StringLexer::next_byte
//@@ StringLexer::back
//@@ StringLexer::peek_byte
}
// the iterator protocol over lexemes: Some(Ok(b)) = byte b, None = end of string, Some(Err(_)) = error
pub open spec fn as_lexeme(r: Option<Result<u8>>) -> Result<Option<u8>> {
    match r { None => Ok(None), Some(Ok(b)) => Ok(Some(b)), Some(Err(e)) => Err(e) }
}
// R2: `impl Iterator for StringLexerIter` emitted as an inherent impl (dispatch dropped, body unchanged)
impl<'a, 'b> StringLexerIter<'a, 'b> {
//@@ StringLexerIter::next
}

// =====================================================================================================
// Hexadecimal strings, ISO 32000-1 7.3.4.3: pairs of hexadecimal digits between < and >; "White-space
// characters (such as SPACE (20h), HORIZONTAL TAB (09h), CARRIAGE RETURN (0Dh), LINE FEED (0Ah), and FORM
// FEED (0Ch)) shall be ignored. If the final digit of a hexadecimal string is missing - that is, if there
// is an odd number of digits - the final digit shall be assumed to be 0."  White-space = Table 1:
// NUL HT LF FF CR SP.
// =====================================================================================================
pub open spec fn ws_listed(b: u8) -> bool { b == 0x20 || b == 0x09 || b == 0x0A || b == 0x0D || b == 0x0C }
pub open spec fn hex_ws(b: u8, nul: bool) -> bool { ws_listed(b) || (nul && b == 0x00) }
pub open spec fn hex_ws_iso(b: u8) -> bool { hex_ws(b, !DEV_HEX_NUL_NOT_SKIPPED()) }
// same function as `hexval` of units/enc_leaf/kani_enc.rs (decode_nibble's contract): ISO digits 0-9 A-F a-f
pub open spec fn hexval(c: u8) -> Option<u8> {
    if 0x30 <= c <= 0x39 { Some((c - 0x30) as u8) } else if 0x41 <= c <= 0x46 { Some((c - 0x41 + 10) as u8) }
    else if 0x61 <= c <= 0x66 { Some((c - 0x61 + 10) as u8) } else { None }
}
// first position >= p that does not hold white-space (buf.len() if there is none)
pub open spec fn skip(buf: Seq<u8>, p: int, nul: bool) -> int decreases buf.len() - p {
    if 0 <= p < buf.len() && hex_ws(buf[p], nul) { skip(buf, p + 1, nul) } else { p }
}
pub open spec fn skip_iso(buf: Seq<u8>, p: int) -> int { skip(buf, p, !DEV_HEX_NUL_NOT_SKIPPED()) }
// does the reading of NUL as white-space matter for the next character at p ?
pub open spec fn nul_matters(buf: Seq<u8>, p: int) -> bool { skip(buf, p, true) != skip(buf, p, false) }
pub struct HStep {
    pub eof: bool,        // buffer ends inside the string: must be an error
    pub bad: bool,        // a character that is neither digit, white-space nor `>`: must be an error
    pub out: Option<u8>,  // Some(next byte of the value) / None = `>` reached
    pub pos: int,
}
pub open spec fn hex_step(buf: Seq<u8>, pos: int) -> HStep {
    let p1 = skip_iso(buf, pos);
    if p1 >= buf.len() { HStep { eof: true, bad: false, out: None, pos: p1 } } else {
    let c1 = buf[p1];
    if c1 == 0x3E { HStep { eof: false, bad: false, out: None, pos: p1 + 1 } }
    else { match hexval(c1) {
        None => HStep { eof: false, bad: true, out: None, pos: p1 + 1 },
        Some(h) => {
            let p2 = skip_iso(buf, p1 + 1);
            if p2 >= buf.len() { HStep { eof: true, bad: false, out: None, pos: p2 } } else {
            let c2 = buf[p2];
            // odd number of digits: the missing digit is 0; the `>` is left for the next step
            if c2 == 0x3E { HStep { eof: false, bad: false, out: Some((h * 16) as u8), pos: p2 } }
            else { match hexval(c2) {
                None => HStep { eof: false, bad: true, out: None, pos: p2 + 1 },
                Some(l) => HStep { eof: false, bad: false, out: Some((h * 16 + l) as u8), pos: p2 + 1 } } } } } } } }
}
proof fn lemma_skip(buf: Seq<u8>, p: int, r: int, nul: bool)
    requires 0 <= p <= r <= buf.len(), forall|i: int| p <= i < r ==> hex_ws(buf[i], nul), r < buf.len() ==> !hex_ws(buf[r], nul)
    ensures skip(buf, p, nul) == r
    decreases r - p
{ if p < r { lemma_skip(buf, p + 1, r, nul); } }
// both readings of white-space agree up to the first NUL that follows listed white-space
proof fn lemma_skip_nul(buf: Seq<u8>, p: int)
    requires 0 <= p <= buf.len()
    ensures p <= skip(buf, p, false) <= skip(buf, p, true) <= buf.len(),
            forall|i: int| p <= i < skip(buf, p, false) ==> ws_listed(buf[i]),
            skip(buf, p, false) < buf.len() ==> !ws_listed(buf[skip(buf, p, false)]),
            nul_matters(buf, p) <==> (skip(buf, p, false) < buf.len() && buf[skip(buf, p, false)] == 0x00)
    decreases buf.len() - p
{ if p < buf.len() && hex_ws(buf[p], true) { lemma_skip_nul(buf, p + 1); } }
// the five-character reading stops at a NUL that the Table 1 reading skips
proof fn lemma_nul_stop(buf: Seq<u8>, p: int, q: int)
    requires 0 <= p <= q < buf.len(), forall|i: int| p <= i < q ==> hex_ws(buf[i], true), buf[q] == 0x00
    ensures skip(buf, p, false) <= q < skip(buf, p, true), nul_matters(buf, p)
    decreases q - p
{ if p < q { lemma_nul_stop(buf, p + 1, q); } else { lemma_skip_nul(buf, q + 1); } }

impl<'a> HexStringLexer<'a> {
    pub open spec fn wf(&self) -> bool { self.pos <= self.buf@.len() }

//@@ HexStringLexer::new
//@@ HexStringLexer::iter
//@@ HexStringLexer::get_offset
//@@ HexStringLexer::next_non_whitespace_char
//@@ HexStringLexer::next_hex_byte
//@@ HexStringLexer::read_byte
//@@ HexStringLexer::back
//@@ HexStringLexer::peek_byte
}
// R2: `impl Iterator for HexStringLexerIter` emitted as an inherent impl (dispatch dropped, body unchanged)
impl<'a, 'b> HexStringLexerIter<'a, 'b> {
//@@ HexStringLexerIter::next
}
}
fn main(){}
