// Repro for finding scan/Storage::scan_range (C17: "The recovery scan enumerates the same objects for both", "all offsets in
// the file being taken relative to the header"; C01: "No call panics") -- pdf/src/file.rs, Storage::scan.
// Drop this file into pdf/tests/ of a scratch copy of /repo and run (PRIVATE target dir!)
//   CARGO_TARGET_DIR=/tmp/scan_target cargo test --offline -p pdf --test scan_ignores_start_offset_repro
// A five-object classic-xref file is built in memory, once bare and once with junk bytes in front of `%PDF-`.
use pdf::file::{FileOptions, ScanItem};
use pdf::primitive::Primitive;

fn build(prefix: &[u8]) -> Vec<u8> {
    let mut out = prefix.to_vec();
    let base = out.len();                               // every offset in the file is relative to the header
    out.extend_from_slice(b"%PDF-1.4\n");
    let objs = [
        "1 0 obj\n<< /Type /Catalog /Pages 2 0 R >>\nendobj\n",
        "2 0 obj\n<< /Type /Pages /Kids [3 0 R] /Count 1 >>\nendobj\n",
        "3 0 obj\n<< /Type /Page /Parent 2 0 R /MediaBox [0 0 10 10] /Contents 4 0 R >>\nendobj\n",
        "4 0 obj\n<< /Length 5 >>\nstream\nq Q q\nendstream\nendobj\n",
        "5 0 obj\n(the last object of the body)\nendobj\n",
    ];
    let mut offs = Vec::new();
    for o in objs.iter() {
        offs.push(out.len() - base);
        out.extend_from_slice(o.as_bytes());
    }
    let xref = out.len() - base;
    out.extend_from_slice(b"xref\n0 6\n0000000000 65535 f \n");
    for o in offs {
        out.extend_from_slice(format!("{:010} 00000 n \n", o).as_bytes());
    }
    out.extend_from_slice(format!("trailer\n<< /Size 6 /Root 1 0 R >>\nstartxref\n{}\n%%EOF", xref).as_bytes());
    out
}

/// what the scan enumerates: (object number, debug text of the value, raw stream bytes if it is a stream) or the error text
fn scanned(data: Vec<u8>) -> Vec<String> {
    let file = FileOptions::uncached().load(data).expect("the file loads");
    let resolver = file.resolver();
    let mut out = Vec::new();
    for item in file.scan() {
        out.push(match item {
            Ok(ScanItem::Object(r, Primitive::Stream(s))) => {
                let raw = s.raw_data(&resolver).map(|d| String::from_utf8_lossy(&d).into_owned());
                format!("{} stream raw={:?}", r.id, raw)
            }
            Ok(ScanItem::Object(r, p)) => format!("{} {:?}", r.id, p),
            Ok(ScanItem::Trailer(t)) => format!("trailer {:?}", t),
            Err(e) => format!("error {:?}", e),
        });
        if out.len() > 20 { break; }
    }
    out
}

#[test]
fn scan_of_bare_file_sees_all_objects() {
    let bare = scanned(build(b""));
    assert_eq!(bare.len(), 5, "{:#?}", bare);
    assert_eq!(bare[3], "4 stream raw=Ok(\"q Q q\")");
}

#[test]
fn scan_enumerates_the_same_objects_under_a_prefix() {
    let bare = scanned(build(b""));
    let prefixed = scanned(build(&[b'j'; 36]));         // 36 junk bytes, as files/offset.pdf
    assert_eq!(bare, prefixed);
}

#[test]
fn scan_with_a_prefix_longer_than_the_body_does_not_panic() {
    let data = build(&[b'j'; 700]);                     // header still within the first kilobyte; startxref value < 700
    let r = std::panic::catch_unwind(move || scanned(data));
    match r {
        Ok(items) => assert_eq!(items, scanned(build(b""))),
        Err(_) => panic!("PANIC inside the library (Storage::scan: read(start_offset .. xref_offset).unwrap())"),
    }
}

#[test]
fn scan_without_a_usable_startxref_reports_an_error() {
    // the recovery scan is what one runs on a file whose cross-reference data is damaged: here `startxref` is missing
    use pdf::file::{Storage, NoCache, NoLog};
    use pdf::object::ParseOptions;
    let data = b"%PDF-1.4\n1 0 obj\n<< /Type /Catalog >>\nendobj\n%%EOF".to_vec();
    let r = std::panic::catch_unwind(move || {
        let storage = Storage::with_cache(data, ParseOptions::strict(), NoCache, NoCache, NoLog).expect("header found");
        let n_err = storage.scan().take(10).filter(|i| i.is_err()).count();
        n_err
    });
    match r {
        Ok(n_err) => assert!(n_err >= 1, "an error item is expected"),
        Err(_) => panic!("PANIC inside the library (Storage::scan: locate_xref_offset().unwrap())"),
    }
}
