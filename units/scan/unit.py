FILE = 'pdf/src/file.rs'
O = 'pdf/src/object/mod.rs'
IMPL = r'^impl<B, OC, SC, L> Storage<B, OC, SC, L> where'
SCAN = r'(^|\s)fn\s+scan\s*\('
PROPS = ['C17', 'C01']

SIG = "pub fn scan(&self) -> impl Iterator<Item = Result<ScanItem>> + '_"
# R2: the nested helper is lifted out (it is extracted as its own item, `skip_xref`)
DROP_NESTED = {'rule': 'R2', 'regex': r'fn skip_xref\(lexer: &mut Lexer\) -> Result<\(\)> \{.*?Ok\(\(\)\)\s*\}', 'replace': ''}

NOT_FAILED = '*old(failed) is None ==> '
CURSOR = 'object_at(old(lexer).buf@, old(lexer).off as int, old(lexer).pos as int, self.decoder, ParseFlags { bits: 1023 })'

UNIT = {
 'name': 'scan',
 'doc': 'Storage::scan (recovery scan): the body relative to the header is scanned through a lexer with absolute positions; one parse_indirect_object per item',
 'items': {
  'struct PlainRef': {'kind': 'decl', 'file': O, 'header': r'^pub struct PlainRef$', 'attrs': ['#[derive(Clone, Copy)]']},
  # R2: all fields kept (the type parameters OC, SC, L stay abstract), widened to pub
  'struct Storage': {'kind': 'decl', 'file': FILE, 'header': r'^pub struct Storage<B, OC, SC, L>$',
     'rewrites': [{'rule': 'R2', 'find': f, 'replace': 'pub ' + f} for f in
                  ('cache:', 'stream_cache:', 'changes:', 'refs:', 'decoder:', 'options:', 'backend:', 'start_offset:', 'log:')]},
  'enum ScanItem': {'kind': 'decl', 'file': FILE, 'header': r'^pub enum ScanItem$'},

  # ---- the nested helper of `scan`: skips a classic cross-reference table up to and including the keyword `trailer`
  'skip_xref': {'kind': 'fn', 'file': FILE, 'container': [IMPL, SCAN], 'name': 'skip_xref', 'props': ['C01'],
     'requires': ['old(lexer).wf()'],
     'ensures': [('skip_keeps_data', 'final(lexer).wf() && final(lexer).same_data(old(lexer))'),
                 ('skip_moves_forward', 'r is Ok ==> final(lexer).pos > old(lexer).pos')],
     'loops': {1: {'invariant': ['lexer.wf()', 'lexer.same_data(old(lexer))', 'lexer.pos >= old(lexer).pos'],
                   'ensures': ['lexer.wf()', 'lexer.same_data(old(lexer))', 'lexer.pos > old(lexer).pos'],
                   'decreases': 'lexer.buf@.len() - lexer.pos'}},
     'rewrites': [
        # R7: `Substr != &str` (impl PartialEq<&str> for Substr)
        {'rule': 'R7', 'find': 'lexer.next()? != "trailer"', 'replace': '!hoist_substr_eq(&lexer.next()?, "trailer")'},
     ]},

  # ---- added by findings/scan_ignores_start_offset_fix.diff (absent on the tree before the repair)
  'Storage::scan_range': {'kind': 'fn', 'file': FILE, 'container': IMPL, 'name': 'scan_range', 'props': PROPS, 'optional': True,
     # the content of a backend is addressable: Backend::len() returns its length as a usize (every Backend)
     'requires': ['self.backend.bytes().len() <= usize::MAX'],
     'ensures': [
        # C17 "all offsets in the file being taken relative to the header": the end of the body is header + startxref
        ('range_is_body_relative_to_header', 'match self.body() { Some(b) => r matches Ok(s) && s@ == b, None => r is Err }'),
     ]},

  # ---- set-up half of `scan`: everything before `std::iter::from_fn`; the result is the state the closure captures
  'Storage::scan': {'kind': 'fn', 'file': FILE, 'container': IMPL, 'name': 'scan', 'props': PROPS, 'ret': 'st',
     'requires': ['self.backend.bytes().len() <= usize::MAX'],
     'ensures': [
        # C17 "The recovery scan enumerates the same objects for both": what is scanned is the body relative to the header
        ('scanned_bytes_are_the_body', 'self.body() matches Some(b) ==> st.lexer.buf@ == b && st.failed is None'),
        # C17 "every object, stream ... reads identically": positions (stream `file_range`s) are absolute = header + relative
        ('lexer_positions_absolute', 'self.body() is Some ==> st.lexer.off == self.start_offset'),
        ('scan_starts_at_header', 'st.lexer.pos == 0 && st.lexer.wf()'),
        # C01 "completes each call with either a value or an error value": no usable startxref -> an error item, nothing scanned
        ('unusable_startxref_is_error_item', 'self.body() is None ==> st.failed is Some && st.lexer.buf@.len() == 0'),
        ('resolver_is_this_storage', 'st.resolver.storage == self'),
     ],
     'rewrites': [
        {'where': 'sig', 'rule': 'R8', 'find': SIG, 'replace': "pub fn scan<'a>(&'a self) -> ScanState<'a, B, OC, SC, L>"},
        DROP_NESTED,
        # R8: the closure-built iterator is replaced by its captured state (the closure body is item Storage::scan_next).
        # Shape after the repair (the closure starts by reporting a pending error) ...
        {'rule': 'R8', 'count': '*', 'regex': r'std::iter::from_fn\(move \|\| \{\s*if let Some\(e\) = failed\.take\(\) \{.*\}\)(?=\s*\}\s*\Z)',
         'replace': 'ScanState { lexer, failed, resolver }'},
        # ... and before it (no pending error exists)
        {'rule': 'R8', 'count': '*', 'regex': r'std::iter::from_fn\(move \|\| \{\s*loop \{.*\}\)(?=\s*\}\s*\Z)',
         'replace': 'ScanState { lexer, failed: None, resolver }'},
     ]},

  # ---- the closure body = one `next()` of the iterator; captured variables are parameters (R8)
  'Storage::scan_next': {'kind': 'fn', 'file': FILE, 'container': IMPL, 'name': 'scan', 'rename': 'scan_next', 'props': PROPS,
     'requires': ['old(lexer).wf()'],
     'ensures': [
        ('state_kept', 'final(lexer).wf() && final(lexer).same_data(old(lexer)) && *final(failed) is None'),
        # C01: the error of the set-up is reported as the first item
        ('pending_error_first', '*old(failed) matches Some(e) ==> r == Some(Err::<ScanItem, PdfError>(e)) && final(lexer).pos == old(lexer).pos'),
        # each item is the indirect object at the cursor, parsed by parse_indirect_object with the document decoder and all flags
        ('object_at_cursor', NOT_FAILED + '(' + CURSOR + ' matches Ok((id, p, end)) ==> r == Some(Ok::<ScanItem, PdfError>(ScanItem::Object(id, p))) && final(lexer).pos == end)'),
        # the scan ends at the end of the body
        ('eof_ends_scan', NOT_FAILED + '(' + CURSOR + ' matches Err(e) ==> (strip_try(e) is EOF ==> r is None))'),
        # no part of the body is skipped silently: an unreadable object is reported as an item (the error, or the trailer
        # dictionary of a classic cross-reference table found there); only a `startxref` line is stepped over
        ('other_error_is_item', NOT_FAILED + '(' + CURSOR + ' matches Err(e) ==> (!(strip_try(e) is EOF) && !at_startxref(old(lexer).buf@, old(lexer).pos as int) ==> r is Some))'),
     ],
     'loops': {1: {'invariant': ['lexer.wf()', 'lexer.same_data(old(lexer))', ('pending_error_reported_before_scanning', '*failed is None && *old(failed) is None'), 'lexer.pos >= old(lexer).pos',
                                 ('first_round_at_cursor', 'first ==> lexer.pos == old(lexer).pos'),
                                 ('later_rounds_after_startxref', '!first ==> (' + CURSOR + ' matches Err(e) && !(strip_try(e) is EOF) && at_startxref(old(lexer).buf@, old(lexer).pos as int))')],
                   'decreases': 'lexer.buf@.len() - lexer.pos'}},
     'rewrites': [
        {'where': 'sig', 'rule': 'R8', 'find': SIG,
         'replace': "pub fn scan<'a>(&'a self, lexer: &mut Lexer<'a>, failed: &mut Option<PdfError>, resolver: &StorageResolver<'a, B, OC, SC, L>) -> Option<Result<ScanItem>>"},
        # R8: keep the closure body only
        {'rule': 'R8', 'regex': r'\A\{.*?std::iter::from_fn\(move \|\| \{(.*)\}\)\s*\}\s*\Z', 'replace': r'{\1}'},
        # R8: the captured variables are reached through the parameters
        {'rule': 'R8', 'find': '&mut lexer', 'replace': '&mut *lexer', 'count': 3},
        {'rule': 'R8', 'find': '&resolver', 'replace': 'resolver'},
        # R1 ghost: "this is the first round of the loop"
        {'rule': 'R1', 'find': 'loop { let pos = lexer.get_pos();', 'replace': 'let ghost mut first = true; loop { let pos = lexer.get_pos();'},
        {'rule': 'R1', 'find': 'continue;', 'replace': 'proof { first = false; } continue;'},
        # R9: byte-string patterns -> if-chain over the hoisted comparison (guards stay where they are)
        {'rule': 'R9', 'find': 'match &*s { b"xref" => {', 'replace': '{ if hoist_substr_eq(&s, "xref") {'},
        {'rule': 'R9', 'find': 'b"startxref" if lexer.next().is_ok() => {', 'replace': 'else if hoist_substr_eq(&s, "startxref") && lexer.next().is_ok() {'},
        {'rule': 'R9', 'find': '_ => {}', 'replace': 'else {}'},
        # R7: parser call + closure
        {'rule': 'R7', 'find': 'parse_with_lexer(&mut *lexer, &NoResolve, ParseFlags::DICT).and_then(|p| p.into_dictionary())',
         'replace': 'hoist_parse_trailer_dict(&mut *lexer)'},
     ]},
 },
 # BOUNDED native stand-in (vlib/native.py) for the TWO-RUN sentence of C17 (load(prefix ++ f) reads as load(f)), which the single-run
 # proofs do not reach. The test file lives in units/xrefchain (one generator for C02, C17, C09). Never counted as proved.
 'native': {'tests': [
    {'name': 'prefixed_file_reads_identically', 'code': '../xrefchain/e2e_docs_bounded.rs', 'place': 'pdf/tests/verif_e2e_c17.rs', 'filter': 'c17_',
     'fn': 'Storage::scan', 'props': ['C17'], 'tier': 'quick', 'timeout': 900,
     'bound': 'generated files (hand-written bytes, no crate writer): base body of 6 objects (catalog, page tree, page, content stream, integer, string) + 0..=2 incremental updates of kind {Redef 3 4 5 6 | Free5 (free entry gen 1) + 6 | Reuse5 (gen 1, after Free5) | AddGap (new 9, 11; 7, 8, 10 undefined) | Pack (5, 6 inside a new object stream, xref-stream sections only)}: all 18 well-formed kind sequences; every section in one of 3 formats {classic | xref stream /W [1 2 1] one /Index run per entry | /W [1 3 2] maximal runs} (+ base variants objects 5, 6 in an object stream, /Index omitted): 654 files x 7 prefixes {empty, LF, "garbage" CR LF, 1 byte, 1000 bytes of % comment lines, 28 bytes holding "%PDF" without dash and "%PD F-", 1019 bytes (binary, "startxref 7", "%PDF 1.4"; the header marker ends at byte 1024, the bound of xrefchain locate_start_offset/header_first_in_window)} = 4578 loads compared with the unprefixed load, 1962 update+save+reload runs (files with undefined numbers below /Size included).',
     'contract': 'for every file f and prefix p: load(p ++ f) succeeds and agrees with load(f) on: resolve of every object number 0 ..= /Size + 2 (value, '
                 'stream dictionary, raw and decoded stream data, or missing), page count, page 0 (reference, /Rotate, /MediaBox, parsed operations), the typed '
                 'trailer (/Size /Prev /Root /ID), and the items of File::scan (objects and trailers; errors compared as errors). For about every third (file, prefix) pair and '
                 'every unprefixed file: update of the newest scalar object + create + Storage::save + reload: the previous bytes are a '
                 'prefix of the output, the updated id (the id handed back is the id given) and the created id read the written values, every other object, the page count and page 0 read as before.'},
 ]},
}
