// Unit `scan` (C17, C01): Storage::scan of pdf/src/file.rs -- the recovery scan.
//   Storage::scan_range   (added by findings/scan_ignores_start_offset_fix.diff) the bytes that are scanned
//   Storage::scan         the set-up half: range, lexer, captured state of the closure-built iterator
//   Storage::scan_next    the body of the `std::iter::from_fn(move || ..)` closure = one step of the iterator (R8)
//   skip_xref             the nested helper of `scan`
// Abstract (env) callees: Backend::{read, locate_xref_offset}, Lexer::{with_offset, get_pos, set_pos, next},
// parse_indirect_object, parse_with_lexer (hoisted), PdfError::is_eof, StorageResolver::new, ParseFlags::all.
use vstd::prelude::*;
use core::ops::Range;
use std::collections::HashMap;
//@@ INCLUDE _common/error_macros.rs
verus! {
global size_of usize == 8;

//@@ PDFERROR
pub type ObjNr = u64;
pub type GenNr = u64;

//@@ struct PlainRef

// ---- environment ------------------------------------------------------------------------------------------------
#[verifier::external_body]
pub struct Primitive { _p: () }
#[verifier::external_body]
pub struct Dictionary { _p: () }
#[verifier::external_body]
pub struct Decoder { _p: () }
#[verifier::external_body]
pub struct ParseOptions { _p: () }
#[verifier::external_body]
pub struct XRefTable { _p: () }
// parser/mod.rs:22 (bitflags! struct over u16): ANY = (1 << 10) - 1 is the union of all flags
#[derive(Clone, Copy)]
pub struct ParseFlags { pub bits: u16 }
impl ParseFlags {
    #[verifier::external_body]
    pub fn all() -> (r: ParseFlags) ensures r.bits == 1023 { unimplemented!() }
}

// `is_eof`: EOF, looked at through `t!` wrappers only
pub open spec fn strip_try(e: PdfError) -> PdfError decreases e {
    match e { PdfError::Try { source } => strip_try(*source), x => x }
}
impl PdfError {
    // proved in units/option: PdfError::is_eof/is_eof_exact
    #[verifier::external_body]
    pub fn is_eof(&self) -> (r: bool) ensures r == (strip_try(*self) is EOF) { unimplemented!() }
}

pub struct Substr<'a> { pub slice: &'a [u8] }
// there is a token (ISO 32000-1 7.2) at or after `pos`, and which (unit lexer: Lexer::next/next_is_iso_token, next_eof_keeps_pos)
pub uninterp spec fn has_token(buf: Seq<u8>, pos: int) -> bool;
pub uninterp spec fn token_after(buf: Seq<u8>, pos: int) -> Seq<u8>;
// the next token is the keyword `startxref` (7.5.5: the line before the offset of the newest cross-reference section)
pub open spec fn at_startxref(buf: Seq<u8>, pos: int) -> bool { has_token(buf, pos) && token_after(buf, pos) == str_bytes("startxref") }
pub struct Lexer<'a> { pub buf: &'a [u8], pub off: usize, pub pos: usize }
pub open spec fn min_int(a: int, b: int) -> int { if a <= b { a } else { b } }
// abstract callees; contracts as proved on the real text in unit lexer (with_offset: constructor; get_pos / set_pos;
// Lexer::next/next_wf, next_is_iso_token: a token is not empty, so an `Ok` moves the cursor forward)
impl<'a> Lexer<'a> {
    pub open spec fn wf(&self) -> bool { self.pos <= self.buf@.len() }
    pub open spec fn same_data(&self, o: &Lexer<'a>) -> bool { self.buf == o.buf && self.off == o.off }
    #[verifier::external_body]
    pub fn with_offset(buf: &'a [u8], file_offset: usize) -> (r: Lexer<'a>) ensures r.off == file_offset, r.buf == buf, r.pos == 0 { unimplemented!() }
    #[verifier::external_body]
    pub fn get_pos(&self) -> (r: usize) ensures r == self.pos { unimplemented!() }
    #[verifier::external_body]
    pub fn set_pos(&mut self, wanted_pos: usize) -> (r: Substr<'a>)
        ensures final(self).same_data(old(self)), final(self).pos == min_int(wanted_pos as int, old(self).buf@.len() as int)
    { unimplemented!() }
    #[verifier::external_body]
    pub fn next(&mut self) -> (r: Result<Substr<'a>>)
        requires old(self).wf()
        ensures final(self).wf(), final(self).same_data(old(self)), final(self).pos >= old(self).pos,
            r is Ok ==> final(self).pos > old(self).pos,
            r matches Ok(sub) ==> has_token(old(self).buf@, old(self).pos as int) && sub.slice@ == token_after(old(self).buf@, old(self).pos as int),
    { unimplemented!() }
}
pub trait Resolve {}
pub struct NoResolve;
impl Resolve for NoResolve {}

// IndexRange / Backend: contracts as in unit xrefchain (to_range, the range impls and locate_xref_offset are under proof there)
pub trait IndexRange {
    spec fn lo(&self) -> Option<usize>;
    spec fn hi(&self) -> Option<usize>;
}
impl IndexRange for Range<usize> {
    open spec fn lo(&self) -> Option<usize> { Some(self.start) }
    open spec fn hi(&self) -> Option<usize> { Some(self.end) }
}
pub open spec fn range_of(lo: Option<usize>, hi: Option<usize>, len: int) -> Option<(int, int)> {
    let a: int = match lo { Some(s) => s as int, None => 0 };
    let b: int = match hi { Some(e) => e as int, None => len };
    if a <= b && b <= len { Some((a, b)) } else { None }
}
pub trait Backend: Sized {
    spec fn bytes(&self) -> Seq<u8>;
    // the value of the last `startxref` line, None if there is no readable one
    // (ISO 32000-1 7.5.5; proved in units/xrefchain: locate_xref_offset/startxref_is_token_after_last_keyword, no_keyword_is_error)
    spec fn startxref(&self) -> Option<usize>;
    fn read<T: IndexRange>(&self, range: T) -> (r: Result<&[u8]>)
        ensures match range_of(range.lo(), range.hi(), self.bytes().len() as int) {
            Some((a, b)) => r matches Ok(s) && s@ == self.bytes().subrange(a, b),
            None => r is Err };
    fn locate_xref_offset(&self) -> (r: Result<usize>)
        ensures match self.startxref() { Some(x) => r == Ok::<usize, PdfError>(x), None => r is Err };
}

pub open spec fn deref_opt(d: Option<&Decoder>) -> Option<Decoder> { match d { Some(x) => Some(*x), None => None } }

// "the indirect object that starts at the cursor": what parse_indirect_object reads from a lexer over `buf` whose first
// byte sits at file position `off` (stream data ranges are `off + position`, see Lexer::new_substr in unit lexer),
// with the cursor at `pos`: object id, value, and the cursor position behind `endobj`
pub uninterp spec fn object_at(buf: Seq<u8>, off: int, pos: int, decoder: Option<Decoder>, flags: ParseFlags) -> Result<(PlainRef, Primitive, int)>;

// parser/parse_object.rs:15 (abstract callee): deterministic in the bytes, the file offset of the lexer, the cursor,
// the decoder and the flags (its use of the resolver for an indirect /Length is not modelled)
#[verifier::external_body]
pub fn parse_indirect_object(lexer: &mut Lexer, r: &impl Resolve, decoder: Option<&Decoder>, flags: ParseFlags) -> (res: Result<(PlainRef, Primitive)>)
    requires old(lexer).wf()
    ensures final(lexer).wf(), final(lexer).same_data(old(lexer)),
        match object_at(old(lexer).buf@, old(lexer).off as int, old(lexer).pos as int, deref_opt(decoder), flags) {
            Ok((id, p, end)) => res == Ok::<(PlainRef, Primitive), PdfError>((id, p)) && final(lexer).pos == end,
            Err(e) => res == Err::<(PlainRef, Primitive), PdfError>(e) }
{ unimplemented!() }

pub open spec fn str_bytes(s: &str) -> Seq<u8> { Seq::new(s@.len(), |i: int| s@[i] as u8) }
// R7 / R9: `Substr == &str` and the byte-string patterns of `match &*s` (Substr: Deref<Target=[u8]>) compare the token's bytes
#[verifier::external_body]
fn hoist_substr_eq(a: &Substr, b: &'static str) -> (r: bool) ensures r == (a.slice@ == str_bytes(b))
{ a.slice == b.as_bytes() }

// R7: `parse_with_lexer(&mut lexer, &NoResolve, ParseFlags::DICT).and_then(|p| p.into_dictionary())` -- the trailer
// dictionary behind the keyword `trailer`; abstract: moves the cursor within the same data
#[verifier::external_body]
fn hoist_parse_trailer_dict(lexer: &mut Lexer) -> (r: Result<Dictionary>)
    requires old(lexer).wf()
    ensures final(lexer).wf(), final(lexer).same_data(old(lexer))
{
    /* hoisted source text (file.rs, closure of Storage::scan):
    parse_with_lexer(&mut lexer, &NoResolve, ParseFlags::DICT).and_then(|p| p.into_dictionary())
    */
    unimplemented!()
}

//@@ struct Storage
//@@ enum ScanItem

// file.rs:276 (the `chain` field, a Mutex<Vec<PlainRef>> for cycle detection, is not modelled)
pub struct StorageResolver<'a, B, OC, SC, L> { pub storage: &'a Storage<B, OC, SC, L> }
impl<'a, B, OC, SC, L> StorageResolver<'a, B, OC, SC, L> {
    #[verifier::external_body]
    pub fn new(storage: &'a Storage<B, OC, SC, L>) -> (r: Self) ensures r.storage == storage { unimplemented!() }
}
impl<'a, B, OC, SC, L> Resolve for StorageResolver<'a, B, OC, SC, L> {}

// R8: the state captured by the closure handed to `std::iter::from_fn` (`move`: lexer, failed, resolver; `self` by reference)
pub struct ScanState<'a, B, OC, SC, L> {
    pub lexer: Lexer<'a>,
    pub failed: Option<PdfError>,
    pub resolver: StorageResolver<'a, B, OC, SC, L>,
}

//@@ skip_xref

impl<B: Backend, OC, SC, L> Storage<B, OC, SC, L> {
    // ---- spec, from the statement of C17: "all offsets in the file being taken relative to the header. The recovery
    // scan enumerates the same objects for both" ----
    // The body of the file = the bytes from the header up to the newest cross-reference section, whose position
    // `startxref` gives relative to the header (ISO 32000-1 7.5.5 + C17). None: no usable startxref / outside the file.
    pub open spec fn body(&self) -> Option<Seq<u8>> {
        match self.backend.startxref() {
            Some(x) => if self.start_offset + x <= self.backend.bytes().len() {
                    Some(self.backend.bytes().subrange(self.start_offset as int, self.start_offset + x))
                } else { None },
            None => None,
        }
    }

//@@ Storage::scan_range
//@@ Storage::scan
//@@ Storage::scan_next
}

}
// `Result::unwrap` (the tree before the repair) wants `E: Debug`; never called, not under Verus
impl std::fmt::Debug for PdfError { fn fmt(&self, _f: &mut std::fmt::Formatter<'_>) -> std::fmt::Result { Ok(()) } }
fn main(){}
