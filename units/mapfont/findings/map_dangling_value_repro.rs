// Triage for unit mapfont (C18 x HashMap<Name, V>): drop into a scratch copy as pdf/tests/mapfont_dangling_value.rs and run
//   CARGO_TARGET_DIR=/tmp/mapfont_target cargo test --offline -p pdf --test mapfont_dangling_value
// A page whose /Resources has a valid /Font entry and an /ExtGState dictionary with ONE value that refers to an object
// beyond the cross-reference table (or to a free object). C18: "a dictionary value [that] refers to an object number that
// is free, lies beyond the cross-reference table ... reading the containing typed object succeeds and treats that entry
// as absent".
use pdf::file::FileOptions;

fn build(extgstate_value: &str) -> Vec<u8> {
    let mut out: Vec<u8> = Vec::new();
    let mut offs = vec![];
    out.extend_from_slice(b"%PDF-1.4\n");
    let objs = [
        "<< /Type /Catalog /Pages 2 0 R >>".to_string(),
        "<< /Type /Pages /Kids [3 0 R] /Count 1 >>".to_string(),
        format!("<< /Type /Page /Parent 2 0 R /MediaBox [0 0 10 10] /Resources << /Font << /F1 4 0 R >> /ExtGState << /GS0 << /LW 2 >> /GS1 {} >> >> >>", extgstate_value),
        "<< /Type /Font /Subtype /Type1 /BaseFont /Helvetica >>".to_string(),
    ];
    for (i, o) in objs.iter().enumerate() {
        offs.push(out.len());
        out.extend_from_slice(format!("{} 0 obj\n{}\nendobj\n", i + 1, o).as_bytes());
    }
    let px = out.len();
    // /Size 6: 0 free head, 1..4 in use, 5 free
    out.extend_from_slice(b"xref\n0 6\n0000000005 65535 f \n");
    for o in &offs { out.extend_from_slice(format!("{:010} 00000 n \n", o).as_bytes()); }
    out.extend_from_slice(b"0000000000 00001 f \n");
    out.extend_from_slice(format!("trailer\n<< /Size 6 /Root 1 0 R >>\nstartxref\n{}\n%%EOF\n", px).as_bytes());
    out
}

fn check(value: &str) {
    let file = FileOptions::uncached().load(build(value)).expect("load");
    let page = file.get_page(0).expect("page 0");
    let res = page.resources().unwrap_or_else(|e| panic!("/ExtGState /GS1 {}: the page has lost its WHOLE resource dictionary: {:?}", value, e));
    assert!(res.fonts.contains_key("F1"), "font entry kept");
    assert!(res.graphics_states.contains_key("GS0"), "valid graphics state kept");
    assert!(!res.graphics_states.contains_key("GS1"), "dangling entry absent");
}

#[test] fn control_valid_value() {
    let file = FileOptions::uncached().load(build("<< /LW 1 >>")).expect("load");
    let page = file.get_page(0).expect("page 0");
    let res = page.resources().expect("resources");
    assert!(res.fonts.contains_key("F1") && res.graphics_states.contains_key("GS1"));
}
// Observation (not part of this finding, not changed by the fix): a DIRECT null value, which ISO 32000-1 7.3.7 equates with an
// absent entry, fails the page when V has no null form: get_page(0) is
//   Err(.. FromPrimitive { typ: "HashMap < Name, GraphicsStateParameters >", field: "graphics_states",
//          source: UnexpectedPrimitive { expected: "Dictionary", found: "Null" } })
#[test] #[ignore] fn observation_direct_null_value() {
    let file = FileOptions::uncached().load(build("null")).expect("load");
    let page = file.get_page(0).expect("page 0");
    assert!(page.resources().is_ok());
}
#[test] fn value_beyond_the_table() { check("9 0 R"); }
#[test] fn value_is_a_free_object() { check("5 0 R"); }
