M = 'pdf/src/object/mod.rs'
P = 'pdf/src/primitive.rs'
F = 'pdf/src/font.rs'
RD = ['C15', 'C18', 'C01']
WR = ['C15', 'C01']
ST = 'resolve.store()'


def sig(find, replace, rule='R2'):
    return {'where': 'sig', 'rule': rule, 'find': find, 'replace': replace}


# R2 (as in units/readers): a trait-impl method is emitted as a free generic fn: `Self` spelled out, `&impl Resolve` /
# `&mut impl Updater` as named generics (Verus mistypes `impl Trait` arguments in trait-related specs)
def reader(file, container, new, ty, ensures, generics='', extra=(), props=RD, **kw):
    rw = [{'where': 'sig', 'rule': 'R2', 'regex': r'\bfn from_primitive\(', 'replace': 'fn from_primitive<%sR__: Resolve>(' % generics},
          {'where': 'sig', 'rule': 'R2', 'regex': r'&impl Resolve', 'replace': '&R__'},
          {'where': 'sig', 'rule': 'R2', 'regex': r'Result<Self>', 'replace': 'Result<%s>' % ty}]
    d = {'kind': 'fn', 'file': file, 'container': container, 'name': 'from_primitive', 'rename': new, 'verus_name': new,
         'props': props, 'ret': 'res', 'ensures': ensures, 'rewrites': rw + list(extra)}
    d.update(kw)
    return d


def writer(file, container, new, ty, ensures, generics='', extra=(), props=WR, **kw):
    rw = [{'where': 'sig', 'rule': 'R2', 'regex': r'\bfn to_primitive\(&self', 'replace': 'fn to_primitive<%sU__: Updater>(this: &%s' % (generics, ty)},
          {'where': 'sig', 'rule': 'R2', 'regex': r'&mut impl Updater', 'replace': '&mut U__'}]
    d = {'kind': 'fn', 'file': file, 'container': container, 'name': 'to_primitive', 'rename': new, 'verus_name': new,
         'props': props, 'ret': 'res', 'ensures': ensures, 'rewrites': rw + list(extra)}
    d.update(kw)
    return d


SELF = lambda n=1: {'rule': 'R2', 'regex': r'\bself\b', 'replace': 'this', 'count': n}   # `&self` of the trait method is the free fn's `this`
MAPV = 'HashMap<Name, V>'
DEREF = 'deref1(p, %s)' % ST

# ---- (a) HashMap<Name, V> ---------------------------------------------------------------------------------------------------
MAP_READER_RW = [
    {'rule': 'R2', 'find': 'let mut new = Self::new();', 'replace': 'let mut new: HashMap<Name, V> = HashMap::new();'},
    {'rule': 'R2', 'regex': r'HashMap::from_primitive\(', 'replace': 'map_from_primitive::<V, R__>('},
    # R6/R10: iterator loop -> index loop over the collected entries (`continue` stays meaningful: the index advances first)
    {'rule': 'R6', 'find': 'for (key, val) in dict.iter() {',
     'replace': 'let ents__ = hoist_dict_iter(&dict); let mut i__: usize = 0; while i__ < ents__.len() { '
                'let e__ = &ents__[i__]; let key = e__.0; let val = e__.1; i__ += 1;'},
    {'rule': 'R1', 'regex': r'\A\{', 'replace': '{\n        broadcast use axiom_name_key_model;'},
    {'rule': 'R1', 'find': 'Ok(new)', 'replace': 'proof { lemma_map_loop_done::<V>(ents__@, dict@, resolve.store(), new@); } Ok(new)'},
]
MAP_READER_LOOPS = {1: {'invariant': [
    'i__ <= ents__.len()', 'lists_dict(ents__@, dict@)',
    # every entry visited so far whose value V's reader accepts is in the map, under its own key, with that value ...
    ('map_every_entry_so_far', 'forall|j: int| 0 <= j < i__ ==> (V::reads(*(#[trigger] ents__@[j]).1, %s) matches Ok(v) ==> new@.dom().contains(*ents__@[j].0) && new@[*ents__@[j].0] == v)' % ST),
    # ... an entry is left out only because its value refers to a missing object ...
    ('map_only_dangling_values_skipped', 'forall|j: int| 0 <= j < i__ ==> (V::reads(*(#[trigger] ents__@[j]).1, %s) matches Err(x) ==> entry_absent(x) && !new@.dom().contains(*ents__@[j].0))' % ST),
    # ... and nothing else is in the map
    ('map_no_other_key_so_far', 'forall|k: Name| new@.dom().contains(k) ==> exists|j: int| 0 <= j < i__ && *(#[trigger] ents__@[j]).0 == k')],
    'decreases': 'ents__.len() - i__'}}
MAP_WRITER_RW = [
    SELF('*'),
    {'rule': 'R6', 'find': 'for (k, v) in this.iter() {',
     'replace': 'let ents__ = hoist_map_iter(this); let mut i__: usize = 0; while i__ < ents__.len() { '
                'let e__ = &ents__[i__]; let k = e__.0; let v = e__.1; i__ += 1;'},
    {'rule': 'R1', 'regex': r'\A\{', 'replace': '{\n        broadcast use axiom_name_key_model;'},
    {'rule': 'R1', 'find': 'Ok(Primitive::Dictionary(dict))',
     'replace': 'proof { lemma_map_write_done::<V>(ents__@, this@, dict@); } Ok(Primitive::Dictionary(dict))'},
]
MAP_WRITER_LOOPS = {1: {'invariant': [
    'i__ <= ents__.len()', 'lists_map(ents__@, this@)',
    ('wr_every_entry_so_far', 'forall|j: int| 0 <= j < i__ ==> dict@.dom().contains((#[trigger] ents__@[j]).0.0@) && dict@[ents__@[j].0.0@] == (*ents__@[j].1).writes()'),
    ('wr_no_other_key_so_far', 'forall|k: Seq<char>| dict@.dom().contains(k) ==> exists|j: int| 0 <= j < i__ && (#[trigger] ents__@[j]).0.0@ == k')],
    'decreases': 'ents__.len() - i__'}}

# ---- (b) Font ---------------------------------------------------------------------------------------------------------------
FONT_READER_RW = [
    # R3: payload of the error dropped (twin of PdfError keeps `typ` only)
    {'rule': 'R3', 'regex': r'PdfError::MissingEntry \{\s*typ: "Font",\s*field: "BaseFont"\.to_string\(\)\s*\}', 'replace': 'PdfError::MissingEntry { typ: "Font" }'},
    # R8: `opt.map(|p| READ).transpose()?` evaluated in place: Some(p) => Some(READ?), None => None
    {'rule': 'R8', 'regex': r'(dict\.remove\("Encoding"\))\.map\(\|p\| (Object::from_primitive\(p, resolve\))\)\.transpose\(\)\?',
     'replace': r'(match \1 { Some(p) => Some(\2?), None => None })'},
    {'rule': 'R1', 'regex': r'\A\{', 'replace': '{\n        proof { lemma_font_literals(); }'},
    {'rule': 'R1', 'find': 'let subtype = t!(', 'replace': 'let ghost d0 = dict@; let subtype = t!('},
    # extensionality hint (an implication, so it holds whatever the body does): equal entries = the same dictionary
    {'rule': 'R1', 'find': 'let _other = dict.clone();',
     'replace': 'proof { assert(dict@ =~= font_rest(d0) ==> dict == (Dictionary { m: Ghost(font_rest(d0)) })); } let _other = dict.clone();'},
]
FONT_WRITER_RW = [
    SELF('*'),
    {'rule': 'R1', 'regex': r'\A\{', 'replace': '{\n        proof { lemma_font_literals(); }'},
]

UNIT = {
 'name': 'mapfont',
 'doc': 'HashMap<Name, V> and Font reader/writer pairs: every dictionary entry kept (null values included), /Subtype <-> FontData variant table, write-read-write identity',
 'timeout': 600,
 'deviations': {
   'DEV_MAP_DANGLING_VALUE_IS_ERROR': 'a dictionary value of a HashMap<Name, V> that refers to a missing object fails the whole map (and, through the Option reader of the enclosing field, silently drops e.g. a page\'s whole /Resources); C18: the entry is absent',
 },
 'items': {
  'struct Name': {'kind': 'decl', 'file': P, 'header': r'^pub struct Name\('},
  # ---- (a)
  'map_from_primitive': reader(M, r'^impl<V: Object> Object for HashMap<Name, V>$', 'map_from_primitive', MAPV,
      [('map_spec', 'map_reads::<V>(p, %s, res)' % ST),
       ('map_null_is_empty', '%s == Ok::<Primitive, PdfError>(Primitive::Null) ==> (res matches Ok(m) && m@ == Map::<Name, V>::empty())' % DEREF),
       ('map_every_entry', '%s matches Ok(Primitive::Dictionary(d)) ==> (res matches Ok(m) ==> forall|k: Name| #[trigger] m@.dom().contains(k) <==> (d@.dom().contains(k.0@) && V::reads(d@[k.0@], %s) is Ok))' % (DEREF, ST)),
       ('map_values_read_as_they_stand', '%s matches Ok(Primitive::Dictionary(d)) ==> (res matches Ok(m) ==> forall|k: Name| d@.dom().contains(k.0@) ==> (V::reads(d@[k.0@], %s) matches Ok(v) ==> v == #[trigger] m@[k]))' % (DEREF, ST)),
       ('map_value_error_propagates', '%s matches Ok(Primitive::Dictionary(d)) ==> (res matches Err(e) ==> exists|k: Seq<char>| d@.dom().contains(k) && V::reads(#[trigger] d@[k], %s) == Err::<V, PdfError>(e))' % (DEREF, ST)),
       ('map_ok_when_values_ok', '%s matches Ok(Primitive::Dictionary(d)) ==> ((forall|k: Seq<char>| d@.dom().contains(k) ==> V::reads(#[trigger] d@[k], %s) is Ok) ==> res is Ok)' % (DEREF, ST)),
       # C18: a value that refers to a missing object does not fail the map; the entry is absent
       ('map_dangling_value_is_absent', '%s matches Ok(Primitive::Dictionary(d)) ==> ((forall|k: Seq<char>| d@.dom().contains(k) ==> (V::reads(#[trigger] d@[k], %s) matches Err(x) ==> entry_absent(x))) ==> res is Ok)' % (DEREF, ST)),
       ('map_other_is_error', '%s matches Ok(q) ==> (!(q is Null || q is Dictionary) ==> res == unexpected::<%s>("Dictionary", q))' % (DEREF, MAPV)),
       ('map_reference_resolved_once', 'p matches Primitive::Reference(id) ==> (obj(%s, id) matches Err(e) ==> res == Err::<%s, PdfError>(e))' % (ST, MAPV)),
       ('map_dangling_is_missing', 'p matches Primitive::Reference(id) ==> (dangling(%s, id) ==> (res matches Err(e) && is_missing(e)))' % ST)],
      generics='V: Object, ', extra=MAP_READER_RW, loops=MAP_READER_LOOPS,
      decreases='(if p is Reference { 1nat } else { 0nat })',
      attrs=['#[verifier::loop_isolation(false)]']),
  'map_to_primitive': writer(M, r'^impl<V: ObjectWrite> ObjectWrite for HashMap<Name, V>$', 'map_to_primitive', MAPV,
      [('wr_spec', 'res matches Ok(p) ==> map_writes(this@, p)'),
       ('wr_empty_is_null', 'this@.dom() =~= Set::<Name>::empty() ==> res == Ok::<Primitive, PdfError>(Primitive::Null)'),
       ('wr_every_entry', 'res matches Ok(Primitive::Dictionary(d)) ==> forall|k: Name| this@.dom().contains(k) ==> #[trigger] d@.dom().contains(k.0@) && d@[k.0@] == this@[k].writes()'),
       ('wr_no_other_key', 'res matches Ok(Primitive::Dictionary(d)) ==> forall|k: Seq<char>| #[trigger] d@.dom().contains(k) ==> this@.dom().contains(nm(k))'),
       ('wr_err', 'res is Err ==> exists|k: Name| this@.dom().contains(k) && (#[trigger] this@[k]).wfail()')],
      generics='V: ObjectWrite, ', extra=MAP_WRITER_RW, loops=MAP_WRITER_LOOPS,
      attrs=['#[verifier::loop_isolation(false)]']),
  # ---- (b)
  'enum FontType': {'kind': 'decl', 'file': F, 'header': r'^pub enum FontType$', 'attrs': ['#[derive(Clone, Copy)]']},
  'struct Font': {'kind': 'decl', 'file': F, 'header': r'^pub struct Font$'},
  'enum FontData': {'kind': 'decl', 'file': F, 'header': r'^pub enum FontData$'},
  'font_from_primitive': reader(F, r'^impl Object for Font$', 'font_from_primitive', 'Font',
      [('rd_spec', 'font_agrees(res, font_reads(p, %s))' % ST),
       # the table of ISO 32000-1 Table 110, row by row: /Subtype value -> variant of FontData (and the `subtype` field)
       ('rd_subtype_table', 'subtype_text(p, %s) matches Some(s) ==> (res matches Ok(f) ==> '
            '(s == "Type0"@ ==> f.data is Type0) && (s == "Type1"@ ==> f.data is Type1) && (s == "TrueType"@ ==> f.data is TrueType) '
            '&& (s == "CIDFontType0"@ ==> f.data is CIDFontType0) && (s == "CIDFontType2"@ ==> f.data is CIDFontType2) '
            '&& (s == "MMType1"@ || s == "Type3"@ ==> f.data is Other) && font_type_name(f.subtype) == s)' % ST),
       ('rd_subtype_required', 'subtype_text(p, %s) is None ==> res is Err' % ST),
       ('rd_unknown_subtype_is_error', 'subtype_text(p, %s) matches Some(s) ==> (!is_table110_value(s) ==> res is Err)' % ST),
       ('rd_dangling_is_missing', 'p matches Primitive::Reference(id) ==> (dangling(%s, id) ==> (res matches Err(e) && is_missing(e)))' % ST)],
      extra=FONT_READER_RW),
  'font_to_primitive': writer(F, r'^impl ObjectWrite for Font$', 'font_to_primitive', 'Font',
      [('wr_spec', 'res matches Ok(p) ==> font_writes(*this, p)'),
       ('wr_subtype_is_variant_name', 'res matches Ok(Primitive::Dictionary(d)) ==> (iso_subtype_of(this.data) matches Some(sub) && dget(d@, "Subtype"@) == Some(Primitive::Name(sstr(sub))))'),
       ('wr_type_is_font', 'res matches Ok(Primitive::Dictionary(d)) ==> dget(d@, "Type"@) == Some(Primitive::Name(sstr("Font"@)))'),
       ('wr_err', 'res is Err ==> (this.data is Other || data_wfail(this.data) || (this.to_unicode matches Some(x) && tu_wfail(x)) || (this.encoding matches Some(x) && enc_wfail(x)))')],
      extra=FONT_WRITER_RW),
 },
}

# C10 (documents built from scratch reload equal, mechanism "derived dictionary writers incl. indirect fields"): HashMap<Name, V> (/Font and /ExtGState of the page resources) and the Font pair (/Subtype <-> FontData variant)
# -- the same obligations also count for C10 (no contract changed).
for k__ in ['map_from_primitive', 'map_to_primitive', 'font_from_primitive', 'font_to_primitive']:
    UNIT['items'][k__]['props'] = list(UNIT['items'][k__]['props']) + ['C10']
