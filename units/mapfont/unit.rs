// Unit `mapfont` (C15, + C18 for the readers on dangling values, C01 for panic-freedom / termination):
//   (a) `impl Object / ObjectWrite for HashMap<Name, V>`   (pdf/src/object/mod.rs)      -- V abstract
//   (b) `impl Object / ObjectWrite for Font`               (pdf/src/font.rs:100-176)    -- /Subtype <-> FontData variant
// Contract shape as in units/readers, units/hwpairs2: every reader is proved against a whole-value model `*_reads(p, store)`,
// every writer against a model of the primitive it emits; the lemmas at the end prove, from the models alone,
// read(write(x)) == Ok(x) (hence write-read-write identity).
use vstd::prelude::*;
use std::collections::HashMap;
//@@ INCLUDE _common/error_macros.rs
verus! {
global size_of usize == 8;
broadcast use vstd::std_specs::hash::group_hash_axioms;

//@@ PDFERROR
//@@ DEVIATIONS

// ---- env types (not under proof) ---------------------------------------------------------------------------------
pub struct SmallString { pub chars: Ghost<Seq<char>> }
impl SmallString {
    pub open spec fn view(&self) -> Seq<char> { self.chars@ }
}
impl Clone for SmallString {
    #[verifier::external_body]
    fn clone(&self) -> (r: SmallString) ensures r == *self { unimplemented!() }
}
pub open spec fn sstr(s: Seq<char>) -> SmallString { SmallString { chars: Ghost(s) } }
#[verifier::external_body] pub struct PdfString { _p: () }
#[verifier::external_body] pub struct PdfStream { _p: () }
pub type ObjNr = u64;
pub type GenNr = u64;
#[derive(Clone, Copy)]
pub struct PlainRef { pub id: ObjNr, pub gen: GenNr }
//@@ struct Name
// the name with the given text (Name is a wrapper of its text: `pub struct Name(pub SmallString)`)
pub open spec fn nm(s: Seq<char>) -> Name { Name(sstr(s)) }
// trusted: #[derive(Clone, PartialEq, Eq, Hash)] on Name (primitive.rs:322) -- equality and hash are those of the text
impl Clone for Name {
    #[verifier::external_body]
    fn clone(&self) -> (r: Name) ensures r == *self { unimplemented!() }
}
impl PartialEq for Name { #[verifier::external_body] fn eq(&self, o: &Name) -> bool { unimplemented!() } }
impl Eq for Name {}
impl core::hash::Hash for Name { #[verifier::external_body] fn hash<H: core::hash::Hasher>(&self, state: &mut H) { unimplemented!() } }
// trusted (L0, std): a derived Eq + Hash pair on a wrapper of a string obeys vstd's key model (equal keys hash equally,
// `==` is the structural equality), so `std::collections::HashMap<Name, V>` behaves as the map `Map<Name, V>`
#[verifier::external_body]
pub broadcast proof fn axiom_name_key_model() ensures #[trigger] vstd::std_specs::hash::obeys_key_model::<Name>() {}

pub enum Primitive {
    Null,
    Integer(i32),
    Number(f32),
    Boolean(bool),
    String(PdfString),
    Stream(PdfStream),
    Dictionary(Dictionary),
    Array(Vec<Primitive>),
    Reference(PlainRef),
    Name(SmallString),
}
impl Clone for Primitive {
    // trusted: #[derive(Clone)] on Primitive
    #[verifier::external_body]
    fn clone(&self) -> (r: Primitive) ensures r == *self { unimplemented!() }
}

// ---- the object store behind a `Resolve` (as in units/readers) ------------------------------------------------------
#[verifier::external_body] pub struct Store { _p: () }
/// what `resolve(n g R)` yields: the stored object, or the error of looking it up
pub uninterp spec fn obj(st: Store, r: PlainRef) -> Result<Primitive>;
/// the root cause of an error: context wrappers (`t!` -> Try, derived readers -> FromPrimitive, shared cache -> Shared) removed
pub open spec fn root(e: PdfError) -> PdfError
    decreases e
{
    match e {
        PdfError::Try { source } => root(*source),
        PdfError::FromPrimitive { typ, field, source } => root(*source),
        PdfError::Shared { source } => root(*source),
        x => x,
    }
}
/// free entry, entry never defined (gap), number beyond the table  (== PdfError::is_missing_object, proved in units/option:
/// PdfError::is_missing_object/missing_object_is_root_cause)
pub open spec fn is_missing(e: PdfError) -> bool {
    root(e) is NullRef || root(e) is FreeObject || root(e) is UnspecifiedXRefEntry
}
impl PdfError {
    // proved in units/option: PdfError::is_missing_object/missing_object_is_root_cause
    #[verifier::external_body]
    pub fn is_missing_object(&self) -> (r: bool) ensures r == is_missing(*self) { unimplemented!() }
}
/// the reference `r` dangles: looking it up fails with a missing-object root cause
pub open spec fn dangling(st: Store, r: PlainRef) -> bool {
    obj(st, r) matches Err(e) && is_missing(e)
}
pub trait Resolve {
    spec fn store(&self) -> Store;
    // pdf/src/object/mod.rs: Resolve::resolve (= resolve_flags(r, ANY, 16)).
    // `never_a_reference`: proved for the crate's resolver in units/guard: StorageResolver::resolve_flags/never_a_reference
    fn resolve(&self, r: PlainRef) -> (res: Result<Primitive>)
        ensures
            res == obj(self.store(), r),
            !(res matches Ok(Primitive::Reference(_)));
}
pub trait Updater: Sized {}

// abstract element codec (hypothesis), as in units/readers
pub trait Object: Sized {
    spec fn reads(p: Primitive, st: Store) -> Result<Self>;
    fn from_primitive<R: Resolve>(p: Primitive, resolve: &R) -> (r: Result<Self>)
        ensures r == Self::reads(p, resolve.store());
}
pub trait ObjectWrite: Sized {
    spec fn writes(&self) -> Primitive;
    spec fn wfail(&self) -> bool;
    fn to_primitive<U: Updater>(&self, update: &mut U) -> (r: Result<Primitive>)
        ensures
            r matches Ok(p) ==> p == self.writes(),
            r is Err ==> self.wfail();
}

// ---- abstract Dictionary: ghost Map<text of the key, Primitive> with IndexMap semantics (trusted; as in units/hwpairs2).
//      Entry ORDER is not modelled: a PDF dictionary is an unordered set of entries (ISO 32000-1 7.3.7) and the writer for
//      HashMap emits them in the hash map's (unspecified) iteration order.
pub type DMap = Map<Seq<char>, Primitive>;
pub struct Dictionary { pub m: Ghost<DMap> }
pub open spec fn dget(m: DMap, key: Seq<char>) -> Option<Primitive> {
    if m.dom().contains(key) { Some(m[key]) } else { None::<Primitive> }
}
// the crate's `impl Into<Name>` key arguments: `&str` literals and `Name` values
pub trait IntoName: Sized { spec fn text(self) -> Seq<char>; }
impl IntoName for &str { open spec fn text(self) -> Seq<char> { self@ } }
impl IntoName for Name { open spec fn text(self) -> Seq<char> { self.0@ } }
// the crate's `impl Into<Primitive>` value arguments (primitive.rs:620-690): a Primitive is itself, a Name is Primitive::Name
pub trait IntoPrimitive: Sized { spec fn prim(self) -> Primitive; }
impl IntoPrimitive for Primitive { open spec fn prim(self) -> Primitive { self } }
impl IntoPrimitive for Name { open spec fn prim(self) -> Primitive { Primitive::Name(self.0) } }
impl Dictionary {
    pub open spec fn view(&self) -> DMap { self.m@ }
    #[verifier::external_body]
    pub fn new() -> (r: Dictionary) ensures r@ == Map::<Seq<char>, Primitive>::empty() { unimplemented!() }
    // primitive.rs:133  `insert(&mut self, key: impl Into<Name>, val: impl Into<Primitive>)`
    #[verifier::external_body]
    pub fn insert<K: IntoName, P: IntoPrimitive>(&mut self, key: K, val: P) -> (r: Option<Primitive>)
        ensures final(self)@ == old(self)@.insert(key.text(), val.prim()), r == dget(old(self)@, key.text())
    { unimplemented!() }
    #[verifier::external_body]
    pub fn remove(&mut self, key: &str) -> (r: Option<Primitive>)
        ensures final(self)@ == old(self)@.remove(key@), r == dget(old(self)@, key@)
    { unimplemented!() }
    #[verifier::external_body]
    pub fn get(&self, key: &str) -> (r: Option<&Primitive>)
        ensures r == (if self@.dom().contains(key@) { Some(&self@[key@]) } else { None::<&Primitive> })
    { unimplemented!() }
    // primitive.rs:143  `self.remove(key).ok_or(MissingEntry{typ, field})`
    #[verifier::external_body]
    pub fn require(&mut self, typ: &'static str, key: &str) -> (r: Result<Primitive>)
        ensures final(self)@ == old(self)@.remove(key@),
            r == (match dget(old(self)@, key@) { Some(p) => Ok::<Primitive, PdfError>(p), None => Err::<Primitive, PdfError>(PdfError::MissingEntry { typ: typ }) })
    { unimplemented!() }
    // primitive.rs:153 with required = true: the key must be present and hold the name `value`
    #[verifier::external_body]
    pub fn expect(&self, typ: &'static str, key: &str, value: &str, required: bool) -> (r: Result<()>)
        requires required
        ensures r == expect_spec(self@, typ, key@, value@)
    { unimplemented!() }
}
pub open spec fn expect_spec(m: DMap, typ: &'static str, key: Seq<char>, value: Seq<char>) -> Result<()> {
    match dget(m, key) {
        Some(Primitive::Name(s)) => if s@ == value { Ok(()) } else { Err(PdfError::KeyValueMismatch) },
        Some(x) => unexpected("Name", x),
        None => Err(PdfError::MissingEntry { typ: typ }),
    }
}
impl Clone for Dictionary {
    #[verifier::external_body]
    fn clone(&self) -> (r: Dictionary) ensures r == *self { unimplemented!() }
}

// ---- specs: Primitive accessors (proved in units/expansions_hw / units/readers for the real text; env stubs here) -----
pub open spec fn debug_name(p: Primitive) -> &'static str {
    match p {
        Primitive::Null => "Null", Primitive::Integer(..) => "Integer", Primitive::Number(..) => "Number",
        Primitive::Boolean(..) => "Boolean", Primitive::String(..) => "String", Primitive::Stream(..) => "Stream",
        Primitive::Dictionary(..) => "Dictionary", Primitive::Array(..) => "Array",
        Primitive::Reference(..) => "Reference", Primitive::Name(..) => "Name",
    }
}
pub open spec fn unexpected<T>(expected: &'static str, p: Primitive) -> Result<T> {
    Err(PdfError::UnexpectedPrimitive { expected: expected, found: debug_name(p) })
}
/// an indirect reference stands for the object it refers to (one level: `resolve` never yields a reference)
pub open spec fn deref1(p: Primitive, st: Store) -> Result<Primitive> {
    match p { Primitive::Reference(id) => obj(st, id), _ => Ok(p) }
}
pub open spec fn then<A, B>(x: Result<A>, f: spec_fn(A) -> Result<B>) -> Result<B> { match x { Ok(v) => f(v), Err(e) => Err(e) } }
// `t!(e)` wraps the error of e
pub open spec fn wrap<A>(x: Result<A>) -> Result<A> { match x { Ok(v) => Ok(v), Err(e) => Err(PdfError::Try { source: Box::new(e) }) } }
impl Primitive {
    // proved in units/readers: Primitive::get_debug_name/spec
    #[verifier::external_body]
    pub fn get_debug_name(&self) -> (r: &'static str) ensures r == debug_name(*self) { unimplemented!() }
    // proved in units/readers: Primitive::resolve/spec, Primitive::resolve/never_a_reference
    #[verifier::external_body]
    pub fn resolve<R: Resolve>(self, r_: &R) -> (r: Result<Primitive>)
        ensures r == deref1(self, r_.store()), !(self is Reference) ==> r == Ok::<Primitive, PdfError>(self)
    { unimplemented!() }
    // primitive.rs:590 (same shape as into_array, proved in units/readers; trusted here)
    #[verifier::external_body]
    pub fn into_dictionary(self) -> (r: Result<Dictionary>)
        ensures r == (match self { Primitive::Dictionary(d) => Ok::<Dictionary, PdfError>(d), _ => unexpected("Dictionary", self) })
    { unimplemented!() }
    // proved in units/expansions_hw: Primitive::into_name/spec
    #[verifier::external_body]
    pub fn into_name(self) -> (r: Result<Name>)
        ensures r == (match self { Primitive::Name(s) => Ok::<Name, PdfError>(Name(s)), _ => unexpected("Name", self) })
    { unimplemented!() }
}

// =====================================================================================================================
// (a) HashMap<Name, V>
//   C15: "writing it to its primitive form and reading that back gives a value that writes to the identical primitive form".
//   The writer (below) emits EVERY entry of the map -- also one whose value writes as null (V = Option<..>, Lazy, Primitive,
//   ()) -- so the reader must hand back every entry of the dictionary, whatever its value: {A: None, B: 3} comes back with
//   both keys. Null (an absent map: the writer spells the empty map so) reads as the empty map; an indirect reference
//   stands for the object it refers to (ISO 32000-1 7.3.10), one level; anything else is an error.
//   C18: each value is handed to V's own reader AS IT STANDS in the dictionary (a dangling reference included), so that
//   V = Option<..> / MaybeRef / Lazy applies its own rule; a dangling reference in place of the map itself surfaces with a
//   missing-object root cause (an enclosing Option then reads the map as absent).
// =====================================================================================================================
// R6: `dict.iter()` (indexmap::map::Iter) / `self.iter()` (std::collections::hash_map::Iter) collected: every entry exactly
// once, in some order (trusted, L0)
pub open spec fn lists_dict(e: Seq<(&Name, &Primitive)>, d: DMap) -> bool {
    &&& forall|j: int| 0 <= j < e.len() ==> d.dom().contains((#[trigger] e[j]).0.0@) && d[e[j].0.0@] == *e[j].1
    &&& forall|k: Seq<char>| d.dom().contains(k) ==> exists|j: int| 0 <= j < e.len() && (#[trigger] e[j]).0.0@ == k
    &&& forall|i: int, j: int| 0 <= i < j < e.len() ==> (#[trigger] e[i]).0.0@ != (#[trigger] e[j]).0.0@
}
#[verifier::external_body]
fn hoist_dict_iter<'a>(d: &'a Dictionary) -> (r: Vec<(&'a Name, &'a Primitive)>)
    ensures lists_dict(r@, d@)
{ /* hoisted text: d.iter().collect() */ unimplemented!() }
pub open spec fn lists_map<V>(e: Seq<(&Name, &V)>, m: Map<Name, V>) -> bool {
    &&& forall|j: int| 0 <= j < e.len() ==> m.dom().contains(*(#[trigger] e[j]).0) && m[*e[j].0] == *e[j].1
    &&& forall|k: Name| m.dom().contains(k) ==> exists|j: int| 0 <= j < e.len() && *(#[trigger] e[j]).0 == k
    &&& forall|i: int, j: int| 0 <= i < j < e.len() ==> *(#[trigger] e[i]).0 != *(#[trigger] e[j]).0
}
#[verifier::external_body]
fn hoist_map_iter<'a, V>(m: &'a HashMap<Name, V>) -> (r: Vec<(&'a Name, &'a V)>)
    ensures lists_map(r@, m@)
{ m.iter().collect() }

/// a value whose reading fails because it refers to a missing object is a null value (ISO 32000-1 7.3.10), and an entry
/// whose value is null is an absent entry (7.3.7): C18 "reading the containing typed object succeeds and treats that entry
/// as absent". (A V that HAS a null form -- Option, Lazy, Primitive -- reads such a value without an error and keeps the entry.)
pub open spec fn entry_absent(e: PdfError) -> bool { !DEV_MAP_DANGLING_VALUE_IS_ERROR() && is_missing(e) }
/// the entries of a dictionary read as a map: EVERY key of the dictionary whose value V's reader accepts (and no other),
/// each value through V's reader as it stands; any other failure of a value is the failure of the map
pub open spec fn entries_read<V: Object>(d: DMap, st: Store, r: Result<HashMap<Name, V>>) -> bool {
    &&& (r matches Ok(m) ==> forall|k: Name| #[trigger] m@.dom().contains(k) <==> (d.dom().contains(k.0@) && V::reads(d[k.0@], st) is Ok))
    &&& (r matches Ok(m) ==> forall|k: Name| d.dom().contains(k.0@) ==> (V::reads(d[k.0@], st) matches Ok(v) ==> v == #[trigger] m@[k]))
    &&& (r matches Err(e) ==> exists|k: Seq<char>| d.dom().contains(k) && V::reads(#[trigger] d[k], st) == Err::<V, PdfError>(e) && !entry_absent(e))
    &&& ((forall|k: Seq<char>| d.dom().contains(k) ==> (V::reads(#[trigger] d[k], st) matches Err(e) ==> entry_absent(e))) ==> r is Ok)
}
pub open spec fn map_reads<V: Object>(p: Primitive, st: Store, r: Result<HashMap<Name, V>>) -> bool {
    match deref1(p, st) {
        Err(e) => r == Err::<HashMap<Name, V>, PdfError>(e),
        Ok(Primitive::Null) => r matches Ok(m) && m@ == Map::<Name, V>::empty(),
        Ok(Primitive::Dictionary(d)) => entries_read::<V>(d@, st, r),
        Ok(q) => r == unexpected::<HashMap<Name, V>>("Dictionary", q),
    }
}
/// the primitive form of a map: the empty map is spelled null (an absent entry), any other map is the dictionary with
/// exactly the map's keys, each value in V's own primitive form
pub open spec fn map_writes<V: ObjectWrite>(m: Map<Name, V>, p: Primitive) -> bool {
    if m.dom() =~= Set::<Name>::empty() { p == Primitive::Null }
    else {
        p matches Primitive::Dictionary(d)
        && (forall|k: Seq<char>| #[trigger] d@.dom().contains(k) <==> m.dom().contains(nm(k)))
        && (forall|k: Name| m.dom().contains(k) ==> d@[k.0@] == (#[trigger] m[k]).writes())
    }
}
pub proof fn lemma_nm(k: Name)
    ensures nm(k.0@) == k
{}
// the loop of the reader has visited every entry: the map holds exactly the dictionary's keys whose values were read
pub open spec fn visited<V: Object>(e: Seq<(&Name, &Primitive)>, n: int, st: Store, m: Map<Name, V>) -> bool {
    &&& forall|j: int| 0 <= j < n ==> (V::reads(*(#[trigger] e[j]).1, st) matches Ok(v) ==> m.dom().contains(*e[j].0) && m[*e[j].0] == v)
    &&& forall|j: int| 0 <= j < n ==> (V::reads(*(#[trigger] e[j]).1, st) matches Err(x) ==> entry_absent(x) && !m.dom().contains(*e[j].0))
    &&& forall|k: Name| m.dom().contains(k) ==> exists|j: int| 0 <= j < n && *(#[trigger] e[j]).0 == k
}
pub proof fn lemma_map_loop_done<V: Object>(e: Seq<(&Name, &Primitive)>, d: DMap, st: Store, m: Map<Name, V>)
    ensures
        (lists_dict(e, d) && visited::<V>(e, e.len() as int, st, m))
        ==> ((forall|k: Name| #[trigger] m.dom().contains(k) <==> (d.dom().contains(k.0@) && V::reads(d[k.0@], st) is Ok))
             && (forall|k: Name| d.dom().contains(k.0@) ==> (V::reads(d[k.0@], st) matches Ok(v) ==> v == #[trigger] m[k]))
             && (forall|k: Seq<char>| d.dom().contains(k) ==> (V::reads(#[trigger] d[k], st) matches Err(x) ==> entry_absent(x))))
{
    if lists_dict(e, d) && visited::<V>(e, e.len() as int, st, m) {
        assert forall|k: Name| #[trigger] m.dom().contains(k) <==> (d.dom().contains(k.0@) && V::reads(d[k.0@], st) is Ok) by {
            if d.dom().contains(k.0@) {
                let j = choose|j: int| 0 <= j < e.len() && (#[trigger] e[j]).0.0@ == k.0@;
                lemma_nm(k); lemma_nm(*e[j].0);
                assert(*e[j].0 == k);
                assert(d[e[j].0.0@] == *e[j].1);
            }
            if m.dom().contains(k) {
                let j = choose|j: int| 0 <= j < e.len() && *(#[trigger] e[j]).0 == k;
                assert(d.dom().contains(e[j].0.0@));
                assert(d[e[j].0.0@] == *e[j].1);
            }
        }
        assert forall|k: Name| d.dom().contains(k.0@) implies (V::reads(d[k.0@], st) matches Ok(v) ==> v == #[trigger] m[k]) by {
            let j = choose|j: int| 0 <= j < e.len() && (#[trigger] e[j]).0.0@ == k.0@;
            lemma_nm(k); lemma_nm(*e[j].0);
            assert(*e[j].0 == k);
            assert(d[e[j].0.0@] == *e[j].1);
        }
        assert forall|k: Seq<char>| d.dom().contains(k) implies (V::reads(#[trigger] d[k], st) matches Err(x) ==> entry_absent(x)) by {
            let j = choose|j: int| 0 <= j < e.len() && (#[trigger] e[j]).0.0@ == k;
            assert(d[e[j].0.0@] == *e[j].1);
        }
    }
}
// the loop of the writer has visited every entry: the dictionary holds exactly the map's keys
pub proof fn lemma_map_write_done<V: ObjectWrite>(e: Seq<(&Name, &V)>, m: Map<Name, V>, d: DMap)
    ensures
        (lists_map(e, m) && e.len() > 0
         && (forall|j: int| 0 <= j < e.len() ==> d.dom().contains((#[trigger] e[j]).0.0@) && d[e[j].0.0@] == (*e[j].1).writes())
         && (forall|k: Seq<char>| d.dom().contains(k) ==> exists|j: int| 0 <= j < e.len() && (#[trigger] e[j]).0.0@ == k))
        ==> map_writes(m, Primitive::Dictionary(Dictionary { m: Ghost(d) }))
{
    if lists_map(e, m) && e.len() > 0
         && (forall|j: int| 0 <= j < e.len() ==> d.dom().contains((#[trigger] e[j]).0.0@) && d[e[j].0.0@] == (*e[j].1).writes())
         && (forall|k: Seq<char>| d.dom().contains(k) ==> exists|j: int| 0 <= j < e.len() && (#[trigger] e[j]).0.0@ == k) {
        assert(m.dom().contains(*e[0].0));
        assert forall|k: Seq<char>| #[trigger] d.dom().contains(k) <==> m.dom().contains(nm(k)) by {
            if d.dom().contains(k) {
                let j = choose|j: int| 0 <= j < e.len() && (#[trigger] e[j]).0.0@ == k;
                lemma_nm(*e[j].0);
            }
            if m.dom().contains(nm(k)) {
                let j = choose|j: int| 0 <= j < e.len() && *(#[trigger] e[j]).0 == nm(k);
            }
        }
        assert forall|k: Name| m.dom().contains(k) implies d[k.0@] == (#[trigger] m[k]).writes() by {
            let j = choose|j: int| 0 <= j < e.len() && *(#[trigger] e[j]).0 == k;
        }
    }
}
//@@ map_from_primitive
//@@ map_to_primitive

// ---- C15 for the pair, from the models alone ------------------------------------------------------------------------------
/// read(write(m)) == Ok(m), given V's own round trip on every value of the map
pub proof fn lemma_map_write_read<V: Object + ObjectWrite>(m: Map<Name, V>, p: Primitive, st: Store, r: Result<HashMap<Name, V>>)
    requires
        map_writes(m, p),
        forall|k: Name| m.dom().contains(k) ==> V::reads((#[trigger] m[k]).writes(), st) == Ok::<V, PdfError>(m[k]),
        map_reads::<V>(p, st, r),
    ensures
        r matches Ok(m2) && m2@ =~= m,
{
    if m.dom() =~= Set::<Name>::empty() {
        assert(m =~= Map::<Name, V>::empty());
    } else {
        let d = p->Dictionary_0;
        assert forall|k: Seq<char>| d@.dom().contains(k) implies V::reads(#[trigger] d@[k], st) is Ok by {
            assert(m.dom().contains(nm(k)));
            assert(d@[nm(k).0@] == m[nm(k)].writes());
        }
        let m2 = r->Ok_0;
        assert forall|k: Name| m2@.dom().contains(k) <==> m.dom().contains(k) by {
            lemma_nm(k);
            if m.dom().contains(k) { assert(d@.dom().contains(k.0@)); assert(d@[k.0@] == m[k].writes()); }
        }
        assert forall|k: Name| m.dom().contains(k) implies m2@[k] == m[k] by {
            lemma_nm(k);
            assert(d@.dom().contains(k.0@));
            assert(d@[k.0@] == m[k].writes());
        }
    }
}
/// write-read-write: whatever the map read back from write(m) writes, it is the same null / the same dictionary entries,
/// given only that each value's own write-read-write is the identity
pub proof fn lemma_map_write_read_write<V: Object + ObjectWrite>(m: Map<Name, V>, p: Primitive, st: Store, r: Result<HashMap<Name, V>>, p2: Primitive)
    requires
        map_writes(m, p),
        forall|k: Name| m.dom().contains(k) ==> (V::reads((#[trigger] m[k]).writes(), st) matches Ok(v) && v.writes() == m[k].writes()),
        map_reads::<V>(p, st, r),
        r matches Ok(m2) ==> map_writes(m2@, p2),
    ensures
        r is Ok,
        p is Null ==> p2 is Null,
        p matches Primitive::Dictionary(d) ==> (p2 matches Primitive::Dictionary(d2) && d2@ =~= d@),
{
    if m.dom() =~= Set::<Name>::empty() {
        let m2 = r->Ok_0;
        assert(m2@.dom() =~= Set::<Name>::empty());
    } else {
        let d = p->Dictionary_0;
        assert forall|k: Seq<char>| d@.dom().contains(k) implies V::reads(#[trigger] d@[k], st) is Ok by {
            assert(m.dom().contains(nm(k)));
            assert(d@[nm(k).0@] == m[nm(k)].writes());
        }
        let m2 = r->Ok_0;
        let k0 = choose|k: Name| m.dom().contains(k);
        lemma_nm(k0);
        assert(d@.dom().contains(k0.0@));
        assert(m2@.dom().contains(k0));
        assert(!(m2@.dom() =~= Set::<Name>::empty()));
        let d2 = p2->Dictionary_0;
        assert forall|k: Seq<char>| d2@.dom().contains(k) <==> d@.dom().contains(k) by {
            assert(nm(k).0@ == k);
            if d@.dom().contains(k) { assert(m.dom().contains(nm(k))); assert(d@[k] == m[nm(k)].writes()); }
            assert(m2@.dom().contains(nm(k)) <==> (d@.dom().contains(nm(k).0@) && V::reads(d@[nm(k).0@], st) is Ok));
        }
        assert forall|k: Seq<char>| d@.dom().contains(k) implies d2@[k] == d@[k] by {
            let n = nm(k);
            assert(n.0@ == k);
            assert(m.dom().contains(n));
            assert(d@[k] == m[n].writes());
            assert(V::reads(m[n].writes(), st) matches Ok(v) && v.writes() == m[n].writes());
            assert(V::reads(d@[n.0@], st) matches Ok(v) && v == m2@[n]);
            assert(m2@.dom().contains(n));
            assert(d2@[n.0@] == m2@[n].writes());
        }
    }
}


// =====================================================================================================================
// (b) Font   (ISO 32000-1 9.5-9.7.  Table 110 "Font types": the values of /Subtype are
//        Type0 (composite font), Type1, MMType1, Type3, TrueType (simple fonts), CIDFontType0, CIDFontType2 (CIDFonts).
//      Tables 111/112/117/121: /Type (required) the name Font; /Subtype (required); /BaseFont (required, except in a Type 3
//      font dictionary, which has none); /Encoding, /ToUnicode (optional).)
//   The crate models the kind of font twice: `Font::subtype: FontType` (a name enum, derived codec) and the variant of
//   `Font::data: FontData`, which carries the kind-specific entries. C15 for the hand-written pair: the variant the reader
//   builds is the one Table 110 names with that /Subtype, and the /Subtype the writer emits is the name of the variant it
//   was given, so that write -> read -> write is the identity on /Subtype and on the variant.
// =====================================================================================================================
//@@ enum FontType
//@@ struct Font
//@@ enum FontData
// the kind-specific entry structs (DERIVED FromDict/ToDict: units/expansions_all_*), Encoding (hand-written: units/hwpairs2),
// RcRef<Stream<()>> (units/readers): abstract codecs here, each a function of its input
#[verifier::external_body] pub struct TFont { _p: () }
#[verifier::external_body] pub struct Type0Font { _p: () }
#[verifier::external_body] pub struct CIDFont { _p: () }
#[verifier::external_body] pub struct Encoding { _p: () }
#[verifier::external_body] #[verifier::accept_recursive_types(T)] pub struct RcRef<T> { _p: core::marker::PhantomData<T> }
#[verifier::external_body] #[verifier::accept_recursive_types(T)] pub struct Stream<T> { _p: core::marker::PhantomData<T> }
pub type ToUnicode = RcRef<Stream<()>>;
pub uninterp spec fn tfont_reads(d: Dictionary, st: Store) -> Result<TFont>;
pub uninterp spec fn tfont_dict(x: TFont) -> Dictionary;
pub uninterp spec fn tfont_wfail(x: TFont) -> bool;
pub uninterp spec fn type0_reads(d: Dictionary, st: Store) -> Result<Type0Font>;
pub uninterp spec fn type0_dict(x: Type0Font) -> Dictionary;
pub uninterp spec fn type0_wfail(x: Type0Font) -> bool;
pub uninterp spec fn cid_reads(d: Dictionary, st: Store) -> Result<CIDFont>;
pub uninterp spec fn cid_dict(x: CIDFont) -> Dictionary;
pub uninterp spec fn cid_wfail(x: CIDFont) -> bool;
pub uninterp spec fn enc_reads(p: Primitive, st: Store) -> Result<Encoding>;
pub uninterp spec fn enc_writes(x: Encoding) -> Primitive;
pub uninterp spec fn enc_wfail(x: Encoding) -> bool;
pub uninterp spec fn tu_reads(p: Primitive, st: Store) -> Result<ToUnicode>;
pub uninterp spec fn tu_writes(x: ToUnicode) -> Primitive;
pub uninterp spec fn tu_wfail(x: ToUnicode) -> bool;
impl TFont {
    #[verifier::external_body]
    pub fn from_dict<R: Resolve>(dict: Dictionary, resolve: &R) -> (r: Result<TFont>) ensures r == tfont_reads(dict, resolve.store()) { unimplemented!() }
    #[verifier::external_body]
    pub fn to_dict<U: Updater>(&self, update: &mut U) -> (r: Result<Dictionary>) ensures r matches Ok(d) ==> d == tfont_dict(*self), r is Err ==> tfont_wfail(*self) { unimplemented!() }
}
impl Type0Font {
    #[verifier::external_body]
    pub fn from_dict<R: Resolve>(dict: Dictionary, resolve: &R) -> (r: Result<Type0Font>) ensures r == type0_reads(dict, resolve.store()) { unimplemented!() }
    #[verifier::external_body]
    pub fn to_dict<U: Updater>(&self, update: &mut U) -> (r: Result<Dictionary>) ensures r matches Ok(d) ==> d == type0_dict(*self), r is Err ==> type0_wfail(*self) { unimplemented!() }
}
impl CIDFont {
    #[verifier::external_body]
    pub fn from_dict<R: Resolve>(dict: Dictionary, resolve: &R) -> (r: Result<CIDFont>) ensures r == cid_reads(dict, resolve.store()) { unimplemented!() }
    #[verifier::external_body]
    pub fn to_dict<U: Updater>(&self, update: &mut U) -> (r: Result<Dictionary>) ensures r matches Ok(d) ==> d == cid_dict(*self), r is Err ==> cid_wfail(*self) { unimplemented!() }
}
impl Object for Encoding {
    open spec fn reads(p: Primitive, st: Store) -> Result<Encoding> { enc_reads(p, st) }
    #[verifier::external_body]
    fn from_primitive<R: Resolve>(p: Primitive, resolve: &R) -> (r: Result<Encoding>) { unimplemented!() }
}
impl ObjectWrite for Encoding {
    open spec fn writes(&self) -> Primitive { enc_writes(*self) }
    open spec fn wfail(&self) -> bool { enc_wfail(*self) }
    #[verifier::external_body]
    fn to_primitive<U: Updater>(&self, update: &mut U) -> (r: Result<Primitive>) { unimplemented!() }
}
impl Object for RcRef<Stream<()>> {
    open spec fn reads(p: Primitive, st: Store) -> Result<ToUnicode> { tu_reads(p, st) }
    #[verifier::external_body]
    fn from_primitive<R: Resolve>(p: Primitive, resolve: &R) -> (r: Result<ToUnicode>) { unimplemented!() }
}
impl ObjectWrite for RcRef<Stream<()>> {
    open spec fn writes(&self) -> Primitive { tu_writes(*self) }
    open spec fn wfail(&self) -> bool { tu_wfail(*self) }
    #[verifier::external_body]
    fn to_primitive<U: Updater>(&self, update: &mut U) -> (r: Result<Primitive>) { unimplemented!() }
}
// object/mod.rs:603 `impl ObjectWrite for Name`: `Ok(Primitive::Name(self.0.clone()))`
impl ObjectWrite for Name {
    open spec fn writes(&self) -> Primitive { Primitive::Name(self.0) }
    open spec fn wfail(&self) -> bool { false }
    #[verifier::external_body]
    fn to_primitive<U: Updater>(&self, update: &mut U) -> (r: Result<Primitive>) { unimplemented!() }
}
// primitive.rs:349 `impl From<&str> for Name`: `Name(s.into())`
impl From<&str> for Name {
    #[verifier::external_body]
    fn from(s: &str) -> (r: Name) ensures r == nm(s@) { unimplemented!() }
}
// FontType's codec is DERIVED (name enum): proved in units/expansions_all_a: FontType::from_primitive/rd_model,
// FontType::to_primitive/wr_model -- a variant is spelled by its identifier; a value that is not a name is an error
pub open spec fn font_type_name(c: FontType) -> Seq<char> {
    match c { FontType::Type0 => "Type0"@, FontType::Type1 => "Type1"@, FontType::MMType1 => "MMType1"@, FontType::Type3 => "Type3"@, FontType::TrueType => "TrueType"@, FontType::CIDFontType0 => "CIDFontType0"@, FontType::CIDFontType2 => "CIDFontType2"@ }
}
pub open spec fn font_type_reads(p: Primitive) -> Result<FontType> {
    match p {
        Primitive::Name(s) => if s@ == "Type0"@ { Ok(FontType::Type0) } else if s@ == "Type1"@ { Ok(FontType::Type1) } else if s@ == "MMType1"@ { Ok(FontType::MMType1) } else if s@ == "Type3"@ { Ok(FontType::Type3) } else if s@ == "TrueType"@ { Ok(FontType::TrueType) } else if s@ == "CIDFontType0"@ { Ok(FontType::CIDFontType0) } else if s@ == "CIDFontType2"@ { Ok(FontType::CIDFontType2) } else { Err(PdfError::UnknownVariant { id: "FontType" }) },
        _ => unexpected("Name", p),
    }
}
impl Object for FontType {
    open spec fn reads(p: Primitive, st: Store) -> Result<FontType> { font_type_reads(p) }
    #[verifier::external_body]
    fn from_primitive<R: Resolve>(p: Primitive, resolve: &R) -> (r: Result<FontType>) { unimplemented!() }
}
impl ObjectWrite for FontType {
    open spec fn writes(&self) -> Primitive { Primitive::Name(sstr(font_type_name(*self))) }
    open spec fn wfail(&self) -> bool { false }
    #[verifier::external_body]
    fn to_primitive<U: Updater>(&self, update: &mut U) -> (r: Result<Primitive>) { unimplemented!() }
}

// ---- the ISO table: /Subtype value (Table 110) -> the variant of FontData of that name. MMType1 and Type3 are values of
//      Table 110 for which FontData has no variant: such a font is kept as its dictionary (`Other`), and so is nothing else.
pub open spec fn iso_data(sub: Seq<char>, rest: Dictionary, st: Store) -> Result<FontData> {
    if sub == "Type0"@ { match type0_reads(rest, st) { Ok(x) => Ok(FontData::Type0(x)), Err(e) => Err(e) } }
    else if sub == "Type1"@ { match tfont_reads(rest, st) { Ok(x) => Ok(FontData::Type1(x)), Err(e) => Err(e) } }
    else if sub == "TrueType"@ { match tfont_reads(rest, st) { Ok(x) => Ok(FontData::TrueType(x)), Err(e) => Err(e) } }
    else if sub == "CIDFontType0"@ { match cid_reads(rest, st) { Ok(x) => Ok(FontData::CIDFontType0(x)), Err(e) => Err(e) } }
    else if sub == "CIDFontType2"@ { match cid_reads(rest, st) { Ok(x) => Ok(FontData::CIDFontType2(x)), Err(e) => Err(e) } }
    else { Ok(FontData::Other(rest)) }
}
/// the /Subtype that names a variant of FontData (None: `Other` stands for no particular subtype)
pub open spec fn iso_subtype_of(data: FontData) -> Option<Seq<char>> {
    match data {
        FontData::Type0(_) => Some("Type0"@), FontData::Type1(_) => Some("Type1"@), FontData::TrueType(_) => Some("TrueType"@),
        FontData::CIDFontType0(_) => Some("CIDFontType0"@), FontData::CIDFontType2(_) => Some("CIDFontType2"@),
        FontData::Other(_) => None,
    }
}
pub open spec fn variant_tag(data: FontData) -> int {
    match data { FontData::Type1(_) => 1, FontData::Type0(_) => 0, FontData::TrueType(_) => 2, FontData::CIDFontType0(_) => 3, FontData::CIDFontType2(_) => 4, FontData::Other(_) => 5 }
}
/// an optional entry: absent -> None, present -> its own codec (the error of the codec is the error of the font)
pub open spec fn opt_entry<T: Object>(v: Option<Primitive>, st: Store) -> Result<Option<T>> {
    match v { None => Ok(None), Some(p) => match T::reads(p, st) { Ok(x) => Ok(Some(x)), Err(e) => Err(e) } }
}
/// /BaseFont: a name (possibly behind a reference); required unless the font is a Type 3 font
pub open spec fn base_font_entry(v: Option<Primitive>, sub: Seq<char>, st: Store) -> Result<Option<Name>> {
    match v {
        Some(np) => match deref1(np, st) {
            Err(e) => wrap(Err::<Option<Name>, PdfError>(e)),
            Ok(Primitive::Name(s)) => Ok(Some(Name(s))),
            Ok(q) => wrap(unexpected::<Option<Name>>("Name", q)),
        },
        None => if sub == "Type3"@ { Ok(None) } else { Err(PdfError::MissingEntry { typ: "Font" }) },
    }
}
pub open spec fn font_of_dict(d0: DMap, st: Store) -> Result<Font> {
    match dget(d0, "Subtype"@) {
        None => Err(PdfError::MissingEntry { typ: "Font" }),
        Some(sp) => match font_type_reads(sp) {
            Err(e) => wrap(Err::<Font, PdfError>(e)),
            Ok(subtype) => {
                let sub = sp->Name_0@;
                let d1 = d0.remove("Subtype"@);
                match expect_spec(d1, "Font", "Type"@, "Font"@) {
                    Err(e) => Err(e),
                    Ok(_) => match base_font_entry(dget(d1, "BaseFont"@), sub, st) {
                        Err(e) => Err(e),
                        Ok(name) => match opt_entry::<Encoding>(dget(d1, "Encoding"@), st) {
                            Err(e) => Err(e),
                            Ok(encoding) => {
                                let d2 = d1.remove("Encoding"@);
                                match opt_entry::<ToUnicode>(dget(d2, "ToUnicode"@), st) {
                                    Err(e) => Err(e),
                                    Ok(to_unicode) => {
                                        let rest = Dictionary { m: Ghost(d2.remove("ToUnicode"@)) };
                                        match iso_data(sub, rest, st) {
                                            Err(e) => Err(e),
                                            Ok(data) => Ok(Font { subtype, name, data, encoding, to_unicode, _other: rest }),
                                        }
                                    },
                                }
                            },
                        },
                    },
                }
            },
        },
    }
}
pub open spec fn font_reads(p: Primitive, st: Store) -> Result<Font> {
    match deref1(p, st) {
        Err(e) => Err(e),
        Ok(Primitive::Dictionary(d)) => font_of_dict(d@, st),
        Ok(q) => unexpected("Dictionary", q),
    }
}
/// the reader agrees with the model: the same font, or both fail (WHICH error is reported when several entries are bad is
/// not constrained by C15; the errors that matter are separate obligations)
pub open spec fn font_agrees(r: Result<Font>, m: Result<Font>) -> bool {
    match (r, m) { (Ok(a), Ok(b)) => a == b, (Err(_), Err(_)) => true, _ => false }
}
/// the entries left for the kind-specific reader: everything but /Subtype, /Encoding, /ToUnicode
pub open spec fn font_rest(d0: DMap) -> DMap { d0.remove("Subtype"@).remove("Encoding"@).remove("ToUnicode"@) }
/// the text of the /Subtype name of the font dictionary `p` stands for (None: not a dictionary, no /Subtype, not a name)
pub open spec fn subtype_text(p: Primitive, st: Store) -> Option<Seq<char>> {
    match deref1(p, st) {
        Ok(Primitive::Dictionary(d)) => match dget(d@, "Subtype"@) { Some(Primitive::Name(s)) => Some(s@), _ => None },
        _ => None,
    }
}
pub open spec fn is_table110_value(s: Seq<char>) -> bool {
    s == "Type0"@ || s == "Type1"@ || s == "MMType1"@ || s == "Type3"@ || s == "TrueType"@ || s == "CIDFontType0"@ || s == "CIDFontType2"@
}
/// the dictionary the kind-specific entries are written into
pub open spec fn data_dict(data: FontData) -> Dictionary {
    match data {
        FontData::Type0(x) => type0_dict(x), FontData::Type1(x) => tfont_dict(x), FontData::TrueType(x) => tfont_dict(x),
        FontData::CIDFontType0(x) => cid_dict(x), FontData::CIDFontType2(x) => cid_dict(x), FontData::Other(d) => d,
    }
}
pub open spec fn data_wfail(data: FontData) -> bool {
    match data {
        FontData::Type0(x) => type0_wfail(x), FontData::Type1(x) => tfont_wfail(x), FontData::TrueType(x) => tfont_wfail(x),
        FontData::CIDFontType0(x) => cid_wfail(x), FontData::CIDFontType2(x) => cid_wfail(x), FontData::Other(d) => false,
    }
}
pub open spec fn with_opt(m: DMap, key: Seq<char>, v: Option<Primitive>) -> DMap { match v { Some(p) => m.insert(key, p), None => m } }
/// the primitive form of a font: the kind-specific entries, then /ToUnicode, /Encoding, /BaseFont where present, then
/// /Subtype = the name of the variant and /Type /Font (later entries replace earlier ones of the same key)
pub open spec fn font_writes(f: Font, p: Primitive) -> bool {
    iso_subtype_of(f.data) matches Some(sub) && p matches Primitive::Dictionary(d) && d@ =~=
        with_opt(with_opt(with_opt(data_dict(f.data)@,
            "ToUnicode"@, match f.to_unicode { Some(x) => Some(tu_writes(x)), None => None }),
            "Encoding"@, match f.encoding { Some(x) => Some(enc_writes(x)), None => None }),
            "BaseFont"@, match f.name { Some(n) => Some(Primitive::Name(n.0)), None => None })
        .insert("Subtype"@, Primitive::Name(sstr(sub))).insert("Type"@, Primitive::Name(sstr("Font"@)))
}
// the seven /Subtype values of Table 110 and the keys of a font dictionary are pairwise different texts
pub proof fn lemma_font_literals()
    ensures
        "Type0"@ != "Type1"@, "Type0"@ != "MMType1"@, "Type0"@ != "Type3"@, "Type0"@ != "TrueType"@, "Type0"@ != "CIDFontType0"@, "Type0"@ != "CIDFontType2"@,
        "Type1"@ != "MMType1"@, "Type1"@ != "Type3"@, "Type1"@ != "TrueType"@, "Type1"@ != "CIDFontType0"@, "Type1"@ != "CIDFontType2"@,
        "MMType1"@ != "Type3"@, "MMType1"@ != "TrueType"@, "MMType1"@ != "CIDFontType0"@, "MMType1"@ != "CIDFontType2"@,
        "Type3"@ != "TrueType"@, "Type3"@ != "CIDFontType0"@, "Type3"@ != "CIDFontType2"@,
        "TrueType"@ != "CIDFontType0"@, "TrueType"@ != "CIDFontType2"@, "CIDFontType0"@ != "CIDFontType2"@,
        "Subtype"@ != "Type"@, "Subtype"@ != "BaseFont"@, "Subtype"@ != "Encoding"@, "Subtype"@ != "ToUnicode"@,
        "Type"@ != "BaseFont"@, "Type"@ != "Encoding"@, "Type"@ != "ToUnicode"@,
        "BaseFont"@ != "Encoding"@, "BaseFont"@ != "ToUnicode"@, "Encoding"@ != "ToUnicode"@,
{
    reveal_strlit("Type0"); reveal_strlit("Type1"); reveal_strlit("MMType1"); reveal_strlit("Type3"); reveal_strlit("TrueType");
    reveal_strlit("CIDFontType0"); reveal_strlit("CIDFontType2");
    reveal_strlit("Subtype"); reveal_strlit("Type"); reveal_strlit("BaseFont"); reveal_strlit("Encoding"); reveal_strlit("ToUnicode");
    assert("Type0"@.len() == 5 && "Type1"@.len() == 5 && "Type3"@.len() == 5 && "MMType1"@.len() == 7 && "TrueType"@.len() == 8);
    assert("CIDFontType0"@.len() == 12 && "CIDFontType2"@.len() == 12);
    assert("Type0"@[4] == '0' && "Type1"@[4] == '1' && "Type3"@[4] == '3');
    assert("CIDFontType0"@[11] == '0' && "CIDFontType2"@[11] == '2');
    assert("MMType1"@[0] == 'M' && "TrueType"@[1] == 'r' && "Type0"@[1] == 'y');
    assert("Subtype"@.len() == 7 && "Type"@.len() == 4 && "BaseFont"@.len() == 8 && "Encoding"@.len() == 8 && "ToUnicode"@.len() == 9);
    assert("BaseFont"@[0] == 'B' && "Encoding"@[0] == 'E');
}
//@@ font_from_primitive
//@@ font_to_primitive

// ---- C15 on /Subtype and the variant, from the models alone ------------------------------------------------------------
/// what the writer emitted for f reads back (if the kind-specific entries read back at all) as a font of the SAME variant
/// and the same `subtype`, which therefore writes the same /Subtype again
pub proof fn lemma_font_subtype_roundtrip(f: Font, p: Primitive, st: Store, p2: Primitive)
    requires
        font_writes(f, p),
        font_reads(p, st) matches Ok(f2) ==> font_writes(f2, p2),
    ensures
        font_reads(p, st) matches Ok(f2) ==> variant_tag(f2.data) == variant_tag(f.data)
            && Some(font_type_name(f2.subtype)) == iso_subtype_of(f.data)
            && (p matches Primitive::Dictionary(d) && p2 matches Primitive::Dictionary(d2) && dget(d2@, "Subtype"@) == dget(d@, "Subtype"@)
                && dget(d2@, "Type"@) == dget(d@, "Type"@)),
{
    lemma_font_literals();
    let d = p->Dictionary_0;
    let sub = iso_subtype_of(f.data)->Some_0;
    assert(dget(d@, "Subtype"@) == Some(Primitive::Name(sstr(sub))));
    assert(sstr(sub)@ == sub);
    assert(deref1(p, st) == Ok::<Primitive, PdfError>(p));
}
}
fn main(){}
