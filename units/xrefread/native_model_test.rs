// Native cross-check of the unit's specification and of its trusted env models against the real code
// (not a finding repro: everything here passes on the pinned tree). Drop into pdf/tests/ of a scratch copy:
//   cp units/xrefread/native_model_test.rs <copy>/pdf/tests/xrefread_model.rs
//   CARGO_TARGET_DIR=/tmp/xrefread_target cargo test --offline -p pdf --test xrefread_model
use pdf::parser::{Lexer, read_xref_and_trailer_at, ParseFlags};
use pdf::object::*;
use pdf::primitive::Primitive;
use pdf::error::*;
use pdf::xref::{XRef, XRefSection};
use pdf::enc::StreamFilter;
use std::ops::Range;
use std::sync::Arc;
use datasize::DataSize;

// a resolver that serves stream data straight from the buffer (no filters), strict or tolerant
struct Buf<'a>(&'a [u8], ParseOptions);
impl<'a> Resolve for Buf<'a> {
    fn resolve_flags(&self, _: PlainRef, _: ParseFlags, _: usize) -> Result<Primitive> { Err(PdfError::Reference) }
    fn get<T: Object + DataSize>(&self, _r: Ref<T>) -> Result<RcRef<T>> { Err(PdfError::Reference) }
    fn options(&self) -> &ParseOptions { &self.1 }
    fn get_data_or_decode(&self, _: PlainRef, range: Range<usize>, filters: &[StreamFilter]) -> Result<Arc<[u8]>> {
        assert!(filters.is_empty());
        Ok(self.0[range].into())
    }
    fn stream_data(&self, _: PlainRef, range: Range<usize>) -> Result<Arc<[u8]>> { Ok(self.0[range].into()) }
}
fn read(buf: &[u8]) -> Result<(Vec<XRefSection>, pdf::primitive::Dictionary)> {
    let mut lexer = Lexer::with_offset(buf, 0);
    read_xref_and_trailer_at(&mut lexer, &Buf(buf, ParseOptions::strict()))
}
fn flat(s: &XRefSection) -> Vec<(usize, String)> { s.entries().map(|(i, e)| (i, format!("{:?}", e))).collect() }

#[test]
fn table_subsections_in_order() {
    // ISO 32000-1 7.5.4 EXAMPLE 3 shape: two subsections
    let t = b"xref\n0 1\n0000000000 65535 f \n3 2\n0000025325 00000 n \n0000025518 00002 n \ntrailer\n<< /Size 5 >>\nstartxref\n0\n%%EOF";
    let (secs, tr) = read(t).unwrap();
    assert_eq!(secs.len(), 2);
    assert_eq!(flat(&secs[0]), vec![(0, "Free { next_obj_nr: 0, gen_nr: 65535 }".to_string())]);
    assert_eq!(flat(&secs[1]), vec![(3, "Raw { pos: 25325, gen_nr: 0 }".to_string()), (4, "Raw { pos: 25518, gen_nr: 2 }".to_string())]);
    assert_eq!(tr.get("Size").unwrap().as_u32().unwrap(), 5);
    // no subsection at all
    let (secs, _) = read(b"xref\ntrailer\n<< /Size 1 >>").unwrap();
    assert_eq!(secs.len(), 0);
    // leading white-space and a comment before the keyword (precondition of the dispatcher: reading starts at 0)
    let (secs, _) = read(b"  % c\r\nxref 0 1 0000000007 00001 n trailer << /Size 1 >>").unwrap();
    assert_eq!(flat(&secs[0]), vec![(0, "Raw { pos: 7, gen_nr: 1 }".to_string())]);
}
#[test]
fn table_malformed_is_error() {
    for t in [
        &b"xref\n0 1\n0000000000 65535 x \ntrailer\n<< /Size 1 >>"[..],     // keyword other than n/f
        b"xref\n0 2\n0000000000 65535 f \ntrailer\n<< /Size 1 >>",          // fewer lines than announced
        b"xref\n0 4294967295\n0000000000 65535 f \ntrailer\n<< /Size 1 >>", // hostile count (C14): ends at the first missing line
        b"xref\n0 4294967296\ntrailer\n<< /Size 1 >>",                        // count does not fit u32
        b"xref\n0 1\n00000000x0 65535 f \ntrailer\n<< /Size 1 >>",          // not a number
        b"xref\n0 1\n-0 65535 f \ntrailer\n<< /Size 1 >>",                  // sign
        b"xref\n0 1\n99999999999999999999 0 n \ntrailer\n<< /Size 1 >>",    // offset does not fit usize
        b"xref\n0 1\n0000000000 65535 f \n",                                  // no trailer keyword
        b"xref\n0 1\n0000000000 65535 f \ntrailer\n[1 2]",                   // no dictionary
        b"xref\n0 1\n0000000000 65535 f \ntrailer 5",                        // no dictionary
        b"",
    ] {
        assert!(read(t).is_err(), "{:?}", String::from_utf8_lossy(t));
    }
}
#[test]
fn table_tolerance_plus_sign() {
    // TOL_PLUS_SIGN_ON_TABLE_NUMBERS: str::parse accepts one leading `+`
    let (secs, _) = read(b"xref\n+0 +1\n+12 +3 n \ntrailer\n<< /Size 1 >>").unwrap();
    assert_eq!(flat(&secs[0]), vec![(0, "Raw { pos: 12, gen_nr: 3 }".to_string())]);
    assert!(read(b"xref\n0 1\n++12 3 n \ntrailer\n<< /Size 1 >>").is_err());
    assert!(read(b"xref\n0 1\n+ 3 n \ntrailer\n<< /Size 1 >>").is_err());
}

fn stm(dict: &str, data: &[u8], tail: &[u8]) -> Vec<u8> {
    let mut v = format!("7 0 obj\n<< /Type /XRef {} /Length {} >>\nstream\n", dict, data.len()).into_bytes();
    v.extend_from_slice(data);
    v.extend_from_slice(b"\nendstream\nendobj\n");
    v.extend_from_slice(tail);
    v
}
#[test]
fn stream_index_pairs_and_runs() {
    // /Index [0 1 5 2]: first run 1 entry -> object 0, second run 2 entries -> objects 5, 6
    let data = [0u8, 0, 255,  1, 17, 0,  2, 9, 3];
    let f = stm("/Size 7 /W [1 1 1] /Index [0 1 5 2]", &data, b"startxref\n0\n%%EOF");
    let (secs, tr) = read(&f).unwrap();
    assert_eq!(secs.len(), 2);
    assert_eq!(flat(&secs[0]), vec![(0, "Free { next_obj_nr: 0, gen_nr: 255 }".to_string())]);
    assert_eq!(flat(&secs[1]), vec![(5, "Raw { pos: 17, gen_nr: 0 }".to_string()), (6, "Stream { stream_id: 9, index: 3 }".to_string())]);
    assert_eq!(tr.get("Size").unwrap().as_u32().unwrap(), 7);      // the trailer is the stream dictionary
    // default /Index [0 Size]
    let f = stm("/Size 3 /W [1 1 1]", &data, b"startxref\n0\n%%EOF");
    let (secs, _) = read(&f).unwrap();
    assert_eq!(secs.len(), 1);
    assert_eq!(flat(&secs[0]).len(), 3);
    assert_eq!(flat(&secs[0])[2], (2, "Stream { stream_id: 9, index: 3 }".to_string()));
}
#[test]
fn stream_malformed_is_error() {
    let data = [0u8, 0, 255,  1, 17, 0,  2, 9, 3];
    for d in ["/Size 7 /W [1 1 1] /Index [0 1 5]",      // odd /Index
              "/Size 7 /W [1 1] /Index [0 1 5 2]",      // /W shape
              "/Size 7 /W [1 1 1] /Index [0 1 5 3]",    // more entries than data (strict)
              "/Size 7 /W [9 1 1] /Index [0 1]",        // width above 8
              "/W [1 1 1] /Index [0 1 5 2]",            // /Size missing
              "/Size 7 /Index [0 1 5 2]"] {             // /W missing
        assert!(read(&stm(d, &data, b"startxref\n0\n%%EOF")).is_err(), "{}", d);
    }
    let bad_type = [3u8, 0, 0];
    assert!(read(&stm("/Size 1 /W [1 1 1]", &bad_type, b"startxref\n0\n%%EOF")).is_err());
}
#[test]
fn stream_tolerances() {
    let data = [1u8, 17, 0];
    // TOL_XREF_STREAM_NEEDS_FOLLOWING_TOKEN: nothing behind `endobj` -> Err(EOF)
    assert!(read(&stm("/Size 1 /W [1 1 1]", &data, b"")).is_err());
    assert!(read(&stm("/Size 1 /W [1 1 1]", &data, b"startxref")).is_ok());
    // TOL_TRAILER_KEYWORD_AFTER_XREF_STREAM: a `trailer` keyword behind the object replaces the stream dictionary
    let (_, tr) = read(&stm("/Size 1 /W [1 1 1]", &data, b"trailer\n<< /Size 99 >>")).unwrap();
    assert_eq!(tr.get("Size").unwrap().as_u32().unwrap(), 99);
}
