P = 'pdf/src/parser/parse_xref.rs'
X = 'pdf/src/xref.rs'
O = 'pdf/src/object/mod.rs'
L = 'pdf/src/parser/lexer/mod.rs'
S = 'pdf/src/object/stream.rs'
PR = 'pdf/src/primitive.rs'
SB = r"^impl<'a> Substr<'a>$"

BUF, OFF, POS0, ST = 'old(lexer).buf@', 'old(lexer).file_offset as int', 'old(lexer).pos as int', 'resolve.store()'
ALLOW = 'resolve.opts().allow_xref_error'
WF = 'final(lexer).wf() && final(lexer).same_data(old(lexer))'
TBL = 'table_spec(%s, %s, %s, %s)' % (BUF, OFF, POS0, ST)
STM = 'stm_input(%s, %s, %s, %s)' % (BUF, OFF, POS0, ST)
READ = 'read_spec(%s, %s, %s, %s)' % (BUF, OFF, POS0, ST)
KIND = 'section_kind(%s, %s)' % (BUF, POS0)

# R3: `PdfError::Other { msg: format!(..) }` -> `PdfError::Other` (String payload dropped in the twin)
R3_OTHER = {'rule': 'R3', 'regex': r'PdfError::Other\s*\{\s*msg:\s*format!\([^;]*?\)\s*\}', 'replace': 'PdfError::Other', 'count': '*'}
# R7: bitflags constant
R7_DICT = {'rule': 'R7', 'find': 'ParseFlags::DICT', 'replace': 'hoist_flags_dict()'}

# ---------------------------------------------------------------------------------------------- ghost text (R1), table reader
T_START = '''{
    let ghost buf = lexer.buf@; let ghost off = lexer.file_offset as int; let ghost p0 = lexer.pos as int; let ghost st = resolve.store();
    proof { lemma_keywords(); lemma_trailer_not_number(); lemma_prepend_nil(subsecs_spec(buf, p0));
            assert(secvs(Seq::<XRefSection>::empty()) =~= Seq::<SecV>::empty()); }
    let mut sections: Vec<XRefSection> = Vec::new();'''
T_OUTER = '''let ghost pa = lexer.pos as int;
        proof { lemma_tok(buf, pa); lemma_subsec_step(buf, pa); if tok_at(buf, pa) is Some { lemma_tok(buf, tok_at(buf, pa).unwrap().1); } }
        let start_id = t!(lexer.next_as::<u32>());'''
T_SECTION = r'''let ghost p2 = lexer.pos as int;
        let mut section = XRefSection::new(\1);'''
T_INNER = '''let ghost q = lexer.pos as int; let ghost es0 = section.entries@;
            proof {
                lemma_entries_progress(buf, p2, it.index@ as nat);
                lemma_tok(buf, q);
                if tok_at(buf, q) is Some { let q1 = tok_at(buf, q).unwrap().1; lemma_tok(buf, q1);
                    if tok_at(buf, q1) is Some { lemma_tok(buf, tok_at(buf, q1).unwrap().1); } }
                if entry_spec(buf, q) is None { lemma_entries_none(buf, p2, (it.index@ + 1) as nat, num_ids as nat); }
            }
            let w1 = t!(lexer.next());'''
T_PUSH = '''let ghost secs0 = sections@; let ghost sec_g = section;
        sections.push(section);
        proof {
            lemma_entries_progress(buf, p2, num_ids as nat);
            lemma_secvs_push(secs0, sec_g);
            lemma_prepend_assoc(secvs(secs0), secv(sec_g), subsecs_spec(buf, lexer.pos as int));
            lemma_total_push(secvs(secs0), secv(sec_g));
        }'''
T_AFTER = '''proof { lemma_tok(buf, lexer.pos as int);
        if token_start(buf, lexer.pos as int) is None { assert(buf.subrange(lexer.pos as int, lexer.pos as int).len() == 0); assert(kw_trailer().len() == 7); }
        lemma_prepend_empty(secvs(sections@), tok_at(buf, lexer.pos as int).unwrap_or((Seq::empty(), 0)).1); }
    t!(lexer.next_expect("trailer"));'''

TBL_ENS = [
    ('tbl_wf', WF),
    # "malformed entries are errors": a missing/misspelt number, a keyword other than n/f, fewer lines than announced,
    # no `trailer` keyword, no dictionary behind it
    ('tbl_malformed_is_error', TBL + ' is None ==> r is Err'),
    ('tbl_wellformed_is_ok', TBL + ' is Some ==> r is Ok'),
    # every subsection (any number of them), its first object number, every entry in order, nothing else
    ('tbl_sections', 'r matches Ok(x) ==> ' + TBL + ' matches Some((secs, tr, e)) && secvs(x.0@) =~= secs'),
    ('tbl_trailer', 'r matches Ok(x) ==> ' + TBL + ' matches Some((secs, tr, e)) && x.1 == tr && final(lexer).pos == e'),
    # C14/C01: a hostile count cannot make the result larger than the text that was read (3 tokens per entry)
    ('tbl_proportional', 'r matches Ok(x) ==> 3 * total_entries(secvs(x.0@)) <= final(lexer).pos - old(lexer).pos'),
]


# ---------------------------------------------------------------------------------------------- binder names of the stream reader
# The ghost text of parse_xref_stream_and_trailer speaks about three binders of the function: the cursor handed to the run
# reader (`&mut CUR`, 4th argument of parse_xref_section_from_stream), the /W slice (3rd argument) and whether the cursor is
# declared in front of the /Index loop (then it is loop-carried and the invariant `stm_cursor` ties it to the ghost cursor
# rem__) or inside it (then nothing is carried and only the assertion `stm_cursor` at the call decides). The names are read from
# the tree under verification (shape, not text: any spelling of the binders, declaration at any position).
def _stm_shape():
    import re
    d = {'cur': 'data_left', 'w': 'width', 'carried': True, 'secs': 'sections'}
    try:
        from vlib import assemble
        _raw, _sig, body = assemble.locate({'kind': 'fn', 'file': P, 'container': None, 'name': 'parse_xref_stream_and_trailer'})
        body = assemble.strip_comments(body)
        m = re.search(r'parse_xref_section_from_stream\s*\(\s*[^,;]+,\s*[^,;]+,\s*([^,;]+?)\s*,\s*&\s*mut\s+(\w+)\s*,', body)
        if not m:
            return d
        d['w'], d['cur'] = m.group(1), m.group(2)
        head = body.rfind('for ', 0, m.start())
        decls = [x.start() for x in re.finditer(r'\blet\s+mut\s+%s\b' % re.escape(d['cur']), body[:m.start()])]
        d['carried'] = bool(decls) and head >= 0 and decls[-1] < head
        p = re.search(r'\b(\w+)\s*\.\s*push\s*\(', body[m.end():])
        if p:
            d['secs'] = p.group(1)
    except Exception:
        pass            # anchor lost: reported by the framework when it extracts the item itself
    return d

_SH = _stm_shape()
CUR, WEXPR, SECS = _SH['cur'], _SH['w'], _SH['secs']

# ---------------------------------------------------------------------------------------------- ghost text (R1), stream reader
S_START = r'''{
    let ghost buf = lexer.buf@; let ghost off = lexer.file_offset as int; let ghost p0 = lexer.pos as int; let ghost st = resolve.store();
    let ghost allow = resolve.opts().allow_xref_error;
    proof { lemma_keywords(); }
    let \1 = t!(parse_indirect_stream(lexer, resolve, None)).1;
    let ghost ps = \1;
    proof { lemma_tok(buf, lexer.pos as int); }'''
# the decoded data, whatever it is bound to (`let mut cur = &*t!(s.data(resolve));` or `let data = t!(s.data(resolve));` or `..?`)
S_DATA = r'''\g<0> let ghost d0 = \1@;'''
# rem__ is the GHOST cursor: the data behind the first k runs (7.5.8.2: the runs follow each other in /Index order)
S_LOOP = r'''let ghost idx = \3@; let ghost w = (%(w)s)@; let ghost mut rem__ = d0;
    proof { assert(secvs(Seq::<XRefSection>::empty()) =~= Seq::<SecV>::empty()); assert(Seq::<SecV>::empty() + stm_secs(d0, idx, 0, w) =~= stm_secs(d0, idx, 0, w)); }
    let __chunks = hoist_chunks_exact2(\3);
    for __k in 0..__chunks.len() { let \4 = __chunks[__k]; let (\1, \2) = \5;
        let ghost k = __k as int; let ghost dk = rem__; let ghost secs0 = %(secs)s@;
        proof { lemma_eff_count(\2 as int, sec_e(w), dk.len() as int); }''' % {'w': WEXPR, 'secs': SECS}
# what is handed to the run reader for pair k must be the data behind the first k runs
S_CALL = r'''proof { assert(%(cur)s@ == rem__); } //@L stm_cursor
        \g<0>
        proof { rem__ = run_rest(dk, idx, k, w); }''' % {'cur': CUR}
S_PUSH = r'''let ghost sec_g = \1;
        %(secs)s.push(\1);
        proof {
            lemma_secvs_push(secs0, sec_g);
            lemma_stm_step(dk, idx, k, w, allow, secvs(secs0), secv(sec_g));
        }''' % {'secs': SECS}
S_END = r'''proof { lemma_stm_done(rem__, idx, (idx.len() / 2) as int, w, allow, secvs(%(secs)s@)); }
    \g<0>''' % {'secs': SECS}

STM_IN = STM + ' matches Some(i)'
STM_ENS = [
    ('stm_wf', WF),
    # no stream object, undecodable data, /Size or /W missing, /Index of odd length
    ('stm_malformed_is_error', STM + ' is None ==> r is Err'),
    # /W not of length 3, a width above 8, too little data (strict mode), an entry type above 2 -- in any run
    ('stm_bad_run_is_error', STM_IN + ' && stm_some_bad(i.data, i.idx, 0, i.w, ' + ALLOW + ') ==> r is Err'),
    ('stm_wellformed_is_ok', STM_IN + ' && stm_all_good(i.data, i.idx, 0, i.w, ' + ALLOW + ') ==> r is Ok'),
    # /Index pair k is paired with the k-th run of the data, in order; default /Index [0 Size]
    ('stm_sections', 'r matches Ok(x) ==> ' + STM_IN + ' && secvs(x.0@) =~= stm_secs(i.data, i.idx, 0, i.w)'),
    ('stm_trailer', 'r matches Ok(x) ==> ' + STM_IN + ' && x.1 == i.trailer && final(lexer).pos == i.end'),
    ('stm_proportional', 'r matches Ok(x) ==> ' + STM_IN + ' && each_bounded(secvs(x.0@), i.data.len() as int)'),
]
STM_INV = [
    # the cursor of the program is the ghost cursor (only if the program carries a cursor across the iterations; a cursor that is
    # (re)made inside the loop is checked by the assertion with the same label in front of the call)
    *([('stm_cursor', '%s@ == rem__' % CUR)] if _SH['carried'] else []),
    'rem__.len() <= d0.len()',
    ('stm_sofar', 'stm_secs(d0, idx, 0, w) == secvs(%s@) + stm_secs(rem__, idx, __k as int, w)' % SECS),
    ('stm_good_rest', 'stm_all_good(d0, idx, 0, w, allow) ==> stm_all_good(rem__, idx, __k as int, w, allow)'),
    ('stm_bad_rest', 'stm_some_bad(d0, idx, 0, w, allow) ==> stm_some_bad(rem__, idx, __k as int, w, allow)'),
    ('stm_bounded_sofar', 'each_bounded(secvs(%s@), d0.len() as int)' % SECS),
]

UNIT = {
 'name': 'xrefread',
 'doc': 'The two cross-reference section readers (classic table text, cross-reference stream) and their dispatcher against ISO 32000-1 7.5.4 / 7.5.8',
 'timeout': 900, 'rlimit': 40,
 'tolerances': {
   'TOL_PLUS_SIGN_ON_TABLE_NUMBERS': 'ISO 7.5.4 writes offsets, generation numbers and subsection headers as digits only; Substr::to (str::parse) also accepts one leading `+` (+12 reads as 12). Non-conformant spelling: C02 speaks about well-formed files',
   'TOL_XREF_STREAM_NEEDS_FOLLOWING_TOKEN': 'parse_xref_stream_and_trailer reads one token behind `endobj` and fails with EOF if the buffer ends there; every file has `startxref` (or another object) behind a cross-reference stream',
   'TOL_TRAILER_KEYWORD_AFTER_XREF_STREAM': 'if the token behind the cross-reference stream object is the keyword `trailer` (not allowed there by ISO 7.5.8), the dictionary following it is returned as trailer instead of the stream dictionary',
 },
 'allowed_assumes': [],
 'items': {
  # ---- leaves outside verus! (called only by hoist_substr_eq) -----------------------------------------------------
  'fn Substr::equals': {'kind': 'decl', 'file': L, 'container': SB, 'header': r'^pub fn equals\('},
  'fn Substr::eq_str': {'kind': 'decl', 'file': L, 'container': r"^impl<'a> PartialEq<&str> for Substr<'a>$", 'header': r'^fn eq\('},
  # ---- types (R2: derives dropped, fields pub) ---------------------------------------------------------------------
  'enum XRef': {'kind': 'decl', 'file': X, 'header': r'^pub enum XRef$'},
  'struct XRefSection': {'kind': 'decl', 'file': X, 'header': r'^pub struct XRefSection$'},
  'struct XRefInfo': {'kind': 'decl', 'file': X, 'header': r'^pub struct XRefInfo$',
     'rewrites': [{'rule': 'R2', 'find': 'prev:', 'replace': 'pub prev:'}]},
  'struct ParseOptions': {'kind': 'decl', 'file': O, 'header': r'^pub struct ParseOptions$'},
  'struct PlainRef': {'kind': 'decl', 'file': O, 'header': r'^pub struct PlainRef$'},
  'struct Lexer': {'kind': 'decl', 'file': L, 'header': r"^pub struct Lexer<'a>$",
     'rewrites': [{'rule': 'R2', 'find': 'pos:', 'replace': 'pub pos:'},
                  {'rule': 'R2', 'find': 'buf:', 'replace': 'pub buf:'},
                  {'rule': 'R2', 'find': 'file_offset:', 'replace': 'pub file_offset:'}]},
  'struct Substr': {'kind': 'decl', 'file': L, 'header': r"^pub struct Substr<'a>$", 'attrs': ['#[derive(Clone, Copy)]'],
     'rewrites': [{'rule': 'R2', 'find': 'slice:', 'replace': 'pub slice:'},
                  {'rule': 'R2', 'find': 'file_offset:', 'replace': 'pub file_offset:'}]},
  'struct PdfStream': {'kind': 'decl', 'file': PR, 'header': r'^pub struct PdfStream$',
     'rewrites': [{'rule': 'R2', 'find': 'pub (crate) inner:', 'replace': 'pub inner:'}]},
  'struct StreamInfo': {'kind': 'decl', 'file': S, 'header': r'^pub struct StreamInfo<I>$'},
  'struct Stream': {'kind': 'decl', 'file': S, 'header': r'^pub struct Stream<I>$',
     'rewrites': [{'rule': 'R2', 'find': 'pub (crate) inner_data:', 'replace': 'pub inner_data:'}]},

  # ---- XRefSection construction (xref.rs) --------------------------------------------------------------------------
  'XRefSection::new': {'kind': 'fn', 'file': X, 'container': r'^impl XRefSection$', 'name': 'new', 'props': ['C02'],
     'ensures': [('sec_new_empty', 'r.first_id == first_id && r.entries@ == Seq::<XRef>::empty()')]},
  'XRefSection::add_free_entry': {'kind': 'fn', 'file': X, 'container': r'^impl XRefSection$', 'name': 'add_free_entry', 'props': ['C02'],
     'ensures': [('sec_push_free', 'final(self).first_id == old(self).first_id && final(self).entries@ == old(self).entries@.push(XRef::Free { next_obj_nr: next_obj_nr, gen_nr: gen_nr })')]},
  'XRefSection::add_inuse_entry': {'kind': 'fn', 'file': X, 'container': r'^impl XRefSection$', 'name': 'add_inuse_entry', 'props': ['C02'],
     'ensures': [('sec_push_inuse', 'final(self).first_id == old(self).first_id && final(self).entries@ == old(self).entries@.push(XRef::Raw { pos: pos, gen_nr: gen_nr })')]},
  # ---- the auto-deref chain Stream<I> -> StreamInfo<I> -> I behind `xref_stream.w`, `xref_stream.index` (object/stream.rs)
  'StreamInfo::deref': {'kind': 'fn', 'file': S, 'container': r'^impl<I> Deref for StreamInfo<I>$', 'name': 'deref', 'props': ['C02'],
     'canary': False, 'ensures': [('deref_is_info', '*r == self.info')]},
  'Stream::deref': {'kind': 'fn', 'file': S, 'container': r'^impl<I: Object> Deref for Stream<I>$', 'name': 'deref', 'props': ['C02'],
     'canary': False, 'ensures': [('deref_is_info', '*r == self.info')]},

  # ---- classic table ---------------------------------------------------------------------------------------------------
  'parse_xref_table_and_trailer': {'kind': 'fn', 'file': P, 'container': None, 'name': 'parse_xref_table_and_trailer',
     'props': ['C02', 'C01', 'C14'],
     'requires': ['old(lexer).wf()'],
     'ensures': TBL_ENS,
     'attrs': ['#[verifier::loop_isolation(false)]'],
     'loops': {
        1: {'invariant': [
               'lexer.wf()', 'lexer.buf@ == buf', 'lexer.file_offset == off', 'p0 <= lexer.pos', 'st == resolve.store()',
               'str_bytes("trailer") == kw_trailer()', 'ascii("trailer"@)', 'str_bytes("n") == kw_n()', 'ascii("n"@)', 'str_bytes("f") == kw_f()', 'ascii("f"@)', 'kw_n() != kw_f()',
               ('tbl_subsections_sofar', 'subsecs_spec(buf, p0) == prepend(secvs(sections@), subsecs_spec(buf, lexer.pos as int))'),
               ('tbl_proportional_sofar', '3 * total_entries(secvs(sections@)) <= lexer.pos - p0'),
            ],
            'decreases': 'buf.len() - lexer.pos'},
        2: {'for_ghost': 'it',
            'invariant': [
               'lexer.wf()', 'lexer.buf@ == buf', 'lexer.file_offset == off', 'p2 <= lexer.pos',
               'str_bytes("trailer") == kw_trailer()', 'ascii("trailer"@)', 'str_bytes("n") == kw_n()', 'ascii("n"@)', 'str_bytes("f") == kw_f()', 'ascii("f"@)', 'kw_n() != kw_f()',
               ('tbl_section_first_id', 'section.first_id == start_id'),
               ('tbl_entries_sofar', 'entries_spec(buf, p2, it.index@ as nat) == Some((section.entries@, lexer.pos as int))'),
            ]},
     },
     'rewrites': [
        {'rule': 'R1+R2', 'regex': r'\A\{\s*let mut sections = Vec::new\(\);', 'replace': T_START},   # R2: element type ascribed
        {'rule': 'R7', 'find': 'lexer.peek()? != "trailer"', 'replace': '!hoist_substr_eq(&lexer.peek()?, "trailer")'},
        {'rule': 'R7', 'regex': r'\b(w1|w3) == ("\w+")', 'replace': r'hoist_substr_eq(&\1, \2)', 'count': 3},
        R3_OTHER,
        {'rule': 'R3', 'find': 'lexeme: w3.to_string(),', 'replace': ''},
        R7_DICT,
        {'rule': 'R1', 'find': 'let start_id = t!(lexer.next_as::<u32>());', 'replace': T_OUTER},
        {'rule': 'R1', 'regex': r'let mut section = XRefSection::new\(([^;]*)\);', 'replace': T_SECTION},
        {'rule': 'R1', 'find': 'let w1 = t!(lexer.next());', 'replace': T_INNER},
        {'rule': 'R1', 'find': 'sections.push(section);', 'replace': T_PUSH},
        {'rule': 'R1', 'find': 't!(lexer.next_expect("trailer"));', 'replace': T_AFTER},
     ]},

  # ---- cross-reference stream --------------------------------------------------------------------------------------------
  'parse_xref_stream_and_trailer': {'kind': 'fn', 'file': P, 'container': None, 'name': 'parse_xref_stream_and_trailer',
     'props': ['C02', 'C01', 'C14'],
     'requires': ['old(lexer).wf()'],
     'ensures': STM_ENS,
     'attrs': ['#[verifier::loop_isolation(false)]'],
     'loops': {1: {'invariant': STM_INV}},
     'rewrites': [
        # guard: when the cursor is (re)made inside the loop, any OTHER mutable state in front of the loop may be what the cursor
        # is made from (an offset, a counter): this unit has no invariant for it => anchor lost (UNDECIDED), never a false alarm
        *([] if _SH['carried'] else [{'rule': 'guard', 'regex': r'\blet\s+mut\s+(?!%s\b)\w+\b(?=.*\bfor\s*\()' % SECS, 'replace': r'\g<0>', 'count': 0}]),
        {'rule': 'R1', 'regex': r'\A\{\s*let (\w+) = t!\(parse_indirect_stream\(lexer, resolve, None\)\)\.1;', 'replace': S_START},
        {'rule': 'R7', 'find': 't!(lexer.next()) == "trailer"', 'replace': 'hoist_substr_eq(&t!(lexer.next()), "trailer")'},
        R7_DICT,
        R3_OTHER,
        {'rule': 'R2', 'regex': r'let mut %s = Vec::new\(\);' % SECS, 'replace': 'let mut %s: Vec<XRefSection> = Vec::new();' % SECS},
        {'rule': 'R1', 'regex': r'let\s+(?:mut\s+)?(\w+)\s*=\s*(?:&\s*\*\s*)?(?:t!\(\s*\w+\.data\(\s*resolve\s*\)\s*\)|\w+\.data\(\s*resolve\s*\)\s*\?)\s*;', 'replace': S_DATA},
        # R6: iterator loop -> index loop over the collected chunks; the closure body `(c[0], c[1])` and the loop pattern stay
        # verbatim and under proof (index bounds, which element is the first id and which the count)
        {'rule': 'R6', 'regex': r'for \((\w+), (\w+)\) in (\w+)\.chunks_exact\(2\)\.map\(\|(\w+)\| (\([^()]*\))\) \{', 'replace': S_LOOP},
        {'rule': 'R1', 'regex': r'let\s+\w+\s*=\s*t!\(\s*parse_xref_section_from_stream\([^;]*\)\s*\)\s*;', 'replace': S_CALL},
        {'rule': 'R1', 'regex': r'\b%s\.push\((\w+)\);' % SECS, 'replace': S_PUSH},
        {'rule': 'R1', 'regex': r'Ok\(\(%s, \w+\)\)(?=\s*\}\s*\Z)' % SECS, 'replace': S_END},
     ]},

  # ---- dispatcher ----------------------------------------------------------------------------------------------------------
  'read_xref_and_trailer_at': {'kind': 'fn', 'file': P, 'container': None, 'name': 'read_xref_and_trailer_at',
     'props': ['C02', 'C01', 'C14'],
     'requires': ['old(lexer).wf()', 'old(lexer).pos == 0 || is_ws(old(lexer).buf@[old(lexer).pos - 1])'],
     'ensures': [
        ('at_wf', WF),
        ('at_malformed_is_error', READ + ' is None ==> r is Err'),
        ('at_wellformed_table_is_ok', KIND + ' matches Some((Kind::Table, q)) && ' + READ + ' is Some ==> r is Ok'),
        ('at_bad_run_is_error', KIND + ' matches Some((Kind::Stream, s)) && stm_input(%s, %s, s, %s) matches Some(i) && stm_some_bad(i.data, i.idx, 0, i.w, %s) ==> r is Err' % (BUF, OFF, ST, ALLOW)),
        ('at_wellformed_stream_is_ok', KIND + ' matches Some((Kind::Stream, s)) && stm_input(%s, %s, s, %s) matches Some(i) && stm_all_good(i.data, i.idx, 0, i.w, %s) ==> r is Ok' % (BUF, OFF, ST, ALLOW)),
        # keyword `xref` => the table that follows it; anything else => the cross-reference stream object starting at that token
        ('at_sections_and_trailer', 'r matches Ok(x) ==> ' + READ + ' matches Some((secs, tr, e)) && secvs(x.0@) =~= secs && x.1 == tr && final(lexer).pos == e'),
     ],
     'rewrites': [
        {'rule': 'R1', 'regex': r'\A\{', 'replace': '{ let ghost buf = lexer.buf@; let ghost p0 = lexer.pos as int; proof { lemma_keywords(); lemma_token_start(buf, p0); }'},
        {'rule': 'R7', 'find': 'next_word == "xref"', 'replace': 'hoist_substr_eq(&next_word, "xref")'},
        # R2: the discarded value of `lexer.back()?;` gets a name so that the ghost block can speak about it
        {'rule': 'R1+R2', 'count': '*', 'find': 'lexer.back()?;',
         'replace': 'let ghost e1 = lexer.pos as int; let __w = lexer.back()?; '
                    'proof { let s = token_start(buf, p0).unwrap(); lemma_back_to_token(buf, p0, s, lexer.pos as int, __w.slice@.len() as int); }'},
     ]},
 }, 'kani': {
   'modules': [{'file': P, 'code': 'kani_xrefread.rs'}],
   'harnesses': [
     {'name': 'chunks_exact2_pairs_in_order', 'fn': 'parse_xref_stream_and_trailer', 'file': P, 'props': ['C02'], 'kind': 'bounded',
      'bound': '/Index arrays <= 7 elements, unwind 5', 'covers': True,
      'contract': 'L0 of hoist_chunks_exact2: index.chunks_exact(2) yields (index[2k], index[2k+1]) for k = 0..len/2 in order, a last odd element is left out'},
     {'name': 'str_parse_u32_is_plus_digits', 'fn': 'parse_xref_table_and_trailer', 'file': P, 'props': ['C02'], 'kind': 'bounded',
      'bound': 'tokens <= 3 bytes (all byte values), unwind 5', 'covers': True,
      'contract': 'model of Substr::to::<u32> (from_utf8 + str::parse): Some(v) iff token = [+]? digit+ with value v, else None'},
   ],
   'jobs': 2, 'timeout': 900 },
}
