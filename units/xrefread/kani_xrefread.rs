// Kani harnesses appended to pdf/src/parser/parse_xref.rs (#[cfg(kani)] module): checks of two trusted env models of unit
// `xrefread` on the compiled std code (no PdfError is constructed: the std part of the hoisted / stubbed expressions only).

// L0 of hoist_chunks_exact2: `index.chunks_exact(2)` yields, in order, the 2-element windows (index[2k], index[2k+1]),
// k = 0 .. len/2, and nothing for a last odd element -- the iterator the /Index loop of parse_xref_stream_and_trailer runs over.
#[kani::proof]
#[kani::unwind(5)]
fn chunks_exact2_pairs_in_order() {
    let a: [u32; 7] = kani::any();
    let n: usize = kani::any();
    kani::assume(n <= 7);
    let index = &a[..n];
    let mut k = 0usize;
    for c in index.chunks_exact(2) {
        assert!(c.len() == 2 && c[0] == index[2 * k] && c[1] == index[2 * k + 1]);
        k += 1;
    }
    kani::cover!(k == 3 && n == 7);
    assert!(k == n / 2);
}

// model of `Substr::to::<u32>` (= from_utf8 + str::parse::<u32>, minus the error conversion) used by the env stub
// `Substr::to` / `FromToken for u32`: Ok(v) iff the token is an optional `+` followed by one or more ASCII digits, v its value.
#[kani::proof]
#[kani::unwind(5)]
fn str_parse_u32_is_plus_digits() {
    let b: [u8; 3] = kani::any();
    let n: usize = kani::any();
    kani::assume(n <= 3);
    let s = &b[..n];
    let r: Option<u32> = std::str::from_utf8(s).ok().and_then(|t| t.parse::<u32>().ok());
    let k = if n > 0 && s[0] == b'+' { 1 } else { 0 };
    let d = &s[k..];
    let mut ok = d.len() > 0;
    let mut v: u32 = 0;
    for &c in d {
        if c.is_ascii_digit() { v = v * 10 + (c - b'0') as u32; } else { ok = false; }
    }
    kani::cover!(ok && k == 1);
    kani::cover!(r == Some(999));
    assert!(r == if ok { Some(v) } else { None });
}
